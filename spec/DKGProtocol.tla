---------------------------- MODULE DKGProtocol ----------------------------
(***************************************************************************)
(* share/dkg/pedersen Protocol (protocol.go): every node is a goroutine    *)
(* that receives packets one by one from a Board and phase ticks from a    *)
(* Phaser.  Packets go through set.Push (same hash: ignored, different hash *)
(* from the same sender: sender dropped and marked bad); in fast-sync mode  *)
(* a node calls the next DistKeyGenerator phase as soon as the number of    *)
(* senders in the set reaches oldN / newN, otherwise at the tick.           *)
(*                                                                         *)
(* Rounds are synchronous (every packet of a phase reaches every honest     *)
(* node before that node's tick), but inside a round every node has its OWN *)
(* delivery order, packets may be repeated, and a node that took the early  *)
(* fast-sync transition has left the phase when later packets arrive.       *)
(* The DistKeyGenerator transitions are those of DKGPedersen.               *)
(***************************************************************************)
EXTENDS DKGPedersen

CONSTANTS Foci    \* subset of {"deal", "resp", "just", "all"}: the round(s) in which per-node orders are enumerated

VARIABLES focus, cls

pvars == <<vars, focus, cls>>

---------------------------------------------------------------------------
(* set.Push                                                                *)
PHash(b) == [b EXCEPT !.c = 1]
EmptySet == [vals |-> <<>>, bad |-> {}]
Push(st, b) ==
  IF ~b.auth THEN st                                      \* VerifyPacketSignature: no node with that index
  ELSE IF b.from \in st.bad THEN st
  ELSE IF b.from \in DOMAIN st.vals
       THEN IF PHash(st.vals[b.from]) = PHash(b) THEN st
            ELSE [vals |-> [x \in DOMAIN st.vals \ {b.from} |-> st.vals[x]], bad |-> st.bad \cup {b.from}]
       ELSE [vals |-> [x \in DOMAIN st.vals \cup {b.from} |-> IF x = b.from THEN b ELSE st.vals[x]], bad |-> st.bad]
Senders(st) == DOMAIN st.vals
ToSeq(st)   == Asc({st.vals[x] : x \in DOMAIN st.vals})    \* Go: map iteration order; DKGPedersen shows it is irrelevant

---------------------------------------------------------------------------
(* one node, one round: packets in this node's order, then the tick        *)
DStep(h, acc, b) ==
  LET st2 == Push(acc.set, b)
  IN IF Fast /\ ~acc.moved /\ Cnt(Senders(st2)) = Cnt(Dealers)
     THEN LET r == ProcessDeals(h, acc.s, ToSeq(st2))
          IN [set |-> st2, s |-> r.s, moved |-> TRUE, early |-> TRUE, used |-> st2.vals, resp |-> r.resp, has |-> r.has]
     ELSE [acc EXCEPT !.set = st2]
DealNode(h, sq) ==
  LET a == FoldLeft(LAMBDA x, b : DStep(h, x, b),
                    [set |-> EmptySet, s |-> node[h], moved |-> FALSE, early |-> FALSE, used |-> <<>>, resp |-> <<>>, has |-> FALSE], sq)
  IN IF a.moved THEN a
     ELSE LET r == ProcessDeals(h, a.s, ToSeq(a.set))
          IN [a EXCEPT !.s = r.s, !.moved = TRUE, !.used = a.set.vals, !.resp = r.resp, !.has = r.has]

RStep(h, acc, b) ==
  LET st2 == Push(acc.set, b)
  IN IF Fast /\ ~acc.moved /\ Cnt(Senders(st2)) = Cnt(Holders)
     THEN LET r == ProcessResponses(h, acc.s, ToSeq(st2))
          IN [set |-> st2, s |-> r.s, moved |-> TRUE, early |-> TRUE, used |-> st2.vals, just |-> r.just, has |-> r.has]
     ELSE [acc EXCEPT !.set = st2]
RespNode(h, sq) ==
  LET a == FoldLeft(LAMBDA x, b : RStep(h, x, b),
                    [set |-> EmptySet, s |-> node[h], moved |-> FALSE, early |-> FALSE, used |-> <<>>, just |-> {}, has |-> FALSE], sq)
  IN IF a.moved THEN a
     ELSE LET r == ProcessResponses(h, a.s, ToSeq(a.set))
          IN [a EXCEPT !.s = r.s, !.moved = TRUE, !.used = a.set.vals, !.just = r.just, !.has = r.has]

JStep(h, acc, b) ==
  LET st2 == Push(acc.set, b)
  IN IF Fast /\ ~acc.moved /\ Cnt(Senders(st2)) = Cnt(Dealers)
     THEN [set |-> st2, s |-> ProcessJustifications(h, acc.s, ToSeq(st2)), moved |-> TRUE, early |-> TRUE, used |-> st2.vals]
     ELSE [acc EXCEPT !.set = st2]
JustNode(h, sq) ==
  LET a == FoldLeft(LAMBDA x, b : JStep(h, x, b),
                    [set |-> EmptySet, s |-> node[h], moved |-> FALSE, early |-> FALSE, used |-> <<>>], sq)
  IN IF a.moved THEN a
     ELSE [a EXCEPT !.s = ProcessJustifications(h, a.s, ToSeq(a.set)), !.moved = TRUE, !.used = a.set.vals]

---------------------------------------------------------------------------
(* per-node delivery orders                                                *)
Twice(sq) == [i \in 1..(2 * Len(sq)) |-> sq[(i + 1) \div 2]]
Few(S) ==
  LET FP == {b \in S : b.from \in F}
      HP == S \ FP
  IN IF OrdMode = "eq2"    \* two equivocators: which one is caught first, then where duplicates land
     THEN LET fs == {b.from : b \in FP}
          IN IF Cnt(fs) # 2 THEN {Asc(S)}
             ELSE LET a == MinOf(fs)
                      b == MinOf(fs \ {a})
                      pk(f) == Asc({x \in FP : x.from = f})
                  IN {Asc(HP) \o pk(o[1]) \o pk(o[2]) \o t :
                        o \in {<<a, b>>, <<b, a>>}, t \in {<<pk(a)[1]>>, <<pk(b)[1]>>, Asc(S)}}
     ELSE
     IF OrdMode = "min"    \* three orders per node: faulty packets last / first / split around the honest ones
     THEN {Asc(HP) \o Asc(FP), Asc(FP) \o Asc(HP)}
          \cup (IF FP = {} THEN {} ELSE {<<Asc(FP)[1]>> \o Asc(HP) \o Tail(Asc(FP))})
     ELSE
     {Asc(S), Desc(S), Asc(FP) \o Asc(HP), Asc(HP) \o Asc(FP), Desc(FP) \o Asc(HP), Asc(HP) \o Desc(FP),
      Twice(Asc(S)), Asc(HP) \o Asc(FP) \o Desc(HP)}
       \cup (IF FP = {} THEN {} ELSE {<<Asc(FP)[1]>> \o Asc(HP) \o Tail(Asc(FP)), <<Desc(FP)[1]>> \o Asc(HP) \o Tail(Desc(FP))})
NodeOrders(S, ph) ==
  IF focus \in {ph, "all"} THEN (IF OrdMode = "all" THEN SetToSeqs(S) \cup {Twice(Asc(S))} ELSE Few(S))
  ELSE {Asc(S)}

Alive(h) == node[h].out.k = "none"
OrdJson(o) == [i \in DOMAIN HSeq |-> [h |-> HSeq[i], seq |-> Ids(IF HSeq[i] \in DOMAIN o THEN o[HSeq[i]] ELSE <<>>)]]
\* f sent two different packets and honest nodes differ in which packet of f (or none) was in the set they processed
UsedOf(u, f) == IF f \in DOMAIN u THEN {PHash(u[f])} ELSE {}
LateConflict(pkts, used, who) ==
  \E f \in F : /\ \E a, b \in pkts : a.from = f /\ b.from = f /\ PHash(a) # PHash(b)
               /\ \E x, y \in who : UsedOf(used[x], f) # UsedOf(used[y], f)

---------------------------------------------------------------------------
PInit == Init /\ focus \in Foci /\ cls = {}

PSetup   == Setup   /\ UNCHANGED <<focus, cls>>
PChooseD == ChooseD /\ UNCHANGED <<focus, cls>>
PChooseR == ChooseR /\ UNCHANGED <<focus, cls>>
PChooseJ == ChooseJ /\ UNCHANGED <<focus, cls>>

DealRound ==
  /\ phase = "deal" /\ NextF = -1
  /\ LET all == {HonestDeal(d) : d \in HD} \cup PendAll
     IN \E o \in [Honest -> NodeOrders(all, "deal")] :
        LET r == [h \in Honest |-> DealNode(h, o[h])]
        IN /\ node' = [h \in Honest |-> r[h].s]
           /\ rbs' = {RB(h, 1, TRUE, FALSE, r[h].resp) : h \in {x \in Honest : r[x].has}}
           /\ fd' = pend
           /\ badsec' = {f \in F : \E i \in DOMAIN pend[f] : ~pend[f][i].sec}
           /\ cls' = IF LateConflict(all, [h \in Honest |-> r[h].used], Honest)
                     THEN cls \cup {"equivocating-dealer-late-conflict"} ELSE cls
           /\ hist' = Log([act |-> "PDeal", bundles |-> [i \in DOMAIN Asc(all) |-> DealJson(Asc(all)[i])],
                           ords |-> OrdJson(o),
                           exp |-> [i \in DOMAIN HSeq |->
                                      [h |-> HSeq[i], early |-> r[HSeq[i]].early, has |-> r[HSeq[i]].has,
                                       resp |-> KV(r[HSeq[i]].resp)]]])
  /\ phase' = "resp" /\ pend' = NoPend
  /\ UNCHANGED <<cf, F, dir, fj, dbs, focus>>

RespRound ==
  /\ phase = "resp" /\ NextF = -1
  /\ LET all == rbs \cup PendAll
         act == {h \in Honest : Alive(h)}
     IN \E o \in [act -> NodeOrders(all, "resp")] :
        LET r == [h \in act |-> RespNode(h, o[h])]
        IN /\ node' = [h \in Honest |-> IF h \in act THEN r[h].s ELSE node[h]]
           /\ dbs' = {JB(h, 1, TRUE, FALSE, [j \in r[h].just |-> "good"]) : h \in {x \in act : r[x].has}}
           /\ cls' = IF LateConflict(all, [h \in act |-> r[h].used], act)
                     THEN cls \cup {"equivocating-responder-late-conflict"} ELSE cls
           /\ hist' = Log([act |-> "PResp", bundles |-> [i \in DOMAIN Asc(all) |-> RespJson(Asc(all)[i])],
                           ords |-> OrdJson(o),
                           exp |-> [i \in DOMAIN HSeq |->
                                      IF HSeq[i] \in act
                                      THEN [h |-> HSeq[i], called |-> TRUE, early |-> r[HSeq[i]].early, has |-> r[HSeq[i]].has,
                                            just |-> SetSeq(r[HSeq[i]].just), ph |-> r[HSeq[i]].s.ph,
                                            out |-> OutJson(r[HSeq[i]].s.out)]
                                      ELSE [h |-> HSeq[i], called |-> FALSE, early |-> FALSE, has |-> FALSE, just |-> <<>>,
                                            ph |-> node[HSeq[i]].ph, out |-> OutJson(node[HSeq[i]].out)]]])
  /\ phase' = "just" /\ pend' = NoPend
  /\ UNCHANGED <<cf, F, dir, fd, fj, badsec, rbs, focus>>

JustRound ==
  /\ phase = "just" /\ NextF = -1
  /\ LET all == dbs \cup PendAll
         act == {h \in Honest : Alive(h) /\ node[h].ph = "just"}
     IN \E o \in [act -> NodeOrders(all, "just")] :
        LET r  == [h \in act |-> JustNode(h, o[h])]
            nd == [h \in Honest |-> IF h \in act THEN r[h].s ELSE node[h]]
            c2 == IF LateConflict(all, [h \in act |-> r[h].used], act)
                  THEN cls \cup {"equivocating-justifier-late-conflict"} ELSE cls
        IN /\ node' = nd
           /\ fj' = pend
           /\ cls' = c2
           /\ hist' = Log([act |-> "PJust", bundles |-> [i \in DOMAIN Asc(all) |-> JustJson(Asc(all)[i])],
                           ords |-> OrdJson(o),
                           exp |-> [i \in DOMAIN HSeq |->
                                      [h |-> HSeq[i], called |-> HSeq[i] \in act,
                                       early |-> IF HSeq[i] \in act THEN r[HSeq[i]].early ELSE FALSE,
                                       out |-> OutJson(nd[HSeq[i]].out)]],
                           req |-> ReqJson(nd, pend), cls |-> SetToSeq(c2)])
  /\ phase' = "done" /\ pend' = NoPend
  /\ UNCHANGED <<cf, F, dir, fd, badsec, dbs, rbs, focus>>

PNext == PSetup \/ PChooseD \/ DealRound \/ PChooseR \/ RespRound \/ PChooseJ \/ JustRound
PSpec == PInit /\ [][PNext]_pvars

\* Every violation of a requirement in the model involves an equivocating party whose second packet reached
\* some node only after that node's early fast-sync transition (DESIGN finding #13 and its response- and
\* justification-phase siblings); without such a late conflict the Protocol level satisfies the requirement layer.
ReqAll == /\ Agreement /\ SharesOnPoly /\ UnjustifiedDealerOut /\ HonestHolderStays /\ HonestDealerStays
          /\ AllHonestAllFinish /\ NoHonestError
ReqExceptLateConflict == ReqAll \/ (Fast /\ cls # {})
NoLateConflictInRegular == ~Fast => cls = {}
=============================================================================
