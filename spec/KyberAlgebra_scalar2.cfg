SPECIFICATION Spec
CONSTANTS
  Mode = "scalar"
  L = 3
  CMax = 6
  DMax = 6
INVARIANTS TypeOK Laws Emit
PROPERTIES ValueSemantics
CHECK_DEADLOCK FALSE
