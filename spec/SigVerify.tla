----------------------------- MODULE SigVerify -----------------------------
(***************************************************************************)
(* C08 -- Schnorr / EdDSA / ring signatures accept exactly honest ones.    *)
(*                                                                         *)
(* Case lattice (DESIGN 3.3c).  A signature is a record of SEMANTIC facts: *)
(* who signed what (scheme, ring size n, signer position, link scope,      *)
(* message length class), how it was crafted (honest, or one of the        *)
(* Ed25519 small-order / non-canonical constructions whose group equation  *)
(* holds), and the set of manipulations applied to its encoding.  The      *)
(* verdict of Verify(entry, key', msg', ring', scope') is an operator of   *)
(* this module; TLC checks its meta-properties over the whole reachable    *)
(* case space and prints every behaviour Sign ; Tamper* ; Verify with the  *)
(* predicted verdict.  The Go replayer owns one concretiser per abstract   *)
(* manipulation (performs it on real bytes and certifies its effect).      *)
(*                                                                         *)
(* Verdicts: "accept", "reject", or "free" (the property leaves the        *)
(* outcome open; the replayer runs the case but never judges it).          *)
(***************************************************************************)
EXTENDS Naturals, Sequences, FiniteSets, TLC, Json

CONSTANTS
    Schemes,     \* subset of {"schnorr", "schnorr-ed", "eddsa", "ring", "ring-ed"}
    MaxRing,     \* ring sizes 1..MaxRing
    MaxDist,     \* max (#tampers + #deviating Verify arguments) per behaviour
    MlAllUpTo,   \* every message length is enumerated for behaviours of distance <= MlAllUpTo,
                 \*   beyond that only the rotating length RotMl
    Rot,         \* rotation offset of the message-length choice (derived from the seed)
    Crafts,      \* TRUE: include the crafted Ed25519 constructions
    LinkRing     \* linkage-tag behaviours over rings of size 1..LinkRing (0 = none)

MsgLens == <<0, 1, 63, 64, 65, 4096>>

VARIABLES sig, sig2, phase, out, hist
vars == <<sig, sig2, phase, out, hist>>

IsEd(s)   == s \in {"eddsa", "schnorr-ed", "ring-ed"}
IsRing(s) == s \in {"ring", "ring-ed"}

(* verifier entry points per scheme *)
Entries(s) == IF s = "eddsa" THEN {"Verify", "VerifyWithChecks"}
              ELSE IF IsRing(s) THEN {"Verify"}
              ELSE {"Verify", "VerifyWithChecks", "Scheme"}

(* Entry points that PROMISE the Ed25519 canonicity and small-order checks: *)
(* the VerifyWithChecks functions of sign/eddsa and sign/schnorr (their doc  *)
(* comment is the promise; plain Verify takes a decoded point and documents  *)
(* only "valid signature").  Everywhere else those cases are "free".         *)
Strict(s, e) == IsEd(s) /\ ~IsRing(s) /\ e = "VerifyWithChecks"

Honest == [k |-> "honest", o |-> 0]
(* crafted constructions (Ed25519, non-ring): the group equation holds, but a   *)
(* component is of small order and/or not canonically encoded.  o = order of    *)
(* the small-order component.                                                    *)
CraftSet == [k : {"key-small"}, o : {1, 2, 4, 8}]
       \cup [k : {"R-small"}, o : {1, 2, 4, 8}]
       \cup [k : {"key-small-noncanon"}, o : {1, 4}]     \* y = p+1 (identity), y = p (order 4)
       \cup [k : {"R-small-noncanon"}, o : {1, 4}]
       \cup [k : {"key-signbit"}, o : {1, 2}]            \* x = 0 with the sign bit set
       \cup [k : {"R-signbit"}, o : {1, 2}]

RSmall(c)     == c.k \in {"R-small", "R-small-noncanon", "R-signbit"}
KSmall(c)     == c.k \in {"key-small", "key-small-noncanon", "key-signbit"}
RNonCanon(c)  == c.k \in {"R-small-noncanon", "R-signbit"}
KNonCanon(c)  == c.k \in {"key-small-noncanon", "key-signbit"}

(* ---------------- manipulations of the signature bytes ---------------- *)
Flips == {"flip-lo", "flip-mid", "flip-hi"}

FieldsOf(s) ==
    IF IsRing(s.scheme)
    THEN [f : {"C0"}, i : {0}] \cup [f : {"S"}, i : 1..s.n]
         \cup (IF s.scoped THEN [f : {"Tag"}, i : {0}] ELSE {}) \cup [f : {"sig"}, i : {0}]
    ELSE [f : {"R", "S", "sig"}, i : {0}]

MutsOf(s, fld) ==
    CASE fld.f = "R"   -> Flips \cup (IF IsEd(s.scheme) THEN {"add-T2", "add-T4", "add-T8"} ELSE {})
      [] fld.f = "S"   -> Flips \cup {"plus-L"} \cup (IF IsRing(s.scheme) THEN {} ELSE {"plus-kL"})
      [] fld.f = "C0"  -> Flips \cup {"plus-L"}
      [] fld.f = "Tag" -> Flips \cup (IF IsEd(s.scheme) THEN {"add-T8"} ELSE {})
      [] fld.f = "sig" -> {"trunc", "extend"}

TampersOf(s) == UNION {{[f |-> fld.f, i |-> fld.i, m |-> m] : m \in MutsOf(s, fld)} : fld \in FieldsOf(s)}

(* effect class of a manipulation: "sem" = the carried value changes (or no value *)
(* is carried any more), "enc" = another byte string for the same value            *)
Effect(t) == IF t.m \in {"plus-L", "plus-kL", "extend"} THEN "enc" ELSE "sem"

(* canonical order in which the generator applies manipulations (sets, not sequences) *)
FRank(t) == CASE t.f = "R" -> 0 [] t.f = "C0" -> 0 [] t.f = "S" -> 1 + t.i [] t.f = "Tag" -> 20 [] t.f = "sig" -> 21
MRank(t) == CASE t.m = "flip-lo" -> 0 [] t.m = "flip-mid" -> 1 [] t.m = "flip-hi" -> 2 [] t.m = "add-T2" -> 3
              [] t.m = "add-T4" -> 4 [] t.m = "add-T8" -> 5 [] t.m = "plus-L" -> 6 [] t.m = "plus-kL" -> 7
              [] t.m = "trunc" -> 8 [] t.m = "extend" -> 9
Rank(t) == FRank(t) * 10 + MRank(t)

Compatible(s, t) == \A u \in s.tam : Rank(u) < Rank(t) /\ ~(u.m = "trunc" /\ t.m = "extend")

(* ---------------- arguments of Verify ---------------- *)
KeyDevs(s)   == IF IsRing(s.scheme) THEN {} ELSE {"other"}
MsgDevs(s)   == {"extend"} \cup (IF s.ml > 0 THEN {"flip", "trunc"} ELSE {})
RingDevs(s)  == IF ~IsRing(s.scheme) THEN {}
                ELSE {"ext", "shrink", "swap-signer"} \cup (IF s.n >= 2 THEN {"perm", "rot", "swap-other"} ELSE {})
ScopeDevs(s) == IF ~IsRing(s.scheme) THEN {} ELSE IF s.scoped THEN {"other", "drop"} ELSE {"add"}

ArgSet(s) == [key : {"same"} \cup KeyDevs(s), msg : {"same"} \cup MsgDevs(s),
              ring : {"same"} \cup RingDevs(s), scope : {"same"} \cup ScopeDevs(s)]
NDev(a) == (IF a.key = "same" THEN 0 ELSE 1) + (IF a.msg = "same" THEN 0 ELSE 1)
         + (IF a.ring = "same" THEN 0 ELSE 1) + (IF a.scope = "same" THEN 0 ELSE 1)
ArgsSame(a) == NDev(a) = 0

(* ---------------- the verdict relation ---------------- *)
Verdict(s, e, a) ==
    LET sem     == \E t \in s.tam : Effect(t) = "sem"
        enc     == \E t \in s.tam : Effect(t) = "enc"
        crafted == s.craft.k # "honest"
        strict  == Strict(s.scheme, e)
    IN  IF crafted THEN (IF strict THEN "reject" ELSE "free")
        ELSE IF sem \/ ~ArgsSame(a) THEN "reject"
        ELSE IF enc THEN (IF strict THEN "reject" ELSE "free")
        ELSE "accept"

(* the cases the property leaves open, stated independently of Verdict *)
FreeCase(s, e, a) ==
    ~Strict(s.scheme, e) /\
    (   s.craft.k # "honest"
     \/ (ArgsSame(a) /\ s.tam # {} /\ \A t \in s.tam : Effect(t) = "enc"))

(* ---------------- state machine ---------------- *)
RotMl(n, pos) == MsgLens[((n + pos + Rot) % Len(MsgLens)) + 1]
MlOK(s, d)    == d <= MlAllUpTo \/ s.ml = RotMl(s.n, s.pos)

NewSig(sch, n, pos, sc, ml, c) ==
    [scheme |-> sch, n |-> n, pos |-> pos, scoped |-> sc, ml |-> ml, craft |-> c, tam |-> {}]
NoSig  == NewSig("none", 1, 0, FALSE, 0, Honest)
NoSig2 == [n |-> 0, pos |-> 0, samekey |-> TRUE, samescope |-> TRUE, samering |-> TRUE, samemsg |-> TRUE]

Init == sig = NoSig /\ sig2 = NoSig2 /\ phase = "start" /\ out = "none" /\ hist = <<>>

(* what Sign itself must show: EdDSA is deterministic and byte-identical to RFC 8032 (crypto/ed25519) *)
SignObs(sch) == IF sch = "eddsa" THEN "rfc8032-bytes" ELSE "any"

Sign(sch, n, pos, sc, ml) ==
    /\ phase = "start"
    /\ sig' = NewSig(sch, n, pos, sc, ml, Honest)
    /\ phase' = "signed"
    /\ hist' = Append(hist, [act |-> "Sign", scheme |-> sch, n |-> n, pos |-> pos, scoped |-> sc, ml |-> ml,
                             obs |-> SignObs(sch)])
    /\ UNCHANGED <<sig2, out>>

Craft(sch, c, ml) ==
    /\ phase = "start" /\ Crafts /\ IsEd(sch) /\ ~IsRing(sch) /\ MaxDist >= 1
    /\ sig' = NewSig(sch, 1, 0, FALSE, ml, c)
    /\ phase' = "signed"
    /\ hist' = Append(hist, [act |-> "Craft", scheme |-> sch, kind |-> c.k, order |-> c.o, ml |-> ml])
    /\ UNCHANGED <<sig2, out>>

Dist(s) == Cardinality(s.tam) + (IF s.craft.k = "honest" THEN 0 ELSE 1)

Tamper(t) ==
    /\ phase = "signed"
    /\ Dist(sig) < MaxDist
    /\ MlOK(sig, Dist(sig) + 1)
    /\ t \notin sig.tam /\ Compatible(sig, t)
    /\ sig' = [sig EXCEPT !.tam = @ \cup {t}]
    /\ hist' = Append(hist, [act |-> "Tamper", f |-> t.f, i |-> t.i, m |-> t.m, effect |-> Effect(t)])
    /\ UNCHANGED <<sig2, phase, out>>

Verify(e, a) ==
    /\ phase = "signed"
    /\ Dist(sig) + NDev(a) <= MaxDist
    /\ MlOK(sig, Dist(sig) + NDev(a))
    /\ out' = Verdict(sig, e, a)
    /\ phase' = "verified"
    /\ hist' = Append(hist, [act |-> "Verify", entry |-> e, key |-> a.key, msg |-> a.msg, ring |-> a.ring,
                             scope |-> a.scope, exp |-> Verdict(sig, e, a)])
    /\ UNCHANGED <<sig, sig2>>

SignParams(sch) ==
    IF IsRing(sch) THEN {<<n, p, sc>> : n \in 1..MaxRing, p \in 0..(MaxRing - 1), sc \in BOOLEAN} \cap
                        {x \in (1..MaxRing) \X (0..(MaxRing - 1)) \X BOOLEAN : x[2] < x[1]}
    ELSE {<<1, 0, FALSE>>}

NextVerify ==
    \/ (phase = "start" /\ \E sch \in Schemes, ml \in {MsgLens[k] : k \in 1..Len(MsgLens)} :
          \/ \E x \in SignParams(sch) : Sign(sch, x[1], x[2], x[3], ml)
          \/ \E c \in CraftSet : (1 <= MlAllUpTo \/ ml = RotMl(1, 0)) /\ Craft(sch, c, ml))
    \/ (phase = "signed" /\ \E t \in TampersOf(sig) : Tamper(t))
    \/ (phase = "signed" /\ \E e \in Entries(sig.scheme), a \in ArgSet(sig) : Verify(e, a))

(* ---------------- linkage tags ---------------- *)
(* Two linkable ring signatures; the second differs from the first in key, scope, *)
(* ring (another ring of size n2 holding the key at pos2) and message.             *)
(* Tags are equal  <=>  same key and same scope.                                    *)
Sign1(sch, n, pos) ==
    /\ phase = "start"
    /\ sig' = NewSig(sch, n, pos, TRUE, RotMl(n, pos), Honest)
    /\ phase' = "signed1"
    /\ hist' = Append(hist, [act |-> "Sign", scheme |-> sch, n |-> n, pos |-> pos, scoped |-> TRUE, ml |-> RotMl(n, pos),
                             obs |-> "any"])
    /\ UNCHANGED <<sig2, out>>

TagEq(samekey, samescope) == samekey /\ samescope

Sign2(n, pos, samekey, samescope, samering, samemsg) ==
    /\ phase = "signed1"
    /\ (samering => (n = sig.n /\ (samekey => pos = sig.pos) /\ (~samekey => (n >= 2 /\ pos # sig.pos))))
    /\ sig2' = [n |-> n, pos |-> pos, samekey |-> samekey, samescope |-> samescope, samering |-> samering, samemsg |-> samemsg]
    /\ phase' = "linked"
    /\ out' = IF TagEq(samekey, samescope) THEN "equal" ELSE "different"
    /\ hist' = Append(hist, [act |-> "Sign2", n |-> n, pos |-> pos, samekey |-> samekey, samescope |-> samescope,
                             samering |-> samering, samemsg |-> samemsg,
                             exp |-> IF TagEq(samekey, samescope) THEN "equal" ELSE "different"])
    /\ UNCHANGED <<sig>>

LinkParams == {x \in (1..LinkRing) \X (0..(LinkRing - 1)) : x[2] < x[1]}

NextLink ==
    \/ (phase = "start" /\ \E sch \in Schemes \cap {"ring", "ring-ed"} : \E x \in LinkParams : Sign1(sch, x[1], x[2]))
    \/ (phase = "signed1" /\ \E x \in LinkParams, k, s, r, m \in BOOLEAN : Sign2(x[1], x[2], k, s, r, m))

Next == NextVerify \/ (LinkRing > 0 /\ NextLink)
Spec == Init /\ [][Next]_vars

(* ---------------- meta-properties of the verdict relation ---------------- *)
(* Each is a predicate of one case (signature s, entry e, arguments a, verdict v);  *)
(* MetaAll evaluates them on every case of every reachable signature record.       *)

(* every reachable case has a verdict *)
Total(s, e, a, v) == v \in {"accept", "reject", "free"}

(* accept => nothing was manipulated, honestly made, arguments are the signed ones *)
AcceptImpliesUntouched(s, e, a, v) ==
    v = "accept" => (s.tam = {} /\ s.craft.k = "honest" /\ ArgsSame(a))

(* completeness: an honest, untouched signature with the signed arguments is accepted at every entry point *)
HonestAccepted(s, e, a, v) ==
    (s.tam = {} /\ s.craft.k = "honest" /\ ArgsSame(a)) => v = "accept"

(* "free" is used exactly where the property is silent, and never hides a semantic change of an honest signature *)
FreedomExplicit(s, e, a, v) ==
    /\ (v = "free") <=> FreeCase(s, e, a)
    /\ (s.craft.k = "honest" /\ ((\E t \in s.tam : Effect(t) = "sem") \/ ~ArgsSame(a))) => v = "reject"

(* on the entry points that promise it: accept => canonical encodings and no small-order component, *)
(* and no second encoding of an accepted signature is accepted                                       *)
StrictNoSecondEncoding(s, e, a, v) ==
    Strict(s.scheme, e) =>
        /\ v # "free"
        /\ (v = "accept" =>
               ~RSmall(s.craft) /\ ~KSmall(s.craft) /\ ~RNonCanon(s.craft) /\ ~KNonCanon(s.craft)
               /\ \A t \in s.tam : Effect(t) # "enc")

MetaAll ==
    (phase = "signed") =>
        \A e \in Entries(sig.scheme), a \in ArgSet(sig) :
            LET v == Verdict(sig, e, a)
            IN  /\ Total(sig, e, a, v)
                /\ AcceptImpliesUntouched(sig, e, a, v)
                /\ HonestAccepted(sig, e, a, v)
                /\ FreedomExplicit(sig, e, a, v)
                /\ StrictNoSecondEncoding(sig, e, a, v)

(* no further manipulation restores acceptance (licenses judging pairs of manipulations) *)
TamperMonotone ==
    [][(phase = "signed" /\ phase' = "signed") =>
          \A e \in Entries(sig.scheme), a \in ArgSet(sig) :
              (Verdict(sig', e, a) = "accept" => Verdict(sig, e, a) = "accept")
              /\ (Verdict(sig, e, a) = "reject" => Verdict(sig', e, a) = "reject")]_vars

(* linkage: the predicted tag relation is an equivalence compatible with (key, scope) *)
LinkSound == (phase = "linked") => ((out = "equal") <=> (sig2.samekey /\ sig2.samescope))

TypeOK ==
    /\ phase \in {"start", "signed", "signed1", "verified", "linked"}
    /\ out \in {"none", "accept", "reject", "free", "equal", "different"}
    /\ sig.pos < sig.n /\ Cardinality(sig.tam) <= MaxDist

(* ---------------- generator ---------------- *)
View == <<sig, sig2, phase, out>>
Emit == (phase \in {"verified", "linked"}) => PrintT(<<"TRACE", ToJson(hist)>>)
=============================================================================
