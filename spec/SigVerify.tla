----------------------------- MODULE SigVerify -----------------------------
(***************************************************************************)
(* C08 -- Schnorr / EdDSA / ring signatures accept exactly honest ones.    *)
(*                                                                         *)
(* Case lattice (DESIGN 3.3c).  A signature is a record of SEMANTIC facts: *)
(* who signed what (scheme, ring size n, signer position, link scope,      *)
(* message length class), how it was crafted (honest, or one of the        *)
(* Ed25519 small-order / non-canonical constructions whose group equation  *)
(* holds), and the set of manipulations applied to its encoding.  The      *)
(* verdict of Verify(entry, key', msg', ring', scope') is an operator of   *)
(* this module; TLC checks its meta-properties over the whole reachable    *)
(* case space and prints every behaviour Sign ; Tamper* ; Verify with the  *)
(* predicted verdict.  The Go replayer owns one concretiser per abstract   *)
(* manipulation (performs it on real bytes and certifies its effect).      *)
(*                                                                         *)
(* Verdicts: "accept", "reject", or "free" (the property leaves the        *)
(* outcome open; the replayer runs the case but never judges it).          *)
(***************************************************************************)
EXTENDS Naturals, Sequences, FiniteSets, TLC, Json

CONSTANTS
    Schemes,     \* subset of {"schnorr", "schnorr-ed", "eddsa", "ring", "ring-ed"}
    MaxRing,     \* ring sizes 1..MaxRing
    MaxDist,     \* max (#tampers + #deviating Verify arguments) per behaviour
    MlAllUpTo,   \* every message length is enumerated for behaviours of distance <= MlAllUpTo,
                 \*   beyond that only the rotating length RotMl
    Rot,         \* rotation offset of the message-length choice (derived from the seed)
    Crafts,      \* TRUE: include the crafted Ed25519 constructions
    LinkRing,    \* linkage-tag behaviours over rings of size 1..LinkRing (0 = none)
    ReuseLen,    \* object-reuse behaviours: every sequence of exactly ReuseLen calls on one signer object (0 = none)
    Conc         \* TRUE: concurrent-verification behaviours

MsgLens == <<0, 1, 63, 64, 65, 4096>>

VARIABLES sig, sig2, ru, phase, out, hist
vars == <<sig, sig2, ru, phase, out, hist>>

IsEd(s)   == s \in {"eddsa", "schnorr-ed", "ring-ed"}
IsRing(s) == s \in {"ring", "ring-ed"}

(* verifier entry points per scheme *)
Entries(s) == IF s = "eddsa" THEN {"Verify", "VerifyWithChecks"}
              ELSE IF IsRing(s) THEN {"Verify"}
              ELSE {"Verify", "VerifyWithChecks", "Scheme"}

(* Where the Ed25519 clause of the property ("on Ed25519 it also rejects non-canonical        *)
(* encodings of R, S or the key and small-order R or keys, so that no second accepted encoding *)
(* can be derived from a valid signature") is demanded: at EVERY verifier entry point of the   *)
(* non-ring Ed25519 schemes -- eddsa.Verify / VerifyWithChecks, schnorr.Verify /               *)
(* VerifyWithChecks / sign.Scheme.Verify on edwards25519.  The property speaks of              *)
(* "verification" without excepting an entry point, and the pinned code rejects these cases    *)
(* at all of them (Verify marshals the key and calls VerifyWithChecks).  Audit of "free":      *)
(* it remains only where the property is silent AND nothing is promised: value-preserving      *)
(* re-encodings (S+kL, trailing byte) on non-Ed25519 groups and in ring signatures.            *)
Strict(s, e) == IsEd(s) /\ ~IsRing(s)

Honest == [k |-> "honest", who |-> "none", j |-> 0, enc |-> "canon"]
(* Crafted constructions (Ed25519, non-ring): the group equation S*B = R + h*A holds for the h the    *)
(* verifier derives, but a component is one of the 8 small-order points j*T8 (j = 0 identity, 4 order *)
(* 2, 2/6 order 4, odd order 8) in one of its 14 byte encodings: canonical; x = 0 with the sign bit   *)
(* set (j = 0, 4); y + p (j = 0: p+1, j = 2, 6: p); y + p with the sign bit of x = 0 set (j = 0).     *)
(* who = "key": keyless forgery (rB, r) under the small-order key (h*A = 0);                          *)
(* who = "R": small-order R under a key xB + T' of mixed order (R + h*T' = 0);                         *)
(* who = "both": small-order R and small-order key, S = 0.                                             *)
SmallEncs == [j : 0..7, enc : {"canon"}] \cup [j : {0, 4}, enc : {"signbit"}]
        \cup [j : {0, 2, 6}, enc : {"noncanon"}] \cup [j : {0}, enc : {"noncanon-signbit"}]
(* who = "signer": made by the KEY HOLDER: R' = rB + j*T8 (mixed order, canonical, not small-order),  *)
(* s = r + h(R', A, M)*a.  It satisfies only the cofactored equation 8sB = 8R' + 8hA; the cofactorless *)
(* verification the property fixes through crypto/ed25519 rejects it.                                  *)
CraftSet == {[k |-> "small", who |-> w, j |-> x.j, enc |-> x.enc] : w \in {"key", "R", "both"}, x \in SmallEncs}
       \cup {[k |-> "mixedR", who |-> "signer", j |-> jj, enc |-> "canon"] : jj \in 1..7}

RSmall(c)     == c.k = "small" /\ c.who \in {"R", "both"}
KSmall(c)     == c.k = "small" /\ c.who \in {"key", "both"}
RNonCanon(c)  == c.k = "small" /\ c.who \in {"R", "both"} /\ c.enc # "canon"
KNonCanon(c)  == c.k = "small" /\ c.who = "key" /\ c.enc # "canon"

(* ---------------- manipulations of the signature bytes ---------------- *)
Flips == {"flip-lo", "flip-mid", "flip-hi"}
(* S + k*L for EVERY k with S + k*L < 2^256 (k = 1..15 for Ed25519; the replayer skips those that do not fit) *)
PlusK == {"plus-2L", "plus-3L", "plus-4L", "plus-5L", "plus-6L", "plus-7L", "plus-8L", "plus-9L", "plus-10L",
          "plus-11L", "plus-12L", "plus-13L", "plus-14L", "plus-15L"}

FieldsOf(s) ==
    IF IsRing(s.scheme)
    THEN [f : {"C0"}, i : {0}] \cup [f : {"S"}, i : 1..s.n]
         \cup (IF s.scoped THEN [f : {"Tag"}, i : {0}] ELSE {}) \cup [f : {"sig"}, i : {0}]
    ELSE [f : {"R", "S", "sig"}, i : {0}]

MutsOf(s, fld) ==
    CASE fld.f = "R"   -> Flips \cup (IF IsEd(s.scheme) THEN {"add-T2", "add-T4", "add-T8"} ELSE {})
      [] fld.f = "S"   -> Flips \cup {"plus-L"} \cup (IF IsRing(s.scheme) THEN {} ELSE PlusK)
      [] fld.f = "C0"  -> Flips \cup {"plus-L"}
      [] fld.f = "Tag" -> Flips \cup (IF IsEd(s.scheme) THEN {"add-T8"} ELSE {})
      [] fld.f = "sig" -> {"trunc", "extend"}

TampersOf(s) == UNION {{[f |-> fld.f, i |-> fld.i, m |-> m] : m \in MutsOf(s, fld)} : fld \in FieldsOf(s)}

(* effect class of a manipulation: "sem" = the carried value changes (or no value *)
(* is carried any more), "enc" = another byte string for the same value            *)
Effect(t) == IF t.m \in {"plus-L", "extend"} \cup PlusK THEN "enc" ELSE "sem"

(* canonical order in which the generator applies manipulations (sets, not sequences) *)
FRank(t) == CASE t.f = "R" -> 0 [] t.f = "C0" -> 0 [] t.f = "S" -> 1 + t.i [] t.f = "Tag" -> 20 [] t.f = "sig" -> 21
MutSeq == <<"flip-lo", "flip-mid", "flip-hi", "add-T2", "add-T4", "add-T8", "plus-L", "plus-2L", "plus-3L", "plus-4L",
           "plus-5L", "plus-6L", "plus-7L", "plus-8L", "plus-9L", "plus-10L", "plus-11L", "plus-12L", "plus-13L",
           "plus-14L", "plus-15L", "trunc", "extend">>
MRank(t) == CHOOSE r \in 1..Len(MutSeq) : MutSeq[r] = t.m
Rank(t) == FRank(t) * 30 + MRank(t)

Compatible(s, t) == \A u \in s.tam : Rank(u) < Rank(t) /\ ~(u.m = "trunc" /\ t.m = "extend")

(* ---------------- arguments of Verify ---------------- *)
KeyDevs(s)   == IF IsRing(s.scheme) THEN {} ELSE {"other"}
MsgDevs(s)   == {"extend"} \cup (IF s.ml > 0 THEN {"flip", "trunc"} ELSE {})
RingDevs(s)  == IF ~IsRing(s.scheme) THEN {}
                ELSE {"ext", "shrink", "swap-signer"} \cup (IF s.n >= 2 THEN {"perm", "rot", "swap-other"} ELSE {})
                     \* a ring member replaced by member + torsion point (another point, hence another ring)
                     \cup (IF IsEd(s.scheme) THEN {"shift-torsion"} ELSE {})
ScopeDevs(s) == IF ~IsRing(s.scheme) THEN {} ELSE IF s.scoped THEN {"other", "drop"} ELSE {"add", "add-empty"}

(* Link-scope classes: nil = unlinkable; a NON-NIL scope is linkable whatever its length, the empty  *)
(* one []byte{} included ("the only significance these scopes have is whether they are equal").     *)
(* ScopeClass(n, pos): the class a scoped verification behaviour uses -- a function of (n, pos) only, *)
(* so every seed covers every class.  Linkage behaviours enumerate all three linkable classes.        *)
LinkClasses == <<"empty", "one", "long">>
ScopeClass(n, pos, sc) == IF sc THEN LinkClasses[((n + pos) % 3) + 1] ELSE "nil"

ArgSet(s) == [key : {"same"} \cup KeyDevs(s), msg : {"same"} \cup MsgDevs(s),
              ring : {"same"} \cup RingDevs(s), scope : {"same"} \cup ScopeDevs(s)]
NDev(a) == (IF a.key = "same" THEN 0 ELSE 1) + (IF a.msg = "same" THEN 0 ELSE 1)
         + (IF a.ring = "same" THEN 0 ELSE 1) + (IF a.scope = "same" THEN 0 ELSE 1)
ArgsSame(a) == NDev(a) = 0

(* Verification is a function of its arguments and writes to none of them: the replayer issues every *)
(* Verify Calls times on the SAME caller-owned signature / key / message slices (and once more through *)
(* another entry point): equal verdicts, byte-identical inputs afterwards.                             *)
Calls == 2

(* ---------------- the verdict relation ---------------- *)
Verdict(s, e, a) ==
    LET sem     == \E t \in s.tam : Effect(t) = "sem"
        enc     == \E t \in s.tam : Effect(t) = "enc"
        crafted == s.craft.k # "honest"
        strict  == Strict(s.scheme, e)
    IN  IF crafted THEN "reject"                       \* crafts exist only for the strict schemes
        ELSE IF sem \/ ~ArgsSame(a) THEN "reject"
        ELSE IF enc THEN (IF strict THEN "reject" ELSE "free")
        ELSE "accept"

(* the cases the property leaves open, stated independently of Verdict *)
FreeCase(s, e, a) ==
    /\ ~Strict(s.scheme, e) /\ s.craft.k = "honest"
    /\ ArgsSame(a) /\ s.tam # {} /\ \A t \in s.tam : Effect(t) = "enc"

(* ---------------- state machine ---------------- *)
RotMl(n, pos) == MsgLens[((n + pos + Rot) % Len(MsgLens)) + 1]
MlOK(s, d)    == d <= MlAllUpTo \/ s.ml = RotMl(s.n, s.pos)

NewSig(sch, n, pos, sc, ml, c) ==
    [scheme |-> sch, n |-> n, pos |-> pos, scoped |-> sc, ml |-> ml, craft |-> c, tam |-> {}]
NoSig  == NewSig("none", 1, 0, FALSE, 0, Honest)
NoSig2 == [n |-> 0, pos |-> 0, samekey |-> TRUE, samescope |-> TRUE, samering |-> TRUE, samemsg |-> TRUE]

NoRu   == [kind |-> "none", cur |-> 0, lk |-> 0, lm |-> 0, n |-> 0, outs |-> <<>>]

Init == sig = NoSig /\ sig2 = NoSig2 /\ ru = NoRu /\ phase = "start" /\ out = "none" /\ hist = <<>>

(* what Sign itself must show: EdDSA is deterministic and byte-identical to RFC 8032 (crypto/ed25519) *)
SignObs(sch) == IF sch = "eddsa" THEN "rfc8032-bytes" ELSE "any"

Sign(sch, n, pos, sc, ml) ==
    /\ phase = "start"
    /\ sig' = NewSig(sch, n, pos, sc, ml, Honest)
    /\ phase' = "signed"
    /\ hist' = Append(hist, [act |-> "Sign", scheme |-> sch, n |-> n, pos |-> pos, scoped |-> sc, ml |-> ml,
                             sclass |-> ScopeClass(n, pos, sc), obs |-> SignObs(sch)])
    /\ UNCHANGED <<sig2, ru, out>>

Craft(sch, c, ml) ==
    /\ phase = "start" /\ Crafts /\ IsEd(sch) /\ ~IsRing(sch) /\ MaxDist >= 1
    /\ sig' = NewSig(sch, 1, 0, FALSE, ml, c)
    /\ phase' = "signed"
    /\ hist' = Append(hist, [act |-> "Craft", scheme |-> sch, who |-> c.who, j |-> c.j, enc |-> c.enc, ml |-> ml])
    /\ UNCHANGED <<sig2, ru, out>>

Dist(s) == Cardinality(s.tam) + (IF s.craft.k = "honest" THEN 0 ELSE 1)

Tamper(t) ==
    /\ phase = "signed"
    /\ Dist(sig) < MaxDist
    /\ MlOK(sig, Dist(sig) + 1)
    /\ t \notin sig.tam /\ Compatible(sig, t)
    /\ sig' = [sig EXCEPT !.tam = @ \cup {t}]
    /\ hist' = Append(hist, [act |-> "Tamper", f |-> t.f, i |-> t.i, m |-> t.m, effect |-> Effect(t)])
    /\ UNCHANGED <<sig2, ru, phase, out>>

Verify(e, a) ==
    /\ phase = "signed"
    /\ Dist(sig) + NDev(a) <= MaxDist
    /\ MlOK(sig, Dist(sig) + NDev(a))
    /\ out' = Verdict(sig, e, a)
    /\ phase' = "verified"
    /\ hist' = Append(hist, [act |-> "Verify", entry |-> e, key |-> a.key, msg |-> a.msg, ring |-> a.ring,
                             scope |-> a.scope, exp |-> Verdict(sig, e, a), calls |-> Calls])
    /\ UNCHANGED <<sig, sig2, ru>>

SignParams(sch) ==
    IF IsRing(sch) THEN {<<n, p, sc>> : n \in 1..MaxRing, p \in 0..(MaxRing - 1), sc \in BOOLEAN} \cap
                        {x \in (1..MaxRing) \X (0..(MaxRing - 1)) \X BOOLEAN : x[2] < x[1]}
    ELSE {<<1, 0, FALSE>>}

NextVerify ==
    \/ (phase = "start" /\ \E sch \in Schemes, ml \in {MsgLens[k] : k \in 1..Len(MsgLens)} :
          \/ \E x \in SignParams(sch) : Sign(sch, x[1], x[2], x[3], ml)
          \/ \E c \in CraftSet : (1 <= MlAllUpTo \/ ml = RotMl(1, 0)) /\ Craft(sch, c, ml))
    \/ (phase = "signed" /\ \E t \in TampersOf(sig) : Tamper(t))
    \/ (phase = "signed" /\ \E e \in Entries(sig.scheme), a \in ArgSet(sig) : Verify(e, a))

(* ---------------- linkage tags ---------------- *)
(* Two linkable ring signatures; the second differs from the first in key, scope, *)
(* ring (another ring of size n2 holding the key at pos2) and message.             *)
(* Tags are equal  <=>  same key and same scope.                                    *)
Sign1(sch, n, pos, cls) ==
    /\ phase = "start"
    /\ sig' = NewSig(sch, n, pos, TRUE, RotMl(n, pos), Honest)
    /\ phase' = "signed1"
    /\ hist' = Append(hist, [act |-> "Sign", scheme |-> sch, n |-> n, pos |-> pos, scoped |-> TRUE, ml |-> RotMl(n, pos),
                             sclass |-> cls, obs |-> "any"])
    /\ UNCHANGED <<sig2, ru, out>>

TagEq(samekey, samescope) == samekey /\ samescope

Sign2(n, pos, samekey, samescope, samering, samemsg) ==
    /\ phase = "signed1"
    /\ (samering => (n = sig.n /\ (samekey => pos = sig.pos) /\ (~samekey => (n >= 2 /\ pos # sig.pos))))
    /\ sig2' = [n |-> n, pos |-> pos, samekey |-> samekey, samescope |-> samescope, samering |-> samering, samemsg |-> samemsg]
    /\ phase' = "linked"
    /\ out' = IF TagEq(samekey, samescope) THEN "equal" ELSE "different"
    /\ hist' = Append(hist, [act |-> "Sign2", n |-> n, pos |-> pos, samekey |-> samekey, samescope |-> samescope,
                             samering |-> samering, samemsg |-> samemsg,
                             exp |-> IF TagEq(samekey, samescope) THEN "equal" ELSE "different"])
    /\ UNCHANGED <<sig, ru>>

LinkParams == {x \in (1..LinkRing) \X (0..(LinkRing - 1)) : x[2] < x[1]}

NextLink ==
    \/ (phase = "start" /\ \E sch \in Schemes \cap {"ring", "ring-ed"} : \E x \in LinkParams, c \in 1..3 : Sign1(sch, x[1], x[2], LinkClasses[c]))
    \/ (phase = "signed1" /\ \E x \in LinkParams, k, s, r, m \in BOOLEAN : Sign2(x[1], x[2], k, s, r, m))

(* ---------------- one signer object reused across keys and messages ---------------- *)
(* ru = [kind, cur = key the object holds now (0 none), lk/lm = key and message of the last     *)
(* signature it made, n = calls so far].  kind "eddsa": one eddsa.EdDSA value, re-keyed in     *)
(* place with UnmarshalBinary (how = "unmarshal"), replaced by NewEdDSA (how = "new") or        *)
(* round-tripped through its own MarshalBinary (RReload); kind "schnorr-scheme": one            *)
(* schnorr sign.Scheme object used with several private keys.  Every signature must be the      *)
(* one of the CURRENT key (EdDSA: byte-equal to crypto/ed25519 for that key's seed), whatever   *)
(* the object signed, marshalled or held before.  Messages travel in ONE caller-owned buffer that *)
(* the replayer overwrites in place before every call (same-length and different-length contents):*)
(* the message of a step is what the buffer holds at call time.                                    *)
RKeys == {1, 2}
RMsgs == {1, 2}
RKinds == (IF "eddsa" \in Schemes THEN {"eddsa"} ELSE {}) \cup (IF "schnorr-ed" \in Schemes THEN {"schnorr-scheme"} ELSE {})

RStep(rec, r2) ==
    /\ phase = "reuse" /\ ru.n < ReuseLen
    /\ ru' = [r2 EXCEPT !.n = ru.n + 1]
    /\ hist' = Append(hist, rec)
    /\ UNCHANGED <<sig, sig2, phase, out>>

RStart(kind) ==
    /\ phase = "start" /\ ReuseLen > 0
    /\ ru' = [NoRu EXCEPT !.kind = kind]
    /\ phase' = "reuse"
    /\ hist' = <<[act |-> "RStart", kind |-> kind]>>
    /\ UNCHANGED <<sig, sig2, out>>

RLoad(k, how)  == RStep([act |-> "RLoad", key |-> k, how |-> how], [ru EXCEPT !.cur = k])
RSign(m)       == ru.cur # 0 /\
                  RStep([act |-> "RSign", msg |-> m, key |-> ru.cur,
                         obs |-> IF ru.kind = "eddsa" THEN "rfc8032-bytes" ELSE "any"],
                        [ru EXCEPT !.lk = ru.cur, !.lm = m, !.outs = Append(@, [key |-> ru.cur, msg |-> m])])
RMarshal       == ru.kind = "eddsa" /\ ru.cur # 0 /\ RStep([act |-> "RMarshal", key |-> ru.cur], ru)
RReload        == ru.kind = "eddsa" /\ ru.cur # 0 /\ RStep([act |-> "RReload", key |-> ru.cur], ru)
RVerdict(ks, ms) == IF ks /\ ms THEN "accept" ELSE "reject"
RVerify(ks, ms) == ru.lk # 0 /\
                   RStep([act |-> "RVerify", signedkey |-> ru.lk, signedmsg |-> ru.lm, samekey |-> ks, samemsg |-> ms,
                          exp |-> RVerdict(ks, ms)], ru)

(* Returned signatures are VALUES: a later call on the same signer object (Sign of another message,  *)
(* re-keying, marshalling) must not change a signature it handed out earlier.  The mandatory last    *)
(* step of every reuse behaviour audits all of them: each slice returned by the i-th RSign is still  *)
(* byte-identical to what it was when returned and still verifies for (key, msg) of outs[i].          *)
RAudit ==
    /\ phase = "reuse" /\ ru.n = ReuseLen
    /\ phase' = "audited"
    /\ hist' = Append(hist, [act |-> "RAudit", outs |-> ru.outs, exp |-> "unchanged-and-accepted"])
    /\ UNCHANGED <<sig, sig2, ru, out>>

NextReuse ==
    \/ RAudit
    \/ (phase = "start" /\ \E kind \in RKinds : RStart(kind))
    \/ (phase = "reuse" /\ \E k \in RKeys, how \in (IF ru.kind = "eddsa" THEN {"unmarshal", "new"} ELSE {"switch"}) : RLoad(k, how))
    \/ (phase = "reuse" /\ \E m \in RMsgs : RSign(m))
    \/ (phase = "reuse" /\ (RMarshal \/ RReload))
    \/ (phase = "reuse" /\ \E ks, ms \in BOOLEAN : RVerify(ks, ms))

ReuseSound == (phase = "reuse") => (ru.cur \in {0} \cup RKeys /\ ru.lk \in {0} \cup RKeys /\ (ru.lk # 0 => ru.lm \in RMsgs)
                                    /\ \A ks, ms \in BOOLEAN : (RVerdict(ks, ms) = "accept") <=> (ks /\ ms))

(* ---------------- concurrent verification ---------------- *)
(* An honest signature under a FRESHLY COMPUTED public-key object (x*B straight from Mul, never      *)
(* encoded or decoded) is verified by g goroutines at once against that ONE shared key object:       *)
(* every verdict is accept, a sequential verification afterwards accepts too and the key object      *)
(* still encodes as x*B.  (Verification only reads its arguments: C20 for the library as a whole;    *)
(* here it is C08's "an honest signature verifies" that must survive shared use.)                     *)
ConcG == {2, 8}
CStart(sch, g) ==
    /\ phase = "start" /\ Conc
    /\ ru' = [NoRu EXCEPT !.kind = "conc", !.cur = g]
    /\ phase' = "conc"
    /\ hist' = <<[act |-> "CSign", scheme |-> sch, goroutines |-> g, key |-> "fresh-from-mul"]>>
    /\ UNCHANGED <<sig, sig2, out>>
CPar ==
    /\ phase = "conc" /\ ru.n = 0
    /\ ru' = [ru EXCEPT !.n = 1]
    /\ hist' = Append(hist, [act |-> "CVerifyPar", goroutines |-> ru.cur, exp |-> "all-accept"])
    /\ UNCHANGED <<sig, sig2, phase, out>>
CSeq ==
    /\ phase = "conc" /\ ru.n = 1
    /\ ru' = [ru EXCEPT !.n = 2]
    /\ phase' = "conc-done"
    /\ hist' = Append(hist, [act |-> "CVerifySeq", exp |-> "accept", keyobj |-> "unchanged"])
    /\ UNCHANGED <<sig, sig2, out>>
NextConc == (\E sch \in Schemes, g \in ConcG : CStart(sch, g)) \/ CPar \/ CSeq

Next == NextVerify \/ (LinkRing > 0 /\ NextLink) \/ NextReuse \/ NextConc
Spec == Init /\ [][Next]_vars

(* ---------------- meta-properties of the verdict relation ---------------- *)
(* Each is a predicate of one case (signature s, entry e, arguments a, verdict v);  *)
(* MetaAll evaluates them on every case of every reachable signature record.       *)

(* every reachable case has a verdict *)
Total(s, e, a, v) == v \in {"accept", "reject", "free"}

(* accept => nothing was manipulated, honestly made, arguments are the signed ones *)
AcceptImpliesUntouched(s, e, a, v) ==
    v = "accept" => (s.tam = {} /\ s.craft.k = "honest" /\ ArgsSame(a))

(* completeness: an honest, untouched signature with the signed arguments is accepted at every entry point *)
HonestAccepted(s, e, a, v) ==
    (s.tam = {} /\ s.craft.k = "honest" /\ ArgsSame(a)) => v = "accept"

(* "free" is used exactly where the property is silent, and never hides a semantic change of an honest signature *)
FreedomExplicit(s, e, a, v) ==
    /\ (v = "free") <=> FreeCase(s, e, a)
    /\ (s.craft.k = "honest" /\ ((\E t \in s.tam : Effect(t) = "sem") \/ ~ArgsSame(a))) => v = "reject"

(* on the entry points that promise it: accept => canonical encodings and no small-order component, *)
(* and no second encoding of an accepted signature is accepted                                       *)
StrictNoSecondEncoding(s, e, a, v) ==
    Strict(s.scheme, e) =>
        /\ v # "free"
        /\ (s.craft.k # "honest" => v = "reject")
        /\ (v = "accept" =>
               ~RSmall(s.craft) /\ ~KSmall(s.craft) /\ ~RNonCanon(s.craft) /\ ~KNonCanon(s.craft)
               /\ \A t \in s.tam : Effect(t) # "enc")

MetaAll ==
    (phase = "signed") =>
        \A e \in Entries(sig.scheme), a \in ArgSet(sig) :
            LET v == Verdict(sig, e, a)
            IN  /\ Total(sig, e, a, v)
                /\ AcceptImpliesUntouched(sig, e, a, v)
                /\ HonestAccepted(sig, e, a, v)
                /\ FreedomExplicit(sig, e, a, v)
                /\ StrictNoSecondEncoding(sig, e, a, v)

(* no further manipulation restores acceptance (licenses judging pairs of manipulations) *)
TamperMonotone ==
    [][(phase = "signed" /\ phase' = "signed") =>
          \A e \in Entries(sig.scheme), a \in ArgSet(sig) :
              (Verdict(sig', e, a) = "accept" => Verdict(sig, e, a) = "accept")
              /\ (Verdict(sig, e, a) = "reject" => Verdict(sig', e, a) = "reject")]_vars

(* linkage: the predicted tag relation is an equivalence compatible with (key, scope) *)
LinkSound == (phase = "linked") => ((out = "equal") <=> (sig2.samekey /\ sig2.samescope))

TypeOK ==
    /\ phase \in {"start", "signed", "signed1", "verified", "linked", "reuse", "audited", "conc", "conc-done"}
    /\ out \in {"none", "accept", "reject", "free", "equal", "different"}
    /\ sig.pos < sig.n /\ Cardinality(sig.tam) <= MaxDist

(* ---------------- generator ---------------- *)
View == <<sig, sig2, ru, phase, out>>
Emit == (phase \in {"verified", "linked", "audited", "conc-done"}) => PrintT(<<"TRACE", ToJson(hist)>>)
=============================================================================
