---- MODULE PickEmbed_TTrace_1790145714 ----
EXTENDS Sequences, TLCExt, PickEmbed, Toolbox, Naturals, TLC

_expression ==
    LET PickEmbed_TEExpression == INSTANCE PickEmbed_TEExpression
    IN PickEmbed_TEExpression!expression
----

_trace ==
    LET PickEmbed_TETrace == INSTANCE PickEmbed_TETrace
    IN PickEmbed_TETrace!trace
----

_inv ==
    ~(
        TLCGet("level") = Len(_TETrace)
        /\
        st = ([r2 |-> [seed |-> "A", kind |-> "xof", ops |-> <<>>], r1 |-> [seed |-> "B", kind |-> "xof", ops |-> <<>>]])
        /\
        hist = (<<[kind |-> "xof", op |-> "init"], [seed |-> "B", kind |-> "xof", r |-> "r1", op |-> "newstream"], [r |-> "r2", p |-> "p2", op |-> "pick", obs |-> [data |-> <<>>, rel |-> "na"]], [seed |-> "A", kind |-> "xof", r |-> "r2", op |-> "newstream"]>>)
        /\
        pt = ([p2 |-> [src |-> "pick", key |-> [seed |-> "A", kind |-> "xof", ops |-> <<>>], data |-> <<>>], p1 |-> [src |-> "none", key |-> <<>>, data |-> <<>>]])
    )
----

_init ==
    /\ pt = _TETrace[1].pt
    /\ hist = _TETrace[1].hist
    /\ st = _TETrace[1].st
----

_next ==
    /\ \E i,j \in DOMAIN _TETrace:
        /\ \/ /\ j = i + 1
              /\ i = TLCGet("level")
        /\ pt  = _TETrace[i].pt
        /\ pt' = _TETrace[j].pt
        /\ hist  = _TETrace[i].hist
        /\ hist' = _TETrace[j].hist
        /\ st  = _TETrace[i].st
        /\ st' = _TETrace[j].st

\* Uncomment the ASSUME below to write the states of the error trace
\* to the given file in Json format. Note that you can pass any tuple
\* to `JsonSerialize`. For example, a sub-sequence of _TETrace.
    \* ASSUME
    \*     LET J == INSTANCE Json
    \*         IN J!JsonSerialize("PickEmbed_TTrace_1790145714.json", _TETrace)

=============================================================================

 Note that you can extract this module `PickEmbed_TEExpression`
  to a dedicated file to reuse `expression` (the module in the 
  dedicated `PickEmbed_TEExpression.tla` file takes precedence 
  over the module `PickEmbed_TEExpression` below).

---- MODULE PickEmbed_TEExpression ----
EXTENDS Sequences, TLCExt, PickEmbed, Toolbox, Naturals, TLC

expression == 
    [
        \* To hide variables of the `PickEmbed` spec from the error trace,
        \* remove the variables below.  The trace will be written in the order
        \* of the fields of this record.
        pt |-> pt
        ,hist |-> hist
        ,st |-> st
        
        \* Put additional constant-, state-, and action-level expressions here:
        \* ,_stateNumber |-> _TEPosition
        \* ,_ptUnchanged |-> pt = pt'
        
        \* Format the `pt` variable as Json value.
        \* ,_ptJson |->
        \*     LET J == INSTANCE Json
        \*     IN J!ToJson(pt)
        
        \* Lastly, you may build expressions over arbitrary sets of states by
        \* leveraging the _TETrace operator.  For example, this is how to
        \* count the number of times a spec variable changed up to the current
        \* state in the trace.
        \* ,_ptModCount |->
        \*     LET F[s \in DOMAIN _TETrace] ==
        \*         IF s = 1 THEN 0
        \*         ELSE IF _TETrace[s].pt # _TETrace[s-1].pt
        \*             THEN 1 + F[s-1] ELSE F[s-1]
        \*     IN F[_TEPosition - 1]
    ]

=============================================================================



Parsing and semantic processing can take forever if the trace below is long.
 In this case, it is advised to uncomment the module below to deserialize the
 trace from a generated binary file.

\*
\*---- MODULE PickEmbed_TETrace ----
\*EXTENDS IOUtils, PickEmbed, TLC
\*
\*trace == IODeserialize("PickEmbed_TTrace_1790145714.bin", TRUE)
\*
\*=============================================================================
\*

---- MODULE PickEmbed_TETrace ----
EXTENDS PickEmbed, TLC

trace == 
    <<
    ([st |-> [r2 |-> [seed |-> "A", kind |-> "xof", ops |-> <<>>], r1 |-> [seed |-> "A", kind |-> "xof", ops |-> <<>>]],hist |-> <<[kind |-> "xof", op |-> "init"]>>,pt |-> [p2 |-> [src |-> "none", key |-> <<>>, data |-> <<>>], p1 |-> [src |-> "none", key |-> <<>>, data |-> <<>>]]]),
    ([st |-> [r2 |-> [seed |-> "A", kind |-> "xof", ops |-> <<>>], r1 |-> [seed |-> "B", kind |-> "xof", ops |-> <<>>]],hist |-> <<[kind |-> "xof", op |-> "init"], [seed |-> "B", kind |-> "xof", r |-> "r1", op |-> "newstream"]>>,pt |-> [p2 |-> [src |-> "none", key |-> <<>>, data |-> <<>>], p1 |-> [src |-> "none", key |-> <<>>, data |-> <<>>]]]),
    ([st |-> [r2 |-> [seed |-> "A", kind |-> "xof", ops |-> <<<<"pick">>>>], r1 |-> [seed |-> "B", kind |-> "xof", ops |-> <<>>]],hist |-> <<[kind |-> "xof", op |-> "init"], [seed |-> "B", kind |-> "xof", r |-> "r1", op |-> "newstream"], [r |-> "r2", p |-> "p2", op |-> "pick", obs |-> [data |-> <<>>, rel |-> "na"]]>>,pt |-> [p2 |-> [src |-> "pick", key |-> [seed |-> "A", kind |-> "xof", ops |-> <<>>], data |-> <<>>], p1 |-> [src |-> "none", key |-> <<>>, data |-> <<>>]]]),
    ([st |-> [r2 |-> [seed |-> "A", kind |-> "xof", ops |-> <<>>], r1 |-> [seed |-> "B", kind |-> "xof", ops |-> <<>>]],hist |-> <<[kind |-> "xof", op |-> "init"], [seed |-> "B", kind |-> "xof", r |-> "r1", op |-> "newstream"], [r |-> "r2", p |-> "p2", op |-> "pick", obs |-> [data |-> <<>>, rel |-> "na"]], [seed |-> "A", kind |-> "xof", r |-> "r2", op |-> "newstream"]>>,pt |-> [p2 |-> [src |-> "pick", key |-> [seed |-> "A", kind |-> "xof", ops |-> <<>>], data |-> <<>>], p1 |-> [src |-> "none", key |-> <<>>, data |-> <<>>]]])
    >>
----


=============================================================================

---- CONFIG PickEmbed_TTrace_1790145714 ----
CONSTANTS
    L = 4

INVARIANT
    _inv

CHECK_DEADLOCK
    \* CHECK_DEADLOCK off because of PROPERTY or INVARIANT above.
    FALSE

INIT
    _init

NEXT
    _next

CONSTANT
    _TETrace <- _trace

ALIAS
    _expression
=============================================================================
\* Generated on Wed Sep 23 06:42:15 UTC 2026