---------------------------- MODULE DKGPedersen ----------------------------
(***************************************************************************)
(* share/dkg/pedersen, DistKeyGenerator API level (property C11).          *)
(*                                                                         *)
(* The API is phase-batched and honest nodes are deterministic, so a       *)
(* system history is: who is faulty, what the faulty parties put on the    *)
(* broadcast channel in each of the three phases (a finite menu), and the  *)
(* order in which each phase's bundles are handed to the nodes (the same   *)
(* list for every node, as an application over a broadcast channel does).  *)
(* Three atomic phase actions compute every honest node's next state with  *)
(* operators transcribed from dkg.go (implementation-shaped layer):        *)
(*   ProcessDeals / ProcessResponses / ProcessJustifications,              *)
(*   computeDKGResult / computeResharingResult, checkIfEvicted.            *)
(* The requirement layer (Agreement, SharesOnPoly, KeyFromQual/KeyUnchanged*)
(* UnjustifiedDealerOut, HonestDealerStays, AllHonestAllFinish) is stated  *)
(* over ground-truth variables (what the faulty parties really sent).      *)
(*                                                                         *)
(* Parties are numbers; a party has an old index (dealer) and/or a new     *)
(* index (share holder).  Fresh DKG: both groups equal.                    *)
(***************************************************************************)
EXTENDS Integers, Sequences, FiniteSets, TLC, Json, SequencesExt

CONSTANTS
  Shapes,   \* subset of {"fresh", "same", "overlap", "disjoint", "grow", "shrink", "shrink3", "raise5"}: one is picked initially
  N, Ts,    \* fresh: group size and the set of thresholds to explore
  Fasts,    \* subset of BOOLEAN: values of Config.FastSync to explore
  MaxF,     \* at most this many faulty parties (also limited by n-t per group)
  MenuLvl,  \* "full" | "small" | "proto" | "eq" | "fc" (false complaints only: the threshold-boundary menu) | "fcp" | "eq2" | "eq2all"
  OrdMode,  \* "all" (every permutation per phase) | "two" (asc/desc per phase) | "glob" (asc/desc chosen once)
  Rec,      \* BOOLEAN: record hist (generator) / keep it empty (model checking)
  LeaveFix  \* BOOLEAN: ProcessResponses accepts a leaving (old-only) dealer (finding #10 repaired)

VARIABLES cf, F, dir, phase, node, pend, fd, fj, badsec, dbs, rbs, hist

vars == <<cf, F, dir, phase, node, pend, fd, fj, badsec, dbs, rbs, hist>>

Id3 == [p \in 0..2 |-> p]
ShapeRec(sh, T) ==
   CASE sh = "fresh"    -> [P |-> 0..(N-1), oi |-> [p \in 0..(N-1) |-> p], ni |-> [p \in 0..(N-1) |-> p],
                             ot |-> T, nt |-> T, resh |-> FALSE]
     [] sh = "same"     -> [P |-> 0..2, oi |-> Id3, ni |-> Id3, ot |-> 2, nt |-> 2, resh |-> TRUE]
     [] sh = "overlap"  -> [P |-> 0..3, oi |-> [p \in 0..3 |-> IF p = 3 THEN -1 ELSE p],
                             ni |-> [p \in 0..3 |-> p - 1], ot |-> 2, nt |-> 2, resh |-> TRUE]
     [] sh = "disjoint" -> [P |-> 0..5, oi |-> [p \in 0..5 |-> IF p < 3 THEN p ELSE -1],
                             ni |-> [p \in 0..5 |-> IF p < 3 THEN -1 ELSE p - 3], ot |-> 2, nt |-> 2, resh |-> TRUE]
     [] sh = "grow"     -> [P |-> 0..3, oi |-> [p \in 0..3 |-> IF p = 3 THEN -1 ELSE p],
                             ni |-> [p \in 0..3 |-> p], ot |-> 2, nt |-> 3, resh |-> TRUE]
     [] sh = "shrink"   -> [P |-> 0..2, oi |-> Id3, ni |-> [p \in 0..2 |-> p - 1], ot |-> 2, nt |-> 2, resh |-> TRUE]
     \* threshold raised: 2-of-3 -> 3-of-5, two joining members (so OldThreshold <= c < Threshold complaints are possible)
     [] sh = "raise5"   -> [P |-> 0..4, oi |-> [p \in 0..4 |-> IF p < 3 THEN p ELSE -1],
                             ni |-> [p \in 0..4 |-> p], ot |-> 2, nt |-> 3, resh |-> TRUE]
     [] sh = "shrink3"  -> [P |-> 0..3, oi |-> [p \in 0..3 |-> p], ni |-> [p \in 0..3 |-> p - 1], ot |-> 3, nt |-> 2, resh |-> TRUE]

\* cf = the configuration of this run (chosen in Init, never changes)
SR    == cf.sr
Fast  == cf.fast
Shape == cf.shape
P       == SR.P
Dealers == cf.D
Holders == cf.H
OT      == SR.ot
NT      == SR.nt
Resh    == SR.resh
CanIssue(p)   == p \in Dealers
CanReceive(p) == p \in Holders
NIdx(p) == IF p \in Holders THEN SR.ni[p] ELSE 0      \* findPub returns index 0 for "not found"
Honest  == P \ F

MinOf(S) == CHOOSE x \in S : \A y \in S : x <= y
Cnt(S) == Cardinality(S)
KV(f)  == SetToSortSeq({[k |-> x, v |-> f[x]] : x \in DOMAIN f}, LAMBDA a, b : a.k < b.k)
SetSeq(S) == SetToSortSeq(S, LAMBDA a, b : a < b)

\* menu levels "eq2" / "eq2all": exactly two equivocating dealers (parties a and a+2; eq2: a = 1)
FaultySets == IF MenuLvl = "eq2" THEN {{1, 3}}
              ELSE IF MenuLvl = "eq2all" THEN {{a, a + 2} : a \in {x \in P : x + 2 \in P}}
              ELSE
              {S \in SUBSET P : /\ Cnt(S) <= MaxF
                                /\ Cnt(S \cap Dealers) <= Cnt(Dealers) - OT
                                /\ Cnt(S \cap Holders) <= Cnt(Holders) - NT}

---------------------------------------------------------------------------
(* Bundles                                                                 *)
AllG == [j \in Holders |-> "G"]
DB(f, c, poly, sh, flaw) ==
  [from |-> f, c |-> c, poly |-> poly, sid |-> flaw # "sid", thr |-> flaw # "thr", unk |-> flaw = "unk",
   sec |-> flaw # "sec", sh |-> sh, auth |-> flaw # "author"]
HonestDeal(d) == DB(d, 1, 1, AllG, "ok")

\* auth = FALSE: the bundle names an author index that is not in the group (index == n): nobody can attribute it
\* statuses: "S" success, "C" complaint, "X" a status value outside the enum (neither Success nor Complaint)
RB(f, c, sid, unk, rs) == [from |-> f, c |-> c, sid |-> sid, unk |-> unk, rs |-> rs, auth |-> TRUE]
JB(f, c, sid, unk, js) == [from |-> f, c |-> c, sid |-> sid, unk |-> unk, js |-> js, poly |-> 1, auth |-> TRUE]
JBP(b, pl) == [b EXCEPT !.poly = pl]   \* the polynomial the revealed shares are taken from

---------------------------------------------------------------------------
(* Honest node, transcribed from dkg.go                                    *)

InitNode(h) ==
  [ph |-> "init",
   st |-> [d \in Dealers |-> [j \in Holders |->
             IF Fast THEN "C" ELSE IF CanReceive(h) /\ j = h THEN "C" ELSE "S"]],
   ev |-> {}, eh |-> {},
   vs |-> [d \in Dealers |-> 0], ap |-> [d \in Dealers |-> 0],
   out |-> [k |-> "none"]]

\* Deals(): own share/poly stored, own status success
AfterDeals(h, s) ==
  IF ~CanIssue(h) THEN s
  ELSE IF CanReceive(h)
       THEN [s EXCEPT !.ph = "deal", !.vs[h] = 1, !.ap[h] = 1, !.st[h][h] = "S"]
       ELSE [s EXCEPT !.ph = "deal"]

PDStep(h, acc, b) ==
  IF ~b.auth THEN acc                                     \* dealer index not in OldNodes: skipped
  ELSE IF CanIssue(h) /\ b.from = h THEN acc
  ELSE IF ~b.sid \/ ~b.thr THEN [acc EXCEPT !.ev = @ \cup {b.from}]
  ELSE IF b.from \in acc.seen THEN [acc EXCEPT !.ev = @ \cup {b.from}]
  ELSE LET good == b.sh[h] = "G" /\ (Resh => b.sec)
           a1 == [acc EXCEPT !.seen = @ \cup {b.from}, !.ap[b.from] = b.poly]
           a2 == IF good THEN [a1 EXCEPT !.st[b.from][h] = "S", !.vs[b.from] = b.poly] ELSE a1
       IN IF b.unk THEN [a2 EXCEPT !.ev = @ \cup {b.from}] ELSE a2

\* returns [s |-> new node state, resp |-> function dealer -> status (empty = no bundle)]
ProcessDeals(h, s0, bs) ==
  IF ~CanReceive(h) THEN [s |-> [s0 EXCEPT !.ph = "resp"], resp |-> <<>>, has |-> FALSE]
  ELSE
  LET acc0 == [st |-> s0.st, ev |-> s0.ev, vs |-> s0.vs, ap |-> s0.ap, seen |-> {}]
      acc  == FoldLeft(LAMBDA a, b : PDStep(h, a, b), acc0, bs)
      st1  == [d \in Dealers |-> IF d \in Holders THEN [acc.st[d] EXCEPT ![d] = "S"] ELSE acc.st[d]]
      rd   == {d \in Dealers \ acc.ev : Fast \/ st1[d][h] = "C"}
      resp == [d \in rd |-> st1[d][h]]
  IN [s |-> [s0 EXCEPT !.ph = "resp", !.st = st1, !.ev = acc.ev, !.vs = acc.vs, !.ap = acc.ap],
      resp |-> resp, has |-> rd # {}]

AllTrue(st, d)      == \A j \in Holders : st[d][j] # "C"     \* status.go: "no complaint", not "all success"
CompleteSuccess(st) == \A d \in Dealers : AllTrue(st, d)

FirstK(S, k) == {d \in S : Cnt({e \in S : SR.oi[e] < SR.oi[d]}) < k}

\* computeResult -> out record
ComputeResult(h, s) ==
  LET stE == [d \in Dealers |-> IF d \in s.ev THEN [j \in Holders |-> "C"] ELSE s.st[d]]
      V   == {d \in Dealers : AllTrue(stE, d)}
  IN IF ~Resh
     THEN LET Q == V \ s.eh
          IN IF Q = {} \/ \E d \in Q : s.vs[d] = 0 \/ s.ap[d] = 0 THEN [k |-> "err", e |-> "bug"]
             ELSE [k |-> "res", qual |-> Q, used |-> Q, polys |-> [d \in Q |-> s.ap[d]],
                   cons |-> \A d \in Q : s.vs[d] = s.ap[d]]
     ELSE IF \E d \in V : s.vs[d] = 0 \/ s.ap[d] = 0 THEN [k |-> "err", e |-> "bug"]
          ELSE IF Cnt(V) < OT THEN [k |-> "err", e |-> "notenough"]
          ELSE LET U == FirstK(V, OT)
                   Q == {j \in Holders : ~(j \in Dealers /\ j \notin V) /\ j \notin s.eh}
               IN IF \E d \in U : s.vs[d] # s.ap[d] THEN [k |-> "err", e |-> "sharecheck"]
                  ELSE IF Cnt(Q) < NT THEN [k |-> "err", e |-> "qualsmall"]
                  ELSE [k |-> "res", qual |-> Q, used |-> U, polys |-> [d \in U |-> s.ap[d]], cons |-> TRUE]

PRStep(h, acc, b) ==
  IF ~b.auth THEN acc                                     \* share index not in NewNodes: skipped
  ELSE IF CanIssue(h) /\ (LeaveFix => CanReceive(h)) /\ SR.ni[b.from] = NIdx(h) THEN acc   \* "our own response"
  ELSE IF ~b.sid THEN [acc EXCEPT !.eh = @ \cup {b.from}]
  ELSE LET viol == b.unk \/ (~Fast /\ \E d \in DOMAIN b.rs : b.rs[d] = "S")
           ok   == {d \in DOMAIN b.rs : Fast \/ b.rs[d] # "S"}
       IN [acc EXCEPT
             !.st = [d \in Dealers |-> IF d \in ok THEN [acc.st[d] EXCEPT ![b.from] = b.rs[d]] ELSE acc.st[d]],
             !.eh = IF viol THEN @ \cup {b.from} ELSE @,
             !.va = IF ok # {} THEN @ \cup {b.from} ELSE @,
             !.fc = @ \/ \E d \in ok : b.rs[d] = "C"]

EvictedErr(h, s, ph) ==
  IF Resh /\ ph = "resp" THEN CanReceive(h) /\ h \in s.eh
  ELSE CanIssue(h) /\ h \in s.ev

\* returns [s |-> state, just |-> set of holders justified to, has |-> bundle emitted]
ProcessResponses(h, s0, bs) ==
  LET fail(e) == [s |-> [s0 EXCEPT !.out = [k |-> "err", e |-> e]], just |-> {}, has |-> FALSE]
      fin(s)  == LET c == IF CanReceive(h) THEN ComputeResult(h, s) ELSE [k |-> "left"]
                     o == IF c.k # "err" /\ EvictedErr(h, s, "resp") THEN [k |-> "err", e |-> "evicted"] ELSE c
                 IN [s |-> [s EXCEPT !.ph = "fin", !.out = o], just |-> {}, has |-> FALSE]
  IN
  IF ~CanReceive(h) /\ ~LeaveFix THEN fail("phase")       \* finding #10: both guards reject a leaving dealer
  ELSE IF CanReceive(h) /\ s0.ph # "resp" THEN fail("phase")
  ELSE IF ~CanReceive(h) /\ s0.ph \notin {"deal", "resp"} THEN fail("phase")
  ELSE IF ~Fast /\ bs = <<>> /\ CanReceive(h) /\ CompleteSuccess(s0.st) THEN fin(s0)
  ELSE
  LET acc0 == [st |-> s0.st, eh |-> s0.eh, va |-> {}, fc |-> FALSE]
      acc  == FoldLeft(LAMBDA a, b : PRStep(h, a, b), acc0, bs)
      eh1  == IF Fast THEN acc.eh \cup {j \in Holders : j # h /\ j \notin acc.va /\ j \notin acc.eh}
              ELSE acc.eh
      s1   == [s0 EXCEPT !.st = acc.st, !.eh = eh1]
  IN IF ~acc.fc /\ CompleteSuccess(acc.st) THEN fin(s1)
     ELSE
     LET ev1 == s1.ev \cup {d \in Dealers : Cnt({j \in Holders : acc.st[d][j] = "C"}) >= NT}
         js  == IF CanIssue(h) THEN {j \in Holders : acc.st[h][j] = "C"} ELSE {}
         st2 == IF CanIssue(h) THEN [acc.st EXCEPT ![h] = [j \in Holders |-> IF @[j] = "C" THEN "S" ELSE @[j]]] ELSE acc.st
         s2  == [s1 EXCEPT !.ph = "just", !.ev = ev1, !.st = st2]
     IN IF EvictedErr(h, s2, "resp")
        THEN [s |-> [s2 EXCEPT !.out = [k |-> "err", e |-> "evicted"]], just |-> {}, has |-> FALSE]
        ELSE [s |-> s2, just |-> js, has |-> js # {}]

SecOK(d) == d \notin badsec

PJStep(h, acc, b) ==
  IF ~b.auth THEN acc                                     \* dealer index not in OldNodes: skipped
  ELSE IF b.from \in acc.seen THEN [acc EXCEPT !.ev = @ \cup {b.from}]
  ELSE IF CanIssue(h) /\ b.from = h THEN acc
  ELSE IF b.from \in acc.ev THEN acc
  ELSE IF ~b.sid THEN [acc EXCEPT !.ev = @ \cup {b.from}]
  ELSE LET a1 == [acc EXCEPT !.seen = @ \cup {b.from}]
       IN IF DOMAIN b.js = {} /\ ~b.unk THEN a1
          ELSE IF DOMAIN b.js # {} /\ acc.ap[b.from] = 0 THEN [a1 EXCEPT !.ev = @ \cup {b.from}]
          ELSE LET good == {j \in DOMAIN b.js : b.js[j] = "good" /\ b.poly = acc.ap[b.from] /\ (Resh => SecOK(b.from))}
                   bad  == b.unk \/ good # DOMAIN b.js
               IN [a1 EXCEPT !.st[b.from] = [j \in Holders |-> IF j \in good THEN "S" ELSE @[j]],
                             !.vs[b.from] = IF h \in good THEN acc.ap[b.from] ELSE @,
                             !.ev = IF bad THEN @ \cup {b.from} ELSE @]

ProcessJustifications(h, s0, bs) ==
  IF ~CanReceive(h) THEN [s0 EXCEPT !.out = [k |-> "left"]]
  ELSE IF s0.ph # "just" THEN [s0 EXCEPT !.out = [k |-> "err", e |-> "phase"]]
  ELSE
  LET acc0 == [st |-> s0.st, ev |-> s0.ev, vs |-> s0.vs, ap |-> s0.ap, seen |-> {}]
      acc  == FoldLeft(LAMBDA a, b : PJStep(h, a, b), acc0, bs)
      s1   == [s0 EXCEPT !.st = acc.st, !.ev = acc.ev, !.vs = acc.vs]
      good == Cnt({d \in Dealers \ acc.ev : AllTrue(acc.st, d)})
      tgt  == IF Resh THEN OT ELSE NT
  IN IF CanIssue(h) /\ h \in acc.ev THEN [s1 EXCEPT !.out = [k |-> "err", e |-> "evicted"]]
     ELSE IF good < tgt THEN [s1 EXCEPT !.ph = "fin", !.out = [k |-> "err", e |-> "abort"]]
     ELSE [s1 EXCEPT !.ph = "fin", !.out = ComputeResult(h, s1)]

---------------------------------------------------------------------------
(* Faulty-party menus                                                      *)
HH == Holders \ F
HD == Dealers \ F

ShPats ==
  LET base == IF MenuLvl = "full" THEN [HH -> {"G", "B", "M"}]
              ELSE IF MenuLvl = "proto" THEN {[j \in HH |-> "G"]} \cup {[j \in HH |-> IF j = MinOf(HH) THEN "B" ELSE "G"]}
              ELSE {[j \in HH |-> "G"], [j \in HH |-> "B"]}
                   \cup {[j \in HH |-> IF j = x THEN k ELSE "G"] : x \in HH, k \in {"B", "M"}}
  IN {[j \in Holders |-> IF j \in HH THEN s[j] ELSE "G"] : s \in base}

DealMenu(f) ==
  IF f \notin Dealers THEN {<<>>}
  ELSE IF MenuLvl \in {"eq2", "eq2all"} THEN {<<DB(f, 1, 1, AllG, "ok"), DB(f, 2, 2, AllG, "ok")>>}
  ELSE IF MenuLvl = "fc" THEN {<<>>, <<DB(f, 1, 1, AllG, "ok")>>}
  ELSE IF MenuLvl = "fcp" THEN {<<DB(f, 1, 1, AllG, "ok")>>}
                               \cup {<<DB(f, 1, 1, [j \in Holders |-> IF j = x THEN "B" ELSE "G"], "ok")>> : x \in HH}
  ELSE IF MenuLvl = "eq" THEN {<<DB(f, 1, 1, AllG, "ok")>>,
                               <<DB(f, 1, 1, AllG, "ok"), DB(f, 2, 1, AllG, "ok")>>,
                               <<DB(f, 1, 1, AllG, "ok"), DB(f, 2, 2, AllG, "ok")>>}
  ELSE {<<>>}
       \cup {<<DB(f, 1, 1, sh, "ok")>> : sh \in ShPats}
       \cup {<<DB(f, 1, 1, AllG, k)>> : k \in (IF MenuLvl = "proto" THEN {"sid"} ELSE {"sid", "thr", "unk", "author"})
                                                \cup (IF Resh THEN {"sec"} ELSE {})}
       \cup {<<DB(f, 1, 1, AllG, "ok"), DB(f, 2, 1, AllG, "ok")>>,      \* duplicate
             <<DB(f, 1, 1, AllG, "ok"), DB(f, 2, 2, AllG, "ok")>>,      \* conflicting
             <<DB(f, 1, 1, AllG, "sid"), DB(f, 2, 2, AllG, "ok")>>}     \* invalid, then a different valid one

RespBundle(f, c, cs, flaw) ==
  LET dom == IF flaw = "partial" THEN cs
             ELSE IF Fast \/ flaw = "succ" THEN Dealers ELSE cs
  IN [RB(f, c, flaw # "sid", flaw = "unk", [d \in dom |-> IF d \in cs THEN (IF flaw = "oor" THEN "X" ELSE "C") ELSE "S"])
        EXCEPT !.auth = flaw # "author"]

RespMenu(f) ==
  IF f \notin Holders THEN {<<>>}
  ELSE LET O  == Dealers \ {f}
           d0 == IF HD # {} THEN {MinOf(HD)} ELSE {}
           CS == IF MenuLvl = "full" THEN SUBSET O
                 ELSE IF MenuLvl = "proto" THEN {{}, d0}
                 ELSE {{}} \cup {{d} : d \in O} \cup {O}
           FL == IF MenuLvl = "proto" THEN {} ELSE {"sid", "unk", "oor", "author"} \cup (IF Fast THEN {"partial"} ELSE {"succ"})
       IN IF MenuLvl \in {"eq2", "eq2all"} THEN {IF Fast THEN <<RespBundle(f, 1, {}, "ok")>> ELSE <<>>}
          ELSE
          IF MenuLvl = "fc" THEN {<<>>} \cup {<<RespBundle(f, 1, cs, "ok")>> : cs \in {{}} \cup {{d} : d \in O} \cup {O}}
          ELSE
          IF MenuLvl = "fcp" THEN {<<>>, <<RespBundle(f, 1, O, "ok")>>}
          ELSE
          IF MenuLvl = "eq" THEN {<<RespBundle(f, 1, {}, "ok")>>, <<RespBundle(f, 1, d0, "ok")>>,
                                   <<RespBundle(f, 1, d0, "ok"), RespBundle(f, 2, {}, "ok")>>}
          ELSE
          {<<>>}
          \cup {<<RespBundle(f, 1, cs, "ok")>> : cs \in CS}
          \cup {<<RespBundle(f, 1, cs, fl)>> : cs \in {{}, d0}, fl \in FL}
          \cup {<<RespBundle(f, 1, d0, "ok"), RespBundle(f, 2, d0, "ok")>>,    \* duplicate
                <<RespBundle(f, 1, d0, "ok"), RespBundle(f, 2, {}, "ok")>>}    \* conflicting

\* holders that some honest node still holds a complaint of against dealer f
Complainers(f) == {j \in Holders : \E h \in Honest : node[h].st[f][j] = "C"}

JustMenu1(f) ==
       LET C  == Complainers(f)
           g  == [j \in C |-> "good"]
           b  == [j \in C |-> "bad"]
           g1 == IF C = {} THEN g ELSE [j \in {MinOf(C)} |-> "good"]
           gb == IF C = {} THEN g ELSE [j \in C |-> IF j = MinOf(C) THEN "good" ELSE "bad"]
           ga == [j \in Holders |-> "good"]
       IN IF MenuLvl \in {"fc", "fcp", "eq2", "eq2all"} THEN {<<>>, <<JB(f, 1, TRUE, FALSE, g)>>}
          ELSE
          IF MenuLvl = "eq" THEN {<<>>, <<JB(f, 1, TRUE, FALSE, g)>>,
                                   <<JB(f, 1, TRUE, FALSE, g), JB(f, 2, TRUE, FALSE, b)>>}
          ELSE
          {<<>>}
          \cup {<<JB(f, 1, TRUE, FALSE, x)>> : x \in (IF MenuLvl = "proto" THEN {g, b} ELSE {g, b, g1, gb, ga})}
          \cup (IF MenuLvl = "proto" THEN {} ELSE {<<JB(f, 1, FALSE, FALSE, g)>>, <<JB(f, 1, TRUE, TRUE, g)>>,
                                                   <<[JB(f, 1, TRUE, FALSE, g) EXCEPT !.auth = FALSE]>>})
          \cup {
                <<JB(f, 1, TRUE, FALSE, g), JB(f, 2, TRUE, FALSE, g)>>,     \* duplicate
                <<JB(f, 1, TRUE, FALSE, g), JB(f, 2, TRUE, FALSE, b)>>}     \* conflicting


PolysOf(f) == IF f \in DOMAIN fd /\ fd[f] # <<>> THEN {fd[f][i].poly : i \in DOMAIN fd[f]} ELSE {1}
JustMenu(f) ==
  IF f \notin Dealers THEN {<<>>}
  ELSE LET pls == PolysOf(f) IN UNION {{[i \in DOMAIN m |-> JBP(m[i], pl)] : m \in JustMenu1(f)} : pl \in pls}
---------------------------------------------------------------------------
(* Delivery orders: the same list is handed to every node                  *)
Before(a, b) == a.from < b.from \/ (a.from = b.from /\ a.c < b.c)
Asc(S)  == SetToSortSeq(S, Before)
Desc(S) == SetToSortSeq(S, LAMBDA a, b : Before(b, a))
Orders(S) == IF OrdMode = "all" THEN SetToSeqs(S)
             ELSE IF OrdMode = "two" THEN {Asc(S), Desc(S)}
             ELSE {IF dir = "asc" THEN Asc(S) ELSE Desc(S)}

RangeOf(s) == {s[i] : i \in DOMAIN s}
PendAll == UNION {RangeOf(pend[f]) : f \in DOMAIN pend}
NextF == IF F \ DOMAIN pend = {} THEN -1 ELSE MinOf(F \ DOMAIN pend)
Log(r) == IF Rec THEN Append(hist, r) ELSE hist
Ids(bs) == [i \in DOMAIN bs |-> [from |-> bs[i].from, c |-> bs[i].c, honest |-> bs[i].from \notin F]]
NoPend == [f \in {} |-> <<>>]

---------------------------------------------------------------------------
Init ==
  /\ \E sh \in Shapes, fa \in Fasts : \E t \in (IF sh = "fresh" THEN Ts ELSE {0}) :
        LET r == ShapeRec(sh, t)
        IN cf = [shape |-> sh, fast |-> fa, sr |-> r,
                 D |-> {p \in r.P : r.oi[p] >= 0}, H |-> {p \in r.P : r.ni[p] >= 0}]
  /\ F = {} /\ dir = "asc" /\ phase = "setup" /\ node = <<>> /\ pend = NoPend
  /\ fd = <<>> /\ fj = <<>> /\ badsec = {} /\ dbs = {} /\ rbs = {} /\ hist = <<>>

Setup ==
  /\ phase = "setup"
  /\ \E S \in FaultySets, dr \in (IF OrdMode = "glob" THEN {"asc", "desc"} ELSE {"asc"}) :
       /\ F' = S /\ dir' = dr
       /\ node' = [h \in P \ S |-> AfterDeals(h, InitNode(h))]
       /\ hist' = Log([act |-> "Setup", shape |-> Shape, fast |-> Fast, resh |-> Resh, ot |-> OT, nt |-> NT,
                       parties |-> SetToSortSeq({[p |-> p, oi |-> SR.oi[p], ni |-> SR.ni[p]] : p \in P},
                                                LAMBDA a, b : a.p < b.p),
                       faulty |-> SetSeq(S)])
  /\ phase' = "deal" /\ pend' = NoPend
  /\ UNCHANGED <<cf, fd, fj, badsec, dbs, rbs>>

Choose(ph, Menu(_)) ==
  /\ phase = ph /\ NextF # -1
  /\ \E m \in Menu(NextF) : pend' = [f \in DOMAIN pend \cup {NextF} |-> IF f = NextF THEN m ELSE pend[f]]
  /\ UNCHANGED <<cf, F, dir, phase, node, fd, fj, badsec, dbs, rbs, hist>>

ChooseD == Choose("deal", DealMenu)
ChooseR == Choose("resp", RespMenu)
ChooseJ == Choose("just", JustMenu)

DealJson(b) == [from |-> b.from, c |-> b.c, honest |-> b.from \notin F, poly |-> b.poly, sid |-> b.sid,
                thr |-> b.thr, unk |-> b.unk, sec |-> b.sec, sh |-> KV(b.sh), auth |-> b.auth]
RespJson(b) == [from |-> b.from, c |-> b.c, honest |-> b.from \notin F, sid |-> b.sid, unk |-> b.unk, rs |-> KV(b.rs), auth |-> b.auth]
JustJson(b) == [from |-> b.from, c |-> b.c, honest |-> b.from \notin F, poly |-> b.poly, sid |-> b.sid, unk |-> b.unk, js |-> KV(b.js), auth |-> b.auth]
HSeq == SetSeq(Honest)
OutJson(o) == IF o.k = "res" THEN [k |-> "res", e |-> "", qual |-> SetSeq(o.qual), used |-> SetSeq(o.used)]
              ELSE IF o.k = "err" THEN [k |-> "err", e |-> o.e, qual |-> <<>>, used |-> <<>>]
              ELSE [k |-> o.k, e |-> "", qual |-> <<>>, used |-> <<>>]

DealPhase ==
  /\ phase = "deal" /\ NextF = -1
  /\ LET all == {HonestDeal(d) : d \in HD} \cup PendAll
     IN \E bs \in Orders(all) :
        LET r == [h \in Honest |-> ProcessDeals(h, node[h], bs)]
        IN /\ node' = [h \in Honest |-> r[h].s]
           /\ rbs' = {RB(h, 1, TRUE, FALSE, r[h].resp) : h \in {x \in Honest : r[x].has}}
           /\ fd' = pend
           /\ badsec' = {f \in F : \E i \in DOMAIN pend[f] : ~pend[f][i].sec}
           /\ hist' = Log([act |-> "Deal", bundles |-> [i \in DOMAIN bs |-> DealJson(bs[i])],
                           exp |-> [i \in DOMAIN HSeq |->
                                      [h |-> HSeq[i], has |-> r[HSeq[i]].has, resp |-> KV(r[HSeq[i]].resp)]]])
  /\ phase' = "resp" /\ pend' = NoPend
  /\ UNCHANGED <<cf, F, dir, fj, dbs>>

RespPhase ==
  /\ phase = "resp" /\ NextF = -1
  /\ LET all == rbs \cup PendAll
     IN \E bs \in Orders(all) :
        LET r == [h \in Honest |-> ProcessResponses(h, node[h], bs)]
        IN /\ node' = [h \in Honest |-> r[h].s]
           /\ dbs' = {JB(h, 1, TRUE, FALSE, [j \in r[h].just |-> "good"]) : h \in {x \in Honest : r[x].has}}
           /\ hist' = Log([act |-> "Resp", bundles |-> [i \in DOMAIN bs |-> RespJson(bs[i])],
                           exp |-> [i \in DOMAIN HSeq |->
                                      [h |-> HSeq[i], has |-> r[HSeq[i]].has, just |-> SetSeq(r[HSeq[i]].just),
                                       ph |-> r[HSeq[i]].s.ph, out |-> OutJson(r[HSeq[i]].s.out)]]])
  /\ phase' = "just" /\ pend' = NoPend
  /\ UNCHANGED <<cf, F, dir, fd, fj, badsec, rbs>>

\* ---- requirement layer, over ground truth ------------------------------
Res(nd)      == {h \in DOMAIN nd : nd[h].out.k = "res"}
\* dealer f sent exactly one bundle and its deal to honest h is invalid / missing
BadDealTo(f, h) == /\ f \in DOMAIN fd /\ Len(fd[f]) = 1
                   /\ (fd[f][1].sh[h] # "G" \/ (Resh /\ ~fd[f][1].sec))
\* some justification bundle of f (whatever else is wrong with it) reveals a correct share for h
JustifiedTo(fjj, f, h) == \E i \in DOMAIN fjj[f] : /\ h \in DOMAIN fjj[f][i].js /\ fjj[f][i].js[h] = "good" /\ SecOK(f)
                                                     /\ fjj[f][i].poly = fd[f][1].poly
MustOut(fjj)  == {f \in F \cap Dealers : \E h \in HH : BadDealTo(f, h) /\ ~JustifiedTo(fjj, f, h)}
ReqJson(nd, fjj) ==
  [mustOut |-> SetSeq(MustOut(fjj)), honestDealers |-> SetSeq(HD), honestHolders |-> SetSeq(HH),
   allHonest |-> F = {}, noAbort |-> Cnt(HD) >= (IF Resh THEN OT ELSE NT),
   finishers |-> SetSeq(Res(nd))]

JustPhase ==
  /\ phase = "just" /\ NextF = -1
  /\ LET all == dbs \cup PendAll
         act == {h \in Honest : node[h].ph = "just" /\ node[h].out.k = "none"}
     IN \E bs \in Orders(all) :
        LET nd == [h \in Honest |-> IF h \in act THEN ProcessJustifications(h, node[h], bs) ELSE node[h]]
        IN /\ node' = nd
           /\ fj' = pend
           /\ hist' = Log([act |-> "Just", bundles |-> [i \in DOMAIN bs |-> JustJson(bs[i])],
                           exp |-> [i \in DOMAIN HSeq |->
                                      [h |-> HSeq[i], called |-> HSeq[i] \in act, out |-> OutJson(nd[HSeq[i]].out)]],
                           req |-> ReqJson(nd, pend)])
  /\ phase' = "done" /\ pend' = NoPend
  /\ UNCHANGED <<cf, F, dir, fd, badsec, dbs, rbs>>

Next == Setup \/ ChooseD \/ DealPhase \/ ChooseR \/ RespPhase \/ ChooseJ \/ JustPhase
Spec == Init /\ [][Next]_vars

---------------------------------------------------------------------------
(* Requirement layer as invariants of the model                            *)
Done == phase = "done"
Finishers == Res(node)
Agreement == Done => \A a, b \in Finishers :
                 /\ node[a].out.qual = node[b].out.qual
                 /\ node[a].out.used = node[b].out.used
                 /\ node[a].out.polys = node[b].out.polys
SharesOnPoly == Done => \A a \in Finishers : node[a].out.cons
\* fresh: QUAL lists dealers; resharing: QUAL lists new holders, `used` the dealers interpolated
UnjustifiedDealerOut == Done => \A a \in Finishers : MustOut(fj) \cap node[a].out.used = {}
HonestHolderStays == Done => \A a \in Finishers : HH \subseteq node[a].out.qual
\* an honest dealer (it gets < t complaints because at most n-t parties are faulty) is never disqualified:
\* fresh: it is in QUAL; resharing: its deal stays valid at every honest receiver that went through the
\* justification phase (so enough valid deals remain and nobody aborts)
HonestDealerStays ==
  Done => /\ (~Resh => \A a \in Finishers : HD \subseteq node[a].out.qual)
          /\ (Resh => \A h \in HH : /\ node[h].out.k # "err"
                                    /\ \A d \in HD : d \notin node[h].ev /\ (node[h].ph = "fin" => AllTrue(node[h].st, d)))
KeyUnchanged == (Done /\ Resh) => \A a \in Finishers : node[a].out.used \cap badsec = {}
AllHonestAllFinish == (Done /\ F = {}) => \A h \in Holders : node[h].out.k = "res"
NoHonestError == Done => \A h \in Honest : node[h].out.k # "err"

Emit == (Rec /\ Done) => PrintT(<<"TRACE", ToJson(hist)>>)
=============================================================================
