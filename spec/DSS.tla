-------------------------------- MODULE DSS --------------------------------
(* Distributed Schnorr signature collector (sign/dss/dss.go), C12.           *)
(*                                                                         *)
(* Each participant p owns one dss.DSS object for the session (long-term     *)
(* distributed key, one-time distributed key, message).  Abstract state of   *)
(* the object:                                                               *)
(*     acc[p]     set of signer indices whose partial signature it holds     *)
(*     signed[p]  it has issued its own partial signature                    *)
(* Actions (one per public call):                                            *)
(*     Sign(p)                   PartialSig()                                *)
(*     Receive(p, kind, i)       ProcessPartialSig(ps) with ps of a kind:    *)
(*        "valid"        the partial signer i issued for this session/message*)
(*        "dup"          the same partial again (i already held)             *)
(*        "badvalue"     value altered, properly re-signed by signer i       *)
(*        "forged"       signer signature not made with i's long-term key    *)
(*        "othersession" i's genuine partial of a session with another       *)
(*                       one-time key                                        *)
(*        "othermsg"     i's genuine partial for another message             *)
(*        "badindex"     index field >= n                                    *)
(*     (Signature() and EnoughPartialSig() are observed after every step.)   *)
(*     VerifyAll(p)              final phase: all n participants verify the   *)
(*                               signature p derived, concurrently            *)
(*                                                                         *)
(* Requirement (C12): a partial is accepted iff it is valid and its signer   *)
(* is not yet held; nothing else ever contributes; Signature succeeds iff    *)
(* |acc| >= t; every participant derives the same signature.  The last point *)
(* embeds Shamir: over the tiny field Z_Q the partials are shares of the     *)
(* polynomial r + h*a (r, a: one-time / long-term sharing polynomials, h:    *)
(* challenge) and any t of them interpolate to r(0) + h*a(0).                *)
EXTENDS Integers, Sequences, FiniteSets, FiniteSetsExt, TLC, Json

CONSTANTS N,          \* participants 0..N-1
          TSet,       \* thresholds to explore
          MaxBad,     \* injected bad / duplicate / repeated calls per participant
          BadKinds,   \* subset of {"dup","badvalue","forged","othersession","othermsg","badindex","resign"}
          BadFrom,    \* claimed signers of the injected bad partials
          Joint,      \* TRUE: the participants JointParts act (model check); FALSE: one focus participant (generator)
          JointParts,
          Gap,        \* the distributed keys were generated with threshold t - Gap (Gap >= 0): the DSS threshold t
                      \* is the CALLER's and may be stricter than the DKG's; it is t that counts
          MsgSet,     \* message classes of the session: subset of {"nil","empty","b1","text","b64","b4096"}
          FocusSet,   \* generator: the focus participant is one of these
          SelfRecv,   \* a participant may be handed its own partial (issued by a second object of its own)
          L,          \* bound on Len(hist) (generator)
          EmitMode    \* "none" | "done" (every maximal behaviour) | "len" (at Len(hist) = L) | "tour" (hist kept, EmitEdge prints)

VARIABLES t, msg, focus, acc, signed, bad, delivered, hist
vars == <<t, msg, focus, acc, signed, bad, delivered, hist>>

Idx == 0..N-1

-----------------------------------------------------------------------------
(* the threshold algebra, over the tiny field of module Shamir               *)
Q == 11
ASSUME N < Q
Sh == INSTANCE Shamir WITH Mode <- "exact", P <- 23, Q <- 11, G <- 4, NSet <- {N}, TMax <- N,
        CoefVals <- {0}, Bases <- {0}, Start <- "honest", Muts <- {}, Order <- "any", Surplus <- 0,
        MaxDup <- 0, MaxNil <- 0, MaxNilV <- 0, Rich <- 99, CoefVals2 <- {0}, Order2 <- "any", MaxNil2 <- 0,
        WithCheck <- FALSE, L <- 0, EmitAll <- FALSE, ObsAll <- FALSE,
        t <- t, n <- N, c <- <<>>, c2 <- <<>>, b <- 0, slice <- <<>>, hist <- <<>>
APoly(tt) == [j \in 1..tt |-> (2 * j + 1) % Q]      \* long-term sharing polynomial  (secret alpha = a(0))
RPoly(tt) == [j \in 1..tt |-> (3 * j + 2) % Q]      \* one-time sharing polynomial   (secret beta  = r(0))
Chal      == {0, 1, 7}                              \* challenges h = H(R || A || m)
SPoly(tt, h) == Sh!SeqAdd(RPoly(tt), Sh!SeqScale(APoly(tt), h))
Partial(tt, h, i) == (Sh!Share(RPoly(tt), i) + h * Sh!Share(APoly(tt), i)) % Q    \* beta_i + h * alpha_i
\* the response scalar a combiner derives from the partials it holds: sort by index, first t
FirstT(S, tt) == {i \in S : Cardinality({j \in S : j < i}) < tt}
Gamma(S, tt, h) == Sh!LagrangeAt0(SPoly(tt, h), FirstT(S, tt))

\* partial i is the share i of r + h*a, and ANY t of them give beta + h*alpha
ASSUME \A tt \in TSet : \A h \in Chal :
         /\ \A i \in Idx : Partial(tt, h, i) = Sh!Share(SPoly(tt, h), i)
         /\ \A S \in kSubset(tt, Idx) : Sh!LagrangeAt0(SPoly(tt, h), S) = (RPoly(tt)[1] + h * APoly(tt)[1]) % Q

\* keys of a LOWER threshold: t partials are then more shares than the degree needs - still beta + h*alpha
ASSUME \A tt \in TSet : (tt - Gap >= 1) => \A h \in Chal : \A S \in kSubset(tt, Idx) :
         Sh!LagrangeAt0(SPoly(tt - Gap, h), S) = (RPoly(tt - Gap)[1] + h * APoly(tt - Gap)[1]) % Q

-----------------------------------------------------------------------------
Parts == IF Joint THEN JointParts ELSE {focus}

\* MESSAGES.  The message of a session is an arbitrary byte string ("all messages"): the classes
\* are the nil slice, the non-nil empty string, 1 byte, a 24-byte text, 64 and 4096 bytes.  A
\* partial for ANY other message must be rejected; the other message is taken relative to the
\* session's: the empty string / one byte (empty vs 1-byte pair), the message without its last
\* byte (prefix), with one more byte (extension), with its last byte changed (flip).  nil and
\* the empty string are the same message.
MsgLen(m) == CASE m = "nil" -> 0 [] m = "empty" -> 0 [] m = "b1" -> 1 [] m = "text" -> 24
               [] m = "b64" -> 64 [] m = "b4096" -> 4096
OtherVariants(m) == {"ext"} \cup (IF MsgLen(m) = 0 THEN {"b1"} ELSE {"empty", "flip"})
                            \cup (IF MsgLen(m) >= 2 THEN {"prefix"} ELSE {})

Init ==
  /\ t \in TSet /\ msg \in MsgSet /\ t - Gap >= 1
  /\ focus \in (IF Joint THEN {0} ELSE FocusSet)
  /\ acc = [p \in Idx |-> {}] /\ signed = [p \in Idx |-> FALSE] /\ bad = [p \in Idx |-> 0]
  /\ delivered = [p \in Idx |-> {}]
  /\ hist = <<[op |-> "new", n |-> N, t |-> t, tk |-> t - Gap, p |-> focus, msg |-> msg]>>

Enough(p) == Cardinality(acc[p]) >= t

LogV(op, p, kind, v, i, res, acc2, signed2) ==
  IF EmitMode = "none" THEN hist' = hist
  ELSE hist' = Append(hist, [op |-> op, p |-> p, kind |-> kind, var |-> v, from |-> i, res |-> res,
                             acc |-> acc2, signed |-> signed2,
                             enough |-> Cardinality(acc2) >= t])

Log(op, p, kind, i, res, acc2, signed2) == LogV(op, p, kind, "", i, res, acc2, signed2)

Sign(p) ==
  /\ ~signed[p]
  /\ signed' = [signed EXCEPT ![p] = TRUE]
  /\ acc' = [acc EXCEPT ![p] = @ \cup {p}]
  /\ delivered' = [delivered EXCEPT ![p] = @ \cup {p}]
  /\ Log("sign", p, "first", p, "ok", acc[p] \cup {p}, TRUE)
  /\ UNCHANGED <<t, msg, focus, bad>>

\* a valid partial of a signer not yet held: accepted
RecvValid(p, i) ==
  /\ i \notin acc[p]
  /\ (i = p) => (SelfRecv /\ ~signed[p])
  /\ acc' = [acc EXCEPT ![p] = @ \cup {i}]
  /\ delivered' = [delivered EXCEPT ![p] = @ \cup {i}]
  /\ Log("recv", p, "valid", i, "accept", acc[p] \cup {i}, signed[p])
  /\ UNCHANGED <<t, msg, focus, signed, bad>>

\* everything else is rejected and leaves the object unchanged
RecvBad(p, kind, i) ==
  /\ bad[p] < MaxBad /\ kind \in BadKinds
  /\ CASE kind = "dup"      -> i \in acc[p] /\ (i = p => SelfRecv)
       [] kind = "badindex" -> i \in {N, N + 1, -1}          \* -1 stands for the largest uint32
       [] kind = "resign"   -> i = p /\ signed[p]
       [] OTHER             -> i \in BadFrom /\ (i = p => SelfRecv)
  /\ bad' = [bad EXCEPT ![p] = @ + 1]
  /\ IF kind = "resign"
     THEN Log("sign", p, "again", p, "ok", acc[p], signed[p])
     ELSE IF kind = "othermsg"
     THEN \E v \in OtherVariants(msg) : LogV("recv", p, kind, v, i, "reject", acc[p], signed[p])
     ELSE Log("recv", p, kind, i, "reject", acc[p], signed[p])
  /\ UNCHANGED <<t, msg, focus, acc, signed, delivered>>

\* nothing but the final phase is left for p: signed, every valid partial held, budget spent
Exhausted(p) == /\ signed[p] /\ bad[p] = MaxBad
                /\ \A i \in Idx : i \in acc[p]
Finished == EmitMode # "none" /\ Len(hist) > 1 /\ hist[Len(hist)].op = "verifyall"

\* FINAL PHASE (generator only): the signature p derived is handed to ALL n participants, who verify
\* it at the same time as an ordinary EdDSA / Schnorr signature under the distributed public key.
\* It must verify for each of them: p holds >= t valid partials, so by AllSignaturesEqual and the
\* ASSUME above its response scalar is beta + h * alpha.
VerifyAll(p) ==
  /\ EmitMode # "none" /\ ~Finished
  /\ Enough(p)
  /\ Exhausted(p) \/ Len(hist) = L - 1
  /\ hist' = Append(hist, [op |-> "verifyall", p |-> p, kind |-> "concurrent", var |-> "", from |-> N, res |-> "valid",
                            acc |-> acc[p], signed |-> signed[p], enough |-> TRUE])
  /\ UNCHANGED <<t, msg, focus, acc, signed, bad, delivered>>

Next ==
  /\ (EmitMode = "none" \/ Len(hist) < L)
  /\ ~Finished
  /\ \E p \in Parts :
       \/ Sign(p)
       \/ \E i \in Idx : RecvValid(p, i)
       \/ \E kind \in BadKinds : \E i \in Idx \cup {N, N + 1, -1} : RecvBad(p, kind, i)
       \/ VerifyAll(p)

Spec == Init /\ [][Next]_vars

View == <<t, msg, focus, acc, signed, bad, delivered>>

-----------------------------------------------------------------------------
TypeOK == /\ t \in TSet /\ focus \in Idx /\ msg \in {"nil", "empty", "b1", "text", "b64", "b4096"}
          /\ \A p \in Idx : acc[p] \subseteq Idx /\ bad[p] \in 0..MaxBad

\* exactly the valid partials delivered (and the own one) are held: nothing invalid, forged,
\* foreign, duplicated or out of range ever contributes
OnlyValidContribute == \A p \in Idx : acc[p] = delivered[p] /\ (signed[p] => p \in acc[p])

\* a signature needs t distinct valid partials
NoSigBelowT == \A p \in Idx : Enough(p) => Cardinality(delivered[p]) >= t

\* whichever partials each combiner holds, all combiners derive the same response scalar
AllSignaturesEqual ==
  \A h \in Chal : \A p, q \in Idx :
     (Enough(p) /\ Enough(q)) =>
        /\ Gamma(acc[p], t, h) = Gamma(acc[q], t, h)
        /\ Gamma(acc[p], t, h) = (RPoly(t)[1] + h * APoly(t)[1]) % Q

\* rejected input never changes the object
RejectIsNoop == [][\A p \in Idx : (bad'[p] > bad[p]) => (acc'[p] = acc[p] /\ signed'[p] = signed[p])]_vars

Done == Finished /\ \A p \in Parts : Exhausted(p)
Emit == ((EmitMode = "done" /\ (Done \/ Len(hist) = L)) \/ (EmitMode = "len" /\ Len(hist) = L))
          => PrintT(<<"TRACE", ToJson(hist)>>)
\* transition tour: with VIEW View every abstract state is reached once (shortest history) and
\* every transition of the reduced graph is printed as prefix + edge
EmitEdge == PrintT(<<"EDGE", ToJson(hist')>>)
=============================================================================
