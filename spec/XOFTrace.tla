------------------------------ MODULE XOFTrace ------------------------------
(* Trace validation (code -> spec) for spec/XOF.tla.                        *)
(* The Go recorder (harness/internal/xof/record.go) drives real handles     *)
(* with random operations and logs, per call, the arguments, the bytes      *)
(* returned, and a projection of the real state: the bytes a Clone of the   *)
(* handle squeezes next (state.probe).                                      *)
(* A log is accepted iff it is a behaviour of XOF for SOME interpretation of*)
(* the uninterpreted output function: `mem` accumulates every byte learnt   *)
(* about Out(impl, seed, items)[position]; a later observation of the same  *)
(* (transcript, position) -- on another handle, with another chunking, after*)
(* a clone, a reset, in another trace of the file -- must agree.            *)
(* In trace mode seeds are byte sequences and data items are <<"b", byte>>. *)
EXTENDS XOF, IOUtils

Trace == ndJsonDeserialize(IOEnv.TRACE_FILE)

VARIABLES l,      \* next trace line
          impl,   \* implementation the current trace was recorded from
          mem     \* transcript -> (position -> byte)
tvars == <<hs, lg, hist, l, impl, mem>>

E == Trace[l]
IsEvent(ev) == l <= Len(Trace) /\ Trace[l].ev = ev /\ l' = l + 1

TrOf(hr) == [impl |-> impl, seed |-> hr.seed, items |-> hr.items]
Known(m, t, p) == t \in DOMAIN m /\ p \in DOMAIN m[t]
Agrees(m0, t0, p0, bs0) == LET m == m0  t == t0  p == p0  bs == bs0 IN
  \A i \in 1..Len(bs) : Known(m, t, p + i - 1) => m[t][p + i - 1] = bs[i]
Learn(m0, t0, p0, bs0) == LET m == m0  t == t0  p == p0  bs == bs0 IN
  IF Len(bs) = 0 THEN m ELSE
  LET old == IF t \in DOMAIN m THEN m[t] ELSE <<>>
      new == [q \in (DOMAIN old) \cup {p + i - 1 : i \in 1..Len(bs)} |->
                IF q >= p /\ q < p + Len(bs) THEN bs[q - p + 1] ELSE old[q]]
  IN [u \in (DOMAIN m) \cup {t} |-> IF u = t THEN new ELSE m[u]]

(* the logged projection of the real post-state must agree with what is     *)
(* known about the predicted (transcript, position); then it is learnt      *)
Probe(m0, h) == LET m == m0 IN
  IF hs'[h].st # "ok" THEN mem' = m
  ELSE /\ Agrees(m, TrOf(hs'[h]), hs'[h].pos, E.state.probe)
       /\ mem' = Learn(m, TrOf(hs'[h]), hs'[h].pos, E.state.probe)

Free(h) == hs[h].st = "unspec"        \* Reset of a clone happened: nothing is predicted
Bytes(d) == [i \in 1..Len(d) |-> <<"b", d[i]>>]

TNew   == IsEvent("New") /\ E.ret.st = "ok" /\ New(E.args.h, E.args.seed) /\ Probe(mem, E.args.h) /\ UNCHANGED impl
TWrite == /\ IsEvent("Write") /\ E.ret.st = "ok" /\ UNCHANGED impl
          /\ LET h == E.args.h IN
             IF Free(h) THEN UNCHANGED <<hs, mem>>
             ELSE IF hs[h].mode = "abs" THEN Write(h, Bytes(E.args.data)) /\ Probe(mem, h)
             ELSE \* a Write accepted in squeeze mode: the property does not say what follows
                  /\ Live(h) /\ hs' = [hs EXCEPT ![h].st = "unspec"] /\ UNCHANGED mem
TWritePanic ==        \* refused Write: only in squeeze mode, and the handle is unchanged
          /\ IsEvent("Write") /\ E.ret.st = "panic" /\ UNCHANGED impl
          /\ LET h == E.args.h IN
             /\ hs[h].st \in {"ok", "unspec"}
             /\ (Live(h) => hs[h].mode = "sq")
             /\ UNCHANGED hs /\ Probe(mem, h)
Squeeze(ev) ==
          /\ IsEvent(ev) /\ E.ret.st = "ok" /\ UNCHANGED impl
          /\ LET h == E.args.h  n == E.args.n  out == E.ret.out IN
             IF Free(h) THEN UNCHANGED <<hs, mem>>
             ELSE /\ Read(h, n) /\ Len(out) = n
                  /\ Agrees(mem, TrOf(hs[h]), hs[h].pos, out)
                  /\ Probe(Learn(mem, TrOf(hs[h]), hs[h].pos, out), h)
TRead   == Squeeze("Read")
TXor    == Squeeze("Xor")             \* the recorder logs dst (+) src
TReseed == /\ IsEvent("Reseed") /\ E.ret.st = "ok" /\ UNCHANGED impl
           /\ IF Free(E.args.h) THEN UNCHANGED <<hs, mem>> ELSE Reseed(E.args.h) /\ Probe(mem, E.args.h)
TReset  == /\ IsEvent("Reset") /\ UNCHANGED impl
           /\ IF Free(E.args.h) THEN UNCHANGED <<hs, mem>>
              ELSE /\ (hs[E.args.h].fac => E.ret.st = "ok")
                   /\ Reset(E.args.h) /\ Probe(mem, E.args.h)
TClone  == IsEvent("Clone") /\ E.ret.st = "ok" /\ UNCHANGED impl /\ Clone(E.args.a, E.args.h) /\ Probe(mem, E.args.h)
TSep    == /\ IsEvent("reset")        \* next trace of the file: all handles gone, knowledge kept
           /\ hs' = [h \in Handles |-> NilH] /\ impl' = E.args.impl /\ UNCHANGED mem

TraceInit == /\ hs = [h \in Handles |-> NilH] /\ lg = [h \in Handles |-> <<>>] /\ hist = <<>>
             /\ l = 1 /\ impl = "" /\ mem = <<>>
TraceNext == /\ (TNew \/ TWrite \/ TWritePanic \/ TRead \/ TXor \/ TReseed \/ TReset \/ TClone \/ TSep)
             /\ UNCHANGED <<lg, hist>>
TraceSpec == TraceInit /\ [][TraceNext]_tvars

Mark == (TLCGet(1) < l) => TLCSet(1, l)
TraceAccepted == IF TLCGet(1) = Len(Trace) + 1 THEN TRUE
                 ELSE PrintT(<<"REJECTED_AT", TLCGet(1)>>) /\ FALSE
ASSUME TLCSet(1, 0)
=============================================================================
