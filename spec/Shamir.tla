------------------------------- MODULE Shamir -------------------------------
(* Shamir secret sharing and polynomial commitments (share/poly.go), C07.    *)
(*                                                                         *)
(* The model computes in a REAL tiny group: scalars are Z_Q, points are the  *)
(* elements G^x mod P of the order-Q subgroup of Z_P^* (written as numbers   *)
(* 1..P-1, group law = multiplication mod P).  kyber's own generic code runs *)
(* over exactly this group (p256.ResidueGroup.SetParams(P,Q,R,G)), so every  *)
(* value below is compared numerically with the library's (replay "exact").  *)
(*                                                                         *)
(* State: the dealer's polynomial `c` (coefficients, c[1] = secret), the     *)
(* commitment base `b`, the number of shares `n`, and the caller's share     *)
(* slice `slice`.  An entry of the slice is                                  *)
(*      -1        a nil pointer                                              *)
(*      i         the share with index i  (value f(i+1)),   0 <= i < n       *)
(*      100 + i   a share with index i whose value field is nil              *)
(* Actions: Deal (Init), the caller-side slice edits SetNil / NilV / Swap /  *)
(* Drop / Append (surplus, duplicates, nil entries), and the observations    *)
(* Recover{Secret,Commit,PriPoly,PubPoly}, Check, Eval, Commit, PolyAdd,     *)
(* PolyMul whose expected results are computed here (Lagrange interpolation  *)
(* in Z_Q) and shipped in `hist` for the Go replayer.                        *)
(*                                                                         *)
(* Modes                                                                    *)
(*   "exact"  deal + slice edits; obs = results of the four Recover* calls   *)
(*   "check"  deal + CheckAll: verdict of Check(i, v) for ALL i, v; Eval     *)
(*   "arith"  two polynomials; Add / Mul and their commitments               *)
(*   "shape"  no polynomial (lifted replay on the big groups): t, n, slice   *)
(*            edits; obs = verdict ok/refused only                           *)
EXTENDS Integers, Sequences, FiniteSets, FiniteSetsExt, TLC, Json

CONSTANTS Mode,
          P, Q, G,      \* group parameters (ignored in mode "shape")
          NSet,         \* numbers of shares n to deal
          TMax,         \* thresholds 1..min(TMax, n)
          CoefVals,     \* coefficient menu (0..Q-1 = all polynomials)
          Bases,        \* base exponents: 0 = nil (standard base), k = explicit point G^k
          Start,        \* "honest": the slice is PriPoly.Shares(n);  "empty": the caller assembles it
          Muts,         \* enabled slice edits \subseteq {"nil","nilv","swap","drop","append"}
          Order,        \* "append" adds: "any" entry | "increasing": a share above all earlier indices |
                        \* "positional": at position k either share k-1 or a nil pointer
          Surplus,      \* slice length <= n + Surplus
          MaxDup,       \* number of duplicated entries allowed
          MaxNil,       \* number of nil pointers allowed
          MaxNilV,      \* number of nil-valued shares allowed
          Rich,         \* the five limits above hold for n <= Rich; for larger n the plain universe:
          CoefVals2,    \*   coefficient menu,
          Order2,       \*   order of appends,
          MaxNil2,      \*   nil pointers (no surplus, duplicates or nil values)
          WithCheck,    \* mode "exact": also take the CheckAll step after Deal
          L,            \* bound on Len(hist)
          EmitAll,      \* TRUE: print at every distinct state (BFS + VIEW); FALSE: at Len(hist) = L
          ObsAll        \* TRUE: expected observations after EVERY step of a printed behaviour;
                        \* FALSE: only for its final state (every prefix state is printed on its own)

VARIABLES t, n, c, c2, b, slice, hist
vars == <<t, n, c, c2, b, slice, hist>>

ASSUME Mode = "shape" \/ \A k \in NSet : k < Q     \* evaluation points 1..n distinct and non-zero in Z_Q

-----------------------------------------------------------------------------
(* Z_Q and the subgroup of Z_P^*                                             *)
\* TLC keeps [x \in S |-> e] as a lazy function whose body is re-evaluated at every
\* application; @@ converts to an explicit function, so Force(f) evaluates each entry once.
Force(f) == f @@ <<>>
Md(x)   == x % Q
InvTab  == [a \in 1..Q-1 |-> CHOOSE x \in 1..Q-1 : (a * x) % Q = 1]
Inv(a)  == InvTab[Md(a)]
RECURSIVE PowMod(_, _, _)
PowMod(a, e, m) == IF e = 0 THEN 1 ELSE (a * PowMod(a, e - 1, m)) % m
PowTab  == [a \in 1..P-1 |-> [e \in 0..Q-1 |-> PowMod(a, e, P)]]   \* constant: evaluated once by TLC
GTab    == PowTab[G]                                  \* G^x
PExp(pt, k) == PowTab[pt][Md(k)]                     \* Point.Mul(k, pt)
PAdd(x, y)  == (x * y) % P                           \* Point.Add
BasePt(bb)  == IF bb = 0 THEN G ELSE GTab[bb]        \* nil base = standard base

-----------------------------------------------------------------------------
(* polynomials: sequences of coefficients, lowest degree first               *)
RECURSIVE Horner(_, _, _)
Horner(p, x, j) == IF j > Len(p) THEN 0 ELSE Md(p[j] + x * Horner(p, x, j + 1))
EvalAt(p, x)  == Horner(p, x, 1)
Share(p, i)   == EvalAt(p, i + 1)                    \* PriPoly.Eval(i).V
Commits(p, bb) == Force([j \in 1..Len(p) |-> PExp(BasePt(bb), p[j])])     \* PriPoly.Commit(base)
RECURSIVE PHorner(_, _, _)
PHorner(cm, x, j) == IF j > Len(cm) THEN 1 ELSE PAdd(cm[j], PExp(PHorner(cm, x, j + 1), x))
PubShare(cm, i) == PHorner(cm, i + 1, 1)             \* PubPoly.Eval(i).V

SeqAdd(x, y)  == Force([k \in 1..Len(x) |-> Md(x[k] + y[k])])
SeqScale(x, a) == Force([k \in 1..Len(x) |-> Md(x[k] * a)])
At(p, k)      == IF k >= 1 /\ k <= Len(p) THEN p[k] ELSE 0
MulLin(p, a)  == Force([k \in 1..Len(p) + 1 |-> Md(At(p, k - 1) - a * At(p, k))])   \* p * (X - a)
PolyMul(x, y) == Force([k \in 1..Len(x) + Len(y) - 1 |->
                    Md(FoldSet(LAMBDA i, acc : acc + x[i] * At(y, k + 1 - i), 0, 1..Len(x)))])
PSeqAdd(x, y) == Force([k \in 1..Len(x) |-> PAdd(x[k], y[k])])                     \* PubPoly.Add

(* Lagrange interpolation through the shares with indices S (x = i + 1)      *)
LagCoef(S, i) == FoldSet(LAMBDA j, acc : Md(acc * (j + 1) * Inv((j + 1) - (i + 1))), 1, S \ {i})
LagrangeAt0(p, S) == Md(FoldSet(LAMBDA i, acc : acc + Share(p, i) * LagCoef(S, i), 0, S))
LagBasis(S, i) ==     \* prod_{j # i} (X - x_j) / (x_i - x_j)
  LET num == FoldSet(LAMBDA j, acc : MulLin(acc, j + 1), <<1>>, S \ {i})
      den == FoldSet(LAMBDA j, acc : Md(acc * ((i + 1) - (j + 1))), 1, S \ {i})
  IN SeqScale(num, Inv(den))
Interp(p, S) == FoldSet(LAMBDA i, acc : SeqAdd(acc, SeqScale(LagBasis(S, i), Share(p, i))),
                        Force([k \in 1..Cardinality(S) |-> 0]), S)
\* the same in the exponent: what RecoverCommit / RecoverPubPoly do with public shares
LagrangeAt0Pub(cm, S) == FoldSet(LAMBDA i, acc : PAdd(acc, PExp(PubShare(cm, i), LagCoef(S, i))), 1, S)
InterpPub(cm, S) ==
  FoldSet(LAMBDA i, acc : LET bs == LagBasis(S, i)  ps == PubShare(cm, i) IN
                          Force([k \in 1..Cardinality(S) |-> PAdd(acc[k], PExp(ps, bs[k]))]),
          Force([k \in 1..Cardinality(S) |-> 1]), S)

-----------------------------------------------------------------------------
(* the caller's share slice                                                  *)
IsIdx(e)   == e >= 0 /\ e < 100
IsNilV(e)  == e >= 100
IdxOf(e)   == IF e >= 100 THEN e - 100 ELSE e
Present(s) == {s[k] : k \in {k \in 1..Len(s) : IsIdx(s[k])}}   \* distinct usable share indices
NumNil(s)  == Cardinality({k \in 1..Len(s) : s[k] = -1})
NumNilV(s) == Cardinality({k \in 1..Len(s) : IsNilV(s[k])})
NumDup(s)  == Cardinality({k \in 1..Len(s) : s[k] # -1 /\ \E j \in 1..k-1 : s[j] # -1 /\ IdxOf(s[j]) = IdxOf(s[k])})
Enough(s, tt) == Cardinality(Present(s)) >= tt
SliceOK(s) == IF n <= Rich
              THEN /\ Len(s) <= n + Surplus
                   /\ NumNil(s) <= MaxNil /\ NumNilV(s) <= MaxNilV /\ NumDup(s) <= MaxDup
              ELSE /\ Len(s) <= n /\ NumNil(s) <= MaxNil2 /\ NumNilV(s) = 0 /\ NumDup(s) = 0
OrderOf(nn) == IF nn <= Rich THEN Order ELSE Order2

KSub(k, S) == IF k > Cardinality(S) THEN {} ELSE kSubset(k, S)

\* REQUIREMENT (C07): >= t distinct usable shares => the dealer's secret, commitment and
\* polynomials; fewer => refused.  That "the dealer's values" is what Lagrange
\* interpolation through ANY t (or more) of the n shares yields is invariant PolySound,
\* evaluated by TLC for every dealt polynomial; the per-slice expectation is then the
\* verdict plus those values.
RecoverObs(s) ==
  IF Mode = "shape" THEN [enough |-> Enough(s, t)]
  ELSE IF ~Enough(s, t) THEN [enough |-> FALSE]
  ELSE LET cm == Commits(c, b) IN
       [enough |-> TRUE,
        rs |-> c[1],        \* RecoverSecret
        rc |-> cm[1],       \* RecoverCommit
        rp |-> c,           \* RecoverPriPoly coefficients
        rq |-> cm]          \* RecoverPubPoly commitments

-----------------------------------------------------------------------------
Polys(tt, nn) == [1..tt -> IF nn <= Rich THEN CoefVals ELSE CoefVals2]
Honest(nn) == [k \in 1..nn |-> k - 1]                \* PriPoly.Shares(n)
First(nn)  == IF Start = "honest" THEN Honest(nn) ELSE <<>>

(* ROUTES.  The same abstract polynomial can be obtained through every exported *)
(* constructor; whichever route built it, the object must answer identically.   *)
(*   PriPoly: "coeffs"  CoefficientsToPriPoly(c)        "newpri"  NewPriPoly(t, c[1], stream)   *)
(*            "recover" RecoverPriPoly(shares recS)     "add"     (sa) + (sb), sa + sb = c      *)
(*            "mul"     <<mulk>> * mulc, mulk * mulc = c                                        *)
(*   PubPoly: "commit"  pri.Commit(base)   "newpub" NewPubPoly(g, base, Info() commits)         *)
(*            "recover" RecoverPubPoly(public shares recS)   "add" Commit(sa) + Commit(sb)      *)
(* (the base of a RECOVERED PubPoly is documented as meaningless: Check/Info base not judged)   *)
Routes == {[pri |-> "coeffs", pub |-> "commit"], [pri |-> "newpri", pub |-> "newpub"],
           [pri |-> "recover", pub |-> "recover"], [pri |-> "add", pub |-> "add"],
           [pri |-> "mul", pub |-> "newpub"]}
RouteSeq == <<[pri |-> "coeffs", pub |-> "commit"], [pri |-> "newpri", pub |-> "newpub"],
              [pri |-> "recover", pub |-> "recover"], [pri |-> "add", pub |-> "add"],
              [pri |-> "mul", pub |-> "newpub"]>>
SplitA(p)  == Force([j \in 1..Len(p) |-> (3 * j + 1) % Q])
SplitB(p)  == Force([j \in 1..Len(p) |-> Md(p[j] - SplitA(p)[j])])
MulK       == 2
MulC(p)    == SeqScale(p, Inv(MulK))
RecS(tt, nn) == nn - tt .. nn - 1                      \* the LAST t share indices
RecSeq(tt, nn) == [k \in 1..tt |-> nn - tt + k - 1]

\* lifted Check cases (mode "shape", polynomial with generic coefficients): the share's own
\* value is on the committed polynomial, value + 1 is not, and the value of another share
\* j # i is on it exactly when the polynomial is constant (t = 1).
ShapeChecks(tt, nn) ==
  LET idx == <<0, tt - 1, nn - 1>>
      all == [m \in 1..9 |->
                LET i == idx[((m - 1) \div 3) + 1]  kd == <<"own", "plus1", "other">>[((m - 1) % 3) + 1] IN
                [i |-> i, kind |-> kd, j |-> (i + 1) % nn,
                 ok |-> CASE kd = "own" -> TRUE [] kd = "plus1" -> FALSE [] OTHER -> (tt = 1)]]
  IN SelectSeq(all, LAMBDA r : r.kind # "other" \/ nn > 1)

DealRec(tt, nn, cc, bb) ==
  IF Mode = "shape"
  THEN [op |-> "deal", t |-> tt, n |-> nn, slice |-> First(nn), checks |-> ShapeChecks(tt, nn),
        routes |-> RouteSeq, recs |-> RecSeq(tt, nn)]
  ELSE LET cm == Commits(cc, bb) IN
       [op |-> "deal", t |-> tt, n |-> nn, c |-> cc, b |-> bb, slice |-> First(nn),
        shares  |-> [k \in 1..nn |-> Share(cc, k - 1)],
        commits |-> cm,
        pubs    |-> [k \in 1..nn |-> PubShare(cm, k - 1)]]

\* Init only chooses the parameters (cheap); the Deal action computes the dealt values.
\* TLC generates initial states on one thread but successors (and the invariants on
\* them) on all workers, and PolySound / CommitBinds are the expensive part.
Init ==
  \E nn \in NSet : \E tt \in 1..(IF TMax < nn THEN TMax ELSE nn) :
    /\ t = tt /\ n = nn /\ slice = First(nn) /\ hist = <<>>
    /\ IF Mode = "shape"
       THEN c = <<>> /\ c2 = <<>> /\ b = 0
       ELSE \E cc \in Polys(tt, nn) : \E bb \in Bases :
            /\ c = cc /\ b = bb
            /\ IF Mode = "arith"
               THEN \E t2 \in 1..TMax : \E dd \in Polys(t2, nn) : c2 = dd
               ELSE c2 = <<>>

Deal ==
  /\ Len(hist) = 0
  /\ hist' = <<DealRec(t, n, c, b)>>
  /\ UNCHANGED <<t, n, c, c2, b, slice>>

Edit(op, k, e, s0) ==
  LET s == s0 IN      \* bind: TLC re-evaluates operator arguments at every use
  /\ SliceOK(s)
  /\ slice' = s
  /\ hist' = Append(hist, [op |-> op, k |-> k, e |-> e, slice |-> s])
  /\ UNCHANGED <<t, n, c, c2, b>>

RemoveAt(s, k) == [j \in 1..Len(s) - 1 |-> IF j < k THEN s[j] ELSE s[j + 1]]

SliceNext ==
  \/ "nil" \in Muts /\ \E k \in 1..Len(slice) :
        slice[k] # -1 /\ Edit("setnil", k, -1, [slice EXCEPT ![k] = -1])
  \/ "nilv" \in Muts /\ \E k \in 1..Len(slice) :
        IsIdx(slice[k]) /\ Edit("nilv", k, slice[k], [slice EXCEPT ![k] = 100 + slice[k]])
  \/ "swap" \in Muts /\ \E j \in 1..Len(slice) : \E k \in j+1..Len(slice) :
        slice[j] # slice[k] /\ Edit("swap", j, k, [slice EXCEPT ![j] = slice[k], ![k] = slice[j]])
  \/ "drop" \in Muts /\ \E k \in 1..Len(slice) : Edit("drop", k, slice[k], RemoveAt(slice, k))
  \/ "append" \in Muts /\ \E e \in (0..n-1) \cup {-1} \cup {100 + i : i \in 0..n-1} :
        /\ CASE OrderOf(n) = "increasing" -> (e >= 0 /\ e < 100 /\ \A k \in 1..Len(slice) : slice[k] < e)
             [] OrderOf(n) = "positional" -> (e = -1 \/ e = Len(slice))
             [] OTHER -> TRUE
        /\ Edit("append", Len(slice) + 1, e, Append(slice, e))

(* Check(i, v) for every index and every scalar: accepted iff G_b^v equals the *)
(* committed polynomial evaluated at i.                                       *)
CheckVerdict(i, v) == PubShare(Commits(c, b), i) = PExp(BasePt(b), v)
CheckMatrix ==      \* [i][v] = CheckVerdict(i - 1, v - 1), sharing the sub-computations
  LET cm   == Commits(c, b)
      pubs == Force([i \in 1..Q-1 |-> PubShare(cm, i - 1)])
      bexp == Force([v \in 1..Q |-> PExp(BasePt(b), v - 1)])
  IN [ok |-> [i \in 1..Q-1 |-> [v \in 1..Q |-> pubs[i] = bexp[v]]], pubs |-> pubs]
CheckAll ==
  /\ Len(hist) = 1
  /\ \E r \in Routes :
     LET m == CheckMatrix IN
     hist' = Append(hist, [op |-> "checkall", route |-> r, ok |-> m.ok, pubs |-> m.pubs,
                           evals |-> [i \in 1..Q-1 |-> Share(c, i - 1)],
                           sa |-> SplitA(c), sb |-> SplitB(c), mulk |-> MulK, mulc |-> MulC(c),
                           recs |-> RecSeq(t, n)])
  /\ UNCHANGED <<t, n, c, c2, b, slice>>

Arith ==
  /\ Len(hist) = 1
  /\ \/ /\ Len(c) = Len(c2)
        /\ hist' = Append(hist, [op |-> "add", c2 |-> c2, sum |-> SeqAdd(c, c2),
                                 csum |-> PSeqAdd(Commits(c, b), Commits(c2, b))])
     \/ hist' = Append(hist, [op |-> "mul", c2 |-> c2, prod |-> PolyMul(c, c2),
                              cprod |-> Commits(PolyMul(c, c2), b)])
  /\ UNCHANGED <<t, n, c, c2, b, slice>>

Terminal == Len(hist) >= 2 /\ hist[2].op \in {"checkall", "add", "mul"}
Next ==
  \/ Deal
  \/ /\ Len(hist) >= 1 /\ Len(hist) < L /\ ~Terminal
     /\ CASE Mode = "check" -> CheckAll
          [] Mode = "arith" -> Arith
          [] OTHER          -> IF ~EmitAll /\ Len(hist) = L - 1
                               THEN Edit("end", 0, 0, slice)     \* random walks: one printed behaviour per walk
                               ELSE SliceNext \/ (Mode = "exact" /\ WithCheck /\ CheckAll)

Spec == Init /\ [][Next]_vars

View == <<t, n, c, c2, b, slice, Len(hist) = 0, IF Terminal THEN hist[2].op ELSE "",
          IF Terminal /\ hist[2].op = "checkall" THEN hist[2].route ELSE "">>

-----------------------------------------------------------------------------
(* Model-level statement of C07 (checked by TLC on every reachable state).   *)
TypeOK == Len(hist) >= 1 =>
            /\ t >= 1 /\ t <= n /\ Len(slice) <= n + Surplus /\ (n > Rich => Len(slice) <= n)
            /\ Mode # "shape" => Len(c) = t

\* any t of the n shares reconstruct the same secret, the same commitment and the same
\* full polynomial - the dealer's; interpolating through MORE than t shares (surplus)
\* still gives f(0).  A property of the dealt polynomial: evaluated where it is dealt.
PolySound ==
  (Mode = "exact" /\ Len(hist) = 1) =>
    LET cm == Commits(c, b) IN
    /\ \A S \in KSub(t, 0..n-1) :
         /\ LagrangeAt0(c, S) = c[1]
         /\ Interp(c, S) = c
         /\ LagrangeAt0Pub(cm, S) = cm[1]
         /\ InterpPub(cm, S) = cm
    /\ \A k \in t+1..n : \A S \in KSub(k, 0..n-1) :
         /\ LagrangeAt0(c, S) = c[1]
         /\ LagrangeAt0Pub(cm, S) = cm[1]

\* the commitment polynomial evaluates at i to the commitment of private share i,
\* hence Check(i, v) accepts exactly v = f(i+1)
CommitBinds ==
  (Mode \in {"exact", "check"} /\ Len(hist) = 1) =>
    LET m  == CheckMatrix
        sh == Force([i \in 1..Q-1 |-> Share(c, i - 1)])
        bp == BasePt(b) IN
    \A i \in 0..Q-2 :
       /\ m.pubs[i + 1] = PExp(bp, sh[i + 1])
       /\ \A v \in 0..Q-1 : m.ok[i + 1][v + 1] <=> (v = sh[i + 1])

\* every route yields the dealt polynomial and its commitments (so the expectations shipped
\* with a checkall step do not depend on the route)
RoutesAgree ==
  (Mode \in {"exact", "check"} /\ Len(hist) = 1) =>
    LET cm == Commits(c, b) IN
    /\ SeqAdd(SplitA(c), SplitB(c)) = c
    /\ PolyMul(<<MulK>>, MulC(c)) = c
    /\ Interp(c, RecS(t, n)) = c
    /\ PSeqAdd(Commits(SplitA(c), b), Commits(SplitB(c), b)) = cm
    /\ InterpPub(cm, RecS(t, n)) = cm

\* addition and multiplication commute with evaluation and with commitment
ArithCommutes ==
  (Mode = "arith" /\ Len(hist) = 1) =>
    \A x \in 0..Q-1 :
       /\ Len(c) = Len(c2) =>
            /\ EvalAt(SeqAdd(c, c2), x) = Md(EvalAt(c, x) + EvalAt(c2, x))
            /\ PSeqAdd(Commits(c, b), Commits(c2, b)) = Commits(SeqAdd(c, c2), b)
       /\ EvalAt(PolyMul(c, c2), x) = Md(EvalAt(c, x) * EvalAt(c2, x))

\* The expected observations are a function of the state reached; they are attached when a
\* behaviour is printed (not stored in hist: successor generation stays cheap).
Behaviour ==
  IF Terminal THEN hist
  ELSE [k \in 1..Len(hist) |->
          IF ObsAll \/ k = Len(hist)
          THEN hist[k] @@ [obs |-> RecoverObs(hist[k].slice)]
          ELSE hist[k]]
Emit == (Len(hist) >= 1 /\ ((EmitAll /\ (Mode \in {"check", "arith"} => Len(hist) > 1)) \/ Len(hist) = L))
           => PrintT(<<"TRACE", ToJson(Behaviour)>>)
=============================================================================
