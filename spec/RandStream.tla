----------------------------- MODULE RandStream -----------------------------
(* util/random.New(readers...): the cipher.Stream built from several entropy *)
(* readers (property C19).  Every XORKeyStream call asks EVERY reader for    *)
(* Want = 32 bytes (io.ReadFull), in order; what the readers delivered --    *)
(* short deliveries included -- is concatenated and is the only input of the *)
(* call's key stream (an uninterpreted function of that byte string; the     *)
(* code uses sha256 + blake2xb).  The call works as long as at least one     *)
(* reader delivered its Want bytes; what happens when none did is left open  *)
(* by the property (the code panics: recorded as implementation layer).      *)
(*                                                                           *)
(* A reader is (cls, avail, off): it serves bytes off, off+1, ... of the byte*)
(* stream named cls and runs dry after avail bytes (avail = 0: fails at once)*)
EXTENDS Integers, Sequences, FiniteSets, TLC, Json

CONSTANTS MaxR,       \* reader sets of size 1..MaxR
          Supplies,   \* bytes a reader can deliver in total (3*32 = never dry within a behaviour)
          Lens,       \* len(dst) of a call
          L           \* records in hist: New + (L-1) calls

VARIABLES rd, hist
vars == <<rd, hist>>
Want == 32
Min(a, b) == IF a < b THEN a ELSE b

Init == \E r \in 1..MaxR : \E sup \in [1..r -> Supplies], b \in 0..r :
  /\ rd = [i \in 1..r |-> [cls |-> IF i = b THEN "B" ELSE "A", avail |-> sup[i], off |-> 0]]
  /\ hist = <<[op |-> "New", readers |-> [i \in 1..r |-> [cls |-> IF i = b THEN "B" ELSE "A", avail |-> sup[i]]]]>>

Take(i) == Min(Want, rd[i].avail)
Working == {i \in DOMAIN rd : Take(i) = Want}

Call(n) ==
  /\ rd' = [i \in DOMAIN rd |-> [rd[i] EXCEPT !.avail = @ - Take(i), !.off = @ + Take(i)]]
  /\ hist' = Append(hist, [op |-> "XORKeyStream", n |-> n,
                           segs |-> [i \in DOMAIN rd |-> [cls |-> rd[i].cls, off |-> rd[i].off, len |-> Take(i)]],
                           outcome |-> IF Working # {} THEN "ok" ELSE "free",      \* requirement layer
                           impl |-> IF Working # {} THEN "ok" ELSE "panic"])       \* implementation layer (drift only)

Next == Len(hist) < L /\ \E n \in Lens : Call(n)
Spec == Init /\ [][Next]_vars

-----------------------------------------------------------------------------
TypeOK == \A i \in DOMAIN rd : rd[i].avail >= 0 /\ rd[i].off >= 0
(* the input of a call names every reader, takes at most Want bytes of each, *)
(* consecutive calls never reuse a byte of a reader, and a call is specified *)
(* to work iff some reader delivered in full                                 *)
CallSound == Len(hist) >= 2 =>
  LET c == hist[Len(hist)] IN
  /\ DOMAIN c.segs = DOMAIN rd
  /\ \A i \in DOMAIN rd : c.segs[i].len <= Want /\ c.segs[i].off + c.segs[i].len = rd[i].off
  /\ (c.outcome = "ok") = (\E i \in DOMAIN rd : c.segs[i].len = Want)
NoReuse == \A j, k \in 2..Len(hist) : j < k =>
  \A i \in DOMAIN rd : hist[j].segs[i].off + hist[j].segs[i].len <= hist[k].segs[i].off

Emit == (Len(hist) = L) => PrintT(<<"TRACE", ToJson(hist)>>)
=============================================================================
