------------------------------ MODULE MultiSig ------------------------------
(***************************************************************************)
(* C09 -- BLS, threshold BLS, BDN and CoSi multi-signatures verify iff      *)
(* honestly formed.  One module, four case lattices / small state machines  *)
(* (a behaviour picks one with its first action; Modes enables them):       *)
(*                                                                          *)
(*  "bls"  Sign ; Tamper ; Verify(key', msg')        accept <=> untouched   *)
(*  "tbls" Deal(n,t) ; Add(partial)* ; Recover       ok <=> >= t DISTINCT   *)
(*         valid indices in the list (any order, any junk in between)       *)
(*  "bdn"  participation-mask object(s) as bitsets: New(nokey | own key),   *)
(*         SetBit, SetMask, Merge, Clone ; Agg  (aggregate key/signature    *)
(*         are functions of the bitset; Verify <=> same mask and message)   *)
(*  "buf"  long-lived scheme objects, one caller-owned message buffer that  *)
(*         is overwritten in place between Sign / Verify / Recover / Agg    *)
(*  "cosi" mask with AggregatePublic kept in step ; SignVerify(tamper,      *)
(*         policy)   accept <=> (V, r, mask) are the participants' and the  *)
(*         policy is met                                                    *)
(*                                                                          *)
(* TLC checks the meta-properties of each verdict operator on the whole     *)
(* reachable case space and prints every behaviour with the predicted       *)
(* observations; the Go replayer steps the real kyber objects through them. *)
(* The mask transition operator MaskStep is shared with MaskTrace.tla       *)
(* (code -> spec direction).                                                *)
(***************************************************************************)
EXTENDS Naturals, Sequences, FiniteSets, TLC, Json

CONSTANTS
    Modes,      \* subset of {"bls", "tbls", "bdn", "cosi"}: which machines may start
    NMax,       \* tbls: 2 <= t <= n <= NMax, lists of length <= n+2
    MaxExtra,   \* tbls: max (#junk partials + #duplicate partials) in a list, for n <= 4
    MaxExtraBig,\* tbls: the same for n >= 5
    Rot,        \* rotation offset of junk kinds / indices (derived from the seed)
    BuggyDup,   \* tbls: TRUE = implementation-shaped scan counts duplicates (the pinned tree, finding 6)
    NSSet,      \* masks: numbers of signers
    MaxOps,     \* masks: operations between New and the final step, for <= 4 signers
    MaxOpsBig,  \* masks: the same for more than 4 signers (argument menu instead of all subsets)
    MaxProbes,  \* masks: aggregations (Probe) that may be interleaved with the calls of one behaviour
    BufLen      \* buffer reuse: every sequence of exactly BufLen calls on long-lived scheme objects (0 = none)

VARIABLES cfg, list, mk, nops, phase, out, hist, md
vars == <<cfg, list, mk, nops, phase, out, hist, md>>

(* md = [mode |-> which machine this behaviour runs, ns |-> number of signers of its masks,      *)
(*       np |-> aggregations interleaved so far, since |-> objects aggregated over since their   *)
(*       last mutating call]                                                                      *)
MD(m, n) == [mode |-> m, ns |-> n, np |-> 0, since |-> {}]
Mode == md.mode
NS   == md.ns

Min(a, b) == IF a < b THEN a ELSE b

(* Every aggregation / recovery / verification function is a function of its arguments and writes to  *)
(* none of them: the replayer issues each such call Calls times on the SAME argument objects          *)
(* (commitments, responses, partial signatures, public keys, masks, message and signature slices);    *)
(* every result must be the predicted value and the arguments must be unchanged after each call.      *)
Calls == 2

(***************************************************************************)
(* BLS                                                                      *)
(***************************************************************************)
BlsTampers == {"none", "flip-lo", "flip-mid", "flip-hi", "other-signer", "other-msg", "neg", "trunc", "extend"}
BlsKeys    == {"same", "other"}        \* "other" = a third key (neither the signer's nor the one of other-signer)
BlsMsgs    == {"same", "flip", "extend", "trunc"}

(* "extend" = trailing bytes after the encoded point: the same value in another byte string *)
BlsEffect(tm) == IF tm = "none" THEN "none" ELSE IF tm = "extend" THEN "enc" ELSE "sem"

BlsVerdict(tm, k, m) ==
    IF BlsEffect(tm) = "sem" \/ k # "same" \/ m # "same" THEN "reject"
    ELSE IF BlsEffect(tm) = "enc" THEN "free" ELSE "accept"

BlsCase(tm, k, m) ==
    /\ phase = "start" /\ "bls" \in Modes
    /\ md' = MD("bls", 1)
    /\ out' = BlsVerdict(tm, k, m)
    /\ phase' = "done"
    /\ hist' = <<[act |-> "Sign"], [act |-> "Tamper", m |-> tm, effect |-> BlsEffect(tm)],
                 [act |-> "Verify", key |-> k, msg |-> m, exp |-> BlsVerdict(tm, k, m), calls |-> Calls]>>
    /\ UNCHANGED <<cfg, list, mk, nops>>

NextBls == \E tm \in BlsTampers, k \in BlsKeys, m \in BlsMsgs : BlsCase(tm, k, m)

BlsMeta ==
    \A tm \in BlsTampers, k \in BlsKeys, m \in BlsMsgs :
        LET v == BlsVerdict(tm, k, m)
        IN  /\ v \in {"accept", "reject", "free"}
            /\ (v = "accept") <=> (tm = "none" /\ k = "same" /\ m = "same")
            /\ (v = "free") => (BlsEffect(tm) = "enc" /\ k = "same" /\ m = "same")

(***************************************************************************)
(* Threshold BLS                                                            *)
(***************************************************************************)
BadKinds == <<"invalid", "wrongmsg", "misidx", "garbage", "short", "empty">>

IsValid(it)   == it.k = "valid"
ValidIdx(l)   == {l[p].i : p \in {q \in 1..Len(l) : IsValid(l[q])}}
NumValid(l)   == Cardinality({q \in 1..Len(l) : IsValid(l[q])})
NumBad(l)     == Len(l) - NumValid(l)
NumDup(l)     == NumValid(l) - Cardinality(ValidIdx(l))
Extras(l)     == NumBad(l) + NumDup(l)

(* requirement: ok with the group signature <=> at least t DISTINCT valid indices are in the list *)
RecoverReq(l, t) == IF Cardinality(ValidIdx(l)) >= t THEN "sig" ELSE "error"

(* implementation-shaped layer: scan the list, keep verified partials until t are collected, *)
(* then interpolate over the distinct indices collected (share.RecoverCommit)                 *)
FirstOcc(l)  == {p \in 1..Len(l) : IsValid(l[p]) /\ \A q \in 1..(p - 1) : ~(IsValid(l[q]) /\ l[q].i = l[p].i)}
ValidPos(l)  == {p \in 1..Len(l) : IsValid(l[p])}
Collected(l, t, buggy) ==
    LET cand == IF buggy THEN ValidPos(l) ELSE FirstOcc(l)
    IN  {p \in cand : Cardinality({q \in cand : q < p}) < t}          \* the first t candidates
RecoverImpl(l, t, buggy) ==
    LET c == Collected(l, t, buggy)
    IN  IF Cardinality(c) < t THEN "error"
        ELSE IF Cardinality({l[p].i : p \in c}) < t THEN "error"
        ELSE "sig"

Deal(nn, tt) ==
    /\ phase = "start" /\ "tbls" \in Modes
    /\ md' = MD("tbls", 1)
    /\ cfg' = [n |-> nn, t |-> tt]
    /\ list' = <<>>
    /\ phase' = "collect"
    /\ hist' = <<[act |-> "Deal", n |-> nn, t |-> tt]>>
    /\ UNCHANGED <<mk, nops, out>>

AddItem(it) ==
    /\ phase = "collect"
    /\ Len(list) < cfg.n + 2
    /\ Extras(Append(list, it)) <= (IF cfg.n <= 4 THEN MaxExtra ELSE MaxExtraBig)
    /\ list' = Append(list, it)
    /\ hist' = Append(hist, [act |-> "Add", k |-> it.k, i |-> it.i,
                             partial |-> IF IsValid(it) THEN "ok" ELSE "error"])
    /\ UNCHANGED <<cfg, mk, nops, phase, out, md>>

(* the kind and the index label of a junk partial rotate deterministically (one junk letter per position) *)
JunkAt(l) == [k |-> BadKinds[((Len(l) + NumBad(l) + Rot) % Len(BadKinds)) + 1], i |-> (Len(l) + Rot) % cfg.n]

(* (n, t, list) with t < n, no partial of signer n-1 and room to spare is the same case as *)
(* (n-1, t, list): n only bounds indices and the list length.  Generated once.             *)
Redundant == cfg.t < cfg.n /\ (cfg.n - 1) \notin ValidIdx(list) /\ Len(list) <= cfg.n + 1

Recover ==
    /\ phase = "collect" /\ Mode = "tbls" /\ ~Redundant
    /\ out' = RecoverReq(list, cfg.t)
    /\ phase' = "done"
    /\ hist' = Append(hist, [act |-> "Recover", exp |-> RecoverReq(list, cfg.t),
                             distinct |-> Cardinality(ValidIdx(list)), impl |-> RecoverImpl(list, cfg.t, BuggyDup), calls |-> Calls])
    /\ UNCHANGED <<cfg, list, mk, nops, md>>

NextTbls ==
    \/ (phase = "start" /\ \E nn \in 2..NMax, tt \in 2..NMax : tt <= nn /\ Deal(nn, tt))
    \/ (phase = "collect" /\ \E i \in 0..(cfg.n - 1) : AddItem([k |-> "valid", i |-> i]))
    \/ (phase = "collect" /\ AddItem(JunkAt(list)))
    \/ Recover

(* the implementation-shaped scan refines the requirement (fails with BuggyDup = TRUE: finding 6) *)
RecoverIffEnoughValid ==
    (Mode = "tbls" /\ phase = "collect") => RecoverImpl(list, cfg.t, BuggyDup) = RecoverReq(list, cfg.t)

(* junk never helps, order never matters *)
TblsMeta ==
    (Mode = "tbls" /\ phase = "collect") =>
        /\ RecoverReq(list, cfg.t) \in {"sig", "error"}
        /\ RecoverReq(list, cfg.t) = RecoverReq(SelectSeq(list, IsValid), cfg.t)
        /\ (NumValid(list) < cfg.t => RecoverReq(list, cfg.t) = "error")

(***************************************************************************)
(* Participation masks (shared with MaskTrace)                              *)
(***************************************************************************)
Idx == 0..(NS - 1)
All == Idx

(* argument menu of SetMask / Merge: every subset for up to 4 signers, otherwise a family that *)
(* exercises both mask bytes, the byte boundary and the last signer                             *)
Menu == IF NS <= 4 THEN SUBSET Idx
        ELSE {{}, {0}, {NS - 1}, Idx, {i \in Idx : i < 8}, {i \in Idx : i >= 8}, {i \in Idx : i % 2 = 0},
              {7} \cap Idx, {1, 8} \cap Idx}
OpsBound == IF NS <= 4 THEN MaxOps ELSE MaxOpsBig
(* after an interleaved aggregation the generator continues with a reduced argument menu *)
SmallMenu == IF NS <= 4 THEN {{}, {0}, {1, 2} \cap Idx, Idx} ELSE Menu
CurMenu == IF md.np > 0 THEN SmallMenu ELSE Menu

(* MaskStepN(n, op, b): result of one call on a mask over n signers whose bitset is b.            *)
(* op = [o |-> "SetBit", i |-> index (n = one past the end, n+1 stands for -1), en |-> BOOLEAN]   *)
(*    | [o |-> "SetMask" / "Merge", bs |-> bitset, lenok |-> BOOLEAN]                              *)
(* Returns [ret |-> "ok" | "error", bits |-> bitset after the call].                               *)
MaskStepN(n, op, b) ==
    CASE op.o = "SetBit" ->
            IF op.i \in 0..(n - 1)
            THEN [ret |-> "ok", bits |-> IF op.en THEN b \cup {op.i} ELSE b \ {op.i}]
            ELSE [ret |-> "error", bits |-> b]
      [] op.o = "SetMask" ->
            IF op.lenok THEN [ret |-> "ok", bits |-> op.bs] ELSE [ret |-> "error", bits |-> b]
      [] op.o = "Merge" ->
            IF op.lenok THEN [ret |-> "ok", bits |-> b \cup op.bs] ELSE [ret |-> "error", bits |-> b]
MaskStep(op, b) == MaskStepN(NS, op, b)

(* projections the real objects expose *)
CountEnabled(b) == Cardinality(b)
RECURSIVE NthFrom(_, _, _, _)
NthFrom(n, b, k, from) ==                   \* index of the k-th (0-based) enabled bit at or after `from`, n if none
    IF from >= n THEN n
    ELSE IF from \in b THEN (IF k = 0 THEN from ELSE NthFrom(n, b, k - 1, from + 1))
    ELSE NthFrom(n, b, k, from + 1)
IndexOfNthN(n, b, k) == NthFrom(n, b, k, 0) \* n stands for -1
IndexOfNth(b, k) == IndexOfNthN(NS, b, k)

Objs == {"A", "B"}
Live(o) == mk[o].live
PostOf(m) == [o \in Objs |-> IF m[o].live THEN [live |-> TRUE, bits |-> m[o].bits, pad |-> m[o].pad]
                                             ELSE [live |-> FALSE, bits |-> {}, pad |-> FALSE]]
Post == PostOf(mk)

(* pad = the object's byte mask may carry PADDING bits (positions >= NS in its last byte).  They are not *)
(* signers: every count, participant list, aggregate key, aggregate signature and verdict is that of    *)
(* `bits` alone, exactly as for the clean mask.  A bdn mask keeps the bytes it is given (SetMask) or ORs  *)
(* them in (Merge); a cosi mask only ever copies the bits of real signers.                                *)
NoMask == [live |-> FALSE, bits |-> {}, pad |-> FALSE]
PadAfter(op, r, p) ==
    IF Mode # "bdn" \/ r.ret # "ok" THEN (IF Mode = "bdn" THEN p ELSE FALSE)
    ELSE IF op.o = "SetMask" THEN op.pad
    ELSE IF op.o = "Merge" THEN (p \/ op.pad)
    ELSE p

New(kind, ns, ctor, i) ==
    /\ phase = "start" /\ kind \in Modes
    /\ md' = MD(kind, ns)
    /\ LET ok   == ctor # "unknown"
           b    == IF ctor = "own" THEN {i} ELSE {}
           m    == [A |-> [live |-> ok, bits |-> b, pad |-> FALSE], B |-> NoMask]
       IN /\ mk' = m
          /\ hist' = <<[act |-> "New", kind |-> kind, ns |-> ns, ctor |-> ctor, i |-> i, ret |-> IF ok THEN "ok" ELSE "error", post |-> PostOf(m)]>>
          /\ phase' = IF ok THEN "ops" ELSE "done"
          /\ out' = IF ok THEN out ELSE "error"
    /\ UNCHANGED <<cfg, list, nops>>

Apply(o, op) ==
    /\ phase = "ops" /\ Live(o) /\ nops < OpsBound
    /\ LET r == MaskStep(op, mk[o].bits)
           m == [mk EXCEPT ![o].bits = r.bits, ![o].pad = PadAfter(op, r, mk[o].pad)]
       IN /\ mk' = m
          /\ hist' = Append(hist, [act |-> op.o, obj |-> o, op |-> op, ret |-> r.ret, post |-> PostOf(m)])
    /\ nops' = nops + 1
    /\ md' = [md EXCEPT !.since = @ \ {o}]
    /\ UNCHANGED <<cfg, list, phase, out>>

Clone ==
    /\ Mode = "bdn" /\ phase = "ops" /\ Live("A") /\ ~Live("B") /\ nops < OpsBound
    /\ LET m == [mk EXCEPT !["B"] = [live |-> TRUE, bits |-> mk["A"].bits, pad |-> mk["A"].pad]]
       IN /\ mk' = m
          /\ hist' = Append(hist, [act |-> "Clone", obj |-> "A", ret |-> "ok", post |-> PostOf(m)])
    /\ nops' = nops + 1
    /\ UNCHANGED <<cfg, list, phase, out, md>>       \* the clone has not been aggregated over itself: "B" is not in md.since

SetBitOps  == [o : {"SetBit"}, i : 0..(IF Mode = "bdn" THEN NS + 1 ELSE NS), en : BOOLEAN]
(* pad = TRUE: the argument bytes carry padding bits besides bs (only when NS is not a multiple of 8) *)
PadMenu    == IF NS % 8 = 0 THEN {} ELSE {Idx, {0}}
SetMaskOps == [o : {"SetMask"}, bs : CurMenu, lenok : {TRUE}, pad : {FALSE}] \cup {[o |-> "SetMask", bs |-> {}, lenok |-> FALSE, pad |-> FALSE]}
              \cup [o : {"SetMask"}, bs : PadMenu, lenok : {TRUE}, pad : {TRUE}]
MergeOps   == IF Mode = "bdn"
              THEN [o : {"Merge"}, bs : CurMenu, lenok : {TRUE}, pad : {FALSE}] \cup {[o |-> "Merge", bs |-> {}, lenok |-> FALSE, pad |-> FALSE]}
                   \cup [o : {"Merge"}, bs : PadMenu, lenok : {TRUE}, pad : {TRUE}]
              ELSE {}
MaskOps == SetBitOps \cup SetMaskOps \cup MergeOps

(* ---- BDN: aggregate over the mask ---- *)
(* Verify(aggSig(m), aggKey(m'), msg') <=> m' = m /\ msg' = msg.  The empty aggregate (identity  *)
(* signature under the identity key) is degenerate: tagged free.                                  *)
BdnVerdict(b, maskdev, msgdev) ==
    IF maskdev # "same" THEN "reject"
    ELSE IF b = {} THEN "free"
    ELSE IF msgdev # "same" THEN "reject" ELSE "accept"

BdnExp(b) ==
    [same |-> BdnVerdict(b, "same", "same"),
     msg  |-> BdnVerdict(b, "same", "other"),
     add  |-> IF b = All THEN "na" ELSE BdnVerdict(b, "add", "same"),
     drop |-> IF b = {} THEN "na" ELSE BdnVerdict(b, "drop", "same"),
     keyOfBits |-> TRUE]       \* AggregatePublicKeys is the same function of the bitset however the object was built

(* Aggregation is an action of the mask program, not only its end: Probe(o) aggregates over the   *)
(* CURRENT bitset of o (key, and on a quota signatures + Verify) and the program goes on; the key  *)
(* it must report is the function BdnExp of the bitset at that moment, whatever was aggregated,    *)
(* changed or cloned before.                                                                        *)
Probe(o) ==
    /\ Mode = "bdn" /\ phase = "ops" /\ Live(o)
    /\ md.np < MaxProbes /\ o \notin md.since
    /\ md' = [md EXCEPT !.np = @ + 1, !.since = @ \cup {o}]
    /\ hist' = Append(hist, [act |-> "Probe", obj |-> o, bits |-> mk[o].bits, exp |-> BdnExp(mk[o].bits), calls |-> Calls])
    /\ UNCHANGED <<cfg, list, mk, nops, phase, out>>

Agg(o) ==
    /\ Mode = "bdn" /\ phase = "ops" /\ Live(o) /\ o \notin md.since
    /\ out' = BdnVerdict(mk[o].bits, "same", "same")
    /\ phase' = "done"
    /\ hist' = Append(hist, [act |-> "Agg", obj |-> o, bits |-> mk[o].bits, exp |-> BdnExp(mk[o].bits), calls |-> Calls])
    /\ UNCHANGED <<cfg, list, mk, nops, md>>

BdnMeta ==
    (Mode = "bdn" /\ phase = "ops") =>
        \A o \in {x \in Objs : Live(x)} : \A mdev \in {"same", "add", "drop"}, sd \in {"same", "other"} :
            LET v == BdnVerdict(mk[o].bits, mdev, sd)
            IN  /\ v \in {"accept", "reject", "free"}
                /\ (v = "accept") => (mdev = "same" /\ sd = "same")
                /\ (mdev = "same" /\ sd = "same" /\ mk[o].bits # {}) => v = "accept"
                /\ (v = "free") <=> (mdev = "same" /\ mk[o].bits = {})

(* ---- CoSi: sign with the participants of the mask, verify ---- *)
CosiTampers == {"none", "V-flip", "V-other", "r-flip", "r-plus-one", "mask-add", "mask-drop", "mask-short", "mask-long",
                "msg", "pub-swap", "r-plus-L", "mask-pad"}
CosiPolicies == {"nil", "complete", "thr-0", "thr-1", "thr-count", "thr-count+1", "thr-n"}

CosiEffect(tm) == IF tm = "none" THEN "none" ELSE IF tm \in {"r-plus-L", "mask-pad"} THEN "enc" ELSE "sem"

PolicyMet(pol, b) ==
    CASE pol \in {"nil", "complete"} -> Cardinality(b) = NS
      [] pol = "thr-0"       -> TRUE
      [] pol = "thr-1"       -> Cardinality(b) >= 1
      [] pol = "thr-count"   -> TRUE
      [] pol = "thr-count+1" -> FALSE
      [] pol = "thr-n"       -> Cardinality(b) >= NS

CosiApplicable(tm, b) ==
    CASE tm = "mask-add"  -> b # All
      [] tm = "mask-pad"  -> NS % 8 # 0
      [] OTHER -> TRUE

CosiVerdict(b, tm, pol) ==
    IF CosiEffect(tm) = "sem" \/ ~PolicyMet(pol, b) THEN "reject"
    ELSE IF CosiEffect(tm) = "enc" THEN "free" ELSE "accept"

(* cases judged at the final step: the untouched signature under every policy; every manipulation   *)
(* under the policies that ARE met by the participants (so the manipulation alone decides) and under *)
(* one that is not                                                                                    *)
CosiPolsFor(tm, b) ==
    IF tm = "none" THEN CosiPolicies
    ELSE {"thr-count", "thr-count+1"} \cup (IF Cardinality(b) = NS THEN {"nil", "complete"} ELSE {})
CosiExp(b) == UNION {{[tam |-> tm, pol |-> pol, exp |-> CosiVerdict(b, tm, pol)] : pol \in CosiPolsFor(tm, b)} :
                        tm \in {x \in CosiTampers : CosiApplicable(x, b)}}

(* the same interleaving for CoSi: a collective signature made with the mask object as it is now *)
CosiProbeExp(b) == {[tam |-> tm, pol |-> "thr-count", exp |-> CosiVerdict(b, tm, "thr-count")] : tm \in {"none", "msg", "mask-drop"}}

CosiProbe ==
    /\ Mode = "cosi" /\ phase = "ops" /\ Live("A") /\ mk["A"].bits # {}
    /\ md.np < MaxProbes /\ "A" \notin md.since
    /\ md' = [md EXCEPT !.np = @ + 1, !.since = @ \cup {"A"}]
    /\ hist' = Append(hist, [act |-> "SignVerify", final |-> FALSE, obj |-> "A", bits |-> mk["A"].bits, exp |-> CosiProbeExp(mk["A"].bits), calls |-> Calls])
    /\ UNCHANGED <<cfg, list, mk, nops, phase, out>>

SignVerify ==
    /\ Mode = "cosi" /\ phase = "ops" /\ Live("A") /\ mk["A"].bits # {} /\ "A" \notin md.since
    /\ out' = CosiVerdict(mk["A"].bits, "none", "nil")
    /\ phase' = "done"
    /\ hist' = Append(hist, [act |-> "SignVerify", obj |-> "A", bits |-> mk["A"].bits, exp |-> CosiExp(mk["A"].bits), calls |-> Calls])
    /\ UNCHANGED <<cfg, list, mk, nops, md>>

CosiMeta ==
    (Mode = "cosi" /\ phase = "ops" /\ Live("A")) =>
        \A tm \in CosiTampers, pol \in CosiPolicies :
            LET b == mk["A"].bits
                v == CosiVerdict(b, tm, pol)
            IN  /\ v \in {"accept", "reject", "free"}
                /\ (v = "accept") <=> (tm = "none" /\ PolicyMet(pol, b))
                /\ (~PolicyMet(pol, b)) => v = "reject"
                /\ (v = "free") => CosiEffect(tm) = "enc"

(* the mask projections are consistent with the bitset (what the replayer compares) *)
MaskMeta ==
    (Mode \in {"bdn", "cosi"} /\ phase = "ops") =>
        \A o \in {x \in Objs : Live(x)} :
            LET b == mk[o].bits
            IN  /\ b \subseteq Idx
                /\ \A k \in 0..NS : (IndexOfNth(b, k) < NS) <=> (k < CountEnabled(b))
                /\ \A k \in 0..(NS - 1) : (IndexOfNth(b, k) < NS) => IndexOfNth(b, k) \in b

NextMasks ==
    \/ (phase = "start" /\ \E kind \in {"bdn", "cosi"}, ns \in NSSet :
            \/ New(kind, ns, "nokey", 0)
            \/ \E i \in 0..(ns - 1) : New(kind, ns, "own", i)
            \/ New(kind, ns, "unknown", 0))
    \/ (phase = "ops" /\ \E o \in Objs, op \in MaskOps : Apply(o, op))
    \/ (phase = "ops" /\ Clone)
    \/ (phase = "ops" /\ \E o \in Objs : Probe(o))
    \/ (phase = "ops" /\ CosiProbe)
    \/ (phase = "ops" /\ \E o \in Objs : Agg(o))
    \/ (phase = "ops" /\ SignVerify)

(***************************************************************************)
(* Buffer reuse ("buf"): ONE long-lived bls / tbls / bdn scheme object per   *)
(* (suite, group) and ONE caller-owned message buffer that the caller        *)
(* overwrites in place between calls (contents 1 and 2 have the same length, *)
(* 3 another one; writing an earlier content again restores it).  Every call *)
(* receives the buffer itself.  cfg = [c = contents now, sc / pc / bc =        *)
(* contents that were in the buffer when the last signature / the tbls       *)
(* partials / the bdn signatures were made (0 = none yet)].  Each verdict is *)
(* a function of the contents AT CALL TIME; what the buffer held before, or  *)
(* what any earlier call saw, is irrelevant.  Signing is deterministic: the  *)
(* bytes are those a fresh scheme object produces for the current contents.  *)
(***************************************************************************)
BufContents == {1, 2, 3}
BufCfg(c, sc, pc, bc) == [n |-> 3, t |-> 2, c |-> c, sc |-> sc, pc |-> pc, bc |-> bc]

BufStart ==
    /\ phase = "start" /\ "buf" \in Modes /\ BufLen > 0
    /\ md' = MD("buf", 3)
    /\ cfg' = BufCfg(1, 0, 0, 0)
    /\ phase' = "buf"
    /\ hist' = <<[act |-> "BufStart", c |-> 1]>>
    /\ UNCHANGED <<list, mk, nops, out>>

BufStep(rec, c2) ==
    /\ phase = "buf" /\ nops < BufLen
    /\ cfg' = c2
    /\ nops' = nops + 1
    /\ hist' = Append(hist, rec)
    /\ UNCHANGED <<list, mk, phase, out, md>>

Match(made) == IF made = cfg.c THEN "accept" ELSE "reject"

BufWrite(c)  == c # cfg.c /\ BufStep([act |-> "BufWrite", c |-> c], [cfg EXCEPT !.c = c])
BufSign      == BufStep([act |-> "BufSign", c |-> cfg.c, obs |-> "bytes-of-current-contents"], [cfg EXCEPT !.sc = cfg.c])
BufVerify    == cfg.sc # 0 /\ BufStep([act |-> "BufVerify", c |-> cfg.c, made |-> cfg.sc, exp |-> Match(cfg.sc)], cfg)
BufPartials  == BufStep([act |-> "BufPartials", c |-> cfg.c, obs |-> "bytes-of-current-contents"], [cfg EXCEPT !.pc = cfg.c])
BufRecover   == cfg.pc # 0 /\ BufStep([act |-> "BufRecover", c |-> cfg.c, made |-> cfg.pc,
                                        exp |-> IF cfg.pc = cfg.c THEN "sig" ELSE "error"], cfg)
BufBdnSign   == BufStep([act |-> "BufBdnSign", c |-> cfg.c, obs |-> "bytes-of-current-contents"], [cfg EXCEPT !.bc = cfg.c])
BufBdnVerify == cfg.bc # 0 /\ BufStep([act |-> "BufBdnVerify", c |-> cfg.c, made |-> cfg.bc, exp |-> Match(cfg.bc)], cfg)

NextBuf ==
    \/ BufStart
    \/ (phase = "buf" /\ \E c \in BufContents : BufWrite(c))
    \/ (phase = "buf" /\ (BufSign \/ BufVerify \/ BufPartials \/ BufRecover \/ BufBdnSign \/ BufBdnVerify))

(* a verdict depends on nothing but the contents now and the contents at signing time *)
BufMeta ==
    (phase = "buf") =>
        /\ cfg.c \in BufContents /\ {cfg.sc, cfg.pc, cfg.bc} \subseteq ({0} \cup BufContents)
        /\ \A made \in BufContents : (Match(made) = "accept") <=> (made = cfg.c)

(***************************************************************************)
Init ==
    /\ cfg = [n |-> 2, t |-> 2] /\ list = <<>>
    /\ mk = [o \in Objs |-> NoMask]
    /\ md = MD("none", 1)
    /\ nops = 0 /\ phase = "start" /\ out = "none" /\ hist = <<>>

Next == (phase = "start" /\ NextBls) \/ NextTbls \/ NextMasks \/ NextBuf

Spec == Init /\ [][Next]_vars

TypeOK ==
    /\ phase \in {"start", "collect", "ops", "done", "buf"}
    /\ out \in {"none", "accept", "reject", "free", "sig", "error"}
    /\ nops <= (IF phase = "buf" THEN BufLen ELSE IF MaxOps > MaxOpsBig THEN MaxOps ELSE MaxOpsBig)
    /\ Len(list) <= cfg.n + 2

Meta == BlsMeta /\ TblsMeta /\ BdnMeta /\ CosiMeta /\ MaskMeta /\ BufMeta

(* generators *)
View == <<cfg, list, mk, nops, phase, out, md>>
TourView == <<mk, phase, out, md>>                                   \* transition tour over the mask state graph
Emit == (phase = "done" \/ (phase = "buf" /\ nops = BufLen)) => PrintT(<<"TRACE", ToJson(hist)>>)
EmitEdge == PrintT(<<"EDGE", ToJson(hist')>>)
=============================================================================
