----------------------------- MODULE VSSSystem -----------------------------
(* End-to-end model of one VSS session (property C10): a dealer and N honest *)
(* verifiers, every one with its own aggregator, linked by causality:        *)
(*   - a verifier's response exists only after it processed its deal and is  *)
(*     what an honest verifier answers to that deal;                         *)
(*   - responses are broadcast (atomically) to the dealer and to every other *)
(*     verifier; a verifier that has not yet processed its own deal keeps the *)
(*     message pending and processes it right after its deal (the Go code     *)
(*     refuses responses before the deal: "the caller must be sure to have    *)
(*     dispatched a deal before");                                           *)
(*   - justifications come from the dealer, only for complaints it received;  *)
(*   - the timeout fires once, for everybody.                                *)
(* The dealer may be faulty towards at most MaxF verifiers: bad share, or an  *)
(* out-of-range threshold; it may answer a complaint by revealing the correct *)
(* share, by revealing what it sent, or not at all.                          *)
(*                                                                         *)
(* Used for the clauses VSSAgg cannot state: HonestCertifies (all follow the *)
(* protocol => everybody certifies) and, in the replayer, CertifiedRecoverable*)
(* (any T decrypted deals of approving verifiers give the dealer's secret,   *)
(* whose commitment is SecretCommit).  Party N is the dealer.                *)
EXTENDS Integers, Sequences, FiniteSets, TLC, Json

CONSTANTS Cfgs,   \* set of configurations 1000*variant + 100*N + 10*T + MaxF  (variant 0 = pedersen, 1 = rabin)
          Gen,    \* "off" | "hist"
          L       \* generator: behaviours have exactly L steps (idle steps pad finished runs)

VARIABLES N, T, Variant, MaxF,
          kind,   \* [V -> {"unsent","good","badshare","tlow","otherpoly","othersession"}]  what the dealer sent to i
                  \*   otherpoly / othersession = dealer equivocation: a self-consistent deal on ANOTHER polynomial,
                  \*   announcing this session's id / its own session id
          st,     \* [V -> {"none","app","comp"}]               i's response
          bc,     \* [V -> BOOLEAN]                             i's response was broadcast
          pend,   \* [V -> SUBSET V]                            responses waiting at a verifier without deal
          thr,    \* [P -> Int]                                 aggregator threshold
          tab,    \* [P -> [V -> {"none","app","comp"}]]         aggregator tables
          bad,    \* [P -> BOOLEAN]
          jst,    \* [V -> {"none","correct","wrong"}]          justification broadcast for i's complaint
          dj,     \* [V -> BOOLEAN]  the dealer accepted i's complaint (and so produced a justification)
          wseen,  \* [P -> BOOLEAN]  ground truth: p processed an incorrect justification for a complaint it holds
          tmo, early,   \* timeout fired / fired while a response was still missing
          hist

conf == <<N, T, Variant, MaxF>>
vars == <<conf, kind, st, bc, pend, thr, tab, bad, jst, dj, wseen, tmo, early, hist>>
View == <<conf, kind, st, bc, pend, thr, tab, bad, jst, dj, wseen, tmo, early>>

V == 0..(N - 1)
P == 0..N
D == N
Has(p) == p = D \/ kind[p] # "unsent"

Cnt(f, x) == Cardinality({i \in V : f[i] = x})
ValidThr(th) == th >= 2 /\ th <= N

Certified(p) ==      \* the code's predicates (see VSSAgg.ImplCertified)
  LET rs == tab[p]  th == thr[p]  app == Cnt(rs, "app")  abs == Cnt(rs, "none")  cmp == Cnt(rs, "comp") IN
  IF Variant = "rabin"
  THEN Has(p) /\ app >= th /\ ValidThr(th) /\ abs = 0 /\ ~bad[p]
  ELSE /\ ~bad[p] /\ app >= th /\ cmp = 0 /\ ValidThr(th)
       /\ IF tmo THEN (IF th > N THEN TRUE ELSE abs <= N - th) ELSE abs = 0

(* a verifier that was dealt another threshold or another polynomial is, as far as session ids go, in another
   session (the id is computed from the deal's commitments and T): the others refuse its response and it refuses
   theirs (its aggregator tracks the id of what it was dealt) *)
Sess(p) == IF p = D \/ kind[p] \in {"good", "badshare"} THEN 0             \* this session (polynomial A)
           ELSE IF kind[p] \in {"otherpoly", "othersession"} THEN 1           \* the dealer's other polynomial B
           ELSE 2                                                            \* tlow: same commitments, T = 1: a third id
InSession(p) == Sess(p) = 0
SidOK(i) == InSession(i)

Record(tb, i, s) == IF tb[i] = "none" THEN [tb EXCEPT ![i] = s] ELSE tb      \* one response per verifier

Snapshot == [tab |-> tab', bad |-> bad', thr |-> thr', tmo |-> tmo', cert |-> [p \in P |-> Certified(p)'],
             kinds |-> kind', sts |-> st', napp |-> [p \in P |-> Cnt(tab'[p], "app")],
             wseen |-> wseen',
             allHonest |-> ((\A i \in V : kind'[i] = "good" /\ bc'[i]) /\ ~early')]
Log(act) == /\ UNCHANGED conf
            /\ hist' = IF Gen = "hist" THEN Append(hist, act @@ Snapshot) ELSE hist
Room == IF Gen = "hist" THEN Len(hist) <= L ELSE TRUE

Faulty == Cardinality({i \in V : kind[i] \notin {"unsent", "good"}})

(* the dealer sends verifier i a deal of kind k; i processes it, then the responses that were waiting *)
Deal(i, k) ==
  /\ Room /\ kind[i] = "unsent"
  /\ k # "good" => Faulty < MaxF
  /\ LET s == IF k \in {"good", "othersession"} THEN "app" ELSE "comp"     \* othersession is a valid deal of another session
         own == [tab[i] EXCEPT ![i] = s]
         \* pending responses are processed in increasing index order; they are all distinct indices
         mine == IF k \in {"good", "badshare"} THEN 0 ELSE IF k \in {"otherpoly", "othersession"} THEN 1 ELSE 2
         filled == [j \in V |-> IF j \in pend[i] /\ own[j] = "none" /\ Sess(j) = mine THEN st[j] ELSE own[j]] IN
     /\ kind' = [kind EXCEPT ![i] = k]
     /\ st' = [st EXCEPT ![i] = s]
     /\ thr' = [thr EXCEPT ![i] = IF k = "tlow" THEN 1 ELSE T]
     /\ tab' = [tab EXCEPT ![i] = filled]
     /\ pend' = [pend EXCEPT ![i] = {}]
  /\ UNCHANGED <<bc, bad, jst, dj, wseen, tmo, early>>
  /\ Log([act |-> "Deal", i |-> i, kind |-> k, flush |-> pend[i]])

(* i's response reaches the dealer and every other verifier *)
Bcast(i) ==
  /\ Room /\ st[i] # "none" /\ ~bc[i]
  /\ bc' = [bc EXCEPT ![i] = TRUE]
  /\ tab' = [p \in P |-> IF p # i /\ Has(p) /\ Sess(p) = Sess(i) THEN Record(tab[p], i, st[i]) ELSE tab[p]]
  /\ pend' = [p \in V |-> IF p # i /\ ~Has(p) THEN pend[p] \cup {i} ELSE pend[p]]
  /\ dj' = [dj EXCEPT ![i] = SidOK(i) /\ st[i] = "comp" /\ tab[D][i] = "none"]
  /\ UNCHANGED <<kind, st, thr, bad, jst, wseen, tmo, early>>
  /\ Log([act |-> "Bcast", i |-> i, st |-> st[i]])

(* the dealer answers i's complaint: pol = "correct" (reveals i's share on the committed polynomial) or
   "wrong" (reveals the deal it sent) *)
Justify(i, pol) ==
  /\ Room /\ bc[i] /\ st[i] = "comp" /\ jst[i] = "none" /\ dj[i]
  /\ jst' = [jst EXCEPT ![i] = pol]
  /\ LET fails(p) == pol = "wrong" \/ ~InSession(p) IN      \* VerifyDeal of the revealed deal (other session id at p)
     /\ tab' = [p \in P |-> IF p # D /\ Has(p) /\ tab[p][i] = "comp" /\ ~fails(p)
                              THEN [tab[p] EXCEPT ![i] = "app"] ELSE tab[p]]
     /\ bad' = [p \in P |-> bad[p] \/ (p # D /\ Has(p) /\ tab[p][i] = "comp" /\ fails(p))]
     /\ wseen' = [p \in P |-> wseen[p] \/ (p # D /\ Has(p) /\ tab[p][i] = "comp" /\ pol = "wrong")]
  /\ UNCHANGED <<kind, st, bc, pend, thr, dj, tmo, early>>
  /\ Log([act |-> "Justify", i |-> i, pol |-> pol])

Timeout ==
  /\ Room /\ ~tmo
  /\ tmo' = TRUE
  /\ early' = (\E i \in V : ~bc[i])
  /\ tab' = IF Variant = "rabin"
            THEN [p \in P |-> IF Has(p) THEN [j \in V |-> IF tab[p][j] = "none" THEN "comp" ELSE tab[p][j]] ELSE tab[p]]
            ELSE tab
  /\ UNCHANGED <<kind, st, bc, pend, thr, bad, jst, dj, wseen>>
  /\ Log([act |-> "Timeout"])

Busy == \/ \E i \in V : kind[i] = "unsent" \/ (st[i] # "none" /\ ~bc[i])
        \/ \E i \in V : bc[i] /\ st[i] = "comp" /\ jst[i] = "none" /\ dj[i]
        \/ ~tmo
Idle ==    \* pads finished runs so that the generator can emit them at length L
  /\ Gen = "hist" /\ Room /\ ~Busy
  /\ UNCHANGED <<kind, st, bc, pend, thr, tab, bad, jst, dj, wseen, tmo, early>>
  /\ Log([act |-> "Idle"])

Init ==
  /\ \E c \in Cfgs :
       /\ Variant = IF c \div 1000 = 1 THEN "rabin" ELSE "pedersen"
       /\ N = (c \div 100) % 10 /\ T = (c \div 10) % 10 /\ MaxF = c % 10
  /\ kind = [i \in V |-> "unsent"] /\ st = [i \in V |-> "none"] /\ bc = [i \in V |-> FALSE]
  /\ pend = [i \in V |-> {}]
  /\ thr = [p \in P |-> IF p = D THEN T ELSE 0]
  /\ tab = [p \in P |-> [i \in V |-> "none"]]
  /\ bad = [p \in P |-> FALSE] /\ jst = [i \in V |-> "none"] /\ wseen = [p \in P |-> FALSE]
  /\ dj = [i \in V |-> FALSE]
  /\ tmo = FALSE /\ early = FALSE
  /\ hist = <<[act |-> "init", N |-> N, T |-> T, variant |-> Variant]>>

Next ==
  \/ \E i \in V, k \in {"good", "badshare", "tlow", "otherpoly", "othersession"} : Deal(i, k)
  \/ \E i \in V : Bcast(i)
  \/ \E i \in V, pol \in {"correct", "wrong"} : Justify(i, pol)
  \/ Timeout
  \/ Idle

Spec == Init /\ [][Next]_vars

-----------------------------------------------------------------------------
(* ground truth in this model: every message is genuine, so "i approved" = st[i] = "app" and
   "i's complaint was correctly justified" = jst[i] = "correct" *)
Poly(p) == Sess(p)
ApprovedOrJustified == {i \in V : st[i] = "app" \/ (st[i] = "comp" /\ jst[i] = "correct")}
CertifiedSound ==
  \A p \in P : Certified(p) =>
      /\ Cardinality({i \in ApprovedOrJustified : tab[p][i] = "app" /\ Poly(i) = Poly(p)}) >= T   \* approvals of p's polynomial
      /\ \A i \in V : tab[p][i] = "app" => i \in ApprovedOrJustified
      /\ ~wseen[p]
NoBadApproval == \A i \in V : (kind[i] \in {"badshare", "tlow", "otherpoly"} /\ tab[i][i] = "app") => jst[i] = "correct"
(* dealer and verifiers follow the protocol, all responses delivered, no premature timeout: everybody certifies *)
HonestCertifies ==
  ((\A i \in V : kind[i] = "good" /\ bc[i]) /\ ~early) => \A p \in P : Certified(p)
BadSticky == [][\A p \in P : bad[p] => bad'[p]]_vars

Emit == (Len(hist) = L + 1) => PrintT(<<"TRACE", ToJson(hist)>>)
=============================================================================
