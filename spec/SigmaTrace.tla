----------------------------- MODULE SigmaTrace -----------------------------
(* Trace validation (code -> spec) for the sigma-protocol provers and        *)
(* verifiers of package proof: the harness wraps the real ProverContext /    *)
(* VerifierContext in recorders and logs every Put / Get / PubRand / PriRand *)
(* call the real prover / verifier makes (one object per run):              *)
(*   {"obj":..,"seq":i,"ev":"start","args":{"tree":<predicate>,"role":..}}  *)
(*   {"ev":"Put"|"Get"|"PubRand"|"PriRand","args":{"kind":"P"|"S","n":k}}   *)
(*   {"ev":"end","args":{"ok":true|false}}                                  *)
(* A run is accepted iff it follows the transcript Sigma!Items derives from *)
(* the predicate: commitments (points), in order, strictly before the single *)
(* challenge; sub-challenges and responses (scalars) after it; the prover    *)
(* draws all private randomness before the challenge and exactly NPriRand    *)
(* values; a successful run consumes exactly the item list.                 *)
EXTENDS Sigma, IOUtils

Trace == ndJsonDeserialize(IOEnv.TRACE_FILE)

VARIABLES l, idx, challenged, npri, role
tvars == <<l, idx, challenged, npri, role>>

Frozen == UNCHANGED <<phase, choice, wrap, fals, mut, fault, nlen, runs, nest, hist, ms, mb, nt>>
IsEvent(e) == l <= Len(Trace) /\ Trace[l].ev = e /\ l' = l + 1
Args == Trace[l].args

TInit == /\ Init /\ l = 1 /\ idx = 0 /\ challenged = FALSE /\ npri = 0 /\ role = "none"

\* also the reset between concatenated runs
TStart == /\ IsEvent("start")
          /\ tree' = Args.tree /\ role' = Args.role
          /\ idx' = 0 /\ challenged' = FALSE /\ npri' = 0
          /\ Frozen

KindOf(t) == IF t = "V" THEN "P" ELSE "S"

\* Put (prover) / Get (verifier) of n values of one kind: the next n items
TItem(ev, r) ==
  /\ IsEvent(ev) /\ role = r
  /\ LET its == ItemKinds  n == Args.n IN
       /\ n >= 1 /\ idx + n <= Len(its)
       /\ \A i \in (idx + 1)..(idx + n) : KindOf(its[i]) = Args.kind /\ ((its[i] = "V") <=> ~challenged)
       /\ idx' = idx + n
  /\ UNCHANGED <<tree, challenged, npri, role>> /\ Frozen

TPubRand ==
  /\ IsEvent("PubRand") /\ ~challenged /\ Args.n = 1
  /\ LET its == ItemKinds IN idx = Cardinality({i \in 1..Len(its) : its[i] = "V"})      \* every commitment was sent
  /\ challenged' = TRUE
  /\ UNCHANGED <<tree, idx, npri, role>> /\ Frozen

TPriRand ==
  /\ IsEvent("PriRand") /\ role = "prover" /\ ~challenged
  /\ npri' = npri + Args.n
  /\ UNCHANGED <<tree, idx, challenged, role>> /\ Frozen

TEnd ==
  /\ IsEvent("end")
  /\ (Args.ok => idx = Len(ItemKinds) /\ challenged /\ (role = "prover" => npri = NPriRand))
  /\ UNCHANGED <<tree, idx, challenged, npri, role>> /\ Frozen

TNext == TStart \/ TItem("Put", "prover") \/ TItem("Get", "verifier") \/ TPubRand \/ TPriRand \/ TEnd
TraceSpec == TInit /\ [][TNext]_<<vars, tvars>>

Mark == (TLCGet(1) < l) => TLCSet(1, l)
TraceAccepted == IF TLCGet(1) = Len(Trace) + 1 THEN TRUE ELSE PrintT(<<"REJECTED_AT", TLCGet(1)>>) /\ FALSE
ASSUME TLCSet(1, 0)
=============================================================================
