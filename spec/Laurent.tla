------------------------------ MODULE Laurent ------------------------------
(* Free scalar algebra used by the homomorphic lifting (DESIGN 3.3a).        *)
(* An abstract scalar is a Laurent polynomial in one indeterminate u with    *)
(* rational coefficients:   (c[1]*u^-2 + c[2]*u^-1 + c[3] + c[4]*u + c[5]*u^2) / d *)
(* kept in lowest terms with d > 0.  Z -> Z_q is a ring homomorphism and     *)
(* u |-> û extends it, so every equation derived here must hold in the code. *)
EXTENDS Integers, Sequences, FiniteSets

Idx == 1..5                      \* index i <-> exponent i-3
Abs(x) == IF x < 0 THEN -x ELSE x
Sgn(x) == IF x < 0 THEN -1 ELSE 1

RECURSIVE GCD(_, _)
GCD(a, b) == IF b = 0 THEN a ELSE GCD(b, a % b)

Gcd5(c) == GCD(GCD(GCD(GCD(Abs(c[1]), Abs(c[2])), Abs(c[3])), Abs(c[4])), Abs(c[5]))

Norm(c0, d0) ==
  LET c == c0  d == d0
      g0 == GCD(Gcd5(c), d)
      g  == IF g0 = 0 THEN d ELSE g0
  IN  [c |-> [i \in Idx |-> c[i] \div g], d |-> d \div g]

Const(k)  == [c |-> [i \in Idx |-> IF i = 3 THEN k ELSE 0], d |-> 1]
SZero     == Const(0)
SOne      == Const(1)
U         == [c |-> [i \in Idx |-> IF i = 4 THEN 1 ELSE 0], d |-> 1]
Mono(k,e) == [c |-> [i \in Idx |-> IF i = e + 3 THEN k ELSE 0], d |-> 1]

\* (operator arguments are re-evaluated at every use by TLC: bind them once with LET)
SAdd(a0, b0) == LET a == a0  b == b0
                IN Norm([i \in Idx |-> a.c[i] * b.d + b.c[i] * a.d], a.d * b.d)
SNeg(a0)   == LET a == a0 IN [c |-> [i \in Idx |-> 0 - a.c[i]], d |-> a.d]
SSub(a, b) == SAdd(a, SNeg(b))

\* product stays inside the degree window
MulOK(a0, b0) == LET a == a0  b == b0 IN \A i, j \in Idx : (a.c[i] # 0 /\ b.c[j] # 0) => (i + j - 3) \in Idx
CT(a, b, k, i) == IF (k + 3 - i) \in Idx THEN a.c[i] * b.c[k + 3 - i] ELSE 0
Conv(a, b, k) == CT(a, b, k, 1) + CT(a, b, k, 2) + CT(a, b, k, 3) + CT(a, b, k, 4) + CT(a, b, k, 5)
SMul(a0, b0) == LET a == a0  b == b0
                IN Norm([k \in Idx |-> Conv(a, b, k)], a.d * b.d)

IsZero(a) == \A i \in Idx : a.c[i] = 0
IsMono(a0) == LET a == a0 IN Cardinality({i \in Idx : a.c[i] # 0}) = 1
SInv(a0) ==   \* only for monomials: (n*u^e/d)^-1 = d*u^-e/n
  LET a == a0
      k == CHOOSE k \in Idx : a.c[k] # 0
      n == a.c[k]
  IN  Norm([j \in Idx |-> IF j = 6 - k THEN Sgn(n) * a.d ELSE 0], Abs(n))
InvOK(a) == IsMono(a)

Small(a, cmax, dmax) == a.d <= dmax /\ \A i \in Idx : Abs(a.c[i]) <= cmax
=============================================================================
