------------------------------ MODULE MaskTrace ------------------------------
(***************************************************************************)
(* Trace validation (code -> spec) for the participation masks of sign/bdn  *)
(* and sign/cosi.  A trace file is ndjson: many recorded runs, each starting *)
(* with a "reset" line.  Every run drives up to three real mask objects      *)
(* (o1..o3, all over the same key list of n signers) through random          *)
(* New / SetBit / SetMask / Merge / Clone calls; each line carries the call, *)
(* its arguments as given to the real code (indices, raw mask bytes), its    *)
(* return (ok / error) and the projection of the touched object afterwards   *)
(* (AggKey events: the aggregate key reported at that moment as well):       *)
(* Mask() bytes, CountEnabled(), IndexOfNthEnabled(k) for k = 0..n (bdn).    *)
(* TLC checks that the sequence is a behaviour of the mask machine of        *)
(* MultiSig (same transition operator MaskStepN) and that every logged       *)
(* projection is the one the abstract bitset determines.                     *)
(***************************************************************************)
EXTENDS MultiSig, Integers, IOUtils

Trace == ndJsonDeserialize(IOEnv.TRACE_FILE)

VARIABLES l, tn, tkind, tb
tvars == <<l, tn, tkind, tb>>

TObjs == {"o1", "o2", "o3"}
Dead == [live |-> FALSE, bits |-> {}]

Ev == Trace[l]
IsEvent(e) == l <= Len(Trace) /\ Trace[l].ev = e /\ l' = l + 1

SeqToSet(s) == {s[k] : k \in 1..Len(s)}
Pow2(j) == CASE j = 0 -> 1 [] j = 1 -> 2 [] j = 2 -> 4 [] j = 3 -> 8 [] j = 4 -> 16 [] j = 5 -> 32 [] j = 6 -> 64 [] j = 7 -> 128
(* all set bits of a raw mask byte string, padding bits included *)
BitsOfBytes(bs) == {x \in 0..(8 * Len(bs) - 1) : ((bs[(x \div 8) + 1] \div Pow2(x % 8)) % 2) = 1}
MaskLen(n) == (n + 7) \div 8

(* the logged projection of object o must be the one bitset b determines *)
(* Padding bits (positions >= n of the last byte) may be present in what a bdn mask was given; they are  *)
(* not signers: the signer bits, the count and the first Cardinality(b) positional answers are those of   *)
(* b.  Beyond that IndexOfNthEnabled may answer -1 or name a padding bit that is really set.              *)
RealBits(bs, n) == BitsOfBytes(bs) \cap (0..(n - 1))
ProjOK(n, b, st) ==
    /\ Len(st.mask) = MaskLen(n)
    /\ RealBits(st.mask, n) = b
    /\ st.count = Cardinality(b)
    /\ ("nth" \in DOMAIN st) =>
           /\ Len(st.nth) = n + 1
           /\ \A k \in 0..n :
                 IF k < Cardinality(b) THEN st.nth[k + 1] = IndexOfNthN(n, b, k)
                 ELSE st.nth[k + 1] = -1 \/ (st.nth[k + 1] >= n /\ st.nth[k + 1] \in BitsOfBytes(st.mask))

TReset ==
    /\ IsEvent("reset")
    /\ tn' = Ev.n /\ tkind' = Ev.kind
    /\ tb' = [o \in TObjs |-> Dead]

TNew ==
    /\ IsEvent("New")
    /\ ~tb[Ev.obj].live
    /\ LET ok == Ev.args.ctor # "unknown"
           b  == IF Ev.args.ctor = "own" THEN {Ev.args.i} ELSE {}
       IN /\ Ev.ret = (IF ok THEN "ok" ELSE "error")
          /\ tb' = [tb EXCEPT ![Ev.obj] = IF ok THEN [live |-> TRUE, bits |-> b] ELSE Dead]
          /\ ok => ProjOK(tn, b, Ev.state)
    /\ UNCHANGED <<tn, tkind>>

(* the abstract operation a logged call stands for *)
OpOf(e) ==
    CASE e.ev = "SetBit" ->
            [o |-> "SetBit", i |-> IF e.args.i < 0 THEN tn + 1 ELSE IF e.args.i >= tn THEN tn ELSE e.args.i, en |-> e.args.en]
      [] OTHER ->
            [o |-> e.ev, bs |-> RealBits(e.args.mask, tn), lenok |-> Len(e.args.mask) = MaskLen(tn)]

TApply(name) ==
    /\ IsEvent(name)
    /\ tb[Ev.obj].live
    /\ (name = "Merge" => tkind = "bdn")
    /\ LET r == MaskStepN(tn, OpOf(Ev), tb[Ev.obj].bits)
       IN /\ Ev.ret = r.ret
          /\ tb' = [tb EXCEPT ![Ev.obj].bits = r.bits]
          /\ ProjOK(tn, r.bits, Ev.state)
    /\ UNCHANGED <<tn, tkind>>

TClone ==
    /\ IsEvent("Clone")
    /\ tkind = "bdn"
    /\ tb[Ev.obj].live /\ ~tb[Ev.args.dst].live
    /\ tb' = [tb EXCEPT ![Ev.args.dst] = [live |-> TRUE, bits |-> tb[Ev.obj].bits]]
    /\ ProjOK(tn, tb[Ev.obj].bits, Ev.state)          \* state = projection of the NEW object
    /\ UNCHANGED <<tn, tkind>>

(* aggregation interleaved with the calls: the key the object reports must be the key of its CURRENT bits *)
(* (args.canon = key of a fresh canonical-route mask over the same bits), and nothing changes              *)
TAggKey ==
    /\ IsEvent("AggKey")
    /\ tkind = "bdn" /\ tb[Ev.obj].live
    /\ Ev.ret = "ok"
    /\ ProjOK(tn, tb[Ev.obj].bits, Ev.state)
    /\ Ev.state.key = Ev.args.canon
    /\ Ev.state.sig = Ev.args.canonsig               \* honest signatures of the enabled signers aggregate as over the clean mask
    /\ UNCHANGED <<tn, tkind, tb>>

TInit == l = 1 /\ tn = 1 /\ tkind = "bdn" /\ tb = [o \in TObjs |-> Dead]
TNext == (TReset \/ TNew \/ TApply("SetBit") \/ TApply("SetMask") \/ TApply("Merge") \/ TClone \/ TAggKey)
         /\ UNCHANGED vars
TraceSpec == TInit /\ Init /\ [][TNext]_<<tvars, vars>>

Mark == (TLCGet(1) < l) => TLCSet(1, l)
TraceAccepted == IF TLCGet(1) = Len(Trace) + 1 THEN TRUE ELSE PrintT(<<"REJECTED_AT", TLCGet(1)>>) /\ FALSE
ASSUME TLCSet(1, 0)
=============================================================================
