---------------------------- MODULE KyberAlgebra ----------------------------
(* Register machine over the kyber.Scalar / kyber.Point API of ONE group.    *)
(*                                                                         *)
(* Abstract state: two scalar registers and three point registers holding   *)
(* values of the free algebra (module Laurent): scalars are Laurent          *)
(* polynomials in u, points are linear combinations of the atoms            *)
(*   B (the generator), H (a point of unknown discrete log: Pick/Embed/Hash)*)
(* One action per public method; every combination of receiver / operand    *)
(* registers (= every aliasing pattern) is a separate transition.           *)
(*                                                                         *)
(* Serves C01 C02 C03 C05 (C17, C18 reuse the behaviours).  TLC checks the  *)
(* algebraic laws on the model (invariant Laws) and generates behaviours;   *)
(* the Go replayer steps the real objects and compares after every step.    *)
EXTENDS Laurent, TLC, Json

CONSTANTS Mode,    \* "scalar" | "alias" | "law" | "codec"
          L,       \* behaviour length (init record + L-1 steps)
          CMax, DMax

VARIABLES s, p, hist
vars == <<s, p, hist>>

SReg  == {"s1", "s2"}
PReg  == {"p1", "p2", "p3"}
Atoms == {"B", "H"}
Ints  == {-2, -1, 0, 1, 2, 3}

Sm(v)  == Small(v, CMax, DMax)
PZero  == [a \in Atoms |-> SZero]
PBase  == [a \in Atoms |-> IF a = "B" THEN SOne ELSE SZero]
PAtomH == [a \in Atoms |-> IF a = "H" THEN SOne ELSE SZero]
PAdd(x0, y0) == LET x == x0  y == y0 IN [a \in Atoms |-> SAdd(x[a], y[a])]
PNeg(x0)    == LET x == x0 IN [a \in Atoms |-> SNeg(x[a])]
PSub(x, y)  == PAdd(x, PNeg(y))
PMulOK(k0, x0) == LET k == k0  x == x0 IN \A a \in Atoms : MulOK(k, x[a])
PMul(k0, x0) == LET k == k0  x == x0 IN [a \in Atoms |-> SMul(k, x[a])]
PSm(x)      == \A a \in Atoms : Sm(x[a])

-----------------------------------------------------------------------------
(* operand classes for the law programs (C01 statement: identity, generator, *)
(* scalars 0, 1, q-1 = -1, boundary values through the binding of u)        *)
ScalarClasses == {SZero, SOne, Const(2), Const(-1), Const(-2), U, SAdd(U, SOne),
                  SSub(U, SOne), SNeg(U), Mono(1, 2), Mono(1, -1)}
PointClasses  == {PZero, PBase, PNeg(PBase), PAdd(PBase, PBase), PAtomH,
                  PAdd(PBase, PAtomH), PMul(U, PBase), PSub(PAtomH, PMul(U, PBase))}

Pools ==
  CASE Mode = "scalar" ->
         {[s |-> [s1 |-> x, s2 |-> y], p |-> [r \in PReg |-> PZero]] :
             x \in {U, Const(2)}, y \in {Const(3), SAdd(U, SOne), Mono(1, -1)}}
    [] Mode = "alias" ->
         {[s |-> [s1 |-> U, s2 |-> Const(2)],
           p |-> [p1 |-> PBase, p2 |-> PAtomH, p3 |-> PZero]],
          [s |-> [s1 |-> Const(-1), s2 |-> SAdd(U, SOne)],
           p |-> [p1 |-> PAdd(PBase, PAtomH), p2 |-> PMul(U, PBase), p3 |-> PBase]],
          [s |-> [s1 |-> Mono(1, -1), s2 |-> SZero],
           p |-> [p1 |-> PZero, p2 |-> PNeg(PBase), p3 |-> PAtomH]],
          [s |-> [s1 |-> U, s2 |-> U],
           p |-> [p1 |-> PAtomH, p2 |-> PAtomH, p3 |-> PAtomH]]}
    [] Mode = "codec" ->
         {[s |-> [s1 |-> x, s2 |-> U], p |-> [p1 |-> P, p2 |-> PAdd(PBase, PAtomH), p3 |-> PZero]] :
             x \in ScalarClasses, P \in PointClasses}
    [] Mode = "law" ->
         {[s |-> [s1 |-> x, s2 |-> y], p |-> [p1 |-> P, p2 |-> Q, p3 |-> PZero]] :
             x \in ScalarClasses, y \in {Const(2), U}, P \in PointClasses, Q \in PointClasses}

Init == \E pool \in Pools :
           /\ s = pool.s /\ p = pool.p
           /\ hist = <<[op |-> "init", s |-> pool.s, p |-> pool.p]>>

-----------------------------------------------------------------------------
Rec(op, d, a, b, k, v) == [op |-> op, d |-> d, a |-> a, b |-> b, k |-> k, v |-> v]

SStep(op, d, a, b, k, v) ==
  /\ Sm(v)
  /\ s' = [s EXCEPT ![d] = v] /\ UNCHANGED p
  /\ hist' = Append(hist, Rec(op, d, a, b, k, v))

PStep(op, d, a, b, k, v) ==
  /\ PSm(v)
  /\ p' = [p EXCEPT ![d] = v] /\ UNCHANGED s
  /\ hist' = Append(hist, Rec(op, d, a, b, k, v))

\* which registers may be written / read in this mode
SDst == IF Mode \in {"law", "codec"} THEN {"s2"} ELSE SReg
PDst == IF Mode \in {"law", "codec"} THEN {"p3"} ELSE PReg
PSrc == IF Mode = "law" THEN {"p1", "p2"} ELSE PReg
CodecOK == Mode # "law" /\ (Mode = "codec" => Len(hist) = L - 1)   \* codec mode: last step encodes
ArithOK == Mode = "codec" => Len(hist) < L - 1

ScalarNext ==
  \/ CodecOK /\ \E d, a \in SReg : SStep("s.codec", d, a, "", 0, s[a])
  \/ ArithOK /\ \E d \in SDst :
    \/ \E a, b \in SReg :
         \/ SStep("s.add", d, a, b, 0, SAdd(s[a], s[b]))
         \/ SStep("s.sub", d, a, b, 0, SSub(s[a], s[b]))
         \/ MulOK(s[a], s[b]) /\ SStep("s.mul", d, a, b, 0, SMul(s[a], s[b]))
         \/ /\ InvOK(s[b]) /\ MulOK(s[a], SInv(s[b]))
            /\ SStep("s.div", d, a, b, 0, SMul(s[a], SInv(s[b])))
    \/ \E a \in SReg :
         \/ SStep("s.neg", d, a, "", 0, SNeg(s[a]))
         \/ InvOK(s[a]) /\ SStep("s.inv", d, a, "", 0, SInv(s[a]))
         \/ SStep("s.set", d, a, "", 0, s[a])               \* incl. x.Set(x)
         \/ a # d /\ SStep("s.clone", d, a, "", 0, s[a])
    \/ SStep("s.zero", d, "", "", 0, SZero)
    \/ SStep("s.one", d, "", "", 0, SOne)
    \/ \E k \in Ints : SStep("s.int", d, "", "", k, Const(k))
    \/ SStep("s.loadu", d, "", "", 0, U)

PointNext ==
  \/ CodecOK /\ \E d, a \in PReg : PStep("p.codec", d, a, "", 0, p[a])
  \/ ArithOK /\ \E d \in PDst :
    \/ \E a, b \in PSrc :
         \/ PStep("p.add", d, a, b, 0, PAdd(p[a], p[b]))
         \/ PStep("p.sub", d, a, b, 0, PSub(p[a], p[b]))
    \/ \E a \in PSrc :
         \/ PStep("p.neg", d, a, "", 0, PNeg(p[a]))
         \/ PStep("p.set", d, a, "", 0, p[a])               \* incl. P.Set(P)
         \/ a # d /\ PStep("p.clone", d, a, "", 0, p[a])
    \/ \E k \in SReg :
         \/ \E a \in PSrc : PMulOK(s[k], p[a]) /\ PStep("p.mul", d, k, a, 0, PMul(s[k], p[a]))
         \/ PMulOK(s[k], PBase) /\ PStep("p.mul", d, k, "nil", 0, PMul(s[k], PBase))
    \/ PStep("p.null", d, "", "", 0, PZero)
    \/ PStep("p.base", d, "", "", 0, PBase)
    \/ PStep("p.pick", d, "", "", 0, PAtomH)

Next ==
  /\ Len(hist) < L
  /\ IF Mode = "scalar" THEN ScalarNext ELSE (ScalarNext \/ PointNext)

Spec == Init /\ [][Next]_vars

-----------------------------------------------------------------------------
(* Model-level properties.                                                   *)
TypeOK == /\ \A r \in SReg : Sm(s[r])
          /\ \A r \in PReg : PSm(p[r])

\* the laws of C01/C02 hold in the free algebra for the values in registers
Laws ==
  /\ \A a, b \in SReg :
        /\ SAdd(s[a], s[b]) = SAdd(s[b], s[a])
        /\ SSub(s[a], s[a]) = SZero
        /\ SAdd(s[a], SZero) = s[a]
        /\ MulOK(s[a], s[b]) => SMul(s[a], s[b]) = SMul(s[b], s[a])
        /\ (InvOK(s[a]) /\ MulOK(s[a], SInv(s[a]))) => SMul(s[a], SInv(s[a])) = SOne
  /\ \A a, b, c \in PReg :
        /\ PAdd(p[a], p[b]) = PAdd(p[b], p[a])
        /\ PAdd(PAdd(p[a], p[b]), p[c]) = PAdd(p[a], PAdd(p[b], p[c]))
        /\ PAdd(p[a], PZero) = p[a]
        /\ PSub(p[a], p[a]) = PZero
        /\ PAdd(p[a], PNeg(p[a])) = PZero
  /\ \A k, m \in SReg, a \in PReg :
        LET K == s[k]  M == s[m]  P == p[a] IN
        /\ (PMulOK(K, P) /\ PMulOK(M, P) /\ PMulOK(SAdd(K, M), P))
              => PMul(SAdd(K, M), P) = PAdd(PMul(K, P), PMul(M, P))
        /\ (PMulOK(M, P) /\ PMulOK(K, PMul(M, P)) /\ MulOK(K, M) /\ PMulOK(SMul(K, M), P))
              => PMul(K, PMul(M, P)) = PMul(SMul(K, M), P)
  /\ \A k \in SReg, a, b \in PReg :
        LET K == s[k]  P == p[a]  Q == p[b] IN
        (PMulOK(K, P) /\ PMulOK(K, Q) /\ PMulOK(K, PAdd(P, Q)))
              => PMul(K, PAdd(P, Q)) = PAdd(PMul(K, P), PMul(K, Q))
  /\ \A a \in PReg :
        /\ PMul(SZero, p[a]) = PZero
        /\ PMul(Const(-1), p[a]) = PNeg(p[a])
        /\ PMul(SOne, p[a]) = p[a]

View == <<s, p>>

\* value semantics in the model: a step changes exactly its destination
ValueSemantics ==
  [][\A r \in SReg \cup PReg :
        LET last == hist'[Len(hist')] IN
        (r # last.d) => (IF r \in SReg THEN s'[r] = s[r] ELSE p'[r] = p[r])]_vars

\* generator: every behaviour of length L is printed once
Emit == (Len(hist) = L) => PrintT(<<"TRACE", ToJson(hist)>>)
=============================================================================
