------------------------------ MODULE DSSTrace ------------------------------
(* Trace validation for sign/dss (C12, code -> spec): every recorded event   *)
(* of a real dss.DSS object must be a step of spec DSS.  The file (ndjson,   *)
(* IOEnv.TRACE_FILE) holds many objects one after the other, each starting   *)
(* with a "new" event; events are                                            *)
(*   {ev, args: {kind, from | n, t, p}, ret: "ok"|"err",                     *)
(*    state: {acc: [...], signed, enough}}                                   *)
(* written at the call's return by the harness driver or by the verif hook   *)
(* of sign/dss while the package's own tests run (there kind = "unknown").   *)
EXTENDS DSS, IOUtils

Trace == ndJsonDeserialize(IOEnv.TRACE_FILE)

VARIABLES l,     \* next trace line
          nn     \* number of participants of the current object
tvars == <<t, msg, focus, acc, signed, bad, delivered, hist, l, nn>>

IsEvent(e) == l <= Len(Trace) /\ Trace[l].ev = e /\ l' = l + 1

ToSet(s) == {s[k] : k \in 1..Len(s)}

\* the recorded projection of the object after the call
StateMatches ==
  LET st == Trace[l].state IN
  /\ acc'[focus'] = ToSet(st.acc)
  /\ signed'[focus'] = st.signed
  /\ st.enough = (Cardinality(acc'[focus']) >= t')

TInit ==
  /\ l = 1 /\ nn = 0
  /\ t = 1 /\ focus = 0 /\ msg = "text"
  /\ acc = [p \in Idx |-> {}] /\ signed = [p \in Idx |-> FALSE] /\ bad = [p \in Idx |-> 0]
  /\ delivered = [p \in Idx |-> {}] /\ hist = <<>>

TNew ==
  /\ IsEvent("new")
  /\ LET a == Trace[l].args IN
     /\ a.n <= N /\ a.p \in 0..a.n-1
     /\ nn' = a.n /\ t' = a.t /\ focus' = a.p /\ msg' = msg
  /\ acc' = [p \in Idx |-> {}] /\ signed' = [p \in Idx |-> FALSE] /\ bad' = [p \in Idx |-> 0]
  /\ delivered' = [p \in Idx |-> {}] /\ hist' = hist
  /\ StateMatches

TSign ==
  /\ IsEvent("PartialSig") /\ Trace[l].ret = "ok"
  /\ \/ Sign(focus)
     \/ signed[focus] /\ UNCHANGED <<t, msg, focus, acc, signed, bad, delivered, hist>>
  /\ nn' = nn
  /\ StateMatches

TRecv ==
  /\ IsEvent("ProcessPartialSig")
  /\ LET e == Trace[l]  i == Trace[l].args.from IN
     IF e.ret = "ok"
     THEN \* accepted: must be a valid partial of an in-range signer not held yet
          /\ i \in 0..nn-1 /\ e.args.kind \in {"valid", "unknown"}
          /\ RecvValid(focus, i)
     ELSE \* rejected: must not have been a fresh valid partial; the object is unchanged
          /\ ~(e.args.kind = "valid" /\ i \in 0..nn-1 /\ i \notin acc[focus])
          /\ UNCHANGED <<t, msg, focus, acc, signed, bad, delivered, hist>>
  /\ nn' = nn
  /\ StateMatches

TSignature ==
  /\ IsEvent("Signature")
  /\ (Trace[l].ret = "ok") <=> Enough(focus)
  /\ UNCHANGED <<t, msg, focus, acc, signed, bad, delivered, hist, nn>>
  /\ StateMatches

TNext == TNew \/ TSign \/ TRecv \/ TSignature
TraceSpec == TInit /\ [][TNext]_tvars

Mark == (TLCGet(1) < l) => TLCSet(1, l)          \* CONSTRAINT: high-water mark of explained lines
TraceAccepted ==
  IF TLCGet(1) = Len(Trace) + 1 THEN TRUE
  ELSE PrintT(<<"REJECTED_AT", TLCGet(1)>>) /\ FALSE
ASSUME TLCSet(1, 0)
=============================================================================
