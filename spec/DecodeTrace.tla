----------------------------- MODULE DecodeTrace -----------------------------
(***************************************************************************)
(* Trace validation for C04 (code -> spec).  The harness feeds certified   *)
(* witnesses, bit flips / truncations / extensions of valid encodings and  *)
(* random strings to the real decoders (and composite parsers), applies    *)
(* follow-up operations, and logs per object                               *)
(*    reset(profile | parser) ; Feed(cls) -> ret, val ; Use(op) -> ret ... *)
(* Identical abstract objects are logged once with a count.  This module   *)
(* checks that the log is a behaviour of Decode: every event must be an    *)
(* instance of the corresponding action with the recorded outcome.         *)
(***************************************************************************)
EXTENDS Decode, IOUtils

Trace == ndJsonDeserialize(IOEnv.TRACE_FILE)

VARIABLE l
tvars == <<pr, cls, phase, member, nuse, hist, l>>

ProfileByName(n) == CHOOSE p \in Profiles : p.name = n

IsEvent(e) == l <= Len(Trace) /\ Trace[l].ev = e /\ l' = l + 1

\* a new object: re-establish Init for the named profile / parser
TReset ==
  /\ IsEvent("reset")
  /\ \E p \in Profiles : p.name = Trace[l].args.subject
  /\ pr' = ProfileByName(Trace[l].args.subject)
  /\ cls' = "none" /\ phase' = "fresh" /\ member' = FALSE /\ nuse' = 0 /\ hist' = <<>>

TFeed ==
  /\ IsEvent("Feed") /\ phase = "fresh"
  /\ Trace[l].args.cls \in Lattice(pr)
  /\ Feed(Trace[l].args.cls)
  /\ phase' = (IF Trace[l].ret = "accept" THEN "accepted" ELSE IF Trace[l].ret = "reject" THEN "rejected" ELSE "crashed")
  /\ Trace[l].ret = "accept" => Trace[l].state.val \in OkMems(pr)

TUse ==
  /\ IsEvent("Use") /\ phase = "accepted"
  /\ IF pr.kind = "composite"
       THEN Trace[l].args.op = "UseParsed" /\ UseParsed /\ Trace[l].ret \in {"ok", "error"}
       ELSE /\ Trace[l].args.op \in Ops(pr)
            /\ Use(Trace[l].args.op)
            /\ Trace[l].ret \in UseAllowed(pr, Trace[l].args.op)

TParse ==
  /\ IsEvent("Parse") /\ phase = "fresh"
  /\ Trace[l].args.mut \in Muts
  /\ Parse(Trace[l].args.mut)
  /\ phase' = (IF Trace[l].ret = "ok" THEN "accepted" ELSE IF Trace[l].ret = "error" THEN "rejected" ELSE "crashed")

\* phase "idle": no object yet; Feed / Parse need phase "fresh", which only a reset establishes
TInit == /\ pr = "none" /\ cls = "none" /\ phase = "idle" /\ member = FALSE /\ nuse = 0 /\ hist = <<>> /\ l = 1
TNext == TReset \/ TFeed \/ TUse \/ TParse
TraceSpec == TInit /\ [][TNext]_tvars

Mark == (TLCGet(1) < l) => TLCSet(1, l)    \* CONSTRAINT: high-water mark
TraceAccepted ==
  IF TLCGet(1) = Len(Trace) + 1 THEN TRUE
  ELSE PrintT(<<"REJECTED_AT", TLCGet(1)>>) /\ FALSE
ASSUME TLCSet(1, 0)
=============================================================================
