----------------------------- MODULE PickEmbed -----------------------------
(* C17: Pick, Embed and hash-to-group are deterministic functions of the      *)
(* bytes drawn from the stream / of (message, tag); results are group        *)
(* members; Embed is lossless for data up to EmbedLen.                        *)
(*                                                                         *)
(* A stream value is its whole past: (seed, kind, operations applied).  Two  *)
(* handles with the same past are in the same state, so whatever they        *)
(* produce next must be Equal.  A point value records where it came from.    *)
EXTENDS Naturals, Sequences, FiniteSets, TLC, Json

CONSTANTS L          \* behaviour length (number of steps)

VARIABLES st, pt, kt, hist
vars == <<st, pt, kt, hist>>

SReg  == {"r1", "r2"}
PReg  == {"p1", "p2"}
KReg  == {"k1", "k2"}                 \* scalar registers (Scalar.Pick, C02: value determined by the bytes drawn)
Seeds == {"A", "B"}
\* zeros/ones: adversarial constant prefix forcing retries; mod*/ord*: the first candidate drawn is exactly
\* the field modulus / the group order (big- or little-endian); then the seeded XOF
Kinds == {"xof", "zeros", "ones", "modBE", "modLE", "ordBE", "ordLE"}
DLens == {"0", "1", "Lm1", "L", "Lp1", "Lp8"}   \* data length relative to EmbedLen
DConts == {"z", "f", "r"}             \* all-00, all-ff, pseudo-random content
Msgs  == {"m0", "m1", "m64", "m300"}
Dsts  == {"d1", "d2"}

NoStream == [seed |-> "-", kind |-> "-", ops |-> <<>>]
NoPoint  == [src |-> "none", key |-> <<>>, data |-> <<>>]

\* both handles start in the same state (two handles on one seeded stream)
Init == \E k \in Kinds :
        /\ st = [r \in SReg |-> [seed |-> "A", kind |-> k, ops |-> <<>>]]
        /\ pt = [p \in PReg |-> NoPoint]
        /\ kt = [x \in KReg |-> NoPoint]
        /\ hist = <<[op |-> "init", kind |-> k]>>

\* what Data() must return for an embedded point: the stored class, truncated to EmbedLen
\* (empty data has no content: canonical content label "z")
DC(dl, dc) == IF dl = "0" THEN "z" ELSE dc
Stored(dl, dc) == <<(IF dl \in {"Lp1", "Lp8"} THEN "L" ELSE dl), DC(dl, dc), dl>>

\* expected observations after a step on register p
Other(p) == CHOOSE o \in PReg : o # p
Relation(x, y) ==
  IF x.src = "none" \/ y.src = "none" THEN "na"
  ELSE IF x.src = y.src /\ x.key = y.key /\ x.data = y.data THEN "equal"
  ELSE IF x.src = "hash" /\ y.src = "hash" THEN "differ"          \* different message or tag
  ELSE IF "hash" \in {x.src, y.src} THEN "free"
  ELSE IF x.src = "embed" /\ y.src = "embed"
          /\ <<x.data[1], x.data[2]>> # <<y.data[1], y.data[2]>> THEN "differ"  \* lossless => distinct
  ELSE IF x.key.kind = "xof" /\ y.key.kind = "xof" /\ x.key.seed # y.key.seed THEN "differ"  \* different bytes drawn
  ELSE "free"   \* same seed with a different past, or an adversarial constant prefix: the bytes drawn may coincide

Obs(p, newpt) == [rel |-> Relation(newpt[p], newpt[Other(p)]),
                  data |-> IF newpt[p].src = "embed" THEN <<newpt[p].data[1], newpt[p].data[2]>> ELSE <<>>]

Step(rec, newst, newpt, p) ==
  /\ st' = newst /\ pt' = newpt /\ UNCHANGED kt
  /\ hist' = Append(hist, rec @@ [obs |-> Obs(p, newpt)])

NewStream(r, seed, kind) ==
  /\ st' = [st EXCEPT ![r] = [seed |-> seed, kind |-> kind, ops |-> <<>>]]
  /\ UNCHANGED <<pt, kt>>
  /\ hist' = Append(hist, [op |-> "newstream", r |-> r, seed |-> seed, kind |-> kind])

CopyStream(r, r2) ==
  /\ r # r2 /\ st[r2].seed # "-"
  /\ st' = [st EXCEPT ![r] = st[r2]]
  /\ UNCHANGED <<pt, kt>>
  /\ hist' = Append(hist, [op |-> "copystream", r |-> r, r2 |-> r2])

Pick(p, r) ==
  /\ st[r].seed # "-"
  /\ LET v == [src |-> "pick", key |-> st[r], data |-> <<>>] IN
     Step([op |-> "pick", p |-> p, r |-> r],
          [st EXCEPT ![r].ops = Append(@, <<"pick">>)], [pt EXCEPT ![p] = v], p)

Embed(p, r, dl, dc) ==
  /\ st[r].seed # "-"
  /\ LET v == [src |-> "embed", key |-> st[r], data |-> Stored(dl, dc)] IN
     Step([op |-> "embed", p |-> p, r |-> r, dl |-> dl, dc |-> dc],
          [st EXCEPT ![r].ops = Append(@, <<"embed", dl, DC(dl, dc)>>)], [pt EXCEPT ![p] = v], p)

\* Scalar.Pick: the scalar is a function of the stream's past; range [0,q) is checked by the replayer
OtherK(k) == CHOOSE o \in KReg : o # k
SPick(k, r) ==
  /\ st[r].seed # "-"
  /\ LET v == [src |-> "pick", key |-> st[r], data |-> <<>>]
         nk == [kt EXCEPT ![k] = v] IN
     /\ st' = [st EXCEPT ![r].ops = Append(@, <<"spick">>)]
     /\ kt' = nk /\ UNCHANGED pt
     /\ hist' = Append(hist, [op |-> "spick", k |-> k, r |-> r,
                              obs |-> [rel |-> Relation(nk[k], nk[OtherK(k)]), data |-> <<>>]])

Hash(p, m, d) ==
  Step([op |-> "hash", p |-> p, m |-> m, dst |-> d], st,
       [pt EXCEPT ![p] = [src |-> "hash", key |-> <<m, d>>, data |-> <<>>]], p)

Codec(p, p2) ==
  /\ p # p2 /\ pt[p2].src # "none"
  /\ Step([op |-> "codec", p |-> p, p2 |-> p2], st, [pt EXCEPT ![p] = pt[p2]], p)

Next ==
  /\ Len(hist) < L
  /\ \/ \E r \in SReg, s \in Seeds, k \in Kinds : NewStream(r, s, k)
     \/ \E r, r2 \in SReg : CopyStream(r, r2)
     \/ \E p \in PReg, r \in SReg : Pick(p, r)
     \/ \E k \in KReg, r \in SReg : SPick(k, r)
     \/ \E p \in PReg, r \in SReg, dl \in DLens, dc \in DConts : Embed(p, r, dl, dc)
     \/ \E p \in PReg, m \in Msgs, d \in Dsts : Hash(p, m, d)
     \/ \E p, p2 \in PReg : Codec(p, p2)

Spec == Init /\ [][Next]_vars

-----------------------------------------------------------------------------
\* Model-level sanity: determinism - equal pasts give equal values
Deterministic ==
  \A p, q \in PReg : (pt[p].src = "pick" /\ pt[q].src = "pick" /\ pt[p].key = pt[q].key) => pt[p] = pt[q]
\* a step touches at most the stream it names, and drawing appends exactly one operation to its past
StreamDiscipline ==
  [][LET last == hist'[Len(hist')] IN
     \A r \in SReg :
        \/ st'[r] = st[r]
        \/ last.op \in {"newstream", "copystream"} /\ last.r = r
        \/ /\ last.op \in {"pick", "embed", "spick"} /\ last.r = r
           /\ Len(st'[r].ops) = Len(st[r].ops) + 1
           /\ SubSeq(st'[r].ops, 1, Len(st[r].ops)) = st[r].ops]_vars
View == <<st, pt, kt>>
\* only behaviours that end in a point-producing step are interesting
Emit == (Len(hist) = L /\ hist[L].op \in {"pick", "embed", "hash", "codec", "spick"}) => PrintT(<<"TRACE", ToJson(hist)>>)
=============================================================================
