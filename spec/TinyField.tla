----------------------------- MODULE TinyField ------------------------------
(* Exact models over tiny domains (DESIGN 3.3(b)):                          *)
(*  Mode "scalar"  kyber's own mod.Int at moduli m in Moduli (2..17): two   *)
(*                 registers x, y in Z_m, receiver x; every operation with  *)
(*                 every operand aliasing; SetInt64 -20..20; SetBytes of    *)
(*                 1..3 bytes over a 6-value alphabet in both byte orders.  *)
(*                 TLC computes every result in Z_m (C02 / C19).            *)
(*  Mode "random" = the three sub-models below (st.kind tells which):        *)
(*       "randint" util/random.Int(m, stream) as the rejection loop it is:  *)
(*                 one Draw per candidate; candidate = next stream bytes    *)
(*                 masked to BitLen(m); accepted iff < m.  Exact value and   *)
(*                 number of bytes consumed for m in Moduli (1..17) and all *)
(*                 scripted streams of <= 3 bytes over a 6-value alphabet   *)
(*                 (the stream continues with zero bytes).                  *)
(*       "randbig" the same loop for moduli of K bits described by classes  *)
(*                 (shape of the modulus x class of each candidate).        *)
(*       "bits"    util/random.Bits(bitlen, exact, stream): length, mask of *)
(*                 the top byte, forced top bit.                            *)
EXTENDS Integers, Sequences, FiniteSets, TLC, Json

CONSTANTS Mode,         \* "scalar" | "random" (= randint + randbig + bits in one run)
          Moduli,       \* scalar: moduli of mod.Int
          L,            \* scalar: behaviour length
          RModuli,      \* randint: moduli of random.Int (exact)
          BigLens,      \* randbig: bit lengths K of the modulus
          BitLens       \* bits: bit lengths

VARIABLES st, hist
vars == <<st, hist>>

Pow2(n) == 2 ^ n
BitLen(m) == CHOOSE k \in 0..20 : (m < Pow2(k)) /\ (k = 0 \/ m >= Pow2(k - 1))
Mod(a, m) == ((a % m) + m) % m
Gcd(a, b) == CHOOSE g \in 1..(IF a > b THEN a ELSE b) :
               /\ a % g = 0 /\ b % g = 0
               /\ \A h \in (g + 1)..(IF a > b THEN a ELSE b) : ~(a % h = 0 /\ b % h = 0)
Unit(a, m) == a # 0 /\ Gcd(a, m) = 1
InvM(a, m) == CHOOSE z \in 1..(m - 1) : (a * z) % m = 1
OrBit(v, bit) == IF (v \div bit) % 2 = 1 THEN v ELSE v + bit

-----------------------------------------------------------------------------
(* Mode "scalar"                                                            *)
ByteAlpha == {0, 1, 16, 127, 128, 255}
ByteSeqs == UNION {[1..n -> ByteAlpha] : n \in 1..3}
BE(bs) == IF Len(bs) = 1 THEN bs[1] ELSE IF Len(bs) = 2 THEN bs[1] * 256 + bs[2]
          ELSE bs[1] * 65536 + bs[2] * 256 + bs[3]
LE(bs) == IF Len(bs) = 1 THEN bs[1] ELSE IF Len(bs) = 2 THEN bs[2] * 256 + bs[1]
          ELSE bs[3] * 65536 + bs[2] * 256 + bs[1]
Regs == {"x", "y"}
Val(r) == IF r = "x" THEN st.x ELSE st.y

SRec(op, a, b, k, bs, v) == [op |-> op, a |-> a, b |-> b, k |-> k, bs |-> bs, x |-> v, y |-> st.y]
SStep(op, a, b, k, bs, v) ==
  /\ st' = [st EXCEPT !.x = v]
  /\ hist' = Append(hist, SRec(op, a, b, k, bs, v))

ScalarInit == \E m \in Moduli, a, b \in 0..16, le \in BOOLEAN :
  /\ a < m /\ b < m /\ (le => (a = 0 /\ b = 0))
  /\ st = [m |-> m, x |-> a, y |-> b, le |-> le]
  /\ hist = <<[op |-> "init", m |-> m, x |-> a, y |-> b, le |-> le]>>

ScalarNext ==
  LET m == st.m IN
  /\ Len(hist) < L
  /\ \/ \E a, b \in Regs :
          \/ SStep("Add", a, b, 0, <<>>, Mod(Val(a) + Val(b), m))
          \/ SStep("Sub", a, b, 0, <<>>, Mod(Val(a) - Val(b), m))
          \/ SStep("Mul", a, b, 0, <<>>, Mod(Val(a) * Val(b), m))
          \/ Unit(Val(b), m) /\ SStep("Div", a, b, 0, <<>>, Mod(Val(a) * InvM(Val(b), m), m))
     \/ \E a \in Regs :
          \/ SStep("Neg", a, a, 0, <<>>, Mod(0 - Val(a), m))
          \/ Unit(Val(a), m) /\ SStep("Inv", a, a, 0, <<>>, InvM(Val(a), m))
          \/ SStep("Set", a, a, 0, <<>>, Val(a))
     \/ SStep("Zero", "x", "x", 0, <<>>, 0)
     \/ SStep("One", "x", "x", 0, <<>>, Mod(1, m))
     \/ /\ st.x = 0 /\ st.y = 0 /\ Len(hist) = 1          \* value-independent loads: once per (m, byte order)
        /\ \/ \E k \in -20..20 : ~st.le /\ SStep("SetInt64", "x", "x", k, <<>>, Mod(k, m))
           \/ \E bs \in ByteSeqs : SStep("SetBytes", "x", "x", 0, bs, Mod(IF st.le THEN LE(bs) ELSE BE(bs), m))

(* the model's own arithmetic is sound: results are residues and satisfy the*)
(* defining equations of the field operations                               *)
ScalarSound ==
  (Mode = "scalar" /\ Len(hist) >= 2) =>
    LET r == hist[Len(hist)]  p == hist[Len(hist) - 1]  m == st.m
        va == IF r.a = "x" THEN p.x ELSE p.y
        vb == IF r.b = "x" THEN p.x ELSE p.y IN
    /\ r.x \in 0..(m - 1) /\ r.y = p.y
    /\ (r.op = "Sub" => Mod(r.x + vb, m) = va)
    /\ (r.op = "Neg" => Mod(r.x + va, m) = 0)
    /\ (r.op = "Div" => Mod(r.x * vb, m) = va)
    /\ (r.op = "Inv" => Mod(r.x * va, m) = 1)
    /\ (r.op = "Add" => Mod(r.x - vb, m) = va)

-----------------------------------------------------------------------------
(* Mode "randint": the rejection loop of random.Int                         *)
RAlpha(m) == {0, m - 1, m, Pow2(BitLen(m)) - 1, 255, 128 + (m - 1)} \cap 0..255
Scripts(m) == UNION {[1..n -> RAlpha(m)] : n \in 0..3}
StreamByte(i) == IF i <= Len(st.script) THEN st.script[i] ELSE 0   \* the stream goes on with zeros

RandInit == \E m \in RModuli : \E sc \in Scripts(m) :
  /\ st = [kind |-> "int", m |-> m, script |-> sc, used |-> 0, val |-> -1]
  /\ hist = <<>>
Draw ==            \* one iteration: Bits(BitLen(m), FALSE, stream), accepted iff below the modulus
  /\ st.kind = "int" /\ st.val = -1
  /\ LET cand == StreamByte(st.used + 1) % Pow2(BitLen(st.m))      \* top-bit mask
         v == IF cand < st.m THEN cand ELSE -1 IN
     /\ st' = [st EXCEPT !.used = @ + 1, !.val = v]
     /\ hist' = IF v >= 0 THEN <<[op |-> "Int", m |-> st.m, script |-> st.script, val |-> v, used |-> st.used + 1]>>
                ELSE hist
RandSound ==
  (Mode = "random" /\ st.kind = "int") =>
    /\ st.used <= Len(st.script) + 1                               \* terminates on the zero tail
    /\ st.val >= 0 =>
         /\ st.val < st.m                                           \* range
         /\ st.val = StreamByte(st.used) % Pow2(BitLen(st.m))       \* the candidate itself: rejection, not reduction
         /\ \A i \in 1..(st.used - 1) : StreamByte(i) % Pow2(BitLen(st.m)) >= st.m
(* no modulo bias: over ALL streams whose first byte decides, every residue *)
(* is hit by the same number of byte values (checked as an ASSUME-style     *)
(* invariant on the constants)                                              *)
Unbiased == (Mode = "random" /\ st.kind = "int" /\ st.used = 0 /\ st.script = <<>>) =>
  LET m == st.m  k == BitLen(st.m) IN
  \A v \in 0..(m - 1) :
     Cardinality({b \in 0..255 : b % Pow2(k) = v}) = Cardinality({b \in 0..255 : b % Pow2(k) = 0})

-----------------------------------------------------------------------------
(* Mode "randbig": K-bit moduli by class                                    *)
Shapes == {"pow2", "pow2m1", "pow2p1", "rand"}      \* 2^(K-1), 2^K - 1, 2^(K-1) + 1, random with top bit set
CandClasses == {"zero", "below", "equal", "above", "max", "hi"}
(* is a candidate of class c, after masking to K bits, below a modulus of the shape? *)
CandOK(K, sh, c) ==      \* can the class be built for this modulus at all
  CASE c = "above" -> sh # "pow2m1" /\ K >= 2         \* m + 1 must fit in K bits
    [] c = "hi"    -> K % 8 # 0                       \* garbage above bit K only if the top byte has spare bits
    [] OTHER       -> TRUE
Below(c) == c \in {"zero", "below", "hi"}             \* m-1 and 0 are below, "hi" = (m-1) + garbage that the mask removes
BigScripts(K, sh) == UNION {[1..n -> {c \in CandClasses : CandOK(K, sh, c)}] : n \in 0..3}

BigInit == \E K \in BigLens, sh \in Shapes :
  /\ (K = 1 => sh \in {"pow2"})                       \* the only 1-bit modulus is 1
  /\ (K = 2 => sh \in {"pow2", "pow2m1"})             \* the 2-bit moduli are 2 and 3
  /\ \E sc \in BigScripts(K, sh) :
       /\ st = [kind |-> "big", K |-> K, sh |-> sh, script |-> sc, used |-> 0, val |-> "none"]
       /\ hist = <<>>
BigDraw ==
  /\ st.kind = "big" /\ st.val = "none"
  /\ LET i == st.used + 1
         c == IF i <= Len(st.script) THEN st.script[i] ELSE "zero"
         v == IF Below(c) THEN c ELSE "none" IN
     /\ st' = [st EXCEPT !.used = i, !.val = v]
     /\ hist' = IF v # "none"
                THEN <<[op |-> "IntBig", K |-> st.K, sh |-> st.sh, script |-> st.script, val |-> v,
                        cands |-> i, bytes |-> i * ((st.K + 7) \div 8)]>>
                ELSE hist

-----------------------------------------------------------------------------
(* Mode "bits"                                                              *)
TopAlpha == {0, 1, 85, 128, 170, 255}
BitsInit == \E n \in BitLens, ex \in BOOLEAN, top \in TopAlpha :
  LET nb == (n + 7) \div 8
      hb == n % 8
      masked == IF hb # 0 THEN top % Pow2(hb) ELSE top
      forced == IF ~ex THEN masked ELSE IF hb # 0 THEN OrBit(masked, Pow2(hb - 1)) ELSE OrBit(masked, 128) IN
  /\ st = [kind |-> "bits", n |-> n]
  /\ hist = <<[op |-> "Bits", n |-> n, exact |-> ex, top |-> top, len |-> nb,
               out |-> IF nb = 0 THEN -1 ELSE forced,       \* expected first byte (-1: empty result)
               bitlen |-> IF nb = 0 THEN 0 ELSE
                          IF forced = 0 THEN -1              \* top byte zero: bit length decided by the rest (<= n - 8 + ...)
                          ELSE (nb - 1) * 8 + BitLen(forced)]>>
BitsSound == (Mode = "random" /\ st.kind = "bits") =>
  LET r == hist[1] IN
  /\ r.bitlen <= r.n                                   \* never more than requested
  /\ (r.exact /\ r.n > 0) => r.bitlen = r.n            \* exactly the requested length when exact

-----------------------------------------------------------------------------
Init == IF Mode = "scalar" THEN ScalarInit ELSE (RandInit \/ BigInit \/ BitsInit)
Next == IF Mode = "scalar" THEN ScalarNext ELSE (Draw \/ BigDraw)
Spec == Init /\ [][Next]_vars

Done == IF Mode = "scalar" THEN Len(hist) = L
        ELSE CASE st.kind = "int"  -> st.val >= 0
               [] st.kind = "big"  -> st.val # "none"
               [] st.kind = "bits" -> TRUE
Emit == Done => PrintT(<<"TRACE", ToJson(hist)>>)
=============================================================================
