------------------------------ MODULE Encrypt ------------------------------
(***************************************************************************)
(* C16 - encryption round-trips, hides the plaintext and rejects altered   *)
(* ciphertexts.                                                            *)
(*                                                                         *)
(* Case-lattice specification (DESIGN 3.3c).  Abstract state: the scheme,  *)
(* the length class of the message, whether encryption produced a          *)
(* ciphertext, the set of alterations applied to (a private copy of) that  *)
(* ciphertext, and which key is used to decrypt.  The verdict relations    *)
(* EncAllowed / DecAllowed / LeakAllowed are the property; TLC checks      *)
(* their meta-properties (Total, AcceptImpliesUntouched, RoundTrip,        *)
(* NeverOtherPlaintext, TamperMonotone, FreedomExplicit) over the whole    *)
(* reachable case space and enumerates every case for the harness, which   *)
(* owns one concretiser per abstract alteration ("flip the k-th bit of     *)
(* the first/middle/last byte of field f", "truncate by one byte / by the  *)
(* tag length / to the header", "flip a body bit and recompute the tag     *)
(* from public data") and certifies that the bytes really changed.         *)
(*                                                                         *)
(* Every decryption works on its own copy of the ciphertext: the property  *)
(* speaks about ciphertext values.                                         *)
(***************************************************************************)
EXTENDS Naturals, Sequences, FiniteSets, TLC, Json

CONSTANTS MaxTampers     \* alterations applied before one decryption (1 or 2)

VARIABLES scheme, len, enc, tampers,
          shared,    \* keys used so far on the ONE caller-owned copy of the untouched ciphertext ("same buffer")
          hist
vars == <<scheme, len, enc, tampers, shared, hist>>

Schemes == {"ecies", "ibe-cca-g1", "ibe-cca-g2", "ibe-cpa-g1", "anon"}

\* authenticated schemes: the property demands an error for any alteration / wrong key
Authenticated(s) == s \in {"ecies", "ibe-cca-g1", "ibe-cca-g2", "anon"}

\* schemes whose message length is bounded by the hash size (the pad is one hash output)
HashBounded(s) == s \in {"ibe-cca-g1", "ibe-cca-g2", "ibe-cpa-g1"}

(* Length classes.  "big" = 4096; "limit" = beyond the scheme's explicit     *)
(* limit (only hash-bounded schemes have one).                               *)
LenClasses == {"0", "1", "hash-1", "hash", "hash+1", "2hash", "big", "limit"}
Short == {"0", "1", "hash-1", "hash"}

LenOK(s, l) == l = "limit" => HashBounded(s)
\* the scheme certainly protects messages of this class (so it must accept them)
Fits(s, l) == IF HashBounded(s) THEN l \in Short ELSE l # "limit"

(* Fields of a ciphertext: ephemeral point (R / U / rP / X), header (the      *)
(* masked sigma V of IBE-CCA; the per-recipient key slots of the anonymous   *)
(* set scheme), body, tag.                                                   *)
Fields(s) ==
  CASE s = "ecies"                        -> {"ephemeral", "body", "tag"}
    [] s \in {"ibe-cca-g1", "ibe-cca-g2"} -> {"ephemeral", "header", "body"}
    [] s = "ibe-cpa-g1"                   -> {"ephemeral", "body"}
    [] s = "anon"                         -> {"ephemeral", "header", "body", "tag"}

Flips  == {"flipFirst", "flipMid", "flipLast"}
Truncs == {"trunc1", "truncTag", "truncToHeader"}
\* "retag": a body bit is flipped and the tag recomputed from public data only (no key)
Kinds  == Flips \cup Truncs \cup {"retag"}

\* an alteration is a flip in a field, a truncation of the whole ciphertext, or a retag of the body
Alterations(s) ==
  { [field |-> f, kind |-> k] : f \in Fields(s), k \in Flips }
  \cup { [field |-> "whole", kind |-> k] : k \in Truncs }
  \cup (IF "tag" \in Fields(s) THEN { [field |-> "body", kind |-> "retag"] } ELSE {})

KeyRels == {"right", "wrong"}   \* wrong = another key pair / identity / a non-recipient / another recipient's key at this index

-----------------------------------------------------------------------------
(* The property.                                                             *)

\* Encrypt: what certainly fits must be accepted; anything else may be refused - or accepted, in which case all
\* obligations below (round trip, no leak, integrity) hold for the ciphertext ("refuse what you cannot protect")
EncAllowed(s, l) == IF Fits(s, l) THEN {"ok"} ELSE {"ok", "refused"}
EncTag(s, l) == IF Fits(s, l) THEN "det" ELSE "free:may-extend-or-refuse"

(* IBE-CCA (Fujisaki-Okamoto) binds a ciphertext to the key through sigma, and sigma has as many bytes as the      *)
(* message.  With a one-byte message a wrong key survives the re-encryption check with probability 2^-8 (and then  *)
(* returns the original byte), whether or not V was altered as well: a single run cannot judge these cases, so     *)
(* they are left free and tagged.                                                                                  *)
(* The empty message is kept strict: there the outcome is deterministic.                                           *)
CoinFlip(s, l, T, k) == s \in {"ibe-cca-g1", "ibe-cca-g2"} /\ l = "1" /\ k = "wrong"

\* Decrypt of a copy altered by the set T with key relation k (message of length class l)
DecAllowed(s, l, T, k) ==
  IF T = {} /\ k = "right" THEN {"ok"}                      \* exactly the original message
  ELSE IF CoinFlip(s, l, T, k) THEN {"ok", "error"}
  ELSE IF Authenticated(s) THEN {"error"}                    \* never a plaintext, never a panic
  ELSE {"ok", "other", "error"}                              \* unauthenticated: anything but a panic
DecTag(s, l, T, k) ==
  IF T = {} /\ k = "right" THEN "det"
  ELSE IF CoinFlip(s, l, T, k) THEN "free:8-bit-binding"
  ELSE IF Authenticated(s) THEN "det" ELSE "free:unauthenticated-scheme"

(* Same buffer: a caller may hand the same ciphertext slice to Decrypt again (another key first, or twice).  The    *)
(* property speaks about ciphertext VALUES, so for schemes whose decryption does not write to its input the verdict  *)
(* of a call depends only on (ciphertext value, key), not on earlier calls: the buffer is byte-identical after every *)
(* call and never holds plaintext.  anon.Decrypt of the pinned tree verifies its MAC in place (the tag bytes of the  *)
(* caller's slice are overwritten - recorded as an observation in DESIGN 7); that scheme is exempt here and every    *)
(* one of its decryptions gets a private copy.                                                                       *)
PreservesInput(s) == s # "anon"
MaxShared == 2

\* no 8-byte-aligned block of the plaintext appears in an accepted ciphertext
LeakAllowed == {"clean"}

-----------------------------------------------------------------------------
Init ==
  /\ scheme \in Schemes
  /\ len \in {l \in LenClasses : LenOK(scheme, l)}
  /\ enc = "none" /\ tampers = {} /\ shared = <<>> /\ hist = <<>>

Encrypt ==
  /\ enc = "none"
  /\ \E o \in EncAllowed(scheme, len) :
       /\ enc' = o
       /\ hist' = Append(hist, [act |-> "Encrypt", scheme |-> scheme, len |-> len, outcome |-> o,
                                allowed |-> EncAllowed(scheme, len), tag |-> EncTag(scheme, len),
                                message |-> {"intact"}])     \* the caller's message slice is not written to
  /\ UNCHANGED <<scheme, len, tampers, shared>>

LeakScan ==
  /\ enc = "ok" /\ tampers = {} /\ Len(hist) = 1
  /\ hist' = Append(hist, [act |-> "LeakScan", allowed |-> LeakAllowed])
  /\ UNCHANGED <<scheme, len, enc, tampers, shared>>

Tamper(a) ==
  /\ enc = "ok" /\ Cardinality(tampers) < MaxTampers /\ a \notin tampers
  /\ hist[Len(hist)].act \in {"Encrypt", "Tamper"}
  /\ tampers' = tampers \cup {a}
  /\ hist' = Append(hist, [act |-> "Tamper", field |-> a.field, kind |-> a.kind])
  /\ UNCHANGED <<scheme, len, enc, shared>>

Decrypt(k) ==
  /\ enc = "ok"
  /\ hist[Len(hist)].act \in {"Encrypt", "Tamper"}
  /\ hist' = Append(hist, [act |-> "Decrypt", key |-> k, allowed |-> DecAllowed(scheme, len, tampers, k),
                           tag |-> DecTag(scheme, len, tampers, k)])
  /\ UNCHANGED <<scheme, len, enc, tampers, shared>>

\* decryption of the caller-owned buffer holding the untouched ciphertext; verdict as for a fresh copy
SharedDecrypt(k) ==
  /\ enc = "ok" /\ PreservesInput(scheme) /\ tampers = {} /\ Len(shared) < MaxShared
  /\ hist[Len(hist)].act \in {"Encrypt", "SharedDecrypt"}
  /\ shared' = Append(shared, k)
  /\ hist' = Append(hist, [act |-> "SharedDecrypt", key |-> k, allowed |-> DecAllowed(scheme, len, {}, k),
                           tag |-> DecTag(scheme, len, {}, k), buffer |-> {"intact"}])
  /\ UNCHANGED <<scheme, len, enc, tampers>>

\* scan of the caller's buffer after the calls
SharedLeakScan ==
  /\ enc = "ok" /\ Len(shared) >= 1 /\ hist[Len(hist)].act = "SharedDecrypt"
  /\ hist' = Append(hist, [act |-> "SharedLeakScan", allowed |-> LeakAllowed])
  /\ UNCHANGED <<scheme, len, enc, tampers, shared>>

Next ==
  \/ Encrypt
  \/ LeakScan
  \/ \E k \in KeyRels : SharedDecrypt(k)
  \/ SharedLeakScan
  \/ \E a \in Alterations(scheme) : Tamper(a)
  \/ \E k \in KeyRels : Decrypt(k)

Spec == Init /\ [][Next]_vars

-----------------------------------------------------------------------------
(* Meta-properties.                                                          *)
TypeOK ==
  /\ scheme \in Schemes /\ len \in LenClasses
  /\ enc \in {"none", "ok", "refused"}
  /\ tampers \subseteq Alterations(scheme)
  /\ Len(shared) <= MaxShared

SubsetsUpTo(S, n) == { T \in SUBSET S : Cardinality(T) <= n }

Static ==
  \* Total: every case has a verdict
  /\ \A l \in LenClasses : LenOK(scheme, l) => EncAllowed(scheme, l) # {} /\ EncAllowed(scheme, l) \subseteq {"ok", "refused"}
  /\ \A l \in {x \in LenClasses : LenOK(scheme, x)}, T \in SubsetsUpTo(Alterations(scheme), 2), k \in KeyRels :
       /\ DecAllowed(scheme, l, T, k) # {} /\ DecAllowed(scheme, l, T, k) \subseteq {"ok", "other", "error"}
       \* AcceptImpliesUntouched: an authenticated scheme returns a plaintext only for the untouched ciphertext and the right key
       /\ (Authenticated(scheme) /\ DecAllowed(scheme, l, T, k) \cap {"ok", "other"} # {}) => ((T = {} /\ k = "right") \/ CoinFlip(scheme, l, T, k))
       \* NeverOtherPlaintext: an authenticated scheme never returns a different plaintext
       /\ Authenticated(scheme) => "other" \notin DecAllowed(scheme, l, T, k)
       \* RoundTrip
       /\ (T = {} /\ k = "right") => DecAllowed(scheme, l, T, k) = {"ok"}
       \* FreedomExplicit
       /\ (Cardinality(DecAllowed(scheme, l, T, k)) > 1) <=> (DecTag(scheme, l, T, k) # "det")
       \* TamperMonotone (static form): adding an alteration never turns a mandatory error into an allowed plaintext
       /\ \A a \in Alterations(scheme) :
            (DecAllowed(scheme, l, T, k) = {"error"}) => (DecAllowed(scheme, l, T \cup {a}, k) = {"error"})
  /\ \A l \in LenClasses : (Cardinality(EncAllowed(scheme, l)) > 1) <=> (EncTag(scheme, l) # "det")
  \* what certainly fits is accepted
  /\ \A l \in LenClasses : Fits(scheme, l) => EncAllowed(scheme, l) = {"ok"}

\* HistoryIndependent: what a call on the shared buffer may return never depends on the calls before it
HistoryIndependent ==
  \A i \in 1..Len(hist) : hist[i].act = "SharedDecrypt" =>
       /\ hist[i].allowed = DecAllowed(scheme, len, {}, hist[i].key)
       /\ (hist[i].key = "right" => hist[i].allowed = {"ok"})
       /\ hist[i].buffer = {"intact"}

Meta == (enc = "none" => Static) /\ (enc = "refused" => (tampers = {} /\ shared = <<>>))
        /\ HistoryIndependent /\ (shared # <<>> => (PreservesInput(scheme) /\ tampers = {}))

\* TamperMonotone as an action property over the behaviours: once decryption with the right key must fail, it must keep failing
MustFail == enc = "ok" /\ DecAllowed(scheme, len, tampers, "right") = {"error"}
TamperMonotone == [][MustFail => MustFail']_vars

-----------------------------------------------------------------------------
(* Generator: every maximal behaviour = Encrypt ; (LeakScan | Tamper* ; Decrypt | SharedDecrypt+ ; SharedLeakScan). *)
View == <<scheme, len, enc, tampers, shared>>
Terminal ==
  \/ enc = "refused"
  \/ Len(hist) > 0 /\ hist[Len(hist)].act \in {"LeakScan", "Decrypt", "SharedLeakScan"}
Emit == Terminal => PrintT(<<"TRACE", ToJson(hist)>>)
=============================================================================
