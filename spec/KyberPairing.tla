---------------------------- MODULE KyberPairing ----------------------------
(* Three-sorted register machine for a pairing suite (C06).                  *)
(*   G1 values: combinations of atoms B (generator of G1), H (hash/pick)    *)
(*   G2 values: combinations of atoms B (generator of G2), H                *)
(*   GT values: bilinear forms on atom pairs  BB BH HB HH                   *)
(* Pair(P,Q) multiplies coefficients; ValidatePairing compares two forms.   *)
(* A behaviour has the phase structure                                      *)
(*   init pool ; [pre-op on a G1 register] ; [pre-op on a G2 register] ;     *)
(*   t1 := e(x,y) ; t2 := e(x',y') | s*t1 | t1+t1 | -t1 ;                    *)
(*   [in-place op on t1: t1+t2, t1+t1, t1-t2, t2-t1, -t1, s*t1] ; [t2 := e(..)] ; *)
(*   validate(x,y,x',y')                                                    *)
(* so that pairings see operands left in non-normalised internal form by     *)
(* earlier arithmetic.                                                       *)
EXTENDS Laurent, TLC, Json

CONSTANTS PreOps,  \* TRUE: phases 1,2 are arithmetic pre-ops; FALSE: they are skipped
          InPlaceOps, \* TRUE: phase 4 may overwrite the first pairing result in place
          SmallPool,  \* TRUE: reduced operand pools; without InPlaceOps a single second step (exhaustive pre-op x pairing
                      \* sweep), with InPlaceOps every second step x every in-place op and no third step (exhaustive in-place sweep)
          CMax, DMax

VARIABLES s, a, b, t, hist
vars == <<s, a, b, t, hist>>

SReg == {"s1", "s2"}
AReg == {"a1", "a2"}
BReg == {"b1", "b2"}
TReg == {"t1", "t2"}
Atoms  == {"B", "H"}
TAtoms == {"BB", "BH", "HB", "HH"}
Left(x)  == IF x \in {"BB", "BH"} THEN "B" ELSE "H"
Right(x) == IF x \in {"BB", "HB"} THEN "B" ELSE "H"

Sm(v) == Small(v, CMax, DMax)
PZero  == [x \in Atoms |-> SZero]
PBase  == [x \in Atoms |-> IF x = "B" THEN SOne ELSE SZero]
PAtomH == [x \in Atoms |-> IF x = "H" THEN SOne ELSE SZero]
PAdd(x0, y0) == LET x == x0  y == y0 IN [k \in Atoms |-> SAdd(x[k], y[k])]
PNeg(x0)     == LET x == x0 IN [k \in Atoms |-> SNeg(x[k])]
PMulOK(k0, x0) == LET k == k0  x == x0 IN \A i \in Atoms : MulOK(k, x[i])
PMul(k0, x0) == LET k == k0  x == x0 IN [i \in Atoms |-> SMul(k, x[i])]
PSm(x) == \A i \in Atoms : Sm(x[i])

TZero == [x \in TAtoms |-> SZero]
TAdd(x0, y0) == LET x == x0  y == y0 IN [k \in TAtoms |-> SAdd(x[k], y[k])]
TNeg(x0)     == LET x == x0 IN [k \in TAtoms |-> SNeg(x[k])]
TMulOK(k0, x0) == LET k == k0  x == x0 IN \A i \in TAtoms : MulOK(k, x[i])
TMul(k0, x0) == LET k == k0  x == x0 IN [i \in TAtoms |-> SMul(k, x[i])]
TSm(x) == \A i \in TAtoms : Sm(x[i])
PairOK(P0, Q0) == LET P == P0  Q == Q0 IN \A x \in TAtoms : MulOK(P[Left(x)], Q[Right(x)])
Pair(P0, Q0)   == LET P == P0  Q == Q0 IN [x \in TAtoms |-> SMul(P[Left(x)], Q[Right(x)])]

ScalarClasses == {SZero, SOne, Const(-1), U, SAdd(U, SOne), Mono(1, -1)}
PointClasses  == {PZero, PBase, PAtomH, PMul(U, PBase), PAdd(PBase, PAtomH), PNeg(PBase)}

SPool == IF SmallPool THEN {Const(-1), U} ELSE ScalarClasses
PPool == IF SmallPool THEN {PBase, PAtomH} ELSE PointClasses
Init == \E x \in SPool, P \in PPool, Q \in PPool :
   /\ s = [s1 |-> x, s2 |-> Const(2)]
   /\ a = [a1 |-> P, a2 |-> PBase]
   /\ b = [b1 |-> Q, b2 |-> PAdd(PBase, PAtomH)]
   /\ t = [t1 |-> TZero, t2 |-> TZero]
   /\ hist = <<[op |-> "init", s |-> s, a |-> a, b |-> b]>>

Rec(op, d, x, y, x2, y2, v) == [op |-> op, d |-> d, x |-> x, y |-> y, x2 |-> x2, y2 |-> y2, v |-> v]

AStep(op, d, x, y, v) == PSm(v) /\ a' = [a EXCEPT ![d] = v] /\ UNCHANGED <<s, b, t>>
                         /\ hist' = Append(hist, Rec(op, d, x, y, "", "", v))
BStep(op, d, x, y, v) == PSm(v) /\ b' = [b EXCEPT ![d] = v] /\ UNCHANGED <<s, a, t>>
                         /\ hist' = Append(hist, Rec(op, d, x, y, "", "", v))
TStep(op, d, x, y, v) == TSm(v) /\ t' = [t EXCEPT ![d] = v] /\ UNCHANGED <<s, a, b>>
                         /\ hist' = Append(hist, Rec(op, d, x, y, "", "", v))

\* phase 1 / 2: arithmetic on one side (destination a2 / b2), or skip
PreA ==
  \/ \E x, y \in AReg : AStep("a.add", "a2", x, y, PAdd(a[x], a[y]))
  \/ \E x \in AReg : AStep("a.neg", "a2", x, "", PNeg(a[x]))
  \/ \E x, y \in AReg : AStep("a.sub", "a2", x, y, PAdd(a[x], PNeg(a[y])))
  \/ \E k \in SReg, x \in AReg : PMulOK(s[k], a[x]) /\ AStep("a.mul", "a2", k, x, PMul(s[k], a[x]))
  \/ \E k \in SReg : AStep("a.mul", "a2", k, "nil", PMul(s[k], PBase))
  \/ AStep("a.skip", "a2", "", "", a["a2"])
PreB ==
  \/ \E x, y \in BReg : BStep("b.add", "b2", x, y, PAdd(b[x], b[y]))
  \/ \E x \in BReg : BStep("b.neg", "b2", x, "", PNeg(b[x]))
  \/ \E x, y \in BReg : BStep("b.sub", "b2", x, y, PAdd(b[x], PNeg(b[y])))
  \/ \E k \in SReg, x \in BReg : PMulOK(s[k], b[x]) /\ BStep("b.mul", "b2", k, x, PMul(s[k], b[x]))
  \/ \E k \in SReg : BStep("b.mul", "b2", k, "nil", PMul(s[k], PBase))
  \/ BStep("b.skip", "b2", "", "", b["b2"])

Pair1 == \E x \in AReg, y \in BReg : PairOK(a[x], b[y]) /\ TStep("pair", "t1", x, y, Pair(a[x], b[y]))
Second ==
  \/ \E x \in AReg, y \in BReg : PairOK(a[x], b[y]) /\ TStep("pair", "t2", x, y, Pair(a[x], b[y]))
  \/ \E k \in SReg : TMulOK(s[k], t["t1"]) /\ TStep("t.mul", "t2", k, "t1", TMul(s[k], t["t1"]))
  \/ TStep("t.add", "t2", "t1", "t1", TAdd(t["t1"], t["t1"]))
  \/ TStep("t.neg", "t2", "t1", "", TNeg(t["t1"]))

\* phase 5: the first pairing result is used as an in-place accumulator (or left alone)
InPlace ==
  \/ TStep("t.skip", "t1", "", "", t["t1"])
  \/ TStep("t.add", "t1", "t1", "t2", TAdd(t["t1"], t["t2"]))
  \/ TStep("t.add", "t1", "t1", "t1", TAdd(t["t1"], t["t1"]))
  \/ TStep("t.sub", "t1", "t1", "t2", TAdd(t["t1"], TNeg(t["t2"])))   \* receiver = minuend
  \/ TStep("t.sub", "t1", "t2", "t1", TAdd(t["t2"], TNeg(t["t1"])))   \* receiver = subtrahend
  \/ TStep("t.neg", "t1", "t1", "", TNeg(t["t1"]))
  \/ \E k \in SReg : TMulOK(s[k], t["t1"]) /\ TStep("t.mul", "t1", k, "t1", TMul(s[k], t["t1"]))

\* phase 6: a further pairing after the accumulation (results of earlier pairings must not be shared state)
Third ==
  \/ TStep("t.skip", "t2", "", "", t["t2"])
  \/ \E x \in AReg, y \in BReg : PairOK(a[x], b[y]) /\ TStep("pair", "t2", x, y, Pair(a[x], b[y]))

\* final observation: ValidatePairing on the operands of the two pairings (if
\* phase 4 was a pairing and phases 5, 6 were skipped) and equality of the two GT registers
Observe ==
  LET h3 == hist[4]  h4 == hist[5]
      plain == hist[6].op = "t.skip" /\ hist[7].op = "t.skip" /\ h4.op = "pair" IN
  /\ UNCHANGED <<s, a, b, t>>
  /\ hist' = Append(hist,
        [op |-> "observe", d |-> "", x |-> h3.x, y |-> h3.y,
         x2 |-> IF plain THEN h4.x ELSE "", y2 |-> IF plain THEN h4.y ELSE "",
         v |-> [eq |-> (t["t1"] = t["t2"]), t1zero |-> (t["t1"] = TZero)]])

Next ==
  CASE Len(hist) = 1 -> IF PreOps THEN PreA ELSE AStep("a.skip", "a2", "", "", a["a2"])
    [] Len(hist) = 2 -> IF PreOps THEN PreB ELSE BStep("b.skip", "b2", "", "", b["b2"])
    [] Len(hist) = 3 -> Pair1
    [] Len(hist) = 4 -> IF SmallPool /\ ~InPlaceOps THEN TStep("t.neg", "t2", "t1", "", TNeg(t["t1"])) ELSE Second
    [] Len(hist) = 5 -> IF InPlaceOps THEN InPlace ELSE TStep("t.skip", "t1", "", "", t["t1"])
    [] Len(hist) = 6 -> IF InPlaceOps /\ ~SmallPool THEN Third ELSE TStep("t.skip", "t2", "", "", t["t2"])
    [] Len(hist) = 7 -> Observe
    [] OTHER -> FALSE

Spec == Init /\ [][Next]_vars

-----------------------------------------------------------------------------
TypeOK == (\A r \in SReg : Sm(s[r])) /\ (\A r \in AReg : PSm(a[r])) /\ (\A r \in BReg : PSm(b[r]))
          /\ (\A r \in TReg : TSm(t[r]))

\* bilinearity, additivity and identity laws hold in the model for the register values
PairLaws ==
  \A x \in AReg, y \in BReg, k \in SReg :
    LET P == a[x]  Q == b[y]  K == s[k] IN
    /\ (PairOK(P, Q) /\ PMulOK(K, P) /\ PairOK(PMul(K, P), Q) /\ TMulOK(K, Pair(P, Q)))
          => Pair(PMul(K, P), Q) = TMul(K, Pair(P, Q))
    /\ (PairOK(P, Q) /\ PMulOK(K, Q) /\ PairOK(P, PMul(K, Q)) /\ TMulOK(K, Pair(P, Q)))
          => Pair(P, PMul(K, Q)) = TMul(K, Pair(P, Q))
    /\ \A x2 \in AReg : (PairOK(P, Q) /\ PairOK(a[x2], Q) /\ PairOK(PAdd(P, a[x2]), Q))
          => Pair(PAdd(P, a[x2]), Q) = TAdd(Pair(P, Q), Pair(a[x2], Q))
    /\ \A y2 \in BReg : (PairOK(P, Q) /\ PairOK(P, b[y2]) /\ PairOK(P, PAdd(Q, b[y2])))
          => Pair(P, PAdd(Q, b[y2])) = TAdd(Pair(P, Q), Pair(P, b[y2]))
    /\ Pair(PZero, Q) = TZero /\ Pair(P, PZero) = TZero
    /\ Pair(PBase, PBase) # TZero

View == <<s, a, b, t, Len(hist)>>
ViewOperands == <<s, a, b>>     \* PairLaws speaks about the operand registers only
Emit == (Len(hist) = 8) => PrintT(<<"TRACE", ToJson(hist)>>)
=============================================================================
