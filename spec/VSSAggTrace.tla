---------------------------- MODULE VSSAggTrace ----------------------------
(* Trace validation (implementation -> specification) for the VSS           *)
(* aggregators.  A trace file holds many runs, each introduced by a "reset"  *)
(* event; two vocabularies:                                                 *)
(*                                                                         *)
(*  mode "api"  : recorded by the harness driver `vh-vss record` around the  *)
(*     public calls of one real Dealer / Verifier; the message class of      *)
(*     every call is known.  Each event must be a step the REQUIREMENT layer  *)
(*     of VSSAgg allows (DealReq / RespReq / JustReq, CertifiedSound,         *)
(*     HonestCertifies, TableSound, BadDealerSticky); the values C10 leaves   *)
(*     open are read from the trace.                                          *)
(*  mode "hook" : emitted by the `verif`-tagged hooks inside                  *)
(*     share/vss/{pedersen,rabin} while the repository's own tests run:      *)
(*     mutation events (setDeal, addResponse, justOK, justBad, timeout) and   *)
(*     quiescent observations ("obs").  Message classes are unknown, so the   *)
(*     table is taken at face value; the tests also write the private fields  *)
(*     directly, which shows up as a recorded state that is not the successor *)
(*     of the previous one: with AllowPoke such an event re-synchronises      *)
(*     (still requiring the event's own effect and a sound `certified`).      *)
EXTENDS VSSAgg, IOUtils

CONSTANTS AllowPoke,   \* hook mode: tolerate direct writes to private fields between events
          Strict       \* hook mode: `certified` must also EQUAL the implementation-shaped formula

Trace == ndJsonDeserialize(IOEnv.TRACE_FILE)

VARIABLES l,       \* index of the next event
          mode,    \* "api" | "hook"
          fresh    \* hook mode: no event seen yet for this object (its first recorded state is adopted)

tvars == <<vars, l, mode, fresh>>

Rec == Trace[l]
IsEvent(e) == l <= Len(Trace) /\ Trace[l].ev = e /\ l' = l + 1

Tab(S) == [i \in 0..(S.n - 1) |-> S.resp[ToString(i)]]
B2S(b) == IF b THEN "true" ELSE "false"
Fill(f) == [i \in DOMAIN f |-> IF f[i] = "none" THEN "comp" ELSE f[i]]

Keep == UNCHANGED <<conf, last, hist>>

-----------------------------------------------------------------------------
TReset ==
  /\ IsEvent("reset")
  /\ LET a == Rec.args IN
     /\ N' = a.N /\ T' = a.T /\ Variant' = a.variant /\ Role' = a.role /\ Me' = a.me /\ mode' = a.mode
     /\ hasDeal' = (a.role = "dealer") /\ own' = "none" /\ thr' = (IF a.role = "dealer" THEN a.T ELSE 0)
     /\ cmtOK' = TRUE
     /\ resp' = [i \in 0..(a.N - 1) |-> "none"] /\ truth' = [i \in 0..(a.N - 1) |-> "none"]
     /\ bad' = FALSE /\ badTruth' = FALSE /\ tmo' = FALSE /\ fresh' = TRUE
  /\ UNCHANGED <<last, hist>>

-----------------------------------------------------------------------------
(* mode "api": requirement layer                                            *)

ObsOK(S) ==   \* evaluated in the step: primed variables = state after the call
  /\ S.certified # "panic"
  /\ S.certified = "true" => Sound(truth', badTruth')
  /\ MustCertify(truth', badTruth', own') => S.certified = "true"
  /\ (S.enough = "true") => Cardinality(Approved(truth')) >= T
  /\ \A i \in V : resp'[i] = "app" => truth'[i] \in {"app", "just"}
  /\ S.extra = 0 /\ S.n = N
  /\ resp' = Tab(S)
  /\ S.badKnown => (bad' = S.bad)
  /\ bad => bad'                                              \* BadDealerSticky

BadNext(S) == IF S.badKnown THEN S.bad ELSE bad

TDeal ==
  /\ IsEvent("ProcessDeal") /\ mode = "api" /\ Role = "verifier"
  /\ LET k == Rec.args.kind  ret == Rec.ret  S == Rec.state  rq == DealReq(k) IN
     /\ ret \in rq.allowed
     /\ IF ret \in {"approve", "complaint"} /\ ~hasDeal
        THEN /\ hasDeal' = TRUE
             /\ own' = IF k = "good" THEN "good" ELSE "bad"
             /\ resp' = [resp EXCEPT ![Me] = IF ret = "approve" THEN "app" ELSE "comp"]
             /\ truth' = [truth EXCEPT ![Me] = IF ret = "approve" THEN "app" ELSE "comp"]
             /\ thr' = S.thr
             /\ cmtOK' = (k \notin {"badcommit", "nocommits", "otherpoly"} /\ ~(k = "badsid" /\ ret = "approve"))
                  \* (an implementation that approves a deal announcing a garbled id follows that id afterwards)
        ELSE /\ ret = "error"             \* a second deal answered otherwise is not followed (see notes)
             /\ UNCHANGED <<hasDeal, own, thr, cmtOK, resp, truth>>
     /\ bad' = BadNext(S) /\ UNCHANGED <<badTruth, tmo>>
     /\ ObsOK(S)
  /\ Keep /\ UNCHANGED <<mode, fresh>>

TResponse ==
  /\ IsEvent("Response") /\ mode = "api"
  /\ LET i == Rec.args.i  st == Rec.args.st  cls == Rec.args.cls  ret == Rec.ret  S == Rec.state
         rq == RespReq(i, st, cls)  new == S.resp[ToString(i)] IN
     /\ ret \in rq.allowed
     /\ rq.record = "must" => new = st
     /\ rq.record = "mustnot" => new = resp[i]
     /\ new \in {resp[i], st}
     /\ resp' = [resp EXCEPT ![i] = new]
     /\ truth' = IF new # resp[i] /\ cls = "valid" THEN [truth EXCEPT ![i] = st] ELSE truth
     /\ bad' = BadNext(S) /\ UNCHANGED <<hasDeal, own, thr, cmtOK, badTruth, tmo>>
     /\ ObsOK(S)
  /\ Keep /\ UNCHANGED <<mode, fresh>>

TJustification ==
  /\ IsEvent("Justification") /\ mode = "api" /\ Role = "verifier"
  /\ LET i == Rec.args.i  cls == Rec.args.cls  ret == Rec.ret  S == Rec.state
         rq == JustReq(i, cls)  new == S.resp[ToString(i)]
         standing == ~PreDeal /\ cls # "oor" /\ resp[i] = "comp"
         cleared == standing /\ new = "app" IN
     /\ ret \in rq.allowed
     /\ rq.clear = "must" => cleared
     /\ rq.clear = "mustnot" => new = resp[i]
     /\ new = resp[i] \/ cleared
     /\ resp' = [resp EXCEPT ![i] = new]
     /\ truth' = IF cleared /\ cls \in ContentOK THEN [truth EXCEPT ![i] = "just"] ELSE truth
     /\ badTruth' = (badTruth \/ (standing /\ cls \in DealerWrong))
     /\ bad' = BadNext(S)
     /\ (rq.badm = "must" /\ S.badKnown) => bad'
     /\ UNCHANGED <<hasDeal, own, thr, cmtOK, tmo>>
     /\ ObsOK(S)
  /\ Keep /\ UNCHANGED <<mode, fresh>>

TTimeout ==
  /\ IsEvent("Timeout") /\ mode = "api"
  /\ LET ret == Rec.ret  S == Rec.state IN
     /\ IF Variant = "rabin"
        THEN IF hasDeal
             THEN ret = "ok" /\ resp' = Fill(resp) /\ truth' = Fill(truth) /\ tmo' = TRUE
             ELSE ret \in AnyRet /\ UNCHANGED <<resp, truth, tmo>>
        ELSE ret = "ok" /\ tmo' = TRUE /\ UNCHANGED <<resp, truth>>
     /\ bad' = BadNext(S) /\ UNCHANGED <<hasDeal, own, thr, cmtOK, badTruth>>
     /\ ObsOK(S)
  /\ Keep /\ UNCHANGED <<mode, fresh>>

-----------------------------------------------------------------------------
(* mode "hook": events of the repository's own tests                         *)

Matches(S, rs, b, tm, th, hd) ==      \* the recorded state is exactly the predicted one
  /\ Tab(S) = rs /\ S.bad = b /\ S.thr = th /\ S.hasDeal = hd
  /\ Variant = "pedersen" => S.tmo = tm

HookCert(S) ==    \* certified only on a sound table (taken at face value), with a valid threshold, dealer not bad
  LET rs == Tab(S)  app == Cardinality({i \in DOMAIN rs : rs[i] = "app"}) IN
  /\ S.certified # "panic"
  /\ S.certified = "true" => (S.thr >= 2 /\ S.thr <= S.n /\ app >= S.thr /\ ~S.bad)
  /\ S.enough = "true" => (S.thr >= 2 /\ S.thr <= S.n /\ app >= S.thr)
  /\ S.extra = 0
  /\ Strict => /\ S.certified = B2S(ImplCertified(TRUE, S.thr, rs, S.bad, S.tmo))
               /\ (Variant = "rabin" => S.enough = B2S(ImplEnough(TRUE, S.thr, rs)))

(* adopt the recorded state; exact = it is the predicted successor *)
Adopt(S, exact) ==
  /\ (exact \/ AllowPoke \/ fresh) = TRUE              \* (an expression, not an action-level disjunction)
  /\ IF exact THEN TLCSet(2, TLCGet(2) + 1) ELSE TLCSet(3, TLCGet(3) + 1)     \* statistics: exact / re-synchronised
  /\ resp' = Tab(S)
  /\ truth' = Tab(S)                          \* hook mode: the table is taken at face value
  /\ bad' = S.bad /\ badTruth' = S.bad /\ thr' = S.thr /\ hasDeal' = S.hasDeal
  /\ tmo' = (IF Variant = "pedersen" THEN S.tmo ELSE tmo \/ Rec.ev = "timeout")
  /\ fresh' = FALSE
  /\ UNCHANGED <<own, cmtOK>>
  /\ HookCert(S)

HookEvent(e) == IsEvent(e) /\ mode = "hook" /\ Rec.state.n = N

TObs ==
  /\ HookEvent("obs")
  /\ LET S == Rec.state IN Adopt(S, Matches(S, resp, bad, tmo, thr, hasDeal))
  /\ Keep /\ UNCHANGED mode

TSetDeal ==
  /\ HookEvent("setDeal")
  /\ LET S == Rec.state IN
     /\ S.hasDeal
     /\ Adopt(S, ~hasDeal /\ Matches(S, resp, bad, tmo, S.thr, TRUE))
  /\ Keep /\ UNCHANGED mode

TAddResponse ==
  /\ HookEvent("addResponse")
  /\ LET S == Rec.state  i == Rec.args.index  st == IF Rec.args.approved THEN "app" ELSE "comp" IN
     /\ i \in 0..(N - 1)                                   \* never an entry outside the verifier set
     /\ Tab(S)[i] = st                                      \* the event's own effect
     /\ Adopt(S, resp[i] = "none" /\ Matches(S, [resp EXCEPT ![i] = st], bad, tmo, thr, hasDeal))
  /\ Keep /\ UNCHANGED mode

TProcessed ==      \* end of ProcessEncryptedDeal: own response stored (already logged by addResponse)
  /\ HookEvent("ProcessEncryptedDeal")
  /\ LET S == Rec.state  i == Rec.args.index IN
     /\ Tab(S)[i] = (IF Rec.args.approved THEN "app" ELSE "comp") /\ S.hasDeal
     /\ Adopt(S, Matches(S, resp, bad, tmo, thr, hasDeal))
  /\ Keep /\ UNCHANGED mode

TJustOK ==
  /\ HookEvent("justOK")
  /\ LET S == Rec.state  i == Rec.args.index IN
     /\ i \in 0..(N - 1) /\ Tab(S)[i] = "app"
     /\ Adopt(S, resp[i] = "comp" /\ Matches(S, [resp EXCEPT ![i] = "app"], bad, tmo, thr, hasDeal))
  /\ Keep /\ UNCHANGED mode

TJustBad ==
  /\ HookEvent("justBad")
  /\ LET S == Rec.state IN
     /\ S.bad
     /\ Adopt(S, Matches(S, resp, TRUE, tmo, thr, hasDeal))
  /\ Keep /\ UNCHANGED mode

TTimeoutH ==
  /\ HookEvent("timeout")
  /\ LET S == Rec.state IN
     /\ Variant = "pedersen" => S.tmo
     /\ Variant = "rabin" => \A i \in DOMAIN Tab(S) : Tab(S)[i] # "none"
     /\ Adopt(S, Matches(S, IF Variant = "rabin" THEN Fill(resp) ELSE resp, bad, TRUE, thr, hasDeal))
  /\ Keep /\ UNCHANGED mode

-----------------------------------------------------------------------------
TInit ==
  /\ l = 1 /\ mode = "api" /\ fresh = TRUE
  /\ N = 2 /\ T = 2 /\ Variant = "pedersen" /\ Role = "dealer" /\ Me = 0
  /\ hasDeal = TRUE /\ own = "none" /\ thr = 2 /\ cmtOK = TRUE
  /\ resp = [i \in 0..1 |-> "none"] /\ truth = [i \in 0..1 |-> "none"]
  /\ bad = FALSE /\ badTruth = FALSE /\ tmo = FALSE
  /\ last = [act |-> "init"] /\ hist = <<>>

TNext == \/ TReset
         \/ TDeal \/ TResponse \/ TJustification \/ TTimeout
         \/ TObs \/ TSetDeal \/ TAddResponse \/ TProcessed \/ TJustOK \/ TJustBad \/ TTimeoutH

TraceSpec == TInit /\ [][TNext]_tvars

Mark == (TLCGet(1) < l) => TLCSet(1, l)                    \* CONSTRAINT: high-water mark
TraceAccepted == /\ PrintT(<<"TRACE", ToJson([events |-> Len(Trace), reached |-> TLCGet(1) - 1,
                                                hook_exact |-> TLCGet(2), hook_resync |-> TLCGet(3)])>>)
                 /\ IF TLCGet(1) = Len(Trace) + 1 THEN TRUE
                    ELSE PrintT(<<"REJECTED_AT", TLCGet(1)>>) /\ FALSE
ASSUME TLCSet(1, 0) /\ TLCSet(2, 0) /\ TLCSet(3, 0)
=============================================================================
