------------------------------ MODULE DKGRabin ------------------------------
(***************************************************************************)
(* share/dkg/rabin DistKeyGenerator (property C11).  One VSS instance per  *)
(* dealer at every node (share/vss/rabin aggregator: responses, badDealer, *)
(* timeout), then the secret-commit / complaint-commit / reconstruct-commit*)
(* phases.  The API is per message; rounds are synchronous and, as every   *)
(* honest node is deterministic, a history is the faulty parties' strategy *)
(* (a finite menu per round) plus, where the code is order-sensitive       *)
(* (ProcessReconstructCommits takes the first t), a per-node delivery      *)
(* order.  Implementation-shaped operators follow dkg.go / vss.go; the     *)
(* requirement layer is stated over ground truth.                          *)
(***************************************************************************)
EXTENDS Integers, Sequences, FiniteSets, TLC, Json, SequencesExt

CONSTANTS N, Ts, MaxF, Rec, OrdMode    \* Ts: the thresholds to explore (one is picked initially)

VARIABLES T, F, round, node, strat, msgs, hist
vars == <<T, F, round, node, strat, msgs, hist>>

P == 0..(N-1)
Honest == P \ F
Cnt(S) == Cardinality(S)
MinOf(S) == CHOOSE x \in S : \A y \in S : x <= y
SetSeq(S) == SetToSortSeq(S, LAMBDA a, b : a < b)
KV(f) == SetToSortSeq({[k |-> x, v |-> f[x]] : x \in DOMAIN f}, LAMBDA a, b : a.k < b.k)
Log(r) == IF Rec THEN Append(hist, r) ELSE hist

NoCm == [k |-> "none", src |-> {}]
InitNode(h) ==
  [has |-> [d \in P |-> FALSE], dk |-> [d \in P |-> "-"],
   rs |-> [d \in P |-> [i \in P |-> "none"]], bad |-> [d \in P |-> FALSE],
   dresp |-> [i \in P |-> "none"], cm |-> [d \in P |-> NoCm],
   pr |-> [d \in P |-> <<>>], rc |-> [d \in P |-> FALSE], out |-> [k |-> "none"]]

\* vss/rabin DealCertified at a verifier: t approvals, every verifier has answered (absent = complaint after the
\* timeout), no invalid justification seen.  Complaints that were never justified do NOT prevent certification.
Certified(s, d) == /\ s.has[d] /\ ~s.bad[d]
                   /\ Cnt({i \in P : s.rs[d][i] = "app"}) >= T
                   /\ \A i \in P : s.rs[d][i] # "none"
QUAL(s) == {d \in P : Certified(s, d)}
\* the dealer-side aggregator of the own deal: DistKeyGenerator.SetTimeout never reaches it
DealerCertified(s) == Cnt({i \in P : s.dresp[i] = "app"}) >= T /\ \A i \in P : s.dresp[i] # "none"

---------------------------------------------------------------------------
(* Rounds 2-6 (responses, justifications + timeout, secret commits + complaint commits) are written out in the
   actions Resp, Just, SecretCommits below.                                                                   *)
(* Round 1: deals.  strat.deal[f][h] in {"G","B","U"}: good / decryptable but invalid share / undecryptable or absent *)
DealKind(d, h) == IF d \in F THEN strat.deal[d][h] ELSE "G"
AfterDeals(h) ==
  LET s0 == InitNode(h)
      k(d) == IF d = h THEN "G" ELSE DealKind(d, h)
  IN [s0 EXCEPT !.has = [d \in P |-> k(d) # "U"],
                !.dk  = [d \in P |-> IF k(d) = "U" THEN "-" ELSE k(d)],
                !.rs  = [d \in P |-> [i \in P |->
                            IF k(d) = "U" THEN "none"
                            ELSE IF i = d THEN "app"                         \* UnsafeSetResponseDKG(dealer, true)
                            ELSE IF i = h THEN (IF k(d) = "G" THEN "app" ELSE "comp")
                            ELSE "none"]],
                !.dresp = [i \in P |-> IF i = h THEN "app" ELSE "none"]]
\* responses emitted by h: one per stored verifier of another dealer
RespOf(h, s) == [d \in {x \in P \ {h} : s.has[x]} |-> s.rs[d][h]]

(* Round 4: SetTimeout on every verifier: an absent response becomes a complaint *)
AfterTimeout(s) == [s EXCEPT !.rs = [d \in P |-> [i \in P |-> IF s.has[d] /\ s.rs[d][i] = "none" THEN "comp" ELSE s.rs[d][i]]]]

(* Round 7: reconstruct commits, in this node's delivery order.  A message is [i: issuer, d: dealer, sk: share kind] *)
RStep(h, s, m) ==
  IF s.rc[m.d] THEN s
  ELSE IF s.cm[m.d].k # "none" THEN s
  ELSE IF \E j \in DOMAIN s.pr[m.d] : s.pr[m.d][j].i = m.i THEN s
  ELSE LET arr == Append(s.pr[m.d], [i |-> m.i, sk |-> m.sk])
       IN IF Len(arr) >= T
          THEN LET src == {arr[j] : j \in DOMAIN arr}
                   used == {e \in src : Cnt({e2 \in src : e2.i < e.i}) < T}
               IN [s EXCEPT !.cm[m.d] = IF \A e \in used : e.sk = "true" THEN [k |-> "true", src |-> {}]
                                        ELSE [k |-> "rec", src |-> used],
                            !.rc[m.d] = TRUE, !.pr[m.d] = <<>>]
          ELSE [s EXCEPT !.pr[m.d] = arr]
AfterReconstruct(h, s, sq) == FoldLeft(LAMBDA a, m : RStep(h, a, m), s, sq)

(* DistKeyShare *)
Result(h, s) ==
  LET q == QUAL(s)
  IN IF Cnt(q) < T THEN [k |-> "err", e |-> "notcertified"]
     ELSE IF \E d \in q : s.cm[d].k = "none" THEN [k |-> "err", e |-> "missing"]
     ELSE [k |-> "res", qual |-> q, cms |-> [d \in q |-> s.cm[d]],
           cons |-> \A d \in q : s.dk[d] = "G" /\ s.cm[d].k = "true"]

---------------------------------------------------------------------------
FaultySets == {S \in SUBSET P : Cnt(S) <= MaxF /\ Cnt(S) <= N - T}
\* menus of a faulty party; the strategy is revealed round by round (a later entry cannot influence an earlier round)
DealPats(S) == LET H == P \ S IN
   {[h \in H |-> "G"], [h \in H |-> "B"], [h \in H |-> "U"]}
   \cup {[h \in H |-> IF h = x THEN k ELSE "G"] : x \in H, k \in {"B", "U"}}
RespPats(S) == LET H == P \ S IN
   {[d \in H |-> "app"], [d \in H |-> "none"]} \cup {[d \in H |-> IF d = x THEN "comp" ELSE "app"] : x \in H}
RcMenu == {<<>>, <<"true">>, <<"g1">>, <<"g1", "g2">>}
Init == /\ T \in Ts /\ F = {} /\ round = "setup" /\ node = <<>> /\ msgs = <<>> /\ hist = <<>>
        /\ strat = [deal |-> <<>>, resp |-> <<>>, just |-> <<>>, sc |-> <<>>, rc |-> <<>>]

Setup ==
  /\ round = "setup"
  /\ \E S \in FaultySets : \E dl \in [S -> DealPats(S)] :
       /\ F' = S
       /\ strat' = [strat EXCEPT !.deal = dl]
       /\ hist' = Log([act |-> "Setup", n |-> N, t |-> T, faulty |-> SetSeq(S),
                       deal |-> [i \in DOMAIN SetSeq(S) |-> [f |-> SetSeq(S)[i], sh |-> KV(dl[SetSeq(S)[i]])]]])
  /\ round' = "deal" /\ UNCHANGED <<T, node, msgs>>

HSeq == SetSeq(Honest)
PerNode(fn(_)) == [i \in DOMAIN HSeq |-> fn(HSeq[i])]

Deal ==
  /\ round = "deal"
  /\ LET nd == [h \in Honest |-> AfterDeals(h)]
     IN /\ node' = nd
        /\ hist' = Log([act |-> "Deal", exp |-> PerNode(LAMBDA h : [h |-> h, resp |-> KV(RespOf(h, nd[h]))])])
  /\ round' = "resp" /\ UNCHANGED <<T, F, strat, msgs>>

Resp ==
  /\ round = "resp"
  /\ \E rp \in [F -> RespPats(F)] :
       LET st2 == [strat EXCEPT !.resp = rp]
           r == [h \in Honest |-> LET s == node[h]
                                      newrs == [d \in P |-> [i \in P |->
                                                 IF s.has[d] /\ s.rs[d][i] = "none" /\ i # h
                                                 THEN (IF i \in F THEN (IF d \in F THEN "none" ELSE rp[i][d])
                                                       ELSE IF d \in DOMAIN RespOf(i, node[i]) THEN RespOf(i, node[i])[d] ELSE "none")
                                                 ELSE s.rs[d][i]]]
                                      mine == [i \in P |-> IF i = h THEN "app"
                                                           ELSE IF i \in F THEN rp[i][h] ELSE RespOf(i, node[i])[h]]
                                      just == {i \in P \ {h} : mine[i] = "comp"}
                                  IN [s |-> [s EXCEPT !.rs = [newrs EXCEPT ![h] = [i \in P |-> IF i \in just THEN "app" ELSE newrs[h][i]]],
                                                      !.dresp = mine],
                                      just |-> just]]
       IN /\ strat' = st2
          /\ node' = [h \in Honest |-> r[h].s]
          /\ msgs' = [h \in Honest |-> r[h].just]
          /\ hist' = Log([act |-> "Resp", fresp |-> [i \in DOMAIN SetSeq(F) |-> [f |-> SetSeq(F)[i], rs |-> KV(rp[SetSeq(F)[i]])]],
                          exp |-> PerNode(LAMBDA h : [h |-> h, just |-> SetSeq(r[h].just)])])
  /\ round' = "just" /\ UNCHANGED <<T, F>>

Just ==
  /\ round = "just"
  /\ \E jp \in [F -> {"none", "valid", "invalid"}] :
       /\ strat' = [strat EXCEPT !.just = jp]
       /\ LET nd == [h \in Honest |->
                      LET s == node[h]
                          Flip(d, i) == /\ d # h /\ s.has[d] /\ s.rs[d][i] = "comp"
                                        /\ IF d \in F THEN jp[d] = "valid" ELSE i \in msgs[d]
                          Bad(d) == d \in F /\ s.has[d] /\ jp[d] = "invalid" /\ \E i \in P : s.rs[d][i] = "comp"
                          s1 == [s EXCEPT !.rs = [d \in P |-> [i \in P |-> IF Flip(d, i) THEN "app" ELSE s.rs[d][i]]],
                                          !.bad = [d \in P |-> s.bad[d] \/ Bad(d)]]
                      IN AfterTimeout(s1)]
          IN /\ node' = nd
             /\ hist' = Log([act |-> "Just", fjust |-> [i \in DOMAIN SetSeq(F) |-> [f |-> SetSeq(F)[i], k |-> jp[SetSeq(F)[i]]]],
                             exp |-> PerNode(LAMBDA h : [h |-> h, qual |-> SetSeq(QUAL(nd[h])),
                                                         dealerCertified |-> DealerCertified(nd[h])])])
  /\ round' = "sc" /\ UNCHANGED <<T, F, msgs>>

SecretCommits ==
  /\ round = "sc"
  /\ \E sp \in [F -> {"none", "true", "altnone", "altmost"}] :
       /\ strat' = [strat EXCEPT !.sc = sp]
       /\ LET k(d) == IF d \in F THEN sp[d] ELSE IF DealerCertified(node[d]) THEN "true" ELSE "none"
              Alt(d) == IF sp[d] = "altmost" THEN Honest \ {MinOf(Honest)} ELSE {}
              Fits(x, d) == node[x].dk[d] = "G" /\ (k(d) = "true" \/ (k(d) = "altmost" /\ x \in Alt(d)))
              r == [h \in Honest |->
                     LET s == node[h]
                         q == QUAL(s)
                         stored(d) == IF d = h THEN k(d) # "none" ELSE k(d) # "none" /\ d \in q /\ Fits(h, d)
                         cc == {d \in q \ {h} : k(d) # "none" /\ ~Fits(h, d)}
                     IN [s |-> [s EXCEPT !.cm = [d \in P |-> IF stored(d) THEN [k |-> IF k(d) = "true" THEN "true" ELSE "alt", src |-> {}] ELSE NoCm]],
                         cc |-> cc, sent |-> k(h) # "none"]]
              \* complaint commits: accepted where the complainer's deal verifies and the stored commitments disagree with it
              Acc(h, x, d) == LET s == r[h].s IN
                              /\ x # h /\ x \in QUAL(s) /\ s.has[d] /\ node[x].dk[d] = "G"
                              /\ s.cm[d].k = "alt" /\ x \notin Alt(d) /\ Certified(s, d)
              r2 == [h \in Honest |->
                      LET s == r[h].s
                          hit == {d \in P : \E x \in Honest : d \in r[x].cc /\ Acc(h, x, d)}
                          kind(d) == IF s.dk[d] = "G" THEN "true" ELSE "bad"
                      IN [s |-> [s EXCEPT !.cm = [d \in P |-> IF d \in hit THEN NoCm ELSE s.cm[d]],
                                          !.pr = [d \in P |-> IF d \in hit THEN <<[i |-> h, sk |-> kind(d)]>> ELSE s.pr[d]]],
                          rc |-> [d \in hit |-> kind(d)]]]
          IN /\ node' = [h \in Honest |-> r2[h].s]
             /\ msgs' = [h \in Honest |-> r2[h].rc]
             /\ hist' = Log([act |-> "SecretCommits", fsc |-> [i \in DOMAIN SetSeq(F) |-> [f |-> SetSeq(F)[i], k |-> sp[SetSeq(F)[i]]]],
                             exp |-> PerNode(LAMBDA h : [h |-> h, sent |-> r[h].sent, cc |-> SetSeq(r[h].cc),
                                                         rc |-> KV(r2[h].rc)])])
  /\ round' = "rc" /\ UNCHANGED <<T, F>>

\* ---- classes of runs in which the code, as written, departs from the requirement layer.  Each class is a
\* root cause visible in dkg.go / vss.go; the replayer reproduces each on the real code (notes/dkg.md).
MustOutOf(st) == {f \in F : \E h \in Honest : st.deal[f][h] # "G" /\ ~(st.deal[f][h] = "B" /\ st.just[f] = "valid")}
\* 1. vss/rabin DealCertified tolerates complaints that were never justified (t approvals suffice)
L_UnjustifiedCertified(nd, st) == \E f \in MustOutOf(st) : \E h \in Honest : Certified(nd[h], f)
\* 2. a node that received no (decryptable) deal has no verifier for that dealer, the others certify the dealer
L_QualSplit(nd, st) == \E f \in F, a, b \in Honest : st.deal[f][a] = "U" /\ Certified(nd[b], f)
\* 3. a correctly justified complainer keeps the invalid share it was dealt (the revealed deal is not stored)
L_JustifiedShareNotStored(nd, st) == \E f \in F, h \in Honest : st.deal[f][h] = "B" /\ st.just[f] = "valid" /\ Certified(nd[h], f)
\* 4. ProcessReconstructCommits interpolates the first t revealed shares without verifying them
L_UnverifiedReconstruct(nd, st) == \E h \in Honest, d \in P : nd[h].cm[d].k = "rec"
Classes(nd, st) ==
  (IF L_UnjustifiedCertified(nd, st) THEN <<"unjustified-complaint-certified">> ELSE <<>>)
  \o (IF L_QualSplit(nd, st) THEN <<"undelivered-deal-qual-split">> ELSE <<>>)
  \o (IF L_JustifiedShareNotStored(nd, st) THEN <<"justified-share-not-stored">> ELSE <<>>)
  \o (IF L_UnverifiedReconstruct(nd, st) THEN <<"unverified-reconstruct-share">> ELSE <<>>)

\* reconstruct commits on the board: honest ones and the faulty parties' (about their own deal)
HonestRc == UNION {{[i |-> h, d |-> d, sk |-> msgs[h][d], c |-> 1] : d \in DOMAIN msgs[h]} : h \in Honest}
FaultyRc(rp) == UNION {{[i |-> f, d |-> f, sk |-> rp[f][j], c |-> j] : j \in DOMAIN rp[f]} : f \in F}
Before(a, b) == a.i < b.i \/ (a.i = b.i /\ a.c < b.c)
RcOrders(S) == IF OrdMode = "all" THEN SetToSeqs(S)
               ELSE {SetToSortSeq(S, Before), SetToSortSeq(S, LAMBDA a, b : Before(b, a))}

Reconstruct ==
  /\ round = "rc"
  /\ \E rp \in [F -> RcMenu] :
       LET all == HonestRc \cup FaultyRc(rp)
       IN \E o \in [Honest -> RcOrders(all)] :
          LET nd0 == [h \in Honest |-> AfterReconstruct(h, node[h], SelectSeq(o[h], LAMBDA m : m.i # h))]
              nd  == [h \in Honest |-> [nd0[h] EXCEPT !.out = Result(h, nd0[h])]]
          IN /\ strat' = [strat EXCEPT !.rc = rp]
             /\ node' = nd
             /\ hist' = Log([act |-> "Reconstruct", msgs |-> SetToSortSeq(all, Before),
                             ords |-> PerNode(LAMBDA h : [h |-> h, seq |-> o[h]]),
                             exp |-> PerNode(LAMBDA h : [h |-> h, k |-> nd[h].out.k,
                                                         e |-> IF nd[h].out.k = "err" THEN nd[h].out.e ELSE "",
                                                         qual |-> IF nd[h].out.k = "res" THEN SetSeq(nd[h].out.qual) ELSE <<>>]),
                             req |-> [mustOut |-> SetSeq({f \in F : \E h \in Honest : strat.deal[f][h] # "G"
                                                                        /\ ~(strat.deal[f][h] = "B" /\ strat.just[f] = "valid")}),
                                      honest |-> HSeq, allHonest |-> F = {},
                                      cls |-> Classes(nd, [strat EXCEPT !.rc = rp])]])
  /\ round' = "done" /\ UNCHANGED <<T, F, msgs>>

Next == Setup \/ Deal \/ Resp \/ Just \/ SecretCommits \/ Reconstruct
Spec == Init /\ [][Next]_vars

---------------------------------------------------------------------------
Done == round = "done"
Fin == {h \in Honest : node[h].out.k = "res"}
Agreement == Done => \A a, b \in Fin : node[a].out.qual = node[b].out.qual /\ node[a].out.cms = node[b].out.cms
SharesOnPoly == Done => \A a \in Fin : node[a].out.cons
MustOut == {f \in F : \E h \in Honest : strat.deal[f][h] # "G" /\ ~(strat.deal[f][h] = "B" /\ strat.just[f] = "valid")}
UnjustifiedDealerOut == Done => \A a \in Fin : MustOut \cap node[a].out.qual = {}
HonestDealerStays == Done => \A a \in Fin : Honest \subseteq node[a].out.qual
AllHonestAllFinish == (Done /\ F = {}) => \A h \in P : node[h].out.k = "res"
\* at least t dealers are honest and an honest dealer is never disqualified, so the key is always certified
AlwaysCertified == Done => \A h \in Honest : ~(node[h].out.k = "err" /\ node[h].out.e = "notcertified")
ReqAll == Agreement /\ SharesOnPoly /\ UnjustifiedDealerOut /\ HonestDealerStays /\ AllHonestAllFinish /\ AlwaysCertified

ReqExceptLeads == ReqAll \/ (Done /\ Classes(node, strat) # <<>>)

Emit == (Rec /\ Done) => PrintT(<<"TRACE", ToJson(hist)>>)
=============================================================================
