----------------------------- MODULE SharedRead -----------------------------
(* Property C20: values, suites and scheme objects may be SHARED between     *)
(* goroutines for reading.                                                   *)
(*                                                                           *)
(* A workload = G goroutines, each running one read-only operation of one    *)
(* object kind on the SAME shared object (in representation rep: freshly     *)
(* decoded, or result of arithmetic = non-normalised coordinates).  Every    *)
(* operation is a sequence of accesses                                       *)
(*      <<"r", "shared">>  read of the shared object's representation        *)
(*      <<"w", "shared">>  write of it      (only the implementation-layer   *)
(*                         set Lazy has such operations: lazy normalisation) *)
(*      <<"w", "priv">>    write of the goroutine's private result           *)
(* TLC explores ALL interleavings of the accesses and checks                 *)
(*   NoConflict         no two accesses of different goroutines to the       *)
(*                      shared object of which one is a write (no            *)
(*                      synchronisation exists inside the operations, so any *)
(*                      such pair is a data race)                            *)
(*   ResultsSequential  every finished operation returns what it returns     *)
(*                      when run alone.                                      *)
(* and it ENUMERATES THE WORKLOADS (Emit at the initial states): the Go      *)
(* driver, built with -race, runs each of them on the real objects of every  *)
(* group / suite / scheme; the race detector's happens-before analysis       *)
(* stands for the interleavings.                                             *)
EXTENDS Integers, Sequences, FiniteSets, TLC, Json

CONSTANTS G,        \* goroutines per workload (2 or 3)
          Kinds,    \* subset of DOMAIN OpsOf to enumerate
          Lazy,     \* implementation layer: set of "kind/op" that normalise the shared object in place
          Cached,   \* implementation layer: set of "kind/op" that memoise in PACKAGE-LEVEL state keyed by the operand
          SharedBuf \* implementation layer: set of "kind/op" that collect entropy in a buffer kept IN the shared object

OpsOf ==       \* per object kind the read-only method set, in a fixed order
  [point    |-> <<"MarshalBinary", "String", "Equal", "EqualArg", "Clone", "Data", "MarshalTo", "SetArg",
                  "AddOperand", "SubOperand", "NegOperand", "MulOperand">>,
   scalar   |-> <<"MarshalBinary", "String", "Equal", "Clone", "MarshalTo", "SetArg",
                  "AddOperand", "MulOperand", "NegOperand", "InvOperand", "DivOperand", "MulPoint">>,
   suite    |-> <<"RandomStream", "PickScalar", "PickPoint", "Hash", "XOF", "NewKeyPair", "NewPoint", "NewScalar", "HashToPoint">>,
   pairing  |-> <<"Pair", "ValidatePairing", "MarshalG1", "MarshalG2">>,
   bdnmask  |-> <<"Clone", "Mask", "Publics", "Participants", "CountEnabled", "IndexOfNthEnabled",
                  "AggregatePublicKeys">>,
   cosimask |-> <<"Mask", "CountEnabled", "IndexEnabled", "KeyEnabled", "Verify">>,
   pubpoly  |-> <<"Eval", "Check", "Commit", "Info", "Equal", "Shares">>,
   verifier |-> <<"Verify", "VerifyWrongMsg", "MarshalKey", "Sign">>,
   \* ONE random stream object (random.New() on the default source, random.New(readers...), the stream of a suite
   \* constructed WithRand) drawn from by all goroutines
   stream   |-> <<"Draw", "DrawLong", "PickScalar">>,
   \* ONE proof.Predicate tree (Rep / And / Or; a Rep object that is part of two statements); every goroutine
   \* builds its OWN Prover / Verifier from it and runs HashProve / HashVerify
   predicate |-> <<"VerifyRep", "VerifyS1", "VerifyS2", "VerifyOr", "ProveS1", "ProveS2", "ProveOr", "String">>]

(* representations of the shared object:                                     *)
(*  "decoded" / "arith"  a value freshly decoded / left by one arithmetic    *)
(*                       operation (non-normalised coordinates)              *)
(*  "fresh"   suite-like and scheme objects: a NEW object is constructed for *)
(*            the workload and NO call is made on it before the barrier: the *)
(*            goroutines' first read-only calls on it (RandomStream, Hash,   *)
(*            XOF, Point/Scalar factories, Pair, mask reads, Eval, Verify..) *)
(*            run concurrently -- where lazily created fields would be       *)
(*            written -- and a stream obtained from it is used concurrently  *)
(*  "warm"    a suite on which RandomStream() was called once by the         *)
(*            constructing goroutine; that ONE stream object is shared       *)
(*  "unreduced" a scalar loaded from bytes that encode a value >= the group  *)
(*            order (implementations whose decoder accepts them), new object *)
(*            per repetition: its first Equal / Marshal / String / operand   *)
(*            uses are concurrent -- where a lazy reduction would be written *)
(*  "configured" a suite object configured through its setters (custom       *)
(*            domain separation tags of 17 and 44 bytes: lengths that are no *)
(*            allocator size class) BEFORE it is shared; then concurrent     *)
(*            hash-to-point / Sign / Verify through it                        *)
(*  "nilbase" a PubPoly on the standard base given as nil (Commit(nil),      *)
(*            NewPubPoly(g, nil, ..)), not queried before being shared        *)
RepsOf(k) == CASE k = "point"  -> {"decoded", "arith"}
               [] k = "scalar" -> {"decoded", "arith", "unreduced"}
               [] k = "pairing" -> {"decoded", "arith", "fresh"}
               [] k = "suite"    -> {"fresh", "warm", "configured"}
               [] k = "verifier" -> {"fresh", "configured"}
               [] k = "pubpoly"  -> {"fresh", "nilbase"}
               [] OTHER         -> {"fresh"}

(* which shared object a goroutine works on:                                 *)
(*  "same"      all goroutines use ONE shared object A                        *)
(*  "distinct"  op on shared object A || same code path on shared object B    *)
(*              (two points / scalars as operands of operations that write    *)
(*              elsewhere, two point pairs through one pairing suite, two     *)
(*              keys + messages + signatures through one scheme object).      *)
(*              Per-object state cannot conflict here; state OUTSIDE the      *)
(*              objects (package-level caches keyed by the operand, shared    *)
(*              scratch digests) can, and it can make results wrong.          *)
ObjsOf(k, r) == IF k \in {"point", "scalar", "pairing", "verifier"} /\ r \in {"arith", "fresh"}
                THEN {"same", "distinct"} ELSE {"same"}
Objs == {"A", "B", "pkg"}

InitRepr(r) == IF r \in {"arith", "fresh", "unreduced", "configured", "nilbase"} THEN "raw" ELSE "norm"

VARIABLES wl,      \* the workload: [kind, rep, objs, ops (one per goroutine)]
          pc,      \* goroutine -> number of accesses done
          sh,      \* shared object -> its representation: "raw" | "half" | "norm"
          cache,   \* key held by the package-level cache: "A" | "B"
          seen,    \* goroutine -> what its reads saw so far
          buf,     \* entropy buffer kept in the shared stream object: goroutine whose entropy it holds (0: none)
          drew,    \* goroutine -> whose entropy its draw was derived from (0: not drawn yet)
          wr, rd   \* object (A, B, pkg) -> goroutines that have written / read it so far
vars == <<wl, pc, sh, cache, seen, buf, drew, wr, rd>>
Gs == 1..G
ObjOf(g) == IF wl.objs = "same" \/ g % 2 = 1 THEN "A" ELSE "B"

(* access program of an operation: read-only operations read their shared    *)
(* object twice (e.g. X then Z) and write their private result; a lazily     *)
(* normalising one first rewrites the shared object in two steps; a          *)
(* memoising one first looks its operand up in the package-level cache       *)
(* ("c": hit = read, miss = rebuild = write) and then uses the table ("u")   *)
(* a draw from a random stream collects fresh entropy ("e": every call gets *)
(* its own) and derives the key stream from it ("h"); in the requirement     *)
(* layer the entropy sits in a private buffer, in the implementation layer   *)
(* SharedBuf in a buffer that is part of the shared stream object            *)
Prog(k, op) ==
  IF k = "stream"
  THEN IF (k \o "/" \o op) \in SharedBuf
       THEN << <<"r", "shared">>, <<"e", "shared">>, <<"h", "shared">>, <<"w", "priv">> >>
       ELSE << <<"r", "shared">>, <<"e", "priv">>, <<"h", "priv">>, <<"w", "priv">> >>
  ELSE
  (IF (k \o "/" \o op) \in Cached THEN << <<"c", "pkg">>, <<"u", "pkg">> >> ELSE <<>>) \o
  (IF (k \o "/" \o op) \in Lazy
   THEN << <<"w", "shared">>, <<"w", "shared">>, <<"r", "shared">>, <<"r", "shared">>, <<"w", "priv">> >>
   ELSE << <<"r", "shared">>, <<"r", "shared">>, <<"w", "priv">> >>)

(* unordered workloads: non-decreasing op indices, so op1 || op2 is listed once *)
Init == \E k \in Kinds : \E r \in RepsOf(k) : \E ob \in ObjsOf(k, r) : \E idx \in [Gs -> 1..Len(OpsOf[k])] :
          /\ \A g \in 1..(G - 1) : idx[g] <= idx[g + 1]
          /\ wl = [kind |-> k, rep |-> r, objs |-> ob, ops |-> [g \in Gs |-> OpsOf[k][idx[g]]]]
          /\ pc = [g \in Gs |-> 0]
          /\ sh = [o \in {"A", "B"} |-> InitRepr(r)]  \* nothing normalised / created yet
          /\ cache = "A"        \* an earlier (sequential) use may have left an EQUAL key: with one object every lookup hits
          /\ seen = [g \in Gs |-> <<>>]
          /\ buf = 0 /\ drew = [g \in Gs |-> 0]
          /\ wr = [o \in Objs |-> {}] /\ rd = [o \in Objs |-> {}]

Access(g) ==
  LET prog == Prog(wl.kind, wl.ops[g])  o == ObjOf(g) IN
  /\ pc[g] < Len(prog)
  /\ LET a == prog[pc[g] + 1] IN
     /\ pc' = [pc EXCEPT ![g] = @ + 1]
     /\ CASE a = <<"w", "shared">> ->
               /\ sh' = [sh EXCEPT ![o] = IF @ = "raw" THEN "half" ELSE "norm"]      \* X := X/Z ... Z := 1
               /\ wr' = [wr EXCEPT ![o] = @ \cup {g}]
               /\ UNCHANGED <<seen, rd, cache, buf, drew>>
          [] a = <<"r", "shared">> ->
               /\ seen' = [seen EXCEPT ![g] = Append(@, sh[o])]
               /\ rd' = [rd EXCEPT ![o] = @ \cup {g}]
               /\ UNCHANGED <<sh, wr, cache, buf, drew>>
          [] a = <<"c", "pkg">> ->            \* lookup: hit reads the key, miss rebuilds the table for its own operand
               /\ IF cache = o THEN rd' = [rd EXCEPT !["pkg"] = @ \cup {g}] /\ UNCHANGED <<wr, cache>>
                  ELSE wr' = [wr EXCEPT !["pkg"] = @ \cup {g}] /\ cache' = o /\ UNCHANGED rd
               /\ UNCHANGED <<sh, seen, buf, drew>>
          [] a = <<"u", "pkg">> ->            \* use the table: correct only if it still belongs to the own operand
               /\ seen' = [seen EXCEPT ![g] = Append(@, IF cache = o THEN sh[o] ELSE "half")]
               /\ rd' = [rd EXCEPT !["pkg"] = @ \cup {g}]
               /\ UNCHANGED <<sh, wr, cache, buf, drew>>
          [] a = <<"e", "priv">> ->           \* fresh entropy into a private buffer
               /\ drew' = [drew EXCEPT ![g] = g] /\ UNCHANGED <<sh, cache, seen, buf, wr, rd>>
          [] a = <<"e", "shared">> ->         \* fresh entropy into the buffer inside the shared stream object
               /\ buf' = g /\ wr' = [wr EXCEPT ![o] = @ \cup {g}] /\ UNCHANGED <<sh, cache, seen, drew, rd>>
          [] a = <<"h", "shared">> ->         \* derive the key stream from whatever the shared buffer holds now
               /\ drew' = [drew EXCEPT ![g] = buf] /\ rd' = [rd EXCEPT ![o] = @ \cup {g}]
               /\ UNCHANGED <<sh, cache, seen, buf, wr>>
          [] OTHER -> UNCHANGED <<sh, cache, seen, buf, drew, wr, rd>>
     /\ UNCHANGED wl
Next == \E g \in Gs : Access(g)
Spec == Init /\ [][Next]_vars

-----------------------------------------------------------------------------
(* no synchronisation exists inside the operations, so a write of a shared   *)
(* object (or of package-level state) by one goroutine and any access of it  *)
(* by another are a data race                                                *)
NoConflict == \A o \in Objs : \A g \in wr[o] : (wr[o] \cup rd[o]) \ {g} = {}

Finished(g) == pc[g] = Len(Prog(wl.kind, wl.ops[g]))
(* run alone an operation sees one consistent representation                 *)
ResultsSequential == \A g \in Gs : Finished(g) =>
                        (\A i, j \in 1..Len(seen[g]) : seen[g][i] = seen[g][j]) /\ (\A i \in 1..Len(seen[g]) : seen[g][i] # "half")
(* draws of different goroutines from one shared stream never coincide: each *)
(* is derived from the entropy collected by its own call                     *)
DrawsDistinct == \A g1, g2 \in Gs : (g1 # g2 /\ drew[g1] # 0) => drew[g1] # drew[g2]

(* read-only calls leave every observable of the shared objects as it was   *)
(* (checked by the driver on what the public API exposes, e.g. PubPoly.Info) *)
ObjectUnchanged == \A o \in {"A", "B"} : sh[o] = InitRepr(wl.rep)

TypeOK == (\A o \in {"A", "B"} : sh[o] \in {"raw", "half", "norm"}) /\ cache \in {"A", "B"} /\ \A g \in Gs : pc[g] \in 0..7

Emit == (\A g \in Gs : pc[g] = 0) =>
          PrintT(<<"TRACE", ToJson([kind |-> wl.kind, rep |-> wl.rep, objs |-> wl.objs, ops |-> wl.ops])>>)
=============================================================================
