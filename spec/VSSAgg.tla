------------------------------ MODULE VSSAgg ------------------------------
(* Per-observer model of the VSS aggregator of share/vss/pedersen and       *)
(* share/vss/rabin (property C10).                                          *)
(*                                                                         *)
(* ONE aggregator is modelled -- the dealer's (Role = "dealer") or the one  *)
(* of verifier Me (Role = "verifier") -- against an arbitrary environment   *)
(* that may deliver any deal kind, any response class, any justification    *)
(* class and the timeout in any order.  Aggregators interact only through   *)
(* signed messages and the adversary may send anything, so certification    *)
(* at a party is a function of that party's received history; VSSSystem     *)
(* adds causality for the end-to-end clauses.                               *)
(*                                                                         *)
(* Two layers over the same variables:                                      *)
(*  * ground truth (environment): truth[i] = what verifier i REALLY did as  *)
(*    far as the observer can know it ("app": a response signed by i for    *)
(*    this session approving; "comp"; "just": complaint answered by a       *)
(*    justification whose content is the complainer's share on the          *)
(*    committed polynomial), badTruth = the dealer (signature!) produced an *)
(*    incorrect justification for a standing complaint.                     *)
(*  * implementation-shaped layer: resp / bad / tmo / thr / hasDeal move    *)
(*    exactly like Aggregator.responses / badDealer / timeout / t / deal in *)
(*    the Go code (with the repairs vss-1..3 applied; ImplBug switches a    *)
(*    repair off again, which TLC must then detect -- see props_vss.py).    *)
(* The REQUIREMENT (the text of C10) is stated                              *)
(*  * per step, by the operators DealReq / RespReq / JustReq: the set of     *)
(*    allowed outcomes of the call and whether the complaint must / must    *)
(*    not be cleared and whether the dealer must be marked bad; action      *)
(*    property Refines checks that the implementation layer stays inside;   *)
(*  * per state, by the invariants NoBadApproval, CertifiedSound,           *)
(*    EnoughSound, HonestCertifies and the action property BadDealerSticky. *)
(* Where C10 leaves freedom the allowed set has several members and the     *)
(* replayer never judges the choice.                                        *)
EXTENDS Integers, Sequences, FiniteSets, TLC, Json

CONSTANTS Cfgs,     \* set of configurations, each encoded as the integer
                    \*   10000*variant + 1000*role + 100*N + 10*T + Me    (variant 0 = pedersen, 1 = rabin;
                    \*   role 0 = verifier, 1 = dealer); one TLC run covers them all (one initial state each)
          Gen,      \* "off": exhaustive check; "hist": hist = the whole behaviour (BFS / -simulate generators);
                    \* "edge": hist = the last step only (transition tour, paths are rebuilt by the replayer)
          L,        \* generator: maximal number of steps of a behaviour
          ImplBug,  \* "none" | "nojustauth" | "nocommitcheck" | "nothrguard" (model of the pinned tree)
          Menu,     \* "full" | "core": which message classes the environment uses
          LoopMod,  \* transition tour: self-loop edges (calls that change nothing) are printed only at the states
          LoopSalt  \*   whose hash + LoopSalt is divisible by LoopMod (1 = all); state-changing edges always

ASSUME /\ \A c \in Cfgs : /\ c \in 0..19999
                          /\ ((c \div 100) % 10) \in 2..9                       \* N
                          /\ ((c \div 10) % 10) \in 2..((c \div 100) % 10)      \* T
                          /\ (c % 10) < ((c \div 100) % 10)                     \* Me
       /\ ImplBug \in {"none", "nojustauth", "nocommitcheck", "nothrguard"}

VARIABLES N,         \* number of verifiers (indices 0..N-1 as in the Go code)        } fixed by Init,
          T,         \* threshold of the session                                      } never change
          Variant,   \* "pedersen" | "rabin"                                          }
          Role,      \* "verifier" | "dealer"                                         }
          Me,        \* index of the observing verifier (ignored for the dealer)      }
          hasDeal,   \* the aggregator holds a deal (dealer: always)
          own,       \* verifier: "none" | "good" | "bad" -- the deal this verifier recorded
          thr,       \* the aggregator's threshold field (0 before a deal)
          cmtOK,     \* the commitments the aggregator holds are the session's (FALSE after a deal with other ones)
          resp,      \* [V -> {"none","app","comp"}]  the aggregator's table
          truth,     \* [V -> {"none","app","comp","just"}]  ground truth
          bad,       \* badDealer flag
          badTruth,  \* the dealer signed an incorrect justification for a standing complaint
          tmo,       \* SetTimeout was called
          last,      \* the last step: implementation outcome + requirement facts
          hist       \* generator output

conf == <<N, T, Variant, Role, Me>>
vars == <<conf, hasDeal, own, thr, cmtOK, resp, truth, bad, badTruth, tmo, last, hist>>
View == <<conf, hasDeal, own, thr, cmtOK, resp, truth, bad, badTruth, tmo>>

V == 0..(N-1)

-----------------------------------------------------------------------------
(* message classes                                                          *)

RecordedBad == {"badshare", "badcommit", "tlow", "thigh", "nocommits", "badsid", "otherpoly"}
    \* badsid: honest content, SessionID field altered.  otherpoly (dealer equivocation): a self-consistent deal on
    \* ANOTHER polynomial of the same dealer, announcing the session id of this session.
                  \cup (IF Variant = "rabin" THEN {"badrnd", "rndindex", "equivocate"} ELSE {})
    \* equivocate (rabin): (f_i + d, g_i - d/h) for a KNOWN h = log_G(H): opens the same commitment to another share.
    \* Only concretisable if the harness can find such an h by a natural recipe; otherwise the case is unwitnessed.
Rejected    == {"wrongindex", "indexoor", "wrongrecipient", "forgedsig", "sigreuse", "garbage", "noshare"}
    \* sigreuse: attacker-made envelope (own ephemeral key) carrying the dealer's signature of ANOTHER ephemeral key
AllDealKinds == {"good"} \cup RecordedBad \cup Rejected
DealKinds   == IF Menu = "full" THEN AllDealKinds
               ELSE {"good", "badshare", "tlow", "wrongindex", "forgedsig"}

(* relabel / reindex / resession: a GENUINE signature of a verifier, with one signed field changed afterwards
   (status flipped / index replaced by i / other session's id replaced by this one): fields not covered by the
   signature would make these pass *)
AllRespCls  == {"valid", "forged", "wrongsid", "oor", "unsigned", "relabel", "reindex", "resession"}
RespCls     == IF Menu = "full" THEN AllRespCls ELSE {"valid", "forged", "relabel"}

(* justification classes: who signed / what is revealed                      *)
(* the revealed share verifies against the commitments INSIDE the revealed deal, which are not the session's:
   another polynomial / one coefficient changed / a prefix / the session's plus an extra coefficient (T kept or
   adjusted) / two coefficients swapped *)
AltCommit    == {"altcommit", "altcoef", "altshort", "altlong", "altlongt", "altperm"}
DealerWrong  == {"wrongshare", "otherindex"} \cup AltCommit     \* signed by the dealer, content incorrect
ContentOK    == {"correct", "forgedcorrect", "unsignedcorrect"}
(* resigother / resigindex: the dealer's genuine signature of a correct justification, reused after replacing the
   deal by another verifier's / after replacing the index *)
Unauth       == {"forgedcorrect", "unsignedcorrect", "unsignedother", "unsignedwrong", "resigother", "resigindex"}
AllJustCls   == {"correct", "wrongshare", "otherindex", "forgedcorrect", "unsignedcorrect",
                 "unsignedother", "unsignedwrong", "wrongsid", "oor", "resigother", "resigindex"} \cup AltCommit
JustCls      == IF Menu = "full" THEN AllJustCls
                ELSE {"correct", "wrongshare", "otherindex", "unsignedother", "altcommit", "altlong"}

AnyRet == {"ok", "error", "panic", "approve", "complaint", "justification"}

ThrOf(kind) == CASE kind = "tlow" -> 1 [] kind = "thigh" -> N + 1 [] OTHER -> T

-----------------------------------------------------------------------------
(* the two certification predicates, as the code has them                   *)

Cnt(f, x) == Cardinality({i \in V : f[i] = x})
ValidThr(th) == th >= 2 /\ th <= N
ThrGuard(th) == ImplBug = "nothrguard" \/ ValidThr(th)

ImplEnough(hd0, th0, rs0) ==
  LET hd == hd0  th == th0  rs == rs0 IN
  hd /\ Cnt(rs, "app") >= th /\ ThrGuard(th)

ImplCertified(hd0, th0, rs0, b0, tm0) ==
  LET hd == hd0  th == th0  rs == rs0  b == b0  tm == tm0
      app == Cnt(rs, "app")  abs == Cnt(rs, "none")  cmp == Cnt(rs, "comp") IN
  IF Variant = "rabin"
  THEN hd /\ app >= th /\ ThrGuard(th) /\ abs = 0 /\ ~b            \* nil aggregator => false
  ELSE /\ ~b /\ app >= th /\ cmp = 0 /\ ThrGuard(th)
       /\ IF tm THEN (IF th > N THEN TRUE ELSE abs <= N - th)        \* uint32 subtraction wraps for th > N
                ELSE abs = 0

Approved(tr0) == LET tr == tr0 IN {i \in V : tr[i] \in {"app", "just"}}
Sound(tr, bt) == Cardinality(Approved(tr)) >= T /\ ~bt
MustCertify(tr, bt, ow) ==            \* "when dealer and verifiers follow the protocol ... every verifier approves, the deal becomes certified"
  (\A i \in V : tr[i] = "app") /\ ~bt /\ (Role = "dealer" \/ ow = "good")

-----------------------------------------------------------------------------
(* requirement layer, per call (C10's wording; sets where it leaves freedom) *)

DealReq(kind) ==
  [allowed |-> IF kind = "good" THEN (IF hasDeal THEN {"approve", "error"} ELSE {"approve"})
               ELSE IF kind = "badsid" THEN {"approve", "complaint", "error"}    \* honest content, only the announced id is off
               ELSE {"complaint", "error"}]

(* the observer's own deal has the session's T and commitments; otherwise its aggregator tracks the session id of
   what it was dealt (repair vss-5) and this session's messages are foreign to it *)
Consistent == thr = T /\ cmtOK
PreDeal == Role = "verifier" /\ ~hasDeal
    \* C10 says nothing about calls that precede the deal except that nothing is certified

RespReq(i, st, cls) ==
  IF PreDeal THEN [allowed |-> AnyRet, record |-> "free"]
  ELSE IF cls # "valid" THEN [allowed |-> {"error"}, record |-> "mustnot"]
  ELSE IF resp[i] # "none" THEN [allowed |-> {"error", "ok"}, record |-> "mustnot"]      \* one response per verifier
  ELSE IF ~Consistent THEN [allowed |-> {"error", "ok"}, record |-> "free"]             \* observer was dealt another T / polynomial
  ELSE [allowed |-> (IF Role = "dealer" /\ st = "comp" THEN {"justification"} ELSE {"ok"})
                      \cup (IF tmo THEN {"error"} ELSE {}),
        record |-> IF tmo THEN "free" ELSE "must"]

JustReq(i, cls) ==
  IF PreDeal THEN [allowed |-> AnyRet, clear |-> "mustnot", badm |-> "free"]
  ELSE IF cls = "oor" \/ resp[i] # "comp"
       THEN [allowed |-> {"error", "ok"}, clear |-> "mustnot", badm |-> "free"]          \* unsolicited / for an approval
  ELSE IF cls = "correct"
       THEN IF thr # T \/ ~cmtOK
            THEN [allowed |-> {"ok", "error"}, clear |-> "free", badm |-> "free"]         \* the observer was dealt another T / other commitments than the revealed deal has
            ELSE [allowed |-> {"ok"}, clear |-> "must", badm |-> "free"]
  ELSE IF cls \in DealerWrong
       THEN [allowed |-> {"error"}, clear |-> "mustnot", badm |-> "must"]
  ELSE IF cls \in {"forgedcorrect", "unsignedcorrect"}
       THEN [allowed |-> {"ok", "error"}, clear |-> "free", badm |-> "free"]              \* content right, origin unproven
  ELSE [allowed |-> {"error"}, clear |-> "mustnot", badm |-> "free"]                     \* unsignedother, unsignedwrong, wrongsid

-----------------------------------------------------------------------------
(* implementation-shaped layer                                              *)

DealImpl(kind) ==
  IF kind \in Rejected THEN [ret |-> "error", rec |-> FALSE]       \* fails in decryptDeal / index check: nothing recorded
  ELSE IF hasDeal THEN [ret |-> "error", rec |-> FALSE]            \* errDealAlreadyProcessed
  ELSE [ret |-> IF kind = "good" THEN "approve" ELSE "complaint", rec |-> TRUE]

RespImpl(i, st, cls) ==
  IF PreDeal THEN [ret |-> IF Variant = "rabin" THEN "panic" ELSE "error", rec |-> FALSE]
  ELSE IF cls # "valid" \/ resp[i] # "none" \/ ~Consistent THEN [ret |-> "error", rec |-> FALSE]
  ELSE [ret |-> IF Role = "dealer" /\ st = "comp" THEN "justification" ELSE "ok", rec |-> TRUE]

(* verifyJustification: index, standing complaint, VerifyDeal(j.Deal) [sets  *)
(* badDealer on failure], then (repair vss-1) session id, dealer signature,   *)
(* revealed index = complainer's index [badDealer], then clear.               *)
VerifyDealFails(i, cls) ==
  \/ cls \in {"wrongshare", "unsignedwrong", "wrongsid"}
  \/ cls \in AltCommit /\ ImplBug # "nocommitcheck"
  \/ thr # T                                     \* pedersen: d.T # a.t; both: the aggregator tracks another session id
  \/ ~cmtOK /\ ImplBug # "nocommitcheck"                               \* revealed commitments # the ones held
JustImpl(i, cls) ==
  IF PreDeal THEN [ret |-> IF Variant = "rabin" THEN "panic" ELSE "error", clear |-> FALSE, setbad |-> FALSE]
  ELSE IF cls = "oor" \/ resp[i] # "comp" THEN [ret |-> "error", clear |-> FALSE, setbad |-> FALSE]
  ELSE IF VerifyDealFails(i, cls) THEN [ret |-> "error", clear |-> FALSE, setbad |-> TRUE]
  ELSE IF ImplBug = "nojustauth" THEN [ret |-> "ok", clear |-> TRUE, setbad |-> FALSE]
  ELSE IF cls \in Unauth THEN [ret |-> "error", clear |-> FALSE, setbad |-> FALSE]
  ELSE IF cls = "otherindex" THEN [ret |-> "error", clear |-> FALSE, setbad |-> TRUE]
  ELSE [ret |-> "ok", clear |-> TRUE, setbad |-> FALSE]

-----------------------------------------------------------------------------
Post(act) ==   \* what the generator ships with every step (primed = after the step)
  [ret |-> last'.ret, allowed |-> last'.allowed, clear |-> last'.clear, badm |-> last'.badm,
   record |-> last'.record, resp |-> resp', truth |-> truth', bad |-> bad',
   badTruth |-> badTruth', hasDeal |-> hasDeal', thr |-> thr', cmtOK |-> cmtOK', tmo |-> tmo',
   cert |-> ImplCertified(hasDeal', thr', resp', bad', tmo'),
   enough |-> ImplEnough(hasDeal', thr', resp'),
   sound |-> Sound(truth', badTruth'), napp |-> Cardinality(Approved(truth')),
   must |-> MustCertify(truth', badTruth', own'), own |-> own'] @@ act

Log(act) == /\ hist' = CASE Gen = "hist" -> Append(hist, Post(act))
                         [] Gen = "edge" -> <<Post(act)>>
                         [] OTHER -> hist
            /\ UNCHANGED conf
Room == IF Gen = "hist" THEN Len(hist) <= L ELSE TRUE     \* (IF, not \/: a disjunction would fork the action)
OorIdx == IF Role = "verifier" /\ Me = 0 THEN 1 ELSE 0     \* nominal subject of an out-of-range message

ProcessDeal(kind) ==
  /\ Role = "verifier" /\ Room
  /\ LET im == DealImpl(kind)  rq == DealReq(kind) IN
     /\ last' = [act |-> "ProcessDeal", ret |-> im.ret, allowed |-> rq.allowed, clear |-> "na", cleared |-> FALSE,
                 badm |-> "free", record |-> "na", recorded |-> FALSE]
     /\ IF im.rec
        THEN /\ hasDeal' = TRUE
             /\ own' = IF kind = "good" THEN "good" ELSE "bad"
             /\ thr' = ThrOf(kind)
             /\ cmtOK' = (kind \notin {"badcommit", "nocommits", "otherpoly"})
             /\ resp' = [resp EXCEPT ![Me] = IF kind = "good" THEN "app" ELSE "comp"]
             /\ truth' = [truth EXCEPT ![Me] = IF kind = "good" THEN "app" ELSE "comp"]
        ELSE UNCHANGED <<hasDeal, own, thr, cmtOK, resp, truth>>
     /\ UNCHANGED <<bad, badTruth, tmo>>
  /\ Log([act |-> "ProcessDeal", kind |-> kind])

Response(i, st, cls) ==
  /\ Room
  /\ cls = "oor" => i = OorIdx                 \* the index on the wire is N+2; i is nominal
  /\ (Role = "verifier" /\ i = Me) => cls = "valid"   \* only a replay of the observer's own response
  /\ LET im == RespImpl(i, st, cls)  rq == RespReq(i, st, cls) IN
     /\ last' = [act |-> "Response", ret |-> im.ret, allowed |-> rq.allowed, clear |-> "na", cleared |-> FALSE,
                 badm |-> "free", record |-> rq.record, recorded |-> im.rec]
     /\ IF im.rec
        THEN resp' = [resp EXCEPT ![i] = st] /\ truth' = [truth EXCEPT ![i] = st]
        ELSE UNCHANGED <<resp, truth>>
     /\ UNCHANGED <<hasDeal, own, thr, cmtOK, bad, badTruth, tmo>>
  /\ Log([act |-> "Response", i |-> i, st |-> st, cls |-> cls])

Justification(i, cls) ==
  /\ Role = "verifier" /\ Room
  /\ cls = "oor" => i = OorIdx
  /\ LET im == JustImpl(i, cls)  rq == JustReq(i, cls)
         standing == ~PreDeal /\ cls # "oor" /\ resp[i] = "comp" IN
     /\ last' = [act |-> "Justification", ret |-> im.ret, allowed |-> rq.allowed, clear |-> rq.clear,
                 cleared |-> im.clear, badm |-> rq.badm, record |-> "na", recorded |-> FALSE]
     /\ resp' = IF im.clear THEN [resp EXCEPT ![i] = "app"] ELSE resp
     /\ truth' = IF im.clear /\ cls \in ContentOK THEN [truth EXCEPT ![i] = "just"] ELSE truth
     /\ bad' = (bad \/ im.setbad)
     /\ badTruth' = (badTruth \/ (standing /\ cls \in DealerWrong))
     /\ UNCHANGED <<hasDeal, own, thr, cmtOK, tmo>>
  /\ Log([act |-> "Justification", i |-> i, cls |-> cls])

Timeout ==
  /\ ~tmo /\ Room
  /\ IF Variant = "rabin"
     THEN IF hasDeal
          THEN /\ resp' = [i \in V |-> IF resp[i] = "none" THEN "comp" ELSE resp[i]]      \* cleanVerifiers
               /\ truth' = [i \in V |-> IF truth[i] = "none" THEN "comp" ELSE truth[i]]
               /\ tmo' = TRUE
               /\ last' = [act |-> "Timeout", ret |-> "ok", allowed |-> {"ok"}, clear |-> "na", cleared |-> FALSE,
                           badm |-> "free", record |-> "na", recorded |-> FALSE]
          ELSE /\ UNCHANGED <<resp, truth, tmo>>                                             \* nil aggregator
               /\ last' = [act |-> "Timeout", ret |-> "panic", allowed |-> AnyRet, clear |-> "na", cleared |-> FALSE,
                           badm |-> "free", record |-> "na", recorded |-> FALSE]
     ELSE /\ tmo' = TRUE /\ UNCHANGED <<resp, truth>>
          /\ last' = [act |-> "Timeout", ret |-> "ok", allowed |-> {"ok"}, clear |-> "na", cleared |-> FALSE,
                      badm |-> "free", record |-> "na", recorded |-> FALSE]
  /\ UNCHANGED <<hasDeal, own, thr, cmtOK, bad, badTruth>>
  /\ Log([act |-> "Timeout"])

Init ==
  /\ \E c \in Cfgs :
       /\ Variant = IF c \div 10000 = 1 THEN "rabin" ELSE "pedersen"
       /\ Role = IF (c \div 1000) % 10 = 1 THEN "dealer" ELSE "verifier"
       /\ N = (c \div 100) % 10 /\ T = (c \div 10) % 10 /\ Me = c % 10
  /\ hasDeal = (Role = "dealer")
  /\ own = "none"
  /\ thr = IF Role = "dealer" THEN T ELSE 0
  /\ cmtOK = TRUE
  /\ resp = [i \in V |-> "none"]
  /\ truth = [i \in V |-> "none"]
  /\ bad = FALSE /\ badTruth = FALSE /\ tmo = FALSE
  /\ last = [act |-> "init", ret |-> "ok", allowed |-> {"ok"}, clear |-> "na", cleared |-> FALSE,
             badm |-> "free", record |-> "na", recorded |-> FALSE]
  /\ hist = <<[act |-> "init", N |-> N, T |-> T, variant |-> Variant, role |-> Role, me |-> Me]>>

Next ==
  \/ \E k \in DealKinds : ProcessDeal(k)
  \/ \E i \in V, st \in {"app", "comp"}, c \in RespCls : Response(i, st, c)
  \/ \E i \in V, c \in JustCls : Justification(i, c)
  \/ Timeout

Spec == Init /\ [][Next]_vars

-----------------------------------------------------------------------------
(* properties                                                               *)

TypeOK ==
  /\ N \in 2..9 /\ T \in 2..N /\ Me \in 0..(N-1) /\ Variant \in {"pedersen", "rabin"} /\ Role \in {"verifier", "dealer"}
  /\ hasDeal \in BOOLEAN /\ own \in {"none", "good", "bad"} /\ thr \in {0, 1, T, N + 1} /\ cmtOK \in BOOLEAN
  /\ resp \in [V -> {"none", "app", "comp"}] /\ truth \in [V -> {"none", "app", "comp", "just"}]
  /\ bad \in BOOLEAN /\ badTruth \in BOOLEAN /\ tmo \in BOOLEAN

Certified == ImplCertified(hasDeal, thr, resp, bad, tmo)

(* a verifier's own entry is an approval only for a good deal or after a correct justification *)
NoBadApproval == (Role = "verifier" /\ own = "bad" /\ resp[Me] = "app") => truth[Me] = "just"
(* certified only if >= T distinct verifiers approved or were correctly justified and no invalid justification *)
CertifiedSound == Certified => Sound(truth, badTruth)
EnoughSound    == (Variant = "rabin" /\ ImplEnough(hasDeal, thr, resp)) => Cardinality(Approved(truth)) >= T
(* the table never counts somebody who did not approve / was not correctly justified *)
TableSound     == \A i \in V : resp[i] = "app" => truth[i] \in {"app", "just"}
HonestCertifies == MustCertify(truth, badTruth, own) => Certified
NothingBeforeDeal == ~hasDeal => ~Certified

BadDealerSticky == [][bad => bad']_vars
TimeoutSticky   == [][tmo => tmo']_vars
OneResponse     == [][\A i \in V : resp[i] # "none" => (resp'[i] = resp[i] \/ (resp[i] = "comp" /\ resp'[i] = "app"))]_vars

(* the implementation layer stays within what C10 allows, step by step *)
StepOK ==
  /\ last'.ret \in last'.allowed
  /\ last'.clear = "must" => last'.cleared
  /\ last'.clear = "mustnot" => ~last'.cleared
  /\ last'.badm = "must" => bad'
  /\ last'.record = "must" => last'.recorded
  /\ last'.record = "mustnot" => ~last'.recorded
Refines == [][StepOK]_vars

-----------------------------------------------------------------------------
(* generators                                                               *)
Emit     == (Len(hist) = L + 1) => PrintT(<<"TRACE", ToJson(hist)>>)     \* INVARIANT (BFS to depth L / -simulate), Gen = "hist"

(* transition tour (Gen = "edge", VIEW View): TLC visits every abstract state once and prints every  *)
(* transition of the reduced graph as (source state, step); the replayer prefixes each edge with a     *)
(* shortest path of printed edges from the initial state, i.e. one implementation test per            *)
(* (state, action) pair.                                                                              *)
StateRec == [N |-> N, T |-> T, variant |-> Variant, role |-> Role, me |-> Me, hasDeal |-> hasDeal, own |-> own,
             thr |-> thr, cmtOK |-> cmtOK, resp |-> resp, truth |-> truth, bad |-> bad, badTruth |-> badTruth, tmo |-> tmo]
StateHash == Cnt(resp, "app") + 3 * Cnt(resp, "comp") + 5 * Cnt(truth, "just") + thr
               + (IF bad THEN 7 ELSE 0) + (IF tmo THEN 11 ELSE 0) + (IF badTruth THEN 13 ELSE 0) + (IF cmtOK THEN 0 ELSE 17)
EmitEdge ==                                                                             \* ACTION_CONSTRAINT
  IF View' # View \/ LoopMod = 1 \/ (StateHash + LoopSalt) % LoopMod = 0
  THEN PrintT(<<"EDGE", ToJson([src |-> StateRec, step |-> hist'[1]])>>)
  ELSE TRUE
EmitInit == (last.act = "init") => PrintT(<<"EDGE", ToJson([init |-> StateRec])>>)     \* INVARIANT
=============================================================================
