------------------------------- MODULE Sigma -------------------------------
(* Specification of the sigma-protocol proofs of package proof (property    *)
(* C14): predicates are DATA - an Or of And of Rep,                         *)
(*     tree == << branch, ... >>,  branch == << rep, ... >>,                *)
(*     rep == << [s |-> scalar variable, b |-> base variable], ... >>       *)
(* meaning  OR_b AND_r ( P_rep = SUM_t  x_s * B_b ).                        *)
(* The public point of a Rep is named after its term list, so two Reps with *)
(* the same terms share their point variable; scalar variables and bases    *)
(* are shared freely across terms, Reps and branches.                       *)
(*                                                                         *)
(* Trees are built term by term (Build actions), canonically: variables and *)
(* bases are introduced in increasing order (x1 before x2, B1 before B2) -  *)
(* every predicate is a renaming of exactly one canonical tree.            *)
(*                                                                         *)
(* Statement: the model owns the secrets; every public point is DEFINED as  *)
(* the combination its Rep names, so every branch is true, unless           *)
(*   fals = [k |-> "s", i |-> v]     the prover holds a wrong value for x_v  *)
(*   fals = [k |-> "p", i |-> b, j |-> r]  the point of Rep (b,r) (and of   *)
(*          every Rep with the same terms) is an unrelated point, for both  *)
(*          prover and verifier.                                           *)
(* BranchTrue(b): the prover's secrets satisfy branch b.                    *)
(*                                                                         *)
(* Verdict (requirement = the property text):                              *)
(*   accept <=> BranchTrue(chosen branch) /\ proof unmodified               *)
(*              /\ verifier given the same points, predicate and name.      *)
(* "free": the verifier's predicate is a logically equivalent reordering    *)
(* (And-terms or Or-branches exchanged) - the text does not decide it.      *)
(*                                                                         *)
(* Implementation-shaped layer: the transcript item list Items(tree) -      *)
(* one commitment V per Rep in depth-first order; after the challenge the   *)
(* sub-challenges (iff more than one branch) and, per branch, one response  *)
(* per scalar variable occurring in it, in order of first occurrence in the *)
(* whole predicate. The replayer checks the real proof length against it,   *)
(* mutates / truncates at its boundaries; SigmaTrace checks the recorded    *)
(* Put / PubRand / PriRand calls of the real prover against it.            *)
EXTENDS Integers, Sequences, FiniteSets, TLC, Json

CONSTANTS MaxBr, MaxRep, MaxTerm,   \* shape bounds
          NS, NB,                  \* scalar variables, bases
          MaxTerms,                \* bound on the total number of terms of a tree
          Mode,                    \* "sat": tree x choice x falsification; "mut": tree x choice x tampering;
                                   \* "name": tree x choice x name length x verifier's protocol-name class
          Wraps,                   \* subset of {"min", "full"}: elide / keep trivial Or and And nodes
          Nests,                   \* set of m: the LAST m branches (m >= 2, at least one branch before them) form an Or nested in
                                   \* the top-level Or; 0 = flat
          Runs,                    \* how many times the SAME Prover closure and the SAME Verifier closure are run (set of naturals >= 1)
          NameLens,                \* lengths of the prover's protocol name (mode "name": {0, 1, 63, 64, 65, 200})
          Faults                   \* subset of 0..3: the transport of the interactive protocol fails at that round (0 = never)

VARIABLES phase, tree, choice, wrap, fals, mut, fault, nlen, runs, nest, hist,
          ms, mb, nt      \* bookkeeping of the canonical construction: largest scalar variable / base used, number of terms
vars == <<phase, tree, choice, wrap, fals, mut, fault, nlen, runs, nest, hist, ms, mb, nt>>
View == <<phase, tree, choice, wrap, fals, mut, fault, nlen, runs, nest>>

Max2(a, b) == IF a > b THEN a ELSE b
NBr       == Len(tree)
Reps(b)   == 1..Len(tree[b])

MaxS == ms
MaxB == mb
VarsIn(b)  == UNION {{tree[b][r][t].s : t \in 1..Len(tree[b][r])} : r \in Reps(b)}
NReps      == LET f[b \in 0..NBr] == IF b = 0 THEN 0 ELSE f[b - 1] + Len(tree[b]) IN f[NBr]

NoFals == [k |-> "none", i |-> 0, j |-> 0]
NoMut  == [k |-> "none", a |-> 0, b |-> 0, c |-> 0]

RepFalse(rep) == \/ fals.k = "s" /\ \E t \in 1..Len(rep) : rep[t].s = fals.i
                 \/ fals.k = "p" /\ rep = tree[fals.i][fals.j]
BranchTrue(b) == \A r \in Reps(b) : ~RepFalse(tree[b][r])

\* transcript items in Put order
SetToSortedSeq(S) == LET f[n \in 0..NS] == IF n = 0 THEN <<>> ELSE IF n \in S THEN Append(f[n - 1], n) ELSE f[n - 1] IN f[NS]
Commits == LET f[b \in 0..NBr] == IF b = 0 THEN <<>> ELSE f[b - 1] \o [r \in Reps(b) |-> [t |-> "V", b |-> b, x |-> r]] IN f[NBr]
SubCh   == IF NBr > 1 THEN [b \in 1..NBr |-> [t |-> "C", b |-> b, x |-> 0]] ELSE <<>>
Resps   == LET f[b \in 0..NBr] == IF b = 0 THEN <<>>
                                  ELSE f[b - 1] \o LET vs == SetToSortedSeq(VarsIn(b)) IN [i \in 1..Len(vs) |-> [t |-> "R", b |-> b, x |-> vs[i]]]
           IN f[NBr]
RespsOf(lo, hi) == LET f[b \in (lo - 1)..hi] == IF b = lo - 1 THEN <<>>
                                  ELSE f[b - 1] \o LET vs == SetToSortedSeq(VarsIn(b)) IN [i \in 1..Len(vs) |-> [t |-> "R", b |-> b, x |-> vs[i]]]
                   IN f[hi]
\* nested Or (the last `nest` branches): the outer Or sends NBr-nest+1 sub-challenges, the responses of its plain
\* branches follow, then the inner Or's `nest` sub-challenges and the responses of its branches
ItemsN(m) == IF m = 0 THEN Commits \o SubCh \o Resps
           ELSE Commits \o [i \in 1..(NBr - m + 1) |-> [t |-> "C", b |-> i, x |-> 0]] \o RespsOf(1, NBr - m)
                        \o [i \in 1..m |-> [t |-> "C", b |-> NBr - m + i, x |-> 1]] \o RespsOf(NBr - m + 1, NBr)
Items   == ItemsN(nest)
KindsN(m) == LET its == ItemsN(m) IN [i \in 1..Len(its) |-> its[i].t]
ItemKinds == LET its == Items IN [i \in 1..Len(its) |-> its[i].t]
\* private randomness drawn by the prover: one pre-challenge per unproven branch, one blinding per variable per branch
NPriRand == (IF NBr > 1 THEN NBr - 1 ELSE 0) + LET f[b \in 0..NBr] == IF b = 0 THEN 0 ELSE f[b - 1] + Cardinality(VarsIn(b)) IN f[NBr]

Tampered == mut.k # "none"
Reorder  == mut.k \in {"swapBranch", "swapRep"}
Must == IF ~BranchTrue(choice) THEN "rej"
        ELSE IF ~Tampered THEN "acc"
        ELSE IF Reorder THEN "free" ELSE "rej"

\* Object re-use (runs > 1): provers and verifiers are values; the SAME Prover closure is run `runs` times (each
\* run a fresh proof), the SAME Verifier closure checks every one of them, and the same Predicate value also yields a
\* second Prover for another branch. The verdict of a run is Must (for the other branch: its entry of `truth`) -
\* it does not depend on what ran before on that object; the specification therefore has no state for it.

\* The interactive (deniable) protocol draws the challenge independently of the transcript, so a verifier whose
\* predicate is the prover's with the last And-term left out - a predicate IMPLIED by the proven one, whose
\* transcript is a sub-transcript - is not required to reject there ("different predicate" is read as "a predicate
\* not implied by the proven one"; trailing material of a message is ignored like trailing bytes of a proof).
\* Transport fault (every participant's Step fails at round fault in 1..3, i.e. before the third message is
\* delivered): no proof was completely verified, so NO participant may report any other participant's proof as
\* accepted - whether the prover was honest or not.
MustDen == IF fault # 0 THEN "rej"
           ELSE IF Must = "rej" /\ BranchTrue(choice) /\ mut.k = "dropRep" THEN "free" ELSE Must

-----------------------------------------------------------------------------
Init == /\ phase = "build" /\ tree = << << <<>> >> >> /\ choice = 0 /\ wrap = "min"
        /\ fals = NoFals /\ mut = NoMut /\ fault = 0 /\ nlen = 0 /\ runs = 1 /\ nest = 0 /\ hist = <<>> /\ ms = 0 /\ mb = 0 /\ nt = 0

LastB == tree[NBr]
LastR == LastB[Len(LastB)]
SetLastRep(rep) == [tree EXCEPT ![NBr] = [@ EXCEPT ![Len(LastB)] = rep]]

AddTerm ==
  /\ phase = "build" /\ Len(LastR) < MaxTerm /\ nt < MaxTerms
  /\ \E s \in 1..NS, b \in 1..NB :
       /\ s <= ms + 1 /\ b <= mb + 1              \* canonical introduction order
       /\ tree' = SetLastRep(Append(LastR, [s |-> s, b |-> b]))
       /\ ms' = Max2(ms, s) /\ mb' = Max2(mb, b) /\ nt' = nt + 1
  /\ UNCHANGED <<phase, choice, wrap, fals, mut, fault, nlen, runs, nest, hist>>

NewRep ==
  /\ phase = "build" /\ Len(LastR) > 0 /\ Len(LastB) < MaxRep
  /\ tree' = [tree EXCEPT ![NBr] = Append(@, <<>>)]
  /\ UNCHANGED <<phase, choice, wrap, fals, mut, fault, nlen, runs, nest, hist, ms, mb, nt>>

NewBranch ==
  /\ phase = "build" /\ Len(LastR) > 0 /\ NBr < MaxBr
  /\ tree' = Append(tree, << <<>> >>)
  /\ UNCHANGED <<phase, choice, wrap, fals, mut, fault, nlen, runs, nest, hist, ms, mb, nt>>

FalsMenu == {NoFals}
       \cup (IF Mode = "sat" THEN {[k |-> "s", i |-> v, j |-> 0] : v \in 1..MaxS}
                                  \cup {[k |-> "p", i |-> b, j |-> r] : b \in 1..NBr, r \in 1..MaxRep} ELSE {})

ProveRec(its, npr) ==
  [op |-> "prove", tree |-> tree, choice |-> choice', wrap |-> wrap', fals |-> fals', fault |-> fault', nlen |-> nlen', runs |-> runs', nest |-> nest',
   items |-> its, nprirand |-> npr,
   truth |-> [b \in 1..NBr |-> LET ff == fals' IN
                \A r \in Reps(b) : ~(\/ ff.k = "s" /\ \E t \in 1..Len(tree[b][r]) : tree[b][r][t].s = ff.i
                                     \/ ff.k = "p" /\ tree[b][r] = tree[ff.i][ff.j])]]

\* mode "sat": statement, proof and verification of the untampered proof in one step;
\* mode "mut": the proof is made, a tamper step follows
Prove ==
  /\ phase = "build" /\ Len(LastR) > 0
  /\ UNCHANGED <<tree, mut, ms, mb, nt>>
  /\ \E ns \in Nests : (ns = 0 \/ (ns >= 2 /\ NBr - ns >= 1)) /\ nest' = ns /\
     LET its == KindsN(ns)  npr == NPriRand IN      \* evaluated once per tree and nesting, not once per successor
     \E c \in 1..NBr, w \in Wraps, f \in FalsMenu, fl \in Faults, nl \in NameLens, rn \in Runs :
       /\ fault' = fl /\ nlen' = nl /\ runs' = rn
       /\ (f.k = "p" => f.j <= Len(tree[f.i]))
       \* a falsified point is named once: by the first Rep carrying these terms
       /\ (f.k = "p" => \A b \in 1..NBr : \A r \in Reps(b) : tree[b][r] = tree[f.i][f.j] => <<f.i, f.j>> = <<b, r>> \/ b > f.i \/ (b = f.i /\ r > f.j))
       /\ choice' = c /\ wrap' = w /\ fals' = f
       /\ IF Mode \in {"mut", "name"}
            THEN phase' = "tamper" /\ hist' = <<ProveRec(its, npr)>>
            ELSE phase' = "done" /\ hist' = <<ProveRec(its, npr), [op |-> "verify", must |-> Must', mustden |-> MustDen']>>

Mu(k, a, b, c) == [k |-> k, a |-> a, b |-> b, c |-> c]
\* the verifier's protocol name differs from the prover's (whose length is nlen):
\*   a = 1 only in the last byte;  2 only in byte 65 (the first one after byte 64);  3 it is a proper prefix (the
\*   first 64 bytes if nlen > 64, else all but the last byte);  4 it is an extension (one more byte)
NameMenu == {Mu("name", a, 0, 0) : a \in 1..4}
MutMenu ==
  IF Mode = "name" THEN NameMenu ELSE
  LET NI == Len(Items) IN
       {Mu("item", i, 0, 0) : i \in 1..NI}                          \* item i altered to a different value
  \cup {Mu("trunc", i, 0, 0) : i \in 0..(NI - 1)}                   \* only the first i items kept
  \* byte-level truncation: inside item i, keeping 1 byte (b = 1) / all but 1 byte (b = 2) of it
  \cup {Mu("truncIn", i, b, 0) : i \in 1..NI, b \in {1, 2}}
  \* bit 7 of the last byte of item i flipped (a different value: r + 2^255, the other sign, another coordinate)
  \cup {Mu("flipTop", i, 0, 0) : i \in 1..NI}
  \* the proof loses its trailing bytes, all of which are 0x00 (a short read must not be taken for zero padding)
  \cup {Mu("truncZeroTail", 0, 0, 0)}
  \cup NameMenu                                                     \* other protocol name
  \* forged transcripts of a prover that knows NO secret (made by the harness with the library's item layout):
  \* every branch simulated with pre-chosen sub-challenges that do not sum to the real challenge / that sum to
  \* the challenge of an earlier transcript with other commitments
  \cup {Mu("simAll", 0, 0, 0), Mu("replayCh", 0, 0, 0)}
  \cup {Mu("base", b, 0, 0) : b \in 1..MaxB}                        \* verifier's base B_b differs
  \cup {Mu("point", b, r, 0) : b \in 1..NBr, r \in 1..MaxRep}       \* verifier's public point of Rep (b,r) differs
  \cup {Mu("chbase", b, r, t) : b \in 1..NBr, r \in 1..MaxRep, t \in 1..MaxTerm}  \* verifier's predicate: other base in term t
  \cup {Mu("dropTerm", b, r, 0) : b \in 1..NBr, r \in 1..MaxRep}
  \cup {Mu("dropRep", b, 0, 0) : b \in 1..NBr}
  \cup {Mu("dropBranch", 0, 0, 0), Mu("addBranch", 0, 0, 0)}
  \cup {Mu("swapBranch", b, 0, 0) : b \in 1..(NBr - 1)}             \* branches b, b+1 exchanged
  \cup {Mu("swapRep", b, r, 0) : b \in 1..NBr, r \in 1..(MaxRep - 1)} \* And-terms r, r+1 of branch b exchanged

MutOK(m) ==
  CASE m.k \in {"point", "dropTerm"} -> m.b <= Len(tree[m.a]) /\ (m.k = "dropTerm" => Len(tree[m.a][m.b]) >= 2)
    [] m.k = "chbase"     -> m.b <= Len(tree[m.a]) /\ m.c <= Len(tree[m.a][m.b]) /\ NB >= 2
    [] m.k = "dropRep"    -> Len(tree[m.a]) >= 2
    [] m.k = "dropBranch" -> NBr >= 2
    [] m.k = "simAll"     -> NBr >= 2 /\ nest = 0
    [] m.k = "replayCh"   -> nest = 0
    [] m.k = "name"       -> (m.a \in {1, 3} => nlen >= 1) /\ (m.a = 2 => nlen >= 65)
    [] m.k = "swapBranch" -> tree[m.a] # tree[m.a + 1]
    [] m.k = "swapRep"    -> m.b + 1 <= Len(tree[m.a]) /\ tree[m.a][m.b] # tree[m.a][m.b + 1]
    [] OTHER -> TRUE

Tamper ==
  /\ phase = "tamper"
  /\ UNCHANGED <<tree, choice, wrap, fals, fault, nlen, runs, nest, ms, mb, nt>>
  /\ \E m \in MutMenu \cup {NoMut} :
       /\ MutOK(m) /\ mut' = m
       /\ hist' = hist \o <<[op |-> "tamper", m |-> m], [op |-> "verify", must |-> Must', mustden |-> MustDen']>>
  /\ phase' = "done"

Next == AddTerm \/ NewRep \/ NewBranch \/ Prove \/ Tamper
Spec == Init /\ [][Next]_vars

-----------------------------------------------------------------------------
Judged == phase \in {"tamper", "done"}
Total  == Judged => Must \in {"acc", "rej", "free"}
\* accept exactly the clean runs on a true chosen branch
AcceptIffClean == Judged => (Must = "acc" <=> (BranchTrue(choice) /\ ~Tampered))
\* the truth of the OTHER branches never matters
OtherBranchesIrrelevant == Judged /\ ~Tampered /\ BranchTrue(choice) => Must = "acc"
\* falsifying a variable matters iff it occurs in the chosen branch
FalsLocal == Judged /\ fals.k = "s" => (BranchTrue(choice) <=> fals.i \notin VarsIn(choice))
\* structural facts about the transcript are checked once per complete tree
TreeDone == phase = "build" /\ Len(LastR) > 0
FaultNeverAccepted == Judged /\ fault # 0 => MustDen = "rej"
\* transcript size formula
ItemCount == TreeDone => Len(Items) = NReps + (IF NBr > 1 THEN NBr ELSE 0) + (IF nest > 0 THEN 1 ELSE 0)
                                   + LET f[b \in 0..NBr] == IF b = 0 THEN 0 ELSE f[b - 1] + Cardinality(VarsIn(b)) IN f[NBr]
\* commitments strictly precede sub-challenges and responses
CommitFirst == TreeDone => LET its == ItemKinds IN \A i, j \in 1..Len(its) : (its[i] = "V" /\ its[j] # "V") => i < j
Shape == /\ nt <= MaxTerms /\ NBr <= MaxBr /\ \A b \in 1..NBr : Len(tree[b]) <= MaxRep /\ \A r \in Reps(b) : Len(tree[b][r]) <= MaxTerm

Emit == (phase = "done") => PrintT(<<"TRACE", ToJson(hist)>>)
=============================================================================
