------------------------------- MODULE PVSS -------------------------------
(* Case-lattice specification of share/pvss and proof/dleq (property C13).  *)
(*                                                                         *)
(* Abstract values are PROVENANCE TAGS, not group elements:                *)
(*   tag o in 1..n : "the honest value this slot has in trustee o's record" *)
(*   Glob          : the global challenge (identical in all honest records) *)
(*   Alt           : a value semantically different from every honest one   *)
(* Share indices (field I) are real integers (1-based here, 0-based in Go)  *)
(* because RecoverCommit sorts by them.                                    *)
(*                                                                         *)
(* Two layers (DESIGN 1):                                                  *)
(*  requirement layer  EncMust / DecMust / RecMust / DleqMust : exactly the *)
(*      content of the property text ("altered or swapped => fails and is   *)
(*      excluded", "honest => verifies", "recover ok <=> >= t valid, result *)
(*      is the commitment of the secret").  "free" where the text is silent *)
(*      (an untouched share inside a package whose OTHER share was altered: *)
(*      the global challenge makes the code reject it, the text allows      *)
(*      both).                                                             *)
(*  implementation-shaped layer EncImpl / DecImpl / RecImpl : the           *)
(*      verification equations of the Go code evaluated symbolically: an    *)
(*      equation between random-looking values holds iff all operands are   *)
(*      the untouched members of ONE honest proof instance.                 *)
(* TLC checks that the second refines the first (invariants Refines...).    *)
(* With CheckDecIndex = FALSE (the pinned code: nothing authenticates the   *)
(* index of a decrypted share) RefinesRec is VIOLATED - DESIGN 7 #14.       *)
(*                                                                         *)
(* Shapes (one run = one shape):                                           *)
(*  "enc"   Deal, Tamper(enc package), VerifyEnc(+batch), Decrypt           *)
(*  "dec"   Deal, VerifyEnc, Decrypt, Tamper(dec package), VerifyDec(+batch),*)
(*          Pick* , Recover(sel)    -- sel = any sequence of distinct       *)
(*          positions = every subset in every order                        *)
(*  "batch" one trustee, n dealers, DecShareBatch over the n shares         *)
(*  "dleq"  n proofs made by NewDLEQProof (n=1) / NewDLEQProofBatch         *)
(* hist is the behaviour handed to the Go replayer (ToJson).               *)
EXTENDS Integers, Sequences, FiniteSets, TLC, Json, SequencesExt

CONSTANTS Shape, NMin, NMax,
          MaxTamper,      \* 1 in generator configs, 2 in model-checking configs
          RecMode,        \* "pick": Recover(sel) after Pick steps (one state per sel);
                          \* "all" : one step logging Recover for EVERY sel (compact generator)
          CheckDecIndex,  \* TRUE = design with dec.S.I = enc.S.I required
          HashDecBase,    \* TRUE = design in which the decryption challenge also covers the decrypted value (the base
                          \* of the second DLEQ equation); FALSE = pinned code (H(X, encV, VG, VH) only)
          Rels            \* shape "dleq": relations between the two bases of a statement,
                          \* subset of {"indep", "HeqG", "HnegG", "H2G", "Hid", "Gid"}

VARIABLES phase, n, t, enc, dec, key, comAlt, nt, sel, hist
vars == <<phase, n, t, enc, dec, key, comAlt, nt, sel, hist>>
View == <<phase, n, t, enc, dec, key, comAlt, sel>>

Alt  == 0
Glob == 99
Forg == 98   \* wrong values a DISHONEST DEALER put into the package before deriving the global challenge from it
Pos  == 1..n

HonestEnc(p) == [I |-> p, V |-> p, C |-> Glob, R |-> p, VG |-> p, VH |-> p]
HonestDec(p) == [I |-> p, V |-> p, C |-> p, R |-> p, VG |-> p, VH |-> p]
NoDec        == [I |-> 0, V |-> -1, C |-> -1, R |-> -1, VG |-> -1, VH |-> -1]
\* "batch": item d = the share of OUR trustee in dealer d's package;
\* oV = the other trustee's encrypted share (enters the global challenge),
\* sH / gc = the commitment and the expected challenge the caller passes in
HonestItem(d) == [V |-> d, C |-> d, R |-> d, VG |-> d, VH |-> d, oV |-> d, sH |-> d, gc |-> d]
\* "dleq": item p = statement (G,H,xG,xH) + proof
HonestPrf(p) == [G |-> p, H |-> p, xG |-> p, xH |-> p, C |-> Glob, R |-> p, VG |-> p, VH |-> p]

-----------------------------------------------------------------------------
(* requirement layer *)
ComsOK        == comAlt = {}
EncTouched(p) == enc[p] # HonestEnc(p) \/ key[p] # p \/ ~ComsOK
\* everything that enters the global challenge is the honest dealer's
GCHonest      == ComsOK /\ \A q \in Pos : enc[q].V = q /\ enc[q].VG = q /\ enc[q].VH = q
\* an untouched share must verify as long as its whole verification context (commitments, key, global challenge)
\* is the honest one - altering only ANOTHER trustee's challenge, response or key must not drop it; if another
\* share's value or commitments changed, the global challenge changed with it and the text leaves the verdict open
EncMust(p)    == IF EncTouched(p) THEN "rej" ELSE IF GCHonest THEN "acc" ELSE "free"

DecTouched(p) == dec[p] # HonestDec(p) \/ key[p] # p \/ enc[p].V # p \/ enc[p].I # p
DecMust(p)    == IF DecTouched(p) THEN "rej" ELSE "acc"

\* RecMust(sel): ok <=> at least t untouched shares selected; the point is the secret's commitment
\* (defined below as RecMustV on the vector of untouched positions)

ItemTouched(d) == enc[d] # HonestItem(d) \/ key[d] # d
\* the other trustee's share altered: OUR share is untouched but sits in a touched package
ItemMust(d)   == IF [enc[d] EXCEPT !.oV = d] # HonestItem(d) \/ key[d] # d THEN "rej"
                 ELSE IF enc[d].oV # d THEN "free" ELSE "acc"

PrfTouched(p) == enc[p] # HonestPrf(p)
DleqMust(p)   == IF PrfTouched(p) THEN "rej" ELSE "acc"

-----------------------------------------------------------------------------
(* implementation-shaped layer: the equations of pvss.go / dleq.go *)

\* commitment polynomial evaluated at the index the share CLAIMS (the callers
\* of the package compute sH[i] = pubPoly.Eval(encShares[i].S.I).V)
SH(p) == IF ComsOK /\ enc[p].I \in Pos THEN enc[p].I ELSE Alt

\* computeGlobalChallenge hashes commitments, all S.V, all VG, all VH in order
\* (Forg: the dealer itself hashed these values, so the challenge it handed out matches the recomputation)
GCOrig == ComsOK /\ \A q \in Pos : enc[q].V \in {q, Forg} /\ enc[q].VG \in {q, Forg} /\ enc[q].VH \in {q, Forg}

EncImpl(p) ==
  LET e == enc[p] IN
  IF ~(e.C = Glob /\ GCOrig) THEN "rej"                            \* P.C.Equal(expGlobalChallenge)
  ELSE IF \E o \in Pos : /\ e.VG = o /\ e.R = o /\ SH(p) = o          \* vG == rH + c(sH)
                         /\ e.VH = o /\ key[p] = o /\ e.V = o        \* vH == rX + c(sX)
       THEN "acc" ELSE "rej"

DecImpl(p) ==
  LET d == dec[p] IN
  IF \A fl \in {"V", "C", "R", "VG", "VH"} : d[fl] = Forg
    THEN (IF HashDecBase \/ key[p] # p \/ enc[p].V # p \/ (CheckDecIndex /\ d.I # enc[p].I) THEN "rej" ELSE "acc") ELSE
  IF ~(\E o \in Pos : key[p] = o /\ enc[p].V = o /\ d.VG = o /\ d.VH = o /\ d.C = o)
    THEN "rej"                                                     \* recomputed challenge
  ELSE IF ~(\E o \in Pos : /\ d.VG = o /\ d.R = o /\ d.C = o /\ key[p] = o      \* vG == rG + cX
                           /\ d.VH = o /\ d.V = o /\ enc[p].V = o)            \* vH == r(sG) + c(sX)
    THEN "rej"
  ELSE IF CheckDecIndex /\ d.I # enc[p].I THEN "rej"
  ELSE "acc"

Filter(s, Test(_)) == SelectSeq(s, Test)

\* RecoverSecret: filter, count, then share.RecoverCommit = Lagrange over the
\* first t DISTINCT claimed indices in ascending order.
\* (accv / untv = per-position verdict vectors, evaluated once per state)
Smallest(S, k) == {i \in S : Cardinality({j \in S : j < i}) < k}
AccVec == TLCEval([p \in Pos |-> DecImpl(p) = "acc"])
UntVec == TLCEval([p \in Pos |-> ~DecTouched(p)])
RecImplV(s0, accv) ==
  LET s == s0
      D == SelectSeq(s, LAMBDA p : accv[p])
      idxs == {dec[D[k]].I : k \in 1..Len(D)}
  IN IF Len(D) < t \/ Cardinality(idxs) < t THEN [ok |-> FALSE, pt |-> "none"]
     ELSE LET used == Smallest(idxs, t)
              good == \A k \in 1..Len(D) : dec[D[k]].I \in used => dec[D[k]].V = dec[D[k]].I
          IN [ok |-> TRUE, pt |-> IF good THEN "secret" ELSE "wrong"]
RecMustV(s, untv) == [ok |-> Cardinality({k \in 1..Len(s) : untv[s[k]]}) >= t, pt |-> "secret"]
RecImpl(s) == RecImplV(s, AccVec)

ItemImpl(d) ==
  LET e == enc[d] IN
  IF ~(\E o \in Pos : e.C = o /\ e.gc = o /\ e.oV = o /\ e.V = o /\ e.VG = o /\ e.VH = o) THEN "rej"
  ELSE IF \E o \in Pos : e.VG = o /\ e.R = o /\ e.sH = o /\ e.VH = o /\ key[d] = o /\ e.V = o
       THEN "acc" ELSE "rej"

DleqImpl(p) ==
  LET e == enc[p] IN
  IF e.C = Glob /\ \E o \in Pos : /\ e.VG = o /\ e.R = o /\ e.G = o /\ e.xG = o
                                  /\ e.VH = o /\ e.H = o /\ e.xH = o
  THEN "acc" ELSE "rej"

Verdicts(F(_)) == [p \in Pos |-> F(p)]
AccSeq(F(_))   == Filter([p \in Pos |-> p], LAMBDA p : F(p) = "acc")

-----------------------------------------------------------------------------
(* mutation menus *)
Swap(f, p, q) == [f EXCEPT ![p] = f[q], ![q] = f[p]]
SwapFields(f, p, q, flds) ==
  [x \in DOMAIN f |-> IF x = p THEN [fl \in DOMAIN f[p] |-> IF fl \in flds THEN f[q][fl] ELSE f[p][fl]]
                      ELSE IF x = q THEN [fl \in DOMAIN f[q] |-> IF fl \in flds THEN f[p][fl] ELSE f[q][fl]]
                      ELSE f[x]]
SetField(f, p, fl, v) == [f EXCEPT ![p] = [fl2 \in DOMAIN f[p] |-> IF fl2 = fl THEN v ELSE f[p][fl2]]]

M(k, p, q) == [k |-> k, p |-> p, q |-> q]
ShareFields == {"V", "C", "R", "VG", "VH"}
PairMuts(ks) == {m \in {M(k, p, q) : k \in ks, p \in Pos, q \in Pos} : m.p < m.q}

\* (index of an ENCRYPTED share: a semantic change only for t >= 2 - with t = 1 the polynomial is
\*  constant, every index has the same commitment and any single share recovers the secret)
\* "forge": the share value replaced AND a proof simulated for the false statement (challenge and response chosen
\* first, commitments computed from them): every verification equation holds, only the recomputed challenge differs
\* "dforge": a dishonest DEALER gives trustee p a wrong share with a simulated proof carrying its OWN challenge and
\* derives the global challenge of everybody else's (honest) proofs from the package including the forged values
EncMuts == {M(f, p, 0) : f \in ShareFields \cup {"key", "forge", "dforge"}, p \in Pos}
      \cup (IF t >= 2 THEN {M("I", p, i) : p \in Pos, i \in (1..(n + 1))} \ {M("I", p, p) : p \in Pos} ELSE {})
      \cup {M("com", j, 0) : j \in 0..(t - 1)}
      \cup PairMuts({"swapS", "swapP", "swapB"})

\* "tforge": a malicious TRUSTEE (it knows its key x) publishes a wrong decrypted value with a proof built backwards:
\* VG = vG, VH = an arbitrary point W, c = the honest recomputation H(X, encV, VG, W), r = v - c*x, and the value
\* V' = r^-1 (W - c*encV) that makes the second equation hold. Every equation and the challenge check of the pinned code
\* hold, because the decrypted value is not part of what the challenge hashes (tag Forg).
DecMuts == {M(f, p, 0) : f \in ShareFields \cup {"key", "encV", "forge", "tforge"}, p \in Pos}
      \cup ({M("I", p, i) : p \in Pos, i \in (1..(n + 1))} \ {M("I", p, p) : p \in Pos})
      \cup PairMuts({"swapS", "swapP", "swapB"})

ItemMuts == {M(f, d, 0) : f \in ShareFields \cup {"key", "oV", "sH", "gc"}, d \in Pos}
      \cup PairMuts({"swapB"})

PrfMuts == {M(f, p, 0) : f \in {"G", "H", "xG", "xH", "C", "R", "VG", "VH", "swapX", "swapV", "swapGH"}, p \in Pos}
      \cup PairMuts({"swapP", "swapX"})

\* record list after a mutation (m.k decides which list is touched)
RecAfter(f, m) ==
  CASE m.k \in ShareFields \cup {"oV", "sH", "gc", "G", "H", "xG", "xH"} -> SetField(f, m.p, m.k, Alt)
    [] m.k = "I"      -> SetField(f, m.p, "I", m.q)
    [] m.k = "tforge" -> [f EXCEPT ![m.p] = [fl \in DOMAIN f[m.p] |-> IF fl \in ShareFields THEN Forg ELSE f[m.p][fl]]]
    [] m.k = "dforge" -> [f EXCEPT ![m.p] = [fl \in DOMAIN f[m.p] |-> IF fl \in {"V", "VG", "VH"} THEN Forg
                                                                   ELSE IF fl \in {"C", "R"} THEN Alt ELSE f[m.p][fl]]]
    [] m.k = "forge"  -> [f EXCEPT ![m.p] = [fl \in DOMAIN f[m.p] |-> IF fl \in ShareFields THEN Alt ELSE f[m.p][fl]]]
    [] m.k = "swapS"  -> SwapFields(f, m.p, m.q, {"I", "V"})
    [] m.k = "swapP"  -> SwapFields(f, m.p, m.q, {"C", "R", "VG", "VH"})
    [] m.k = "swapB"  -> Swap(f, m.p, m.q)
    [] m.k = "swapX" /\ m.q = 0 -> SetField(SetField(f, m.p, "xG", Alt), m.p, "xH", Alt)   \* xG <-> xH inside one statement
    [] m.k = "swapX" /\ m.q # 0 -> SwapFields(f, m.p, m.q, {"xG", "xH"})
    [] m.k = "swapV"  -> SetField(SetField(f, m.p, "VG", Alt), m.p, "VH", Alt)
    [] m.k = "swapGH" -> SetField(SetField(f, m.p, "G", Alt), m.p, "H", Alt)
    [] OTHER -> f

-----------------------------------------------------------------------------
Init == /\ phase = "init" /\ n = 0 /\ t = 0 /\ enc = <<>> /\ dec = <<>> /\ key = <<>>
        /\ comAlt = {} /\ nt = 0 /\ sel = <<>> /\ hist = <<>>

Log(r) == hist' = Append(hist, r)

Deal ==
  /\ phase = "init"
  \* DLEQ statements also over related / degenerate bases (H = G - hence xG = xH -, H = -G, H = 2G, H or G the
  \* identity): the verdict relation does not mention the bases - verify iff untouched, whatever they are
  /\ \E nn \in NMin..NMax, tt \in 1..NMax, rl \in (IF Shape = "dleq" THEN Rels ELSE {"indep"}) :
       /\ tt <= nn
       /\ (Shape \in {"batch", "dleq"} => tt = 1)
       /\ n' = nn /\ t' = tt
       /\ enc' = [p \in 1..nn |-> CASE Shape = "batch" -> HonestItem(p) [] Shape = "dleq" -> HonestPrf(p) [] OTHER -> HonestEnc(p)]
       /\ dec' = [p \in 1..nn |-> NoDec]
       /\ key' = [p \in 1..nn |-> p]
       /\ Log([op |-> "deal", n |-> nn, t |-> tt, rel |-> rl])
  /\ phase' = IF Shape = "dec" THEN "honest" ELSE "tamper"
  /\ UNCHANGED <<comAlt, nt, sel>>

\* shape "dec": the untouched package is verified and decrypted first
HonestRun ==
  /\ phase = "honest"
  /\ dec' = [p \in Pos |-> HonestDec(p)]
  /\ Log([op |-> "verifyEnc", must |-> Verdicts(EncMust), impl |-> Verdicts(EncImpl), batch |-> AccSeq(EncImpl)])
  /\ phase' = "tamper"
  /\ UNCHANGED <<n, t, enc, key, comAlt, nt, sel>>

Tamper ==
  /\ phase = "tamper" /\ nt < MaxTamper
  /\ nt' = nt + 1
  /\ CASE Shape = "enc" ->
            \E m \in EncMuts :
              /\ enc' = RecAfter(enc, m)
              /\ key' = IF m.k = "key" THEN [key EXCEPT ![m.p] = Alt] ELSE key
              /\ comAlt' = IF m.k = "com" THEN comAlt \cup {m.p} ELSE comAlt
              /\ dec' = dec /\ Log([op |-> "tamper", stage |-> "enc", m |-> m])
       [] Shape = "dec" ->
            \E m \in DecMuts :
              /\ dec' = RecAfter(dec, m)
              /\ key' = IF m.k = "key" THEN [key EXCEPT ![m.p] = Alt] ELSE key
              /\ enc' = IF m.k = "encV" THEN SetField(enc, m.p, "V", Alt) ELSE enc
              /\ comAlt' = comAlt /\ Log([op |-> "tamper", stage |-> "dec", m |-> m])
       [] Shape = "batch" ->
            \E m \in ItemMuts :
              /\ enc' = RecAfter(enc, m)
              /\ key' = IF m.k = "key" THEN [key EXCEPT ![m.p] = Alt] ELSE key
              /\ comAlt' = comAlt /\ dec' = dec /\ Log([op |-> "tamper", stage |-> "batch", m |-> m])
       [] Shape = "dleq" ->
            \E m \in PrfMuts :
              /\ enc' = RecAfter(enc, m)
              /\ UNCHANGED <<key, comAlt, dec>> /\ Log([op |-> "tamper", stage |-> "dleq", m |-> m])
  /\ UNCHANGED <<phase, n, t, sel>>

\* the verification step closing the tamper phase (zero tampers allowed: honest case)
Verify ==
  /\ phase = "tamper"
  /\ CASE Shape = "enc" ->
            /\ Log([op |-> "verifyEnc", must |-> Verdicts(EncMust), impl |-> Verdicts(EncImpl), batch |-> AccSeq(EncImpl)])
            /\ phase' = "decrypt"
       [] Shape = "dec" ->
            /\ Log([op |-> "verifyDec", must |-> Verdicts(DecMust), impl |-> Verdicts(DecImpl), batch |-> AccSeq(DecImpl)])
            /\ phase' = "pick"
       [] Shape = "batch" ->
            /\ Log([op |-> "decBatch", must |-> Verdicts(ItemMust), impl |-> Verdicts(ItemImpl), batch |-> AccSeq(ItemImpl)])
            /\ phase' = "done"
       [] Shape = "dleq" ->
            /\ Log([op |-> "dleqVerify", must |-> Verdicts(DleqMust), impl |-> Verdicts(DleqImpl)])
            /\ phase' = "done"
  /\ UNCHANGED <<n, t, enc, dec, key, comAlt, nt, sel>>

\* shape "enc": every trustee runs DecShare on what it received (refuses iff VerifyEncShare refuses)
Decrypt ==
  /\ phase = "decrypt"
  /\ Log([op |-> "decrypt", must |-> Verdicts(EncMust), impl |-> Verdicts(EncImpl)])
  /\ phase' = "done"
  /\ UNCHANGED <<n, t, enc, dec, key, comAlt, nt, sel>>

\* all sequences of distinct positions = every subset in every order
\* (constant-level table: TLC evaluates it once)
SelsOf(m) == {s \in UNION {[1..k -> 1..m] : k \in 1..m} : \A a, b \in DOMAIN s : a # b => s[a] # s[b]}
SelTab    == [m \in 1..(IF RecMode = "all" THEN NMax ELSE 1) |-> SetToSeq(SelsOf(m))]
AllSelSeq == SelTab[n]
AllSels   == {AllSelSeq[i] : i \in 1..Len(AllSelSeq)}

\* Recover is read-only: a behaviour may observe it for every sel in turn
RecoverAll ==
  /\ phase = "pick" /\ RecMode = "all"
  /\ Log([op |-> "recoverAll",
          cases |-> LET S == AllSelSeq  av == AccVec  uv == UntVec
                    IN [i \in 1..Len(S) |-> [sel |-> S[i], must |-> RecMustV(S[i], uv), impl |-> RecImplV(S[i], av)]]])
  /\ phase' = "done"
  /\ UNCHANGED <<n, t, enc, dec, key, comAlt, nt, sel>>

Pick ==
  /\ phase = "pick" /\ RecMode = "pick"
  /\ \E p \in Pos : (\A k \in 1..Len(sel) : sel[k] # p) /\ sel' = Append(sel, p)
  /\ UNCHANGED <<phase, n, t, enc, dec, key, comAlt, nt, hist>>

Recover ==
  /\ phase = "pick" /\ RecMode = "pick" /\ Len(sel) >= 1
  /\ Log([op |-> "recover", sel |-> sel, must |-> RecMustV(sel, UntVec), impl |-> RecImplV(sel, AccVec)])
  /\ phase' = "done"
  /\ UNCHANGED <<n, t, enc, dec, key, comAlt, nt, sel>>

Next == Deal \/ HonestRun \/ Tamper \/ Verify \/ Decrypt \/ Pick \/ Recover \/ RecoverAll
Spec == Init /\ [][Next]_vars

-----------------------------------------------------------------------------
(* what TLC checks on the case space itself *)
V3 == {"acc", "rej", "free"}
Ready == phase \notin {"init", "honest"}

\* Total: every reachable case has a verdict in both layers
Total == Ready =>
  CASE Shape = "enc"   -> \A p \in Pos : EncMust(p) \in V3 /\ EncImpl(p) \in {"acc", "rej"}
    [] Shape = "dec"   -> \A p \in Pos : DecMust(p) \in V3 /\ DecImpl(p) \in {"acc", "rej"}
    [] Shape = "batch" -> \A p \in Pos : ItemMust(p) \in V3 /\ ItemImpl(p) \in {"acc", "rej"}
    [] Shape = "dleq"  -> \A p \in Pos : DleqMust(p) \in V3 /\ DleqImpl(p) \in {"acc", "rej"}

Ref(must, impl) == (must = "acc" => impl = "acc") /\ (must = "rej" => impl = "rej")

\* the design (equations) satisfies the requirement: accept <=> untouched,
\* also after two manipulations (MaxTamper = 2): no second manipulation restores acceptance
RefinesVerify == Ready =>
  CASE Shape = "enc"   -> \A p \in Pos : Ref(EncMust(p), EncImpl(p))
    [] Shape = "dec"   -> \A p \in Pos : Ref(DecMust(p), DecImpl(p))
    [] Shape = "batch" -> \A p \in Pos : Ref(ItemMust(p), ItemImpl(p))
    [] Shape = "dleq"  -> \A p \in Pos : Ref(DleqMust(p), DleqImpl(p))

AcceptImpliesUntouched == Ready =>
  CASE Shape = "enc"   -> \A p \in Pos : EncImpl(p) = "acc" => ~EncTouched(p)
    [] Shape = "dec"   -> \A p \in Pos : DecImpl(p) = "acc" => ~DecTouched(p)
    [] Shape = "batch" -> \A p \in Pos : ItemImpl(p) = "acc" => ~ItemTouched(p)
    [] Shape = "dleq"  -> \A p \in Pos : DleqImpl(p) = "acc" => ~PrfTouched(p)

\* FilterExact: the batch result keeps order, contains every must-accept and no must-reject position
IsSubSeqOfPos(s) == \A a, b \in 1..Len(s) : a < b => s[a] < s[b]
FilterExact == Ready =>
  LET chk(F(_), Must(_)) == LET r == AccSeq(F) IN
        /\ IsSubSeqOfPos(r)
        /\ \A p \in Pos : (Must(p) = "acc" => \E k \in 1..Len(r) : r[k] = p)
                       /\ (Must(p) = "rej" => \A k \in 1..Len(r) : r[k] # p)
  IN CASE Shape = "enc"   -> chk(EncImpl, EncMust)
       [] Shape = "dec"   -> chk(DecImpl, DecMust)
       [] Shape = "batch" -> chk(ItemImpl, ItemMust)
       [] OTHER -> TRUE

\* RecoverIffEnoughValid: ok <=> >= t untouched shares selected, and then the point is the secret's commitment
RecOK(s, av, uv) == LET i == RecImplV(s, av)  m == RecMustV(s, uv) IN i.ok = m.ok /\ (i.ok => i.pt = "secret")
RefinesRec == (Shape = "dec" /\ phase = "pick") =>
  LET av == AccVec  uv == UntVec
  IN IF RecMode = "pick" THEN (Len(sel) >= 1 => RecOK(sel, av, uv)) ELSE \A s \in AllSels : RecOK(s, av, uv)

\* honest completeness stated on its own (vacuity guard for the above)
HonestAccepts == (Ready /\ nt = 0) =>
  CASE Shape = "enc"   -> \A p \in Pos : EncImpl(p) = "acc"
    [] Shape = "dec"   -> \A p \in Pos : DecImpl(p) = "acc"
    [] Shape = "batch" -> \A p \in Pos : ItemImpl(p) = "acc"
    [] Shape = "dleq"  -> \A p \in Pos : DleqImpl(p) = "acc"

-----------------------------------------------------------------------------
(* generator *)
Emit == (phase = "done") => PrintT(<<"TRACE", ToJson(hist)>>)
=============================================================================
