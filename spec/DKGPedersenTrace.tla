------------------------- MODULE DKGPedersenTrace -------------------------
(***************************************************************************)
(* Trace validation (code -> spec) for share/dkg/pedersen DistKeyGenerator.*)
(* Events are recorded by the `verif` hooks (verif_hook.go) at the end of  *)
(* NewDistKeyHandler, Deals, ProcessDeals, ProcessResponses and            *)
(* ProcessJustifications: the abstract view of the bundles handed to the   *)
(* call and the projection of the generator's state after it.  Every       *)
(* object's event sequence must be a behaviour of the DKGPedersen          *)
(* transition operators; objects are separated by "reset" events.          *)
(***************************************************************************)
EXTENDS DKGPedersen, IOUtils

VARIABLES l, me

Trace == ndJsonDeserialize(IOEnv.TRACE_FILE)

tvars == <<vars, l, me>>

IsEvent(e) == l <= Len(Trace) /\ Trace[l].ev = e /\ l' = l + 1

\* [k, v] list -> function, the last entry for a key wins (as in the code, which applies them in order)
KVFun(kv) == [x \in {kv[i].k : i \in DOMAIN kv} |->
                kv[CHOOSE i \in DOMAIN kv : kv[i].k = x /\ \A j \in DOMAIN kv : kv[j].k = x => j <= i].v]

NoCf == [shape |-> "none", fast |-> FALSE, D |-> {}, H |-> {},
         sr |-> [P |-> {}, oi |-> <<>>, ni |-> <<>>, ot |-> 0, nt |-> 0, resh |-> FALSE]]

\* does the projected state logged by the code equal the model state?
Match(s, t) ==
  LET row(d) == KVFun((CHOOSE r \in ToSet(t.st) : r.d = d).row)
  IN /\ s.ph = t.ph
     /\ s.ev = ToSet(t.ev) /\ s.eh = ToSet(t.eh)
     /\ {d \in Dealers : s.vs[d] # 0} = ToSet(t.vs)
     /\ {d \in Dealers : s.ap[d] # 0} = ToSet(t.ap)
     \* computeResult overwrites the rows of evicted dealers; the model keeps them
     /\ \A d \in Dealers : (s.ph = "fin" /\ d \in s.ev) \/ \A j \in Holders : s.st[d][j] = row(d)[j]

TInitial ==
  /\ l = 1 /\ me = -1 /\ cf = NoCf /\ F = {} /\ dir = "asc" /\ phase = "trace" /\ node = <<>> /\ pend = <<>>
  /\ fd = <<>> /\ fj = <<>> /\ badsec = {} /\ dbs = {} /\ rbs = {} /\ hist = <<>>

Keep == UNCHANGED <<F, dir, phase, pend, fd, fj, dbs, rbs, hist>>

TNew ==
  /\ IsEvent("New")
  /\ LET a  == Trace[l].args
         ps == ToSet(a.parties)
         P0 == {p.p : p \in ps}
         oi == [x \in P0 |-> (CHOOSE p \in ps : p.p = x).oi]
         ni == [x \in P0 |-> (CHOOSE p \in ps : p.p = x).ni]
     IN /\ cf' = [shape |-> "trace", fast |-> a.fast,
                  sr |-> [P |-> P0, oi |-> oi, ni |-> ni, ot |-> a.ot, nt |-> a.nt, resh |-> a.resh],
                  D |-> {x \in P0 : oi[x] >= 0}, H |-> {x \in P0 : ni[x] >= 0}]
        /\ me' = a.self
  /\ node' = <<>> /\ badsec' = {} /\ Keep

\* internal step: the freshly configured generator, compared with the state logged by New
TStart ==
  /\ node = <<>> /\ me # -1 /\ l > 1 /\ Trace[l-1].ev = "New"
  /\ node' = [h \in {me} |-> InitNode(me)]
  /\ Match(node'[me], Trace[l-1].state)
  /\ UNCHANGED <<cf, badsec, l, me>> /\ Keep

Live == node # <<>>

TDeals ==
  /\ Live /\ IsEvent("Deals")
  /\ node' = [node EXCEPT ![me] = IF @.ph = "init" THEN AfterDeals(me, @) ELSE @]
  /\ Match(node'[me], Trace[l].state)
  /\ UNCHANGED <<cf, badsec, me>> /\ Keep

DealOf(b) == [from |-> b.from, c |-> 1, poly |-> b.poly, sid |-> b.sid, thr |-> b.thr, unk |-> b.unk, sec |-> b.sec,
              sh |-> [j \in Holders |-> IF j = me THEN b.mine ELSE "G"], auth |-> TRUE]
Known(bs) == SelectSeq(bs, LAMBDA b : ~b.nil /\ b.from >= 0)
MapSeq(f(_), sq) == [i \in DOMAIN sq |-> f(sq[i])]

TProcessDeals ==
  /\ Live /\ IsEvent("ProcessDeals")
  /\ LET s  == node[me]
         bs == MapSeq(DealOf, Known(Trace[l].args.bundles))
         guard == (CanIssue(me) /\ s.ph # "deal") \/ (CanReceive(me) /\ ~CanIssue(me) /\ s.ph # "init")
     IN /\ node' = [node EXCEPT ![me] = IF guard THEN s ELSE ProcessDeals(me, s, bs).s]
        /\ badsec' = badsec \cup {bs[i].from : i \in {k \in DOMAIN bs : ~bs[k].sec}}
  /\ Match(node'[me], Trace[l].state)
  /\ UNCHANGED <<cf, me>> /\ Keep

RespOfT(b) == RB(b.from, 1, b.sid, b.unk, KVFun(b.rs))
TProcessResponses ==
  /\ Live /\ IsEvent("ProcessResponses")
  /\ node' = [node EXCEPT ![me] = ProcessResponses(me, @, MapSeq(RespOfT, Known(Trace[l].args.bundles))).s]
  /\ Match(node'[me], Trace[l].state)
  /\ UNCHANGED <<cf, badsec, me>> /\ Keep

\* "good" = the revealed share matches the public polynomial the node stored for that dealer
JustOfT(b) == [from |-> b.from, c |-> 1, sid |-> b.sid, unk |-> b.unk, js |-> KVFun(b.js),
               poly |-> IF b.haspub THEN node[me].ap[b.from] ELSE 0, auth |-> TRUE]
TProcessJustifications ==
  /\ Live /\ IsEvent("ProcessJustifications")
  /\ LET bs == MapSeq(JustOfT, Known(Trace[l].args.bundles))
     IN node' = [node EXCEPT ![me] = ProcessJustifications(me, @, bs)]
  /\ Match(node'[me], Trace[l].state)
  /\ UNCHANGED <<cf, badsec, me>> /\ Keep

TReset ==
  /\ IsEvent("reset")
  /\ cf' = NoCf /\ me' = -1 /\ node' = <<>> /\ badsec' = {} /\ Keep

TNext == TNew \/ TStart \/ TDeals \/ TProcessDeals \/ TProcessResponses \/ TProcessJustifications \/ TReset
TraceSpec == TInitial /\ [][TNext]_tvars

Mark == (TLCGet(1) < l) => TLCSet(1, l)
TraceAccepted == IF TLCGet(1) = Len(Trace) + 1 THEN TRUE ELSE PrintT(<<"REJECTED_AT", TLCGet(1)>>) /\ FALSE
ASSUME TLCSet(1, 0)
=============================================================================
