-------------------------------- MODULE XOF --------------------------------
(* kyber.XOF handles (xof/blake2xb, xof/blake2xs, xof/keccak) -- property C19.*)
(*                                                                         *)
(* Abstract state of a handle:                                             *)
(*   seed   the seed given to the factory (generator mode: <<length class>>,*)
(*          trace mode: the seed bytes)                                     *)
(*   items  the transcript after the seed: absorbed data in absorption order*)
(*          (consecutive Writes are MERGED: only the concatenation counts)  *)
(*          and reseed marks <<"r", p>> = "Reseed happened after p bytes of *)
(*          the stream defined by everything before the mark were squeezed" *)
(*   pos    number of bytes squeezed since the last New / Reseed / Reset    *)
(*   mode   "abs" (absorbing, writable) | "sq" (squeezing)                  *)
(*   fac    TRUE iff the object came from the factory (New), FALSE = Clone  *)
(*   rs     TRUE iff reseeded since New/Reset (only labels cases)           *)
(*   st     "nil" (no object) | "ok" | "unspec" (after Reset of a clone:    *)
(*          the property leaves it open, nothing is predicted any more for  *)
(*          THAT object; it can still be used -- action Poke -- and whatever*)
(*          is done to it must not change what any OTHER handle yields)     *)
(*                                                                         *)
(* The bytes a handle returns are an UNINTERPRETED function                 *)
(*   Out(seed, items)[pos .. pos+n)                                         *)
(* of the transcript; the Go replayer obtains that function from a          *)
(* single-shot reference handle (fresh New(seed), one Write of the merged   *)
(* data, one Read; a reseed mark <<"r",p>> = New(bytes p..p+128 of the      *)
(* stream so far)), so chunking / cloning / reseeding / resetting are       *)
(* compared with the plain New-Write-Read meaning of the transcript.        *)
EXTENDS Integers, Sequences, FiniteSets, TLC, Json, SequencesExt

CONSTANTS InitSeeds,   \* seed length classes for the first handle
          MidSeeds,    \* seed length classes for New in the middle of a behaviour
          Chunks,      \* chunk length classes for Write / Read / XORKeyStream
          L,           \* behaviour length (records in hist)
          Ops          \* operations the generator may take after the first New (focus runs restrict the menu)

VARIABLES hs,          \* handle slot -> abstract handle
          lg,          \* ghost: per slot the log of operations that produced the object
          hist         \* generator history
vars == <<hs, lg, hist>>

Handles == {1, 2}
NilH == [st |-> "nil", seed |-> <<>>, items |-> <<>>, pos |-> 0, mode |-> "abs", fac |-> FALSE, rs |-> FALSE]
Fresh(sv) == [st |-> "ok", seed |-> sv, items |-> <<>>, pos |-> 0, mode |-> "abs", fac |-> TRUE, rs |-> FALSE]
Live(h) == hs[h].st = "ok"

-----------------------------------------------------------------------------
(* The actions proper: they constrain hs only (XOFTrace reuses them).       *)
New(h, sv)    == hs' = [hs EXCEPT ![h] = Fresh(sv)]
Write(h, its) == /\ Live(h) /\ hs[h].mode = "abs"        \* squeeze mode: Write is not enabled ...
                 /\ hs' = [hs EXCEPT ![h].items = @ \o its]
Read(h, n)    == /\ Live(h)
                 /\ hs' = [hs EXCEPT ![h].pos = @ + n, ![h].mode = "sq"]
Xor(h, n)     == Read(h, n)                               \* same state change; observation = src (+) Read
Reseed(h)     == /\ Live(h)                               \* ... until Reseed makes the handle writable again
                 /\ hs' = [hs EXCEPT ![h].items = Append(@, <<"r", hs[h].pos>>),
                                     ![h].pos = 0, ![h].mode = "abs", ![h].rs = TRUE]
Reset(h)      == /\ Live(h)
                 /\ hs' = [hs EXCEPT ![h] = IF hs[h].fac THEN Fresh(hs[h].seed)
                                            ELSE [hs[h] EXCEPT !.st = "unspec"]]
Clone(a, b)   == /\ Live(a) /\ a # b
                 /\ hs' = [hs EXCEPT ![b] = [hs[a] EXCEPT !.fac = FALSE]]
(* any call on an unspecified object: its own state stays unspecified, every *)
(* other handle is untouched                                                 *)
Poke(h)       == hs[h].st = "unspec" /\ UNCHANGED hs

-----------------------------------------------------------------------------
(* Declarative meaning of an operation log (ghost), written without         *)
(* stepping through it: what New/Write/Read mean for the whole log at once. *)
Max0(S) == IF S = {} THEN 0 ELSE CHOOSE x \in S : \A y \in S : y <= x
Idx(log, ops) == {i \in 1..Len(log) : log[i].op \in ops}
Squeezes == {"Read", "Xor"}
Bounds  == {"New", "Reset", "Reseed"}
SumReads(log, a, b) ==        \* bytes squeezed by log entries a+1 .. b-1
  FoldLeft(LAMBDA acc, e : IF e.op \in Squeezes THEN acc + e.n ELSE acc, 0,
           SubSeq(log, a + 1, b - 1))
PrevBound(log, i) == Max0({j \in Idx(log, Bounds) : j < i})
Meaning(log0) ==
  LET log  == log0
      hard == Max0(Idx(log, {"New", "Reset"}))
      ep   == Max0({i \in Idx(log, Bounds) : TRUE})
      tail == [i \in 1..(Len(log) - hard) |-> hard + i]
  IN [seed  |-> log[Max0(Idx(log, {"New"}))].sv,
      items |-> FoldLeft(LAMBDA acc, i :
                            IF log[i].op = "Write" THEN acc \o log[i].its
                            ELSE IF log[i].op = "Reseed"
                                 THEN Append(acc, <<"r", SumReads(log, PrevBound(log, i), i)>>)
                                 ELSE acc,
                         <<>>, tail),
      pos   |-> SumReads(log, ep, Len(log) + 1),
      mode  |-> IF \E i \in Idx(log, Squeezes) : i > ep THEN "sq" ELSE "abs"]

Sem(h) == [seed |-> hs[h].seed, items |-> hs[h].items, pos |-> hs[h].pos, mode |-> hs[h].mode]

-----------------------------------------------------------------------------
(* Generator / model-checking wrapper: parameters from the constants, ghost *)
(* log and history maintained.                                             *)
CaseOf(h) == (IF hs[h].fac THEN "factory" ELSE "clone") \o "," \o hs[h].mode
             \o (IF hs[h].rs THEN ",reseeded" ELSE "")
ResetCase(h) == IF ~hs[h].fac THEN "clone"                 \* label of the abstract case (violation keys)
                ELSE IF hs[h].rs THEN "after-reseed"
                ELSE IF hs[h].mode = "sq" THEN "after-read" ELSE "absorbing"
Rec(op, h, n, a) == [op |-> op, h |-> h, n |-> n, a |-> a,
                     cs |-> IF op = "New" THEN "new" ELSE IF op = "Reset" THEN ResetCase(h)
                            ELSE CaseOf(IF op = "Clone" THEN a ELSE h),
                     post |-> hs'[h]]
Do(rec0, entry0) ==
  LET rec == rec0  entry == entry0 IN
  /\ hist' = Append(hist, rec)
  /\ lg' = [lg EXCEPT ![rec.h] = IF rec.op = "New" THEN <<entry>>
                                 ELSE IF rec.op = "Clone" THEN lg[rec.a]
                                 ELSE Append(@, entry)]
Ent(op, n, its, sv) == [op |-> op, n |-> n, its |-> its, sv |-> sv]
WItems(n) == IF n = 0 THEN <<>> ELSE << <<"w", Len(hist) + 1, n>> >>   \* chunk id = step that wrote it

Init == \E s \in InitSeeds :
          /\ hs = [h \in Handles |-> IF h = 1 THEN Fresh(<<s>>) ELSE NilH]
          /\ lg = [h \in Handles |-> IF h = 1 THEN <<Ent("New", 0, <<>>, <<s>>)>> ELSE <<>>]
          /\ hist = <<[op |-> "New", h |-> 1, n |-> s, a |-> 0, cs |-> "new", post |-> Fresh(<<s>>)]>>

PRec(op, h, n) == [op |-> op, h |-> h, n |-> n, a |-> 0, cs |-> "unspec", post |-> hs[h]]
Next ==
  /\ Len(hist) < L
  /\ \E h \in Handles :
       \/ "New" \in Ops /\ \E s \in MidSeeds : New(h, <<s>>) /\ Do(Rec("New", h, s, 0), Ent("New", 0, <<>>, <<s>>))
       \/ "Write" \in Ops /\ \E n \in Chunks : Write(h, WItems(n)) /\ Do(Rec("Write", h, n, 0), Ent("Write", n, WItems(n), <<>>))
       \/ "Read" \in Ops /\ \E n \in Chunks : Read(h, n) /\ Do(Rec("Read", h, n, 0), Ent("Read", n, <<>>, <<>>))
       \/ "Xor" \in Ops /\ \E n \in Chunks : Xor(h, n) /\ Do(Rec("Xor", h, n, 0), Ent("Xor", n, <<>>, <<>>))
       \/ "Reseed" \in Ops /\ Reseed(h) /\ Do(Rec("Reseed", h, 0, 0), Ent("Reseed", 0, <<>>, <<>>))
       \/ "Reset" \in Ops /\ Reset(h) /\ Do(Rec("Reset", h, 0, 0), Ent("Reset", 0, <<>>, <<>>))
       \/ "Clone" \in Ops /\ \E a \in Handles : Clone(a, h) /\ Do(Rec("Clone", h, 0, a), Ent("Clone", 0, <<>>, <<>>))
       \* calls on an object left unspecified by Reset-of-a-clone: executed, never judged themselves
       \/ /\ Poke(h)
          /\ \/ \E op \in {"Read", "Xor", "Write"} \cap Ops : \E n \in Chunks \ {0} :
                   Do(PRec(op, h, n), Ent(op, n, <<>>, <<>>))
             \/ \E op \in {"Reseed", "Reset"} \cap Ops : Do(PRec(op, h, 0), Ent(op, 0, <<>>, <<>>))

Spec == Init /\ [][Next]_vars

-----------------------------------------------------------------------------
(* Properties of the model (checked by TLC, VIEW = <<hs, lg>>).             *)
TypeOK == \A h \in Handles :
            /\ hs[h].st \in {"nil", "ok", "unspec"} /\ hs[h].mode \in {"abs", "sq"}
            /\ hs[h].pos \in Nat /\ hs[h].fac \in BOOLEAN

(* chunking and reseeding never change the meaning: the incrementally kept  *)
(* state is the declarative meaning of the log, in which only sums of       *)
(* squeezes and concatenations of writes occur                              *)
Refines == \A h \in Handles : Live(h) => Sem(h) = Meaning(lg[h])

(* a clone starts as an exact copy, the original is untouched, and equal    *)
(* abstract states have equal futures (actions depend on Sem only)          *)
CloneExact == [][\A a, b \in Handles :
                   (a # b /\ Live(a) /\ hist' # hist /\ hist'[Len(hist')].op = "Clone"
                    /\ hist'[Len(hist')].h = b /\ hist'[Len(hist')].a = a)
                   => (Sem(b)' = Sem(a) /\ hs'[a] = hs[a] /\ lg'[b] = lg[a])]_vars

(* Write is taken only in absorbing mode; Reseed and Reset re-open it       *)
WriteGuard == [][\A h \in Handles :
                   (hist' # hist /\ hist'[Len(hist')].op = "Write" /\ hist'[Len(hist')].h = h /\ hist'[Len(hist')].cs # "unspec")
                   => hs[h].mode = "abs"]_vars
ReseedWritable == [][\A h \in Handles :
                   (hist' # hist /\ hist'[Len(hist')].op = "Reseed" /\ hist'[Len(hist')].h = h /\ hist'[Len(hist')].cs # "unspec")
                   => (hs'[h].mode = "abs" /\ hs'[h].pos = 0 /\ hs'[h].seed = hs[h].seed
                       /\ hs'[h].items = Append(hs[h].items, <<"r", hs[h].pos>>))]_vars

(* Reset of a factory-made handle: back to the seeded initial state at any  *)
(* point of its life; Reset of a clone: unspecified                         *)
ResetSpec == [][\A h \in Handles :
                   (hist' # hist /\ hist'[Len(hist')].op = "Reset" /\ hist'[Len(hist')].h = h /\ hist'[Len(hist')].cs # "unspec")
                   => IF hs[h].fac THEN hs'[h] = Fresh(hs[h].seed) ELSE hs'[h].st = "unspec"]_vars

(* operations on one handle never change what any other handle yields: the  *)
(* abstract state of h is untouched by every action whose target is h' # h  *)
(* -- also when h' is a clone of h, and also when h' has become unspecified *)
Isolation == [][\A h \in Handles :
                  (hist' # hist /\ hist'[Len(hist')].h # h) => hs'[h] = hs[h]]_vars

View == <<hs, lg>>
Emit == (Len(hist) = L) => PrintT(<<"TRACE", ToJson(hist)>>)
=============================================================================
