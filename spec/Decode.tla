------------------------------- MODULE Decode -------------------------------
(***************************************************************************)
(* C04 - decoding untrusted bytes: total, admits only members.             *)
(*                                                                         *)
(* Case-lattice specification (DESIGN 3.3c).  The abstract state is the    *)
(* *class* of a byte string handed to a decoder (length x format byte x    *)
(* coordinate range x membership x sign/flag bits), the decoder's verdict  *)
(* and the facts the property states about an accepted value.  The         *)
(* harness owns the concretisation: for every class it builds byte strings *)
(* whose class is certified by an independent big-integer model, feeds     *)
(* them to UnmarshalBinary / UnmarshalFrom and compares with the verdicts  *)
(* allowed here.                                                           *)
(*                                                                         *)
(* Three kinds of subject share the module (constant Mode selects one kind *)
(* or "all"):                                                              *)
(*   "point"     Feed(c); Use(op)*                (points of every group)  *)
(*   "scalar"    Feed(c); Use(op)*                (scalars of every group) *)
(*   "composite" Parse(mutation); UseParsed       (signatures, proofs,     *)
(*               ciphertexts, VSS deals parsed from untrusted bytes)       *)
(*                                                                         *)
(* `crash` is not a value of any outcome set: a panic of the real code is  *)
(* mapped to "crash" by the harness and is therefore never allowed.        *)
(***************************************************************************)
EXTENDS Naturals, Sequences, FiniteSets, TLC, Json

CONSTANTS Mode,      \* "all" | "point" | "scalar" | "composite"
          MaxUses    \* follow-up operations per behaviour

VARIABLES pr,        \* profile (encoding format + what the group promises) / parser
          cls,       \* class fed, or "none"
          phase,     \* "fresh" | "accepted" | "rejected"
          member,    \* the accepted value is in the promised set
          nuse,      \* follow-ups applied
          hist       \* generator output
vars == <<pr, cls, phase, member, nuse, hist>>

-----------------------------------------------------------------------------
(* Profiles.  promise: "curve" = on the curve, "subgroup" = prime-order      *)
(* subgroup, "none" = nothing promised (GT; scalars).  hasFmt: the encoding  *)
(* carries a format byte / structural flag bits that can be wrong.  hasFlag: *)
(* it carries sign/flag bits that have a non-canonical position.  cof: the   *)
(* curve has points outside the prime-order subgroup.  opaque: the harness   *)
(* has no model of the content (only lengths are classified).               *)

P(n, k, prom, f, fl, c, o) ==
  [name |-> n, kind |-> k, promise |-> prom, hasFmt |-> f, hasFlag |-> fl, cof |-> c, opaque |-> o]

PointProfiles == {
  P("ed25519",  "point", "curve",    FALSE, TRUE,  TRUE,  FALSE),   \* edwards25519, edwards25519vartime
  P("p256",     "point", "curve",    TRUE,  FALSE, FALSE, FALSE),
  P("qr",       "point", "subgroup", FALSE, FALSE, TRUE,  FALSE),   \* residue group
  P("bn-g1",    "point", "curve",    FALSE, FALSE, FALSE, FALSE),   \* bn256, bn254
  P("bn-g2",    "point", "curve",    FALSE, FALSE, TRUE,  FALSE),
  P("bls-g1",   "point", "subgroup", TRUE,  TRUE,  TRUE,  FALSE),   \* kilic, circl, gnark
  P("bls-g2",   "point", "subgroup", TRUE,  TRUE,  TRUE,  FALSE),
  P("gt",       "point", "none",     FALSE, FALSE, FALSE, TRUE) }   \* all GT groups: membership not promised

ScalarProfiles == {
  P("sc",       "scalar", "none",    FALSE, FALSE, FALSE, FALSE) }  \* every scalar implementation


\* "2size" (+-1): the length other serialisation formats of the same groups use (uncompressed x||y vs compressed)
Lens   == {"0", "1", "size-1", "size", "size+1", "2size-1", "2size", "2size+1", "2size+40", "other"}
Ranges == {"lt", "eq", "gt", "ff"}
Mems   == {"sub", "curve", "off", "id"}

Class(l, f, r, m, g) == [len |-> l, fmt |-> f, range |-> r, mem |-> m, flag |-> g]

(* Facts of the encodings that make some combinations empty: in the zcash    *)
(* format the only flag position without canonical use is the sort bit on    *)
(* the infinity encoding, and infinity is the all-zero body; in the Edwards  *)
(* format the sign bit is meaningless only for x = 0, i.e. y = 1 (identity)  *)
(* or y = -1 (the point of order two).                                       *)
FormatFact(p, c) ==
  /\ (p.name \in {"bls-g1", "bls-g2"} /\ c.flag = "alt") => c.mem = "id"
  /\ (p.name \in {"bls-g1", "bls-g2"} /\ c.mem = "id") => c.range = "lt"
  /\ (p.name = "ed25519" /\ c.flag = "alt") => c.mem \in {"id", "curve"}

(* The lattice of one profile: only combinations that make sense for the    *)
(* format.  For lengths other than the encoding size the content dimensions *)
(* are "na".                                                                 *)
Lattice(p) ==
  { Class(l, "na", "na", "na", "na") : l \in Lens \ {"size"} }
  \cup
  IF p.opaque THEN { Class("size", "na", "na", "na", "na") }
  ELSE IF p.kind = "scalar" THEN { Class("size", "ok", r, "na", "canon") : r \in Ranges }
  ELSE { c \in { Class("size", f, r, m, g) :
                   f \in (IF p.hasFmt THEN {"ok", "bad"} ELSE {"ok"}),
                   r \in Ranges,
                   m \in (IF p.cof THEN Mems ELSE Mems \ {"curve"}),
                   g \in (IF p.hasFlag THEN {"canon", "alt"} ELSE {"canon"}) } : FormatFact(p, c) }

-----------------------------------------------------------------------------
(* What the property states.                                                 *)

\* the string is the canonical encoding of what it denotes
Canonical(c) == c.len = "size" /\ c.fmt = "ok" /\ c.range = "lt" /\ c.flag = "canon"

\* the (reduced) value the string denotes lies in the set the group promises to validate
InPromised(p, c) ==
  CASE p.promise = "curve"    -> c.mem \in {"sub", "curve", "id"}
    [] p.promise = "subgroup" -> c.mem \in {"sub", "id"}
    [] OTHER                  -> TRUE

(* Verdict relation, written as the property reads:                          *)
(*  1. a canonical encoding of a subgroup member is a value the library      *)
(*     itself produces: it decodes (re-encoding clause);                     *)
(*  2. a string of the encoding size whose content is outside the promised   *)
(*     set must be refused;                                                  *)
(*  3. everything else may be refused (non-canonical, identity, stricter     *)
(*     validation than promised, wrong length) or accepted - but whatever is *)
(*     accepted must be a member (state variable `member`, checked on the    *)
(*     accepted value itself by re-encoding it).                             *)
Allowed(p, c) ==
  IF c.len # "size" THEN {"accept", "reject"}
  ELSE IF p.opaque THEN {"accept", "reject"}
  ELSE IF p.kind = "scalar" THEN (IF Canonical(c) THEN {"accept"} ELSE {"accept", "reject"})
  ELSE IF ~InPromised(p, c) THEN {"reject"}
  ELSE IF Canonical(c) /\ c.mem = "sub" THEN {"accept"}
  ELSE {"accept", "reject"}

(* Why a class is free (FreedomExplicit): every two-outcome class carries a  *)
(* reason, every one-outcome class carries "det".                            *)
Tag(p, c) ==
  IF c.len # "size" THEN "free:length"                 \* trailing bytes ignored / short integers: not excluded by the property
  ELSE IF p.opaque THEN "free:no-promise"
  ELSE IF p.kind = "scalar" THEN (IF Canonical(c) THEN "det" ELSE "free:non-canonical")
  ELSE IF ~InPromised(p, c) THEN "det"
  ELSE IF ~Canonical(c) THEN "free:non-canonical"
  ELSE IF c.mem = "id" THEN "free:identity"
  ELSE IF c.mem = "curve" THEN "free:stricter-than-promised"
  ELSE "det"

\* what refmodel may say about the re-encoding of an accepted value
OkMems(p) == IF p.promise = "none" THEN Mems \cup {"na"} ELSE {m \in Mems : InPromised(p, [mem |-> m])}

\* follow-up operations on an accepted value
PointOps  == {"Add", "Mul", "Neg", "Marshal", "Equal", "Data", "String", "ReDecode"}
ScalarOps == {"Add", "Mul", "Neg", "Marshal", "Equal", "String", "PointMul", "ReDecode"}
Ops(p) == IF p.kind = "point" THEN PointOps ELSE ScalarOps

(* Allowed results of a follow-up.  "ok" = returned without panic (for      *)
(* Marshal: without error; for ReDecode: the re-encoding decodes to an Equal *)
(* value).  Data may fail on a point that embeds nothing.  For scalars the   *)
(* property only promises usability, so ReDecode may also be "notequal".     *)
UseAllowed(p, op) ==
  CASE op = "Data"                          -> {"ok", "error"}
    [] op = "ReDecode" /\ p.kind = "scalar" -> {"ok", "notequal"}
    [] op = "ReDecode" /\ p.promise = "none" -> {"ok", "notequal", "reject"}   \* GT: nothing promised about the value
    [] OTHER                                -> {"ok"}

-----------------------------------------------------------------------------
(* Composite parsers: outcome in {ok, error}; a parsed VSS deal is then     *)
(* handed to the verifier's VerifyDeal, which may answer ok or error.        *)
Parsers == {"schnorr.Verify", "eddsa.Verify", "eddsa.UnmarshalBinary", "bls.Verify", "bdn.Verify",
            "bdn.AggregateSignatures", "cosi.Verify", "proof.HashVerify", "ecies.Decrypt", "anon.Decrypt",
            "anon.Verify", "vss-pedersen.Deal", "vss-rabin.Deal", "vss-pedersen.EncryptedDeal",
            "vss-rabin.EncryptedDeal", "tbls.VerifyPartial", "tbls.Recover"}
\* "truncEvery": every prefix of a valid input (lengths 0..len-1), named by the field the cut falls in
Muts == {"valid", "empty", "trunc1", "truncHalf", "truncTo1", "truncEvery", "extend1", "extendBig",
         "flipFirst", "flipMid", "flipLast", "all00", "allff", "random", "randomLen", "field"}

ParseAllowed(parser, mut) == IF mut = "valid" THEN {"ok"} ELSE {"ok", "error"}
ParseTag(parser, mut) == IF mut = "valid" THEN "det" ELSE "free:verdict-is-another-property"
\* parsers whose result is a value the caller goes on to use (VerifyDeal / RecoverSecret on a parsed deal,
\* Sign with a parsed key): the next operation may fail but not crash
HasFollowUp(parser) == parser \in {"vss-pedersen.Deal", "vss-rabin.Deal", "eddsa.UnmarshalBinary"}

-----------------------------------------------------------------------------
\* a composite parser is a subject of kind "composite" (nothing is promised about the parsed value)
ParserProfiles == { P(n, "composite", "none", FALSE, FALSE, FALSE, TRUE) : n \in Parsers }

AllProfiles == PointProfiles \cup ScalarProfiles \cup ParserProfiles
Profiles == IF Mode = "all" THEN AllProfiles ELSE { p \in AllProfiles : p.kind = Mode }

Init ==
  /\ pr \in Profiles
  /\ cls = "none" /\ phase = "fresh" /\ member = FALSE /\ nuse = 0 /\ hist = <<>>

Feed(c) ==
  /\ pr.kind # "composite" /\ phase = "fresh"
  /\ \E o \in Allowed(pr, c) :
       /\ phase' = (IF o = "accept" THEN "accepted" ELSE "rejected")
       /\ member' = (o = "accept")      \* the specification accepts only members
       /\ hist' = Append(hist, [act |-> "Feed", profile |-> pr.name, kind |-> pr.kind, cls |-> c, outcome |-> o,
                                allowed |-> Allowed(pr, c), tag |-> Tag(pr, c),
                                okMems |-> OkMems(pr)])
  /\ cls' = c
  /\ UNCHANGED <<pr, nuse>>

Use(op) ==
  /\ pr.kind # "composite" /\ phase = "accepted" /\ nuse < MaxUses
  /\ nuse' = nuse + 1
  /\ hist' = Append(hist, [act |-> "Use", op |-> op, allowed |-> UseAllowed(pr, op)])
  /\ UNCHANGED <<pr, cls, phase, member>>   \* group operations keep a member a member

Parse(m) ==
  /\ pr.kind = "composite" /\ phase = "fresh"
  /\ \E o \in ParseAllowed(pr.name, m) :
       /\ phase' = (IF o = "ok" THEN "accepted" ELSE "rejected")
       /\ hist' = Append(hist, [act |-> "Parse", parser |-> pr.name, kind |-> pr.kind, mut |-> m, outcome |-> o,
                                allowed |-> ParseAllowed(pr.name, m), tag |-> ParseTag(pr.name, m)])
  /\ cls' = m /\ member' = FALSE
  /\ UNCHANGED <<pr, nuse>>

UseParsed ==
  /\ pr.kind = "composite" /\ phase = "accepted" /\ HasFollowUp(pr.name) /\ nuse < 1
  /\ nuse' = nuse + 1
  /\ hist' = Append(hist, [act |-> "Use", op |-> "UseParsed", allowed |-> {"ok", "error"}])
  /\ UNCHANGED <<pr, cls, phase, member>>

Next ==
  \/ \E c \in (IF pr.kind = "composite" THEN {} ELSE Lattice(pr)) : Feed(c)
  \/ \E op \in (IF pr.kind = "composite" THEN {} ELSE Ops(pr)) : Use(op)
  \/ \E m \in Muts : Parse(m)
  \/ UseParsed

Spec == Init /\ [][Next]_vars

-----------------------------------------------------------------------------
(* Meta-properties of the verdict relation, checked over the whole lattice   *)
(* of the current profile in every reachable state.                          *)
Outcomes == {"accept", "reject"}

TypeOK ==
  /\ phase \in {"fresh", "accepted", "rejected"}
  /\ member \in BOOLEAN
  /\ nuse \in 0..MaxUses

Comp == pr.kind = "composite"
LatticeOf == IF Comp THEN {} ELSE Lattice(pr)

\* every class has a verdict, and "crash" is never one
Total == /\ \A c \in LatticeOf : Allowed(pr, c) # {} /\ Allowed(pr, c) \subseteq Outcomes
         /\ Comp => \A m \in Muts : ParseAllowed(pr.name, m) # {} /\ ParseAllowed(pr.name, m) \subseteq {"ok", "error"}
         /\ ~Comp => \A op \in Ops(pr) : "crash" \notin UseAllowed(pr, op) /\ "ok" \in UseAllowed(pr, op)

\* accept is possible only where the class implies membership - or where the class says nothing about
\* the value (wrong length, opaque), in which case the accepted value itself is examined (AcceptedIsMember)
AcceptOnlyMembers ==
  \A c \in LatticeOf :
     ("accept" \in Allowed(pr, c) /\ c.len = "size" /\ ~pr.opaque /\ pr.kind = "point") => InPromised(pr, c)

\* a string of the right size denoting a non-member is always refused
RejectNonMembers ==
  \A c \in LatticeOf :
     (c.len = "size" /\ ~pr.opaque /\ pr.kind = "point" /\ ~InPromised(pr, c)) => Allowed(pr, c) = {"reject"}

\* refusing is always allowed for non-canonical input
RejectAllowedNonCanonical ==
  \A c \in LatticeOf : ~Canonical(c) => "reject" \in Allowed(pr, c)

\* every class with two outcomes says why; every class with one outcome is tagged "det"
FreedomExplicit ==
  /\ \A c \in LatticeOf : (Cardinality(Allowed(pr, c)) = 2) <=> (Tag(pr, c) # "det")
  /\ Comp => \A m \in Muts : (Cardinality(ParseAllowed(pr.name, m)) = 2) <=> (ParseTag(pr.name, m) # "det")

\* state invariants: what was accepted is a member; nothing happens to refused input
AcceptedIsMember == (~Comp /\ phase = "accepted") => member
NoUseAfterReject == phase = "rejected" => nuse = 0

\* the lattice-wide statements do not depend on the state: evaluate them once per profile (in its initial state)
Static == Total /\ AcceptOnlyMembers /\ RejectNonMembers /\ RejectAllowedNonCanonical /\ FreedomExplicit
Meta == (phase = "fresh" => Static) /\ AcceptedIsMember /\ NoUseAfterReject

-----------------------------------------------------------------------------
(* Generator: one JSON line per maximal behaviour.                           *)
View == <<pr, cls, phase, member, nuse>>

Terminal ==
  \/ phase = "rejected"
  \/ phase = "accepted" /\ (IF Comp THEN (~HasFollowUp(pr.name) \/ nuse = 1) ELSE nuse = MaxUses)

Emit == Terminal => PrintT(<<"TRACE", ToJson(hist)>>)
=============================================================================
