------------------------------ MODULE Shuffle ------------------------------
(* Case-lattice specification of the verifiable shuffles (property C15):    *)
(* shuffle/pair.go (Neff ElGamal pair shuffle), simple.go (simple           *)
(* k-shuffle), biffle.go (2-element shuffle by Or-of-And proofs),           *)
(* sequences.go (NQ sequences shuffled with one permutation).               *)
(*                                                                         *)
(* Abstract ciphertext = what it decrypts to, as a linear combination of    *)
(* the INPUT plaintexts (coefficient vector v over input slots) plus flags: *)
(*   junk : contains material that is no combination of the inputs          *)
(*   half : its two components come from different ciphertexts              *)
(*   rr   : re-randomised after the proof was made                          *)
(* (for the simple shuffle: the exponent of Y_j as a combination of         *)
(*  gamma * x_i).  Input slot i is the unit vector e_i.                      *)
(*                                                                         *)
(* A behaviour: Setup(kind,k,nq) ; PickPi* ; Shuffle (honest run for pi:    *)
(* output out0, proof made for out0) ; Adversary(family, parameters)        *)
(* producing what the VERIFIER is given: output `out`, proof state `prf`,   *)
(* public parameters `par` ; Verify with the expected verdict.             *)
(*                                                                         *)
(* Requirement layer (the property text):                                  *)
(*   rej  if out is not a permutation of re-encryptions of the input, or    *)
(*        the proof was altered (mutated / truncated / spliced / forged),   *)
(*        or the public parameters were altered;                           *)
(*   acc  if out is exactly the output the untouched proof was made for;    *)
(*   free otherwise (out is a valid permutation of re-encryptions but not   *)
(*        the one the proof was made for: full swap, late re-randomising).  *)
(* Implementation-shaped layer: the proof is bound to out0 position by      *)
(* position; BindSimple / BindStatement say whether the design ties the     *)
(* embedded simple shuffle to A+lambda*B, C+lambda*D (DESIGN 7 #7) and      *)
(* whether the Fiat-Shamir challenges depend on the statement.             *)
EXTENDS Integers, Sequences, FiniteSets, TLC, Json

CONSTANTS Kind,            \* "pair" | "simple" | "biffle" | "seq"
          KMin, KMax,      \* number of ciphertexts
          NQMax,           \* sequences (kind "seq")
          Fams,            \* enabled adversary families
          BindSimple, BindStatement

VARIABLES phase, k, nq, pi, out, prf, par, adv, hist
vars == <<phase, k, nq, pi, out, prf, par, adv, hist>>
View == <<phase, k, nq, pi, out, prf, par, adv>>

Slots   == 1..k
Unit(i) == [x \in Slots |-> IF x = i THEN 1 ELSE 0]
Ct(v)   == [v |-> v, junk |-> FALSE, half |-> FALSE, rr |-> FALSE]
Out0    == [q \in 1..nq |-> [j \in Slots |-> Ct(Unit(pi[j]))]]

IsUnit(v) == \E i \in Slots : v = Unit(i)
\* one sequence is a permutation of re-encryptions of the input
IsPerm(o) == /\ \A j \in Slots : IsUnit(o[j].v) /\ ~o[j].junk /\ ~o[j].half
             /\ \A a, b \in Slots : a # b => o[a].v # o[b].v
\* all sequences, with ONE permutation
IsPermAll(o) == IsPerm(o[1]) /\ \A q \in 1..nq : \A j \in Slots : o[q][j].v = o[1][j].v /\ ~o[q][j].junk /\ ~o[q][j].half

\* "reproved": a fresh proof made by the (dishonest) shuffler itself for the output it hands out
ProofAltered == prf \notin {"honest", "reproved"}
ParAltered   == par # "same"

Must == IF ~IsPermAll(out) \/ ProofAltered \/ ParAltered THEN "rej"
        ELSE IF out = Out0 THEN "acc" ELSE "free"

Impl == CASE prf \in {"spliced", "mutated", "truncated"} -> "rej"
          [] prf = "forged"  -> IF BindSimple THEN "rej" ELSE "acc"
          [] ParAltered      -> "rej"
          [] adv.f \in {"kshift", "kshiftX"} -> IF BindStatement THEN "rej" ELSE "acc"
          [] OTHER           -> IF out = Out0 THEN "acc" ELSE "rej"

-----------------------------------------------------------------------------
\* transcript items (Put order) per kind; the biffle's item list is the one of its Or(And(4 Rep),And(4 Rep)):
\* 8 commitments, 2 sub-challenges, 4 responses (two scalar variables per branch)
Items == CASE Kind = "pair"   -> <<"Gamma", "A", "C", "U", "W", "Lambda1", "Lambda2", "D", "Zsigma", "Ztau", "X", "Y", "Theta", "Zalpha">>
           [] Kind = "seq"    -> <<"Gamma", "A", "C", "U", "W", "Lambda1", "Lambda2", "D", "Zsigma", "Ztau", "X", "Y", "Theta", "Zalpha">>
           [] Kind = "simple" -> <<"X", "Y", "Theta", "Zalpha">>
           [] Kind = "biffle" -> <<"V", "C", "R">>
\* message boundaries where two transcripts can be spliced / a transcript truncated (number of whole messages kept)
Msgs == CASE Kind \in {"pair", "seq"} -> 6 [] Kind = "simple" -> 3 [] Kind = "biffle" -> 3

A0 == [f |-> "none", a |-> 0, b |-> 0]
Adv(f, a, b) == [f |-> f, a |-> a, b |-> b]

Set1(o, q, j, c) == [o EXCEPT ![q] = [@ EXCEPT ![j] = c]]
AddV(u, w) == [x \in Slots |-> u[x] + w[x]]
MulV(c, u) == [x \in Slots |-> c * u[x]]
Junk(c)    == [c EXCEPT !.junk = TRUE]

Init == /\ phase = "init" /\ k = 0 /\ nq = 0 /\ pi = <<>> /\ out = <<>> /\ prf = "none" /\ par = "same"
        /\ adv = A0 /\ hist = <<>>

Log(r) == hist' = Append(hist, r)

Setup ==
  /\ phase = "init"
  /\ \E kk \in KMin..KMax, qq \in 1..NQMax :
       /\ (Kind = "biffle" => kk = 2)
       /\ (Kind # "seq" => qq = 1)
       /\ k' = kk /\ nq' = qq
       /\ Log([op |-> "setup", kind |-> Kind, k |-> kk, nq |-> qq])
  /\ phase' = "perm"
  /\ UNCHANGED <<pi, out, prf, par, adv>>

PickPi ==
  /\ phase = "perm" /\ Len(pi) < k
  /\ \E p \in Slots : (\A x \in 1..Len(pi) : pi[x] # p) /\ pi' = Append(pi, p)
  /\ UNCHANGED <<phase, k, nq, out, prf, par, adv, hist>>

DoShuffle ==
  /\ phase = "perm" /\ Len(pi) = k
  /\ out' = Out0 /\ prf' = "honest"
  /\ Log([op |-> "shuffle", pi |-> pi])
  /\ phase' = "adv"
  /\ UNCHANGED <<k, nq, pi, par, adv>>

\* the verifier is given (o, proof state p, parameters r)
Give(a, o, p, r) ==
  /\ a.f \in Fams
  /\ adv' = a /\ out' = o /\ prf' = p /\ par' = r
  /\ Log([op |-> "adversary", f |-> a.f, a |-> a.a, b |-> a.b])
  /\ phase' = "verify"
  /\ UNCHANGED <<k, nq, pi>>

\* large k (simulation): the second slot is a neighbour or an end, to keep the branching finite-ish
Near(j, j2) == k <= 6 \/ j2 \in {1, k, (j % k) + 1}

\* families acting on the output; single-slot families may hit any sequence q (kinds other than "seq" have
\* nq = 1), two-slot families act on the first sequence
OutputFamilies ==
  \/ \E q \in 1..nq, j \in Slots :
         \/ Give(Adv("replaceX", j, q), Set1(out, q, j, Junk(out[q][j])), prf, par)     \* first component replaced
         \/ Give(Adv("replaceY", j, q), Set1(out, q, j, Junk(out[q][j])), prf, par)     \* second component replaced
         \* opposite edits on the two components of ONE slot: (Xbar_j + D, Ybar_j - D)
         \/ Give(Adv("oppXY", j, q),    Set1(out, q, j, Junk(out[q][j])), prf, par)
         \/ Give(Adv("replace", j, q),  Set1(out, q, j, Junk(Ct(Unit(1)))), prf, par)   \* fresh ciphertext of a foreign plaintext
         \/ Give(Adv("rerand", j, q),   Set1(out, q, j, [out[q][j] EXCEPT !.rr = TRUE]), prf, par)
         \/ Give(Adv("scal", j, q),     Set1(out, q, j, [out[q][j] EXCEPT !.v = MulV(2, @)]), prf, par)
  \/ \E j, j2 \in Slots : j # j2 /\ Near(j, j2) /\
       LET q == 1 IN
         \/ Give(Adv("dup", j, j2),  Set1(out, q, j, [out[q][j2] EXCEPT !.rr = TRUE]), prf, par)   \* drops pi[j], duplicates pi[j2]
         \/ Give(Adv("sum", j, j2),  Set1(out, q, j, [out[q][j] EXCEPT !.v = AddV(@, out[q][j2].v)]), prf, par)
         \/ (j < j2 /\ Give(Adv("swapXY", j, j2), [out EXCEPT ![q] = [@ EXCEPT ![j] = out[q][j2], ![j2] = out[q][j]]], prf, par))
         \/ (j < j2 /\ Give(Adv("swapX", j, j2),
                            [out EXCEPT ![q] = [@ EXCEPT ![j] = [out[q][j] EXCEPT !.half = TRUE], ![j2] = [out[q][j2] EXCEPT !.half = TRUE]]], prf, par))
         \* X-only edit on slot j paired with the opposite Y-only edit on slot j2: Xbar_j + D, Ybar_j2 - D
         \/ (j2 = (j % k) + 1 /\ Give(Adv("oppXYcross", j, j2),
                 [out EXCEPT ![q] = [@ EXCEPT ![j] = Junk(out[q][j]), ![j2] = Junk(out[q][j2])]], prf, par))
         \* the kernel shift on the first components only (Ybar untouched)
         \/ (j2 = j + 1 /\ Kind \in {"pair", "seq"} /\ Give(Adv("kshiftX", j, j2),
                            [out EXCEPT ![q] = [@ EXCEPT ![j] = Junk(out[q][j]), ![j2] = Junk(out[q][j2])]], prf, par))
         \/ (j < j2 /\ Kind \in {"pair", "seq"} /\ Give(Adv("kshift", j, j2),
                            [out EXCEPT ![q] = [@ EXCEPT ![j] = Junk(out[q][j]), ![j2] = Junk(out[q][j2])]], prf, par))

\* "seq" only: every sequence shuffled correctly but sequence q with ANOTHER permutation (slots j,j2 exchanged in all others)
SeqFamilies ==
  Kind = "seq" /\ nq >= 2 /\ \E j, j2 \in Slots : j < j2 /\ Near(j, j2) /\
      Give(Adv("seqperm", j, j2), [q \in 1..nq |-> IF q = 1 THEN out[q] ELSE [out[q] EXCEPT ![j] = out[q][j2], ![j2] = out[q][j]]], prf, par)

ProofFamilies ==
  \/ Give(A0, out, prf, par)                                                       \* honest
  \/ Kind = "pair" /\ Give(Adv("honestlib", 0, 0), out, prf, par)                 \* shuffle.Shuffle with the library's own permutation
  \* item i: first (1) / last (2) element altered; 3: bit 7 of the last byte of its last element flipped
  \/ \E i \in 1..Len(Items), e \in {1, 2, 3} : Give(Adv("mutate", i, e), out, "mutated", par)
  \/ \E m \in 0..(Msgs - 1) : Give(Adv("trunc", m, 0), out, "truncated", par)
  \* byte-level truncation of the tail: the last a bytes cut off (a = 1, 31), and "trunczero": an honest proof whose
  \* trailing bytes are 0x00 (fresh prover randomness until the last scalar encodes so) cut by exactly those bytes
  \/ \E a \in {1, 31} : Give(Adv("truncbytes", a, 0), out, "truncated", par)
  \/ Give(Adv("trunczero", 0, 0), out, "truncated", par)
  \/ \E m \in 1..(Msgs - 1), side \in {1, 2} : Give(Adv("splice", m, side), out, "spliced", par)  \* verified against output 1 / 2
  \/ Kind \in {"pair", "seq", "biffle"} /\ \E w \in {"G", "H"} : Give(Adv("param", IF w = "G" THEN 1 ELSE 2, 0), out, prf, w)
  \/ Kind = "simple" /\ \E w \in {"G", "Gamma"} : Give(Adv("param", IF w = "G" THEN 1 ELSE 3, 0), out, prf, w)
  \/ Kind # "simple" /\ \E j \in Slots, c \in {1, 2} : Give(Adv("input", j, c), out, prf, "in")  \* verifier's input X_j / Y_j differs
  \/ Kind = "pair" /\ Give(Adv("detach", 0, 0), [q \in 1..nq |-> [j \in Slots |-> Junk(Ct(Unit(1)))]], "forged", par)

\* biffle: "component tamper + best-effort prover". The dishonest mixer (it chose pi and knows every witness)
\* replaces ONE component of its output - a = 1..4 for Xbar[1], Ybar[1], Xbar[2], Ybar[2] - and makes a FRESH proof
\* with the library's own Rep/And/Or prover over the tampered points, for a predicate in which every statement it
\* can still satisfy is kept and the one it cannot is (b = 0) proven with the stale witness anyway or (b = 1..3)
\* replaced by a copy of the b-th other statement of the same branch (what a verifier with a mis-copied statement
\* would check).
TamperFamilies ==
  Kind = "biffle" /\ \E c \in 1..4, h \in 0..3 :
      LET j == (c + 1) \div 2 IN Give(Adv("comptamper", c, h), Set1(out, 1, j, Junk(out[1][j])), "reproved", par)

\* One family per verification equation: the forger runs the honest prover and replaces, BEFORE the message is hashed
\* into the next challenge, one commitment that occurs in exactly one verification equation - so the transcript
\* satisfies every equation but that one:  a = 1: W_b (33)_b   2: Lambda1 (34)   3: Lambda2 (35)
\*   4: A_b (simple-shuffle input R_b = A_b + lambda B_b)   5: C_b (S_b = C_b + lambda D_b)
\*   6: Theta_b (b-th equation of the simple k-shuffle, b in 1..2k)
EqIdx(a) == CASE a \in {1, 4, 5} -> Slots [] a \in {2, 3} -> {1} [] a = 6 -> 1..(2 * k)
EqNear(b) == k <= 6 \/ b \in {1, 2, k - 1, k, 2 * k - 1, 2 * k}
EquationFamilies ==
  /\ Kind \in {"pair", "seq", "simple"}
  /\ \E a \in (IF Kind = "simple" THEN {6} ELSE 1..6) : \E b \in EqIdx(a) :
        EqNear(b) /\ Give(Adv("eqviol", a, b), out, "forged", par)

\* biffle: both Or-branches simulated with self-chosen sub-challenges (no witness at all) for an unrelated output
SimFamilies ==
  Kind = "biffle" /\ Give(Adv("simboth", 0, 0), [q \in 1..nq |-> [j \in Slots |-> Junk(Ct(Unit(1)))]], "forged", par)

\* completeness under re-use: the SAME honest prover closure is run a second time on the same shuffle result
\* (a = 1), the sequence shuffle's getProver is asked for a second prover with another challenge vector e (a = 2)
ReproveFamilies ==
  \E a \in (IF Kind = "seq" THEN {1, 2} ELSE {1}) : Give(Adv("reprove", a, 0), out, prf, par)

\* the public parameters of the HONEST case: the whole run (keys, inputs, shuffle, proof, verification) is made over
\* another generator G - a = 2: a known multiple of the standard base, a = 3: a picked point - with the public key
\* H = h*G over that generator (the other families use the standard base). Verdict: accept.
GeneratorFamilies ==
  \E a \in {2, 3} : Give(Adv("gen", a, 0), out, prf, par)

\* honest inputs with a neutral-element component in slot 1: a = 1: X_1 = O (blinding factor 0), a = 2: Y_1 = O
\* (message = -r*H), a = 3: message = O (Y_1 = r*H); simple shuffle: a = 1: x_1 = 0. Verdict: accept.
IdentityFamilies ==
  \E a \in (IF Kind = "simple" THEN {1} ELSE {1, 2, 3}) : Give(Adv("ident", a, 0), out, prf, par)

\* simple shuffle: the prover itself lies about y (there is no separate output: X, Y travel inside the proof)
Adversary == phase = "adv" /\ (OutputFamilies \/ SeqFamilies \/ ProofFamilies \/ TamperFamilies
                               \/ EquationFamilies \/ SimFamilies \/ ReproveFamilies \/ GeneratorFamilies \/ IdentityFamilies)

Verify ==
  /\ phase = "verify"
  /\ Log([op |-> "verify", must |-> Must, impl |-> Impl, perm |-> IsPermAll(out)])
  /\ phase' = "done"
  /\ UNCHANGED <<k, nq, pi, out, prf, par, adv>>

Next == Setup \/ PickPi \/ DoShuffle \/ Adversary \/ Verify
Spec == Init /\ [][Next]_vars

-----------------------------------------------------------------------------
Judged == phase \in {"verify", "done"}

Total == Judged => Must \in {"acc", "rej", "free"} /\ Impl \in {"acc", "rej"}
\* accept only what the property allows: a permutation of re-encryptions, proof and parameters untouched
AcceptImpliesPerm == Judged /\ Impl = "acc" => IsPermAll(out) /\ ~ProofAltered /\ ~ParAltered
Refines == Judged => (Must = "acc" => Impl = "acc") /\ (Must = "rej" => Impl = "rej")
HonestAccepted == Judged /\ adv.f \in {"none", "honestlib", "reprove", "gen", "ident"} => Must = "acc"
\* no adversary family degenerates into the honest case (vacuity guard)
FamiliesBite == Judged /\ adv.f \notin {"none", "honestlib", "reprove", "gen", "ident"} => Must # "acc"
\* the classification the families were designed for
Designed == Judged =>
  /\ (adv.f \in {"replaceX", "replaceY", "comptamper", "replace", "dup", "sum", "scal", "swapX", "kshift", "kshiftX", "oppXY", "oppXYcross", "seqperm", "detach"} => ~IsPermAll(out))
  /\ (adv.f = "rerand" \/ (adv.f = "swapXY" /\ nq = 1) => Must = "free")

Emit == (phase = "done") => PrintT(<<"TRACE", ToJson(hist)>>)
=============================================================================
