package pvss

// Demonstration of the known finding C13/<suite>/dec:tforge/* on the unmodified library
// (copy into share/pvss/ of a scratch worktree and run `go test -run TestTrusteeForgesDecShare ./share/pvss/`).
// A trustee who knows its key x publishes a decrypted share that is NOT x^-1 * encShare and that
// VerifyDecShare accepts: the challenge H(X, encV, VG, VH) covers neither the decrypted value nor the bases.

import (
	"testing"

	"go.dedis.ch/kyber/v4"
	"go.dedis.ch/kyber/v4/group/edwards25519"
	"go.dedis.ch/kyber/v4/proof/dleq"
	"go.dedis.ch/kyber/v4/share"
)

func TestTrusteeForgesDecShare(t *testing.T) {
	suite := edwards25519.NewBlakeSHA256Ed25519()
	G := suite.Point().Base()
	H := suite.Point().Pick(suite.XOF([]byte("H")))
	n, thr := 3, 2
	x := make([]kyber.Scalar, n)
	X := make([]kyber.Point, n)
	for i := range x {
		x[i] = suite.Scalar().Pick(suite.RandomStream())
		X[i] = suite.Point().Mul(x[i], nil)
	}
	secret := suite.Scalar().Pick(suite.RandomStream())
	encShares, pubPoly, err := EncShares(suite, H, X, secret, uint32(thr))
	if err != nil {
		t.Fatal(err)
	}
	_ = pubPoly
	i := 0
	enc := encShares[i]
	honestV := suite.Point().Mul(suite.Scalar().Inv(x[i]), enc.S.V) // what DecShare publishes
	// forge: VG = vG, VH = W arbitrary, c = H(X, encV, VG, W), r = v - c*x, V' = r^-1 (W - c*encV)
	v := suite.Scalar().Pick(suite.RandomStream())
	W := suite.Point().Pick(suite.RandomStream())
	VG := suite.Point().Mul(v, G)
	h := suite.Hash()
	_, _ = X[i].MarshalTo(h)
	_, _ = enc.S.V.MarshalTo(h)
	_, _ = VG.MarshalTo(h)
	_, _ = W.MarshalTo(h)
	c := suite.Scalar().Pick(suite.XOF(h.Sum(nil)))
	r := suite.Scalar().Sub(v, suite.Scalar().Mul(c, x[i]))
	Vp := suite.Point().Sub(W, suite.Point().Mul(c, enc.S.V))
	Vp.Mul(suite.Scalar().Inv(r), Vp)
	forged := &PubVerShare{S: share.PubShare{I: enc.S.I, V: Vp}, P: dleq.Proof{C: c, R: r, VG: VG, VH: W}}
	if Vp.Equal(honestV) {
		t.Fatal("forged value equals the honest decryption (cannot happen)")
	}
	if err := VerifyDecShare(suite, G, X[i], enc, forged); err == nil {
		t.Errorf("VerifyDecShare accepted a decrypted share that is not the decryption of the encrypted share")
	}
}
