package anon

// Demonstration of the known finding C08/ring-ed/ed25519/*ring=shift-torsion/Verify/accepted on the
// unmodified library (copy into sign/anon/ of a scratch worktree and run
// `go test -run TestRingMemberShiftedByTorsion ./sign/anon/`).
// A ring signature still verifies against a ring in which one member's key X_j has been replaced by the
// different curve point X_j + T (T the point of order 2) whenever the challenge multiplying X_j is even:
// ring members are neither checked for subgroup membership nor hashed into the challenge chain.

import (
	"encoding/hex"
	"fmt"
	"testing"

	"go.dedis.ch/kyber/v4"
	"go.dedis.ch/kyber/v4/group/edwards25519"
)

func TestRingMemberShiftedByTorsion(t *testing.T) {
	suite := edwards25519.NewBlakeSHA256Ed25519()
	// the point (0, -1) of order 2: y = p - 1
	enc, _ := hex.DecodeString("ecffffffffffffffffffffffffffffffffffffffffffffffffffffffffffff7f")
	T := suite.Point()
	if err := T.UnmarshalBinary(enc); err != nil {
		t.Skip("the order-2 point does not decode: ", err)
	}
	if T.Equal(suite.Point().Null()) || !suite.Point().Add(T, T).Equal(suite.Point().Null()) {
		t.Fatal("T is not a point of order 2")
	}
	n := 3
	x := make([]kyber.Scalar, n)
	X := make([]kyber.Point, n)
	for i := range x {
		x[i] = suite.Scalar().Pick(suite.RandomStream())
		X[i] = suite.Point().Mul(x[i], nil)
	}
	accepted := 0
	for k := 0; k < 40; k++ {
		msg := []byte(fmt.Sprintf("message %d", k))
		sig := Sign(suite, msg, Set(X), nil, 0, x[0])
		if _, err := Verify(suite, msg, Set(X), nil, sig); err != nil {
			t.Fatal("honest signature rejected: ", err)
		}
		other := []kyber.Point{X[0], suite.Point().Add(X[1], T), X[2]}
		if other[1].Equal(X[1]) {
			t.Fatal("shifted key equals the original")
		}
		if _, err := Verify(suite, msg, Set(other), nil, sig); err == nil {
			accepted++
		}
	}
	if accepted > 0 {
		t.Errorf("%d of 40 signatures verify against a ring containing a different public key", accepted)
	}
}
