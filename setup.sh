#!/bin/sh
# setup_cmd: offline build of the harness (warms the Go build cache) and a parse of every specification.
set -e
cd "$(dirname "$0")"
python3 - <<'PY'
import sys, os
sys.path.insert(0, "tools")
import vlib, subprocess, shutil
shutil.copyfile(os.path.join(vlib.REPO, "go.sum"), os.path.join(vlib.HARNESS, "go.sum"))
subprocess.run([vlib.go_bin(), "build", "-tags", "verif", "-o", "/dev/null", "./cmd/vh"], cwd=vlib.HARNESS, env=vlib.go_env(), check=True)
PY
for f in spec/*.tla; do
  case "$f" in *Trace*) continue;; esac
  (cd spec && tla-sany "$(basename "$f")" >/dev/null 2>&1) || { echo "SANY failed on $f"; exit 1; }
done
rm -rf spec/states spec/*.toolbox 2>/dev/null || true
echo setup ok
