module verifharness

go 1.25.0

require (
	go.dedis.ch/kyber/v4 v4.0.0
	golang.org/x/crypto v0.48.0
)

require (
	github.com/bits-and-blooms/bitset v1.24.4 // indirect
	github.com/cloudflare/circl v1.6.3 // indirect
	github.com/consensys/gnark-crypto v0.19.2 // indirect
	github.com/kilic/bls12-381 v0.1.0 // indirect
	go.dedis.ch/fixbuf v1.0.3 // indirect
	golang.org/x/sys v0.42.0 // indirect
)

replace go.dedis.ch/kyber/v4 => /repo
