// vh-sig is the harness binary of the `sig` family (C08, C09): `vh-sig <driver> [flags]`.
package main

import (
	"flag"
	"fmt"
	"os"

	"verifharness/internal/core"
	"verifharness/internal/sig"
)

func main() {
	if len(os.Args) < 2 {
		fmt.Fprintln(os.Stderr, "usage: vh-sig <driver> [flags]")
		os.Exit(2)
	}
	drv := os.Args[1]
	fs := flag.NewFlagSet(drv, flag.ExitOnError)
	prop := fs.String("prop", "", "property id")
	in := fs.String("in", "", "input (behaviours ndjson)")
	out := fs.String("out", "", "result json")
	groups := fs.String("groups", "", "configuration filter (comma list)")
	seed := fs.Int64("seed", 1, "seed")
	tier := fs.String("tier", "quick", "tier")
	max := fs.Int("max", 0, "behaviours per configuration (0 = all)")
	maxslow := fs.Int("maxslow", 0, "same for slow configurations")
	bindings := fs.Int("bindings", 1, "c08: operand bindings per behaviour on eddsa / schnorr-ed")
	concrounds := fs.Int("concrounds", 0, "c08: rounds of the concurrent-verification workload (0 = default)")
	mode := fs.String("mode", "", "c09: bls | tbls | bdn | cosi")
	exh := fs.Int("exh", 2, "c09: combinations replayed exhaustively (-1 = all)")
	pairmax := fs.Int("pairmax", 0, "c09 bdn: behaviours per combination with the pairing-level final step (0 = all)")
	maskmax := fs.Int("maskmax", 0, "c09 bdn: mask-level behaviours per non-exhaustive combination (0 = all)")
	ns := fs.Int("ns", 4, "c09 masks: number of signers (the TLC constant NS)")
	trace := fs.String("trace", "", "masktrace: ndjson file to write")
	traces := fs.Int("traces", 100, "masktrace: number of recorded runs")
	events := fs.Int("events", 12, "masktrace: events per run")
	_ = fs.Parse(os.Args[2:])
	res := core.NewResult(*prop)
	var err error
	switch drv {
	case "c08":
		err = sig.RunC08(sig.C08Config{Prop: *prop, In: *in, Seed: *seed, Tier: *tier, Groups: *groups, Max: *max, MaxSlow: *maxslow, Bindings: *bindings, ConcRounds: *concrounds}, res)
	case "c09":
		err = sig.RunC09(sig.C09Config{Prop: *prop, Mode: *mode, In: *in, Seed: *seed, Tier: *tier, Combos: *groups, Exh: *exh, Max: *max, MaxSlow: *maxslow, PairMax: *pairmax, MaskMax: *maskmax, NS: *ns}, res)
	case "masktrace":
		err = sig.RunMaskTrace(sig.MaskTraceConfig{Prop: *prop, Seed: *seed, Traces: *traces, Events: *events, Out: *trace}, res)
	default:
		err = fmt.Errorf("unknown driver %q", drv)
	}
	if err != nil {
		fmt.Fprintln(os.Stderr, "vh-sig:", err)
		os.Exit(2)
	}
	if err := res.Write(*out); err != nil {
		fmt.Fprintln(os.Stderr, "vh-sig:", err)
		os.Exit(2)
	}
}
