// vh-proof is the harness binary of the `proof` family (C13 PVSS/DLEQ, C14 sigma
// protocols, C15 shuffles): `vh-proof <driver> [flags]`.
package main

import (
	"flag"
	"fmt"
	"os"

	"verifharness/internal/core"
	"verifharness/internal/proof/pvssr"
	"verifharness/internal/proof/shufr"
	"verifharness/internal/proof/sigmar"
)

func main() {
	if len(os.Args) < 2 {
		fmt.Fprintln(os.Stderr, "usage: vh-proof <driver> [flags]")
		os.Exit(2)
	}
	drv := os.Args[1]
	fs := flag.NewFlagSet(drv, flag.ExitOnError)
	prop := fs.String("prop", "", "property id")
	in := fs.String("in", "", "input (behaviours ndjson)")
	out := fs.String("out", "", "result json")
	seed := fs.Int64("seed", 1, "seed")
	tier := fs.String("tier", "quick", "tier")
	suitesF := fs.String("suites", "", "comma list of suites (default: all of the driver)")
	max := fs.Int("max", 0, "behaviours replayed per suite (0 = all)")
	deniable := fs.Int("deniable", 0, "sigma: run the deniable clique protocol on one behaviour out of N (0 = never)")
	traceOut := fs.String("trace", "", "sigma: ndjson output of recorded context calls")
	traceMax := fs.Int("tracemax", 0, "sigma: number of behaviours whose context calls are recorded (0 = all)")
	maxrec := fs.Int("maxrec", 0, "pvss: Recover cases replayed per behaviour (0 = all)")
	_ = fs.Parse(os.Args[2:])
	_ = tier
	res := core.NewResult(*prop)
	var err error
	switch drv {
	case "pvss":
		err = pvssr.Run(pvssr.Config{Prop: *prop, In: *in, Seed: *seed, Suites: *suitesF, MaxRec: *maxrec}, res)
	case "sigma":
		err = sigmar.Run(sigmar.Config{Prop: *prop, In: *in, Seed: *seed, Suites: *suitesF, Max: *max, Deniable: *deniable,
			TraceOut: *traceOut, TraceMax: *traceMax}, res)
	case "shuffle":
		err = shufr.Run(shufr.Config{Prop: *prop, In: *in, Seed: *seed, Suites: *suitesF, Max: *max}, res)
	default:
		err = fmt.Errorf("unknown driver %q", drv)
	}
	if err != nil {
		fmt.Fprintln(os.Stderr, "vh-proof:", err)
		os.Exit(2)
	}
	if err := res.Write(*out); err != nil {
		fmt.Fprintln(os.Stderr, "vh-proof:", err)
		os.Exit(2)
	}
}
