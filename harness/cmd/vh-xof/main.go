// vh-xof is the harness binary of the `xof` family (C19, C20, TinyField driver for C02):
// `vh-xof <driver> [flags]`.
package main

import (
	"flag"
	"fmt"
	"os"

	"verifharness/internal/core"
	"verifharness/internal/xof"
	"verifharness/internal/xof/randstream"
	"verifharness/internal/xof/shared"
	"verifharness/internal/xof/tiny"
)

func main() {
	if len(os.Args) < 2 {
		fmt.Fprintln(os.Stderr, "usage: vh-xof <driver> [flags]")
		os.Exit(2)
	}
	drv := os.Args[1]
	fs := flag.NewFlagSet(drv, flag.ExitOnError)
	prop := fs.String("prop", "", "property id")
	in := fs.String("in", "", "input (behaviours ndjson)")
	out := fs.String("out", "", "result json")
	seed := fs.Int64("seed", 1, "seed")
	tier := fs.String("tier", "quick", "tier")
	bindings := fs.Int("bindings", 1, "bindings per implementation")
	impls := fs.String("impls", "", "implementation filter")
	what := fs.String("what", "", "sub-selection of the driver")
	traceOut := fs.String("trace", "", "ndjson trace output (recorders)")
	num := fs.Int("num", 0, "number of traces / repetitions")
	moduli := fs.String("moduli", "", "tiny: \"odd\" restricts to odd moduli")
	gor := fs.Int("g", 8, "shared: goroutines per workload")
	reps := fs.Int("reps", 20, "shared: repetitions per workload")
	shards := fs.Int("shards", 0, "shared: number of child processes")
	shard := fs.Int("shard", -1, "shared: index of this child")
	configs := fs.String("configs", "", "shared: configuration filter")
	_ = fs.String("groups", "", "accepted for compatibility with ./check --replay (ignored)")
	budget := fs.Int("budget", 100, "shared: time budget per workload instance (ms)")
	_ = fs.Parse(os.Args[2:])
	res := core.NewResult(*prop)
	var err error
	switch drv {
	case "xof":
		err = xof.Run(xof.Config{Prop: *prop, In: *in, Seed: *seed, Bindings: *bindings, Impls: *impls}, res)
	case "tiny":
		err = tiny.Run(tiny.Config{Prop: *prop, In: *in, Seed: *seed, What: *what, Moduli: *moduli}, res)
	case "randstream":
		err = randstream.Run(randstream.Config{Prop: *prop, In: *in, Seed: *seed}, res)
	case "shared":
		err = shared.Run(shared.Config{Prop: *prop, In: *in, Seed: *seed, Goroutines: *gor, Reps: *reps, Shards: *shards,
			Shard: *shard, Configs: *configs, BudgetMs: *budget, Out: *out, Tier: *tier}, res)
		if err == nil && *shard >= 0 {
			return
		}
	case "xofrec":
		err = xof.Record(*traceOut, *seed, *num, 30, res)
	default:
		err = fmt.Errorf("unknown driver %q", drv)
	}
	if err != nil {
		fmt.Fprintln(os.Stderr, "vh-xof:", err)
		os.Exit(2)
	}
	if err := res.Write(*out); err != nil {
		fmt.Fprintln(os.Stderr, "vh-xof:", err)
		os.Exit(2)
	}
}
