// vh-dkg is the harness binary of the `dkg` family (property C11): `vh-dkg <driver> [flags]`.
package main

import (
	"flag"
	"fmt"
	"os"
	"runtime/pprof"

	"verifharness/internal/core"
	"verifharness/internal/dkg"
)

func main() {
	if len(os.Args) < 2 {
		fmt.Fprintln(os.Stderr, "usage: vh-dkg <driver> [flags]")
		os.Exit(2)
	}
	drv := os.Args[1]
	fs := flag.NewFlagSet(drv, flag.ExitOnError)
	prop := fs.String("prop", "C11", "property id")
	in := fs.String("in", "", "input (behaviours ndjson)")
	out := fs.String("out", "", "result json")
	seed := fs.Int64("seed", 1, "seed")
	_ = fs.String("tier", "quick", "tier")
	variants := fs.Int("variants", 1, "concretisations per behaviour")
	max := fs.Int("max", 0, "replay at most this many behaviours (seeded sub-sample)")
	_ = fs.Parse(os.Args[2:])
	if pf := os.Getenv("VH_CPUPROFILE"); pf != "" {
		if f, err := os.Create(pf); err == nil {
			_ = pprof.StartCPUProfile(f)
			defer pprof.StopCPUProfile()
		}
	}
	res := core.NewResult(*prop)
	var err error
	switch drv {
	case "api":
		err = dkg.RunAPI(dkg.Config{Prop: *prop, In: *in, Seed: *seed, Variants: *variants, Max: *max}, res)
	case "proto":
		err = dkg.RunProto(dkg.Config{Prop: *prop, In: *in, Seed: *seed, Variants: *variants, Max: *max}, res)
	case "rabin":
		err = dkg.RunRabin(dkg.Config{Prop: *prop, In: *in, Seed: *seed, Variants: *variants, Max: *max}, res)
	default:
		err = fmt.Errorf("unknown driver %q", drv)
	}
	if err != nil {
		fmt.Fprintln(os.Stderr, "vh-dkg:", err)
		os.Exit(2)
	}
	if err := res.Write(*out); err != nil {
		fmt.Fprintln(os.Stderr, "vh-dkg:", err)
		os.Exit(2)
	}
}
