// vh-share is the harness binary of the `share` family (C07 Shamir, C12 DSS):
// `vh-share <driver> [flags]`.
package main

import (
	"flag"
	"fmt"
	"os"
	"runtime"
	"runtime/debug"

	"verifharness/internal/core"
	"verifharness/internal/share"
)

func main() {
	if len(os.Args) < 2 {
		fmt.Fprintln(os.Stderr, "usage: vh-share <driver> [flags]")
		os.Exit(2)
	}
	drv := os.Args[1]
	fs := flag.NewFlagSet(drv, flag.ExitOnError)
	prop := fs.String("prop", "", "property id")
	in := fs.String("in", "", "input (behaviours ndjson)")
	out := fs.String("out", "", "result json")
	groups := fs.String("groups", "", "group filter (shamir-lifted) / key source filter (dss)")
	seed := fs.Int64("seed", 1, "seed")
	tier := fs.String("tier", "quick", "tier")
	P := fs.Int64("P", 23, "tiny group modulus")
	Q := fs.Int64("Q", 11, "tiny group order")
	G := fs.Int64("G", 4, "tiny group generator")
	max := fs.Int("max", 0, "behaviours per group / key source (0 = all)")
	maxslow := fs.Int("maxslow", 0, "same for slow groups")
	traces := fs.String("traces", "", "dss-record: output ndjson of recorded traces")
	runs := fs.Int("runs", 50, "dss-record: number of random runs")
	_ = fs.Parse(os.Args[2:])
	_ = tier
	// the replays are allocation-heavy and short; on a shared, oversubscribed machine 16 Ps
	// spend most of their time in the scheduler and the collector
	if os.Getenv("GOMAXPROCS") == "" && runtime.NumCPU() > 8 {
		runtime.GOMAXPROCS(8)
	}
	debug.SetGCPercent(400)
	res := core.NewResult(*prop)
	var err error
	switch drv {
	case "shamir-exact":
		err = share.RunShamirExact(share.ShamirConfig{Prop: *prop, In: *in, Seed: *seed, P: *P, Q: *Q, G: *G}, res)
	case "shamir-lifted":
		err = share.RunShamirLifted(share.ShamirConfig{Prop: *prop, In: *in, Seed: *seed, Max: *max, MaxSlow: *maxslow, Groups: *groups}, res)
	case "dss":
		err = share.RunDSS(share.DSSConfig{Prop: *prop, In: *in, Seed: *seed, Max: *max, Sources: *groups}, res)
	case "dss-record":
		err = share.RunDSSRecord(share.DSSConfig{Prop: *prop, Seed: *seed, Sources: *groups, Traces: *traces, Runs: *runs}, res)
	default:
		err = fmt.Errorf("unknown driver %q", drv)
	}
	if err != nil {
		fmt.Fprintln(os.Stderr, "vh-share:", err)
		os.Exit(2)
	}
	if err := res.Write(*out); err != nil {
		fmt.Fprintln(os.Stderr, "vh-share:", err)
		os.Exit(2)
	}
}
