// vh-codec is the harness binary of the `codec` family (C04, C16):
// `vh-codec <driver> -prop Cxx -seed N -tier T -out res.json [-in behaviours.ndjson] ...`
package main

import (
	"flag"
	"fmt"
	"os"

	"verifharness/internal/codec"
	"verifharness/internal/core"
)

func main() {
	if len(os.Args) < 2 {
		fmt.Fprintln(os.Stderr, "usage: vh-codec <driver> [flags]")
		os.Exit(2)
	}
	drv := os.Args[1]
	fs := flag.NewFlagSet(drv, flag.ExitOnError)
	var c codec.Config
	out := fs.String("out", "", "result json")
	fs.StringVar(&c.Prop, "prop", "", "property id")
	fs.StringVar(&c.In, "in", "", "input (behaviours ndjson)")
	fs.StringVar(&c.Trace, "trace", "", "trace file to write (record drivers)")
	fs.StringVar(&c.Groups, "groups", "", "group filter")
	fs.Int64Var(&c.Seed, "seed", 1, "seed")
	fs.StringVar(&c.Tier, "tier", "quick", "tier")
	fs.StringVar(&c.Kind, "kind", "point", "point | scalar")
	fs.IntVar(&c.Per, "per", 8, "witnesses per class")
	fs.IntVar(&c.PerComposite, "percomp", 4, "variants per composite mutation class (c04-all)")
	fs.BoolVar(&c.Corrupt, "corrupt", false, "self-test: corrupt one recorded field")
	fs.StringVar(&c.Only, "only", "", "restrict to one scheme / parser")
	fs.StringVar(&c.Expect, "expect", "", "replay of a trace divergence: the rejected object's events (JSON)")
	fs.StringVar(&c.Key, "key", "", "replay of a trace divergence: its key")
	_ = fs.Parse(os.Args[2:])
	res := core.NewResult(c.Prop)
	var err error
	switch drv {
	case "c04-all":
		err = codec.C04All(c, res)
	case "decode-replay":
		err = codec.Replay(c, res)
	case "decode-record":
		err = codec.Record(c, res)
	case "composite-replay":
		err = codec.CompositeReplay(c, res)
	case "composite-record":
		err = codec.CompositeRecord(c, res)
	case "encrypt-replay":
		err = codec.EncryptReplay(c, res)
	default:
		err = fmt.Errorf("unknown driver %q", drv)
	}
	if err != nil {
		fmt.Fprintln(os.Stderr, "vh-codec:", err)
		os.Exit(2)
	}
	if err := res.Write(*out); err != nil {
		fmt.Fprintln(os.Stderr, "vh-codec:", err)
		os.Exit(2)
	}
}
