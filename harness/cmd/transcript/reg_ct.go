//go:build constantTime

package main

import (
	"bufio"
	"math/big"

	"go.dedis.ch/kyber/v4/group/edwards25519"
	"go.dedis.ch/kyber/v4/pairing/bls12381/circl"
)

var variant = "constantTime"

func bi(s string) *big.Int { v, _ := new(big.Int).SetString(s, 10); return v }

func registry() []entry {
	cs := circl.NewSuite()
	bls := bi("52435875175126190479447740508185965837690552500527637822603658699938581184513")
	return []entry{
		{Name: "ed25519", G: edwards25519.NewBlakeSHA256Ed25519(), Order: bi("7237005577332262213973186563042994240857116359379907606001950938285454250989"), LE: true, Base: true, Pick: true},
		{Name: "circl-g1", G: cs.G1(), Order: bls, Base: true, Pick: true},
		{Name: "circl-g2", G: cs.G2(), Order: bls, Base: true, Pick: true},
	}
}

func extra(seed int64, w *bufio.Writer) {}
