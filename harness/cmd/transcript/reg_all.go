//go:build !constantTime

package main

import (
	"bufio"

	"verifharness/internal/groups"
)

var variant = "default-or-generic"

func registry() []entry {
	var out []entry
	for _, g := range groups.All() {
		if !g.CanBase || !g.CanPick || g.VarTime {
			continue
		}
		out = append(out, entry{Name: g.Name, G: g.Group, Order: g.Order, LE: g.ScalarLE, Base: true, Pick: true})
	}
	return out
}

func extra(seed int64, w *bufio.Writer) {}
