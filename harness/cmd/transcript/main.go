// transcript executes the deterministic computation of C18(ii): the behaviours
// of spec/KyberAlgebra.tla on every group the current build configuration
// contains, plus fixed scheme-level computations, and prints one line per
// step.  It is built with tags {default, generic, constantTime}; the check
// compares the transcripts line by line on the sections each variant contains.
package main

import (
	"bufio"
	"crypto/sha256"
	"encoding/hex"
	"encoding/json"
	"flag"
	"fmt"
	"math/big"
	"os"
	"strings"

	"go.dedis.ch/kyber/v4"
	"go.dedis.ch/kyber/v4/compatible/compatiblemod"
	"go.dedis.ch/kyber/v4/group/edwards25519"
	"go.dedis.ch/kyber/v4/group/mod"
	"go.dedis.ch/kyber/v4/share"
	"go.dedis.ch/kyber/v4/sign/eddsa"
	"go.dedis.ch/kyber/v4/sign/schnorr"
	"go.dedis.ch/kyber/v4/util/random"
	"go.dedis.ch/kyber/v4/xof/blake2xb"
	"go.dedis.ch/kyber/v4/xof/blake2xs"
	"go.dedis.ch/kyber/v4/xof/keccak"
)

type entry struct {
	Name  string
	G     kyber.Group
	Order *big.Int
	LE    bool
	Base  bool
	Pick  bool
}

type ascalar struct {
	C []int64 `json:"c"`
	D int64   `json:"d"`
}
type apoint map[string]ascalar
type step struct {
	Op string             `json:"op"`
	D  string             `json:"d"`
	A  string             `json:"a"`
	B  string             `json:"b"`
	K  int64              `json:"k"`
	S  map[string]ascalar `json:"s"`
	P  map[string]apoint  `json:"p"`
}

func rev(b []byte) []byte {
	o := make([]byte, len(b))
	for i := range b {
		o[len(b)-1-i] = b[i]
	}
	return o
}

func enc(e entry, r *big.Int) []byte {
	out := make([]byte, (e.Order.BitLen()+7)/8)
	r.FillBytes(out)
	if e.LE {
		return rev(out)
	}
	return out
}

func eval(a ascalar, u, q *big.Int) (*big.Int, bool) {
	var pow [5]*big.Int
	pow[2] = big.NewInt(1)
	pow[3] = u
	pow[4] = new(big.Int).Mod(new(big.Int).Mul(u, u), q)
	if u.Sign() != 0 {
		pow[1] = new(big.Int).ModInverse(u, q)
		pow[0] = new(big.Int).Mod(new(big.Int).Mul(pow[1], pow[1]), q)
	}
	acc := new(big.Int)
	for i, c := range a.C {
		if c == 0 {
			continue
		}
		if pow[i] == nil {
			return nil, false
		}
		acc.Add(acc, new(big.Int).Mul(big.NewInt(c), pow[i]))
	}
	if a.D != 1 {
		acc.Mul(acc, new(big.Int).ModInverse(big.NewInt(a.D), q))
	}
	return acc.Mod(acc, q), true
}

func run(e entry, bhs [][]step, seed int64, w *bufio.Writer) {
	h := sha256.Sum256([]byte(fmt.Sprintf("u-%d-%s", seed, e.Order.String())))
	u := new(big.Int).Mod(new(big.Int).SetBytes(h[:]), e.Order)
	B := e.G.Point().Base()
	H := e.G.Point().Pick(blake2xb.New([]byte(fmt.Sprintf("H-%d", seed))))
	mk := func(r *big.Int) kyber.Scalar {
		s := e.G.Scalar()
		_ = s.UnmarshalBinary(enc(e, r))
		return s
	}
	for bi, bh := range bhs {
		S := map[string]kyber.Scalar{}
		P := map[string]kyber.Point{}
		ok := true
		for n, a := range bh[0].S {
			r, good := eval(a, u, e.Order)
			if !good {
				ok = false
				break
			}
			S[n] = mk(r)
		}
		for n, a := range bh[0].P {
			rb, g1 := eval(a["B"], u, e.Order)
			rh, g2 := eval(a["H"], u, e.Order)
			if !g1 || !g2 {
				ok = false
				break
			}
			P[n] = e.G.Point().Add(e.G.Point().Mul(mk(rb), B), e.G.Point().Mul(mk(rh), H))
		}
		if !ok {
			continue
		}
		for si, st := range bh[1:] {
			line := ""
			func() {
				defer func() {
					if r := recover(); r != nil {
						line = "panic"
					}
				}()
				switch st.Op {
				case "s.add":
					S[st.D].Add(S[st.A], S[st.B])
				case "s.sub":
					S[st.D].Sub(S[st.A], S[st.B])
				case "s.mul":
					S[st.D].Mul(S[st.A], S[st.B])
				case "s.div":
					if S[st.B].Equal(e.G.Scalar().Zero()) {
						line = "skip"
						return
					}
					S[st.D].Div(S[st.A], S[st.B])
				case "s.inv":
					if S[st.A].Equal(e.G.Scalar().Zero()) {
						line = "skip"
						return
					}
					S[st.D].Inv(S[st.A])
				case "s.neg":
					S[st.D].Neg(S[st.A])
				case "s.set":
					S[st.D].Set(S[st.A])
				case "s.clone":
					S[st.D] = S[st.A].Clone()
				case "s.zero":
					S[st.D].Zero()
				case "s.one":
					S[st.D].One()
				case "s.int":
					S[st.D].SetInt64(st.K)
				case "s.loadu":
					S[st.D].SetBytes(enc(e, u))
				case "s.codec":
					b, _ := S[st.A].MarshalBinary()
					_ = S[st.D].UnmarshalBinary(b)
				case "p.add":
					P[st.D].Add(P[st.A], P[st.B])
				case "p.sub":
					P[st.D].Sub(P[st.A], P[st.B])
				case "p.neg":
					P[st.D].Neg(P[st.A])
				case "p.set":
					P[st.D].Set(P[st.A])
				case "p.clone":
					P[st.D] = P[st.A].Clone()
				case "p.mul":
					if st.B == "nil" {
						P[st.D].Mul(S[st.A], nil)
					} else {
						P[st.D].Mul(S[st.A], P[st.B])
					}
				case "p.null":
					P[st.D].Null()
				case "p.base":
					P[st.D].Base()
				case "p.pick":
					P[st.D].Pick(blake2xb.New([]byte(fmt.Sprintf("H-%d", seed))))
				case "p.codec":
					b, _ := P[st.A].MarshalBinary()
					_ = P[st.D].UnmarshalBinary(b)
				}
			}()
			if line == "skip" || line == "panic" {
				fmt.Fprintf(w, "%s|%d|%d|%s|%s\n", e.Name, bi, si+1, st.Op, line)
				break
			}
			var b []byte
			if strings.HasPrefix(st.Op, "p.") {
				b, _ = P[st.D].MarshalBinary()
			} else {
				b, _ = S[st.D].MarshalBinary()
			}
			fmt.Fprintf(w, "%s|%d|%d|%s|%s\n", e.Name, bi, si+1, st.Op, hex.EncodeToString(b))
		}
	}
}

// decodes feeds every group of the build deterministic byte strings — random blobs, blobs whose
// 32-byte chunks are close to 2^256 (coordinates >= p), and valid encodings with the field modulus
// added to one coordinate chunk where it still fits (non-canonical but congruent) — and prints the
// decoder's verdict and the re-encoding: decoding of untrusted bytes must not depend on the build
// (assembly vs generic field arithmetic, big.Int vs bigmod).
func decodes(e entry, seed int64, w *bufio.Writer) {
	pl := e.G.PointLen()
	rs := blake2xb.New([]byte(fmt.Sprintf("decode-%d-%s", seed, e.Name)))
	try := func(tag string, i int, in []byte) {
		p := e.G.Point()
		res := "reject"
		func() {
			defer func() {
				if r := recover(); r != nil {
					res = "panic"
				}
			}()
			if err := p.UnmarshalBinary(in); err == nil {
				out, _ := p.MarshalBinary()
				res = "accept:" + hex.EncodeToString(out)
			}
		}()
		fmt.Fprintf(w, "decode:%s|%s|%d|%s\n", e.Name, tag, i, res)
	}
	for i := 0; i < 48; i++ {
		b := make([]byte, pl)
		rs.XORKeyStream(b, b)
		try("random", i, b)
		c := append([]byte(nil), b...)
		for off := 0; off+32 <= pl; off += 32 {
			for k := 0; k < 20; k++ {
				c[off+k] = 0xff
			}
		}
		try("high", i, c)
	}
	if fp, ok := fieldModulus[e.Name]; ok && pl%32 == 0 {
		B := e.G.Point().Base()
		k := e.G.Scalar().SetInt64(1)
		for i := 0; i < 24; i++ {
			P := e.G.Point().Mul(k.SetInt64(int64(3*i+1)), B)
			enc, _ := P.MarshalBinary()
			for off := 0; off+32 <= pl; off += 32 {
				v := new(big.Int).SetBytes(enc[off : off+32])
				v.Add(v, fp)
				if v.BitLen() > 256 {
					continue
				}
				c := append([]byte(nil), enc...)
				v.FillBytes(c[off : off+32])
				try(fmt.Sprintf("plus-p@%d", off), i, c)
			}
		}
	}
}

// field moduli of the groups whose encodings are sequences of 32-byte big-endian coordinates
var fieldModulus = map[string]*big.Int{
	"bn256-g1": mustBig("65000549695646603732796438742359905742825358107623003571877145026864184071783"),
	"bn256-g2": mustBig("65000549695646603732796438742359905742825358107623003571877145026864184071783"),
	"bn256-gt": mustBig("65000549695646603732796438742359905742825358107623003571877145026864184071783"),
	"bn254-g1": mustBig("21888242871839275222246405745257275088696311157297823662689037894645226208583"),
	"bn254-g2": mustBig("21888242871839275222246405745257275088696311157297823662689037894645226208583"),
	"bn254-gt": mustBig("21888242871839275222246405745257275088696311157297823662689037894645226208583"),
}

func mustBig(s string) *big.Int { v, _ := new(big.Int).SetString(s, 10); return v }

// schemes prints fixed higher-level computations available in every build.
func schemes(seed int64, w *bufio.Writer) {
	st := func(l string) kyber.XOF { return blake2xb.New([]byte(fmt.Sprintf("%s-%d", l, seed))) }
	// mod.Int over several moduli (big.Int engine vs bigmod engine under constantTime)
	for _, ms := range []string{"17", "170141183460469231731687303715884105727",
		"7237005577332262213973186563042994240857116359379907606001950938285454250989",
		"115792089210356248762697446949407573529996955224135760342422259061068512044369",
		"21888242871839275222246405745257275088548364400416034343698204186575808495617"} {
		m, _ := compatiblemod.FromString(ms, 10)
		rs := st("modint" + ms)
		a := mod.NewInt64(0, m).Pick(rs)
		b := mod.NewInt64(0, m).Pick(rs)
		for i := 0; i < 12; i++ {
			c := mod.NewInt64(0, m)
			out := func(tag string) {
				x, _ := c.MarshalBinary()
				fmt.Fprintf(w, "modint|%s|%d|%s|%s\n", ms, i, tag, hex.EncodeToString(x))
			}
			c.Add(a, b)
			out("add")
			c.Sub(a, b)
			out("sub")
			c.Mul(a, b)
			out("mul")
			c.Neg(a)
			out("neg")
			if b.Equal(mod.NewInt64(0, m)) == false {
				c.Div(a, b)
				out("div")
				c.Inv(b)
				out("inv")
			}
			c.SetInt64(int64(i) - 6)
			out("int64")
			c.SetBytes([]byte{byte(i), 0xff, 0x01, byte(255 - i)})
			out("setbytes")
			a, b = b, mod.NewInt64(0, m).Mul(a, b).(*mod.Int)
			a = mod.NewInt64(0, m).Add(a, mod.NewInt64(int64(i), m)).(*mod.Int)
		}
	}
	// random.Int / Bits
	rs := st("random")
	for _, ms := range []string{"3", "255", "257", "65537", "7237005577332262213973186563042994240857116359379907606001950938285454250989"} {
		m, _ := compatiblemod.FromString(ms, 10)
		for i := 0; i < 4; i++ {
			fmt.Fprintf(w, "random|int|%s|%d|%s\n", ms, i, random.Int(m, rs).String())
		}
	}
	for _, bl := range []uint{0, 1, 7, 8, 9, 255, 256, 521} {
		fmt.Fprintf(w, "random|bits|%d|%x|%x\n", bl, random.Bits(bl, false, rs), random.Bits(bl, true, rs))
	}
	// XOFs
	for _, nx := range []struct {
		name string
		x    kyber.XOF
	}{{"blake2xb", blake2xb.New([]byte("seed"))}, {"blake2xs", blake2xs.New([]byte("seed"))}, {"keccak", keccak.New([]byte("seed"))}} {
		buf := make([]byte, 100)
		_, _ = nx.x.Read(buf)
		fmt.Fprintf(w, "xof|%s|%x\n", nx.name, buf)
	}
	// Ed25519: Schnorr with a seeded stream, EdDSA, Shamir sharing
	suite := edwards25519.NewBlakeSHA256Ed25519WithRand(st("schnorr"))
	priv := suite.Scalar().Pick(st("key"))
	pub := suite.Point().Mul(priv, nil)
	for i, msg := range [][]byte{{}, []byte("abc"), make([]byte, 300)} {
		sig, err := schnorr.Sign(suite, priv, msg)
		fmt.Fprintf(w, "schnorr|%d|%x|%v|%v\n", i, sig, err, schnorr.Verify(suite, pub, msg, sig))
		ed := eddsa.NewEdDSA(st(fmt.Sprintf("eddsa%d", i)))
		s2, err := ed.Sign(msg)
		fmt.Fprintf(w, "eddsa|%d|%x|%v|%v\n", i, s2, err, eddsa.Verify(ed.Public, msg, s2))
	}
	poly := share.NewPriPoly(suite, 3, priv, st("poly"))
	for _, sh := range poly.Shares(5) {
		b, _ := sh.V.MarshalBinary()
		fmt.Fprintf(w, "share|%d|%x\n", sh.I, b)
	}
	pp := poly.Commit(nil)
	for _, sh := range pp.Shares(5) {
		b, _ := sh.V.MarshalBinary()
		fmt.Fprintf(w, "pubshare|%d|%x\n", sh.I, b)
	}
	rec, err := share.RecoverSecret(suite, poly.Shares(5)[1:4], 3, 5)
	rb, _ := rec.MarshalBinary()
	fmt.Fprintf(w, "recover|%x|%v\n", rb, err)
}

func main() {
	in := flag.String("in", "", "behaviours")
	seed := flag.Int64("seed", 1, "seed")
	max := flag.Int("max", 0, "max behaviours")
	flag.Parse()
	var bhs [][]step
	f, err := os.Open(*in)
	if err != nil {
		fmt.Fprintln(os.Stderr, err)
		os.Exit(2)
	}
	sc := bufio.NewScanner(f)
	sc.Buffer(make([]byte, 1<<20), 1<<26)
	for sc.Scan() {
		var b []step
		if json.Unmarshal(sc.Bytes(), &b) == nil && len(b) > 0 {
			bhs = append(bhs, b)
		}
		if *max > 0 && len(bhs) >= *max {
			break
		}
	}
	w := bufio.NewWriter(os.Stdout)
	defer w.Flush()
	fmt.Fprintf(w, "#variant %s\n", variant)
	for _, e := range registry() {
		run(e, bhs, *seed, w)
		decodes(e, *seed, w)
	}
	schemes(*seed, w)
	extra(*seed, w)
}
