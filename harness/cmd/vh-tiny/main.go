// vh-tiny is the TinyField driver alone (no group or pairing imports), so that it also builds under the
// constantTime tag: `vh-tiny tiny -what scalar -in behaviours [-moduli odd]`.
package main

import (
	"flag"
	"fmt"
	"os"

	"verifharness/internal/core"
	"verifharness/internal/xof/tiny"
)

func main() {
	if len(os.Args) < 2 || os.Args[1] != "tiny" {
		fmt.Fprintln(os.Stderr, "usage: vh-tiny tiny [flags]")
		os.Exit(2)
	}
	fs := flag.NewFlagSet("tiny", flag.ExitOnError)
	prop := fs.String("prop", "", "property id")
	in := fs.String("in", "", "input (behaviours ndjson)")
	out := fs.String("out", "", "result json")
	seed := fs.Int64("seed", 1, "seed")
	what := fs.String("what", "", "scalar | random")
	moduli := fs.String("moduli", "", "\"odd\" restricts to odd moduli")
	_ = fs.String("tier", "quick", "accepted for compatibility")
	_ = fs.String("groups", "", "accepted for compatibility with ./check --replay (ignored)")
	_ = fs.Parse(os.Args[2:])
	res := core.NewResult(*prop)
	if err := tiny.Run(tiny.Config{Prop: *prop, In: *in, Seed: *seed, What: *what, Moduli: *moduli}, res); err != nil {
		fmt.Fprintln(os.Stderr, "vh-tiny:", err)
		os.Exit(2)
	}
	if err := res.Write(*out); err != nil {
		fmt.Fprintln(os.Stderr, "vh-tiny:", err)
		os.Exit(2)
	}
}
