// vh-vss is the harness binary of the VSS family (property C10):
// `vh-vss <driver> -prop C10 -seed N -tier T -out res.json [-in behaviours.ndjson] ...`
package main

import (
	"flag"
	"fmt"
	"os"

	"verifharness/internal/core"
	"verifharness/internal/vss"
)

func main() {
	if len(os.Args) < 2 {
		fmt.Fprintln(os.Stderr, "usage: vh-vss <driver> [flags]")
		os.Exit(2)
	}
	drv := os.Args[1]
	fs := flag.NewFlagSet(drv, flag.ExitOnError)
	prop := fs.String("prop", "C10", "property id")
	in := fs.String("in", "", "input (behaviours ndjson)")
	out := fs.String("out", "", "result json")
	seed := fs.Int64("seed", 1, "seed")
	tier := fs.String("tier", "quick", "tier")
	max := fs.Int("max", 0, "replay at most this many behaviours (deterministic sub-sample)")
	percase := fs.Int("percase", 0, "replay at most this many behaviours per abstract case of the final step")
	traces := fs.String("traces", "", "record: output ndjson of traces")
	num := fs.Int("num", 100, "record: number of random runs")
	variant := fs.String("variant", "", "record: pedersen|rabin (empty = both)")
	nmax := fs.Int("nmax", 5, "record: largest n")
	_ = fs.Parse(os.Args[2:])
	_ = tier
	res := core.NewResult(*prop)
	var err error
	switch drv {
	case "replay":
		err = vss.Replay(vss.ReplayConfig{Prop: *prop, In: *in, Seed: *seed, Max: *max, PerCase: *percase}, res)
	case "system":
		err = vss.ReplaySystem(vss.ReplayConfig{Prop: *prop, In: *in, Seed: *seed, Max: *max}, res)
	case "record":
		err = vss.Record(vss.RecordConfig{Seed: *seed, Out: *traces, Num: *num, Variant: *variant, NMax: *nmax}, res)
	case "observe":
		err = vss.Observe(*seed, res)
	default:
		err = fmt.Errorf("unknown driver %q", drv)
	}
	if err != nil {
		fmt.Fprintln(os.Stderr, "vh-vss:", err)
		os.Exit(2)
	}
	if err := res.Write(*out); err != nil {
		fmt.Fprintln(os.Stderr, "vh-vss:", err)
		os.Exit(2)
	}
}
