// vh is the single harness binary: `vh <driver> [flags]`.
package main

import (
	"flag"
	"fmt"
	"os"

	"verifharness/internal/alg"
	"verifharness/internal/core"
)

type common struct {
	prop, in, out, groups string
	seed                  int64
	tier                  string
}

func main() {
	if len(os.Args) < 2 {
		fmt.Fprintln(os.Stderr, "usage: vh <driver> [flags]")
		os.Exit(2)
	}
	drv := os.Args[1]
	fs := flag.NewFlagSet(drv, flag.ExitOnError)
	var c common
	fs.StringVar(&c.prop, "prop", "", "property id")
	fs.StringVar(&c.in, "in", "", "input (behaviours ndjson)")
	fs.StringVar(&c.out, "out", "", "result json")
	fs.StringVar(&c.groups, "groups", "", "group filter")
	fs.Int64Var(&c.seed, "seed", 1, "seed")
	fs.StringVar(&c.tier, "tier", "quick", "tier")
	bindings := fs.Int("bindings", 3, "bindings per group")
	max := fs.Int("max", 0, "behaviours per (group,binding)")
	maxslow := fs.Int("maxslow", 0, "same for slow groups")
	scalars := fs.Bool("scalars", false, "one group per scalar implementation")
	codecall := fs.Bool("codecall", false, "cycle codec paths over bindings")
	_ = fs.Parse(os.Args[2:])
	res := core.NewResult(c.prop)
	var err error
	switch drv {
	case "alg":
		err = alg.Run(alg.Config{Prop: c.prop, In: c.in, Seed: c.seed, Bindings: *bindings, Max: *max, MaxSlow: *maxslow,
			ScalarsOnly: *scalars, Groups: c.groups, CodecAll: *codecall}, res)
	case "pairing":
		err = alg.RunPairing(alg.Config{Prop: c.prop, In: c.in, Seed: c.seed, Bindings: *bindings, Max: *max}, res)
	case "pickembed":
		pc := alg.Config{Prop: c.prop, In: c.in, Seed: c.seed, Max: *max, MaxSlow: *maxslow, Groups: c.groups}
		err = alg.RunPickEmbed(pc, res)
		if err == nil && c.groups == "" {
			alg.DataRange(pc, res, 400)
		}
	case "h2c":
		err = alg.RunH2C(alg.Config{Prop: c.prop, Seed: c.seed}, res)
	default:
		err = fmt.Errorf("unknown driver %q", drv)
	}
	if err != nil {
		fmt.Fprintln(os.Stderr, "vh:", err)
		os.Exit(2)
	}
	if err := res.Write(c.out); err != nil {
		fmt.Fprintln(os.Stderr, "vh:", err)
		os.Exit(2)
	}
}
