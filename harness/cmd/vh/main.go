// vh is the harness binary of the algebra family: `vh <driver> [flags]`.
package main

import (
	"flag"
	"fmt"
	"os"

	"verifharness/internal/alg"
	"verifharness/internal/core"
)

type opts struct {
	prop, in, out, groups, tier string
	seed                        int64
	bindings, max, maxslow      int
	firstuse                    int
	scalars, codecall, adapters bool
	lastop                      string
}

var drivers = map[string]func(o opts, res *core.Result) error{
	"alg": func(o opts, res *core.Result) error {
		return alg.Run(alg.Config{Prop: o.prop, In: o.in, Seed: o.seed, Bindings: o.bindings, Max: o.max, MaxSlow: o.maxslow,
			ScalarsOnly: o.scalars, Groups: o.groups, CodecAll: o.codecall, Adapters: o.adapters, FirstUse: o.firstuse}, res)
	},
}

func main() {
	if len(os.Args) < 2 {
		fmt.Fprintln(os.Stderr, "usage: vh <driver> [flags]")
		os.Exit(2)
	}
	drv := os.Args[1]
	fs := flag.NewFlagSet(drv, flag.ExitOnError)
	var o opts
	fs.StringVar(&o.prop, "prop", "", "property id")
	fs.StringVar(&o.in, "in", "", "input (behaviours ndjson)")
	fs.StringVar(&o.out, "out", "", "result json")
	fs.StringVar(&o.groups, "groups", "", "group filter")
	fs.Int64Var(&o.seed, "seed", 1, "seed")
	fs.StringVar(&o.tier, "tier", "quick", "tier")
	fs.IntVar(&o.bindings, "bindings", 3, "bindings per group")
	fs.IntVar(&o.max, "max", 0, "behaviours per (group,binding)")
	fs.IntVar(&o.maxslow, "maxslow", 0, "same for slow groups")
	fs.IntVar(&o.firstuse, "firstuse", -1, "alg: variant 0..3 of the first-use probe (default seed%4)")
	fs.BoolVar(&o.scalars, "scalars", false, "one group per scalar implementation")
	fs.BoolVar(&o.codecall, "codecall", false, "cycle codec paths over bindings")
	fs.BoolVar(&o.adapters, "adapters", false, "also run the suite-as-group adapters")
	fs.StringVar(&o.lastop, "lastop", "", "pickembed: only behaviours ending in this op")
	_ = fs.Parse(os.Args[2:])
	res := core.NewResult(o.prop)
	f, ok := drivers[drv]
	if !ok {
		fmt.Fprintf(os.Stderr, "vh: unknown driver %q\n", drv)
		os.Exit(2)
	}
	if err := f(o, res); err != nil {
		fmt.Fprintln(os.Stderr, "vh:", err)
		os.Exit(2)
	}
	if err := res.Write(o.out); err != nil {
		fmt.Fprintln(os.Stderr, "vh:", err)
		os.Exit(2)
	}
}
