//go:build !constantTime

package main

import (
	"verifharness/internal/alg"
	"verifharness/internal/core"
)

func init() {
	drivers["pairing"] = func(o opts, res *core.Result) error {
		return alg.RunPairing(alg.Config{Prop: o.prop, In: o.in, Seed: o.seed, Bindings: o.bindings, Max: o.max}, res)
	}
	drivers["pickembed"] = func(o opts, res *core.Result) error {
		pc := alg.Config{Prop: o.prop, In: o.in, Seed: o.seed, Max: o.max, MaxSlow: o.maxslow, Groups: o.groups, LastOp: o.lastop}
		err := alg.RunPickEmbed(pc, res)
		if err == nil && o.groups == "" && o.lastop == "" {
			alg.DataRange(pc, res, 400)
		}
		return err
	}
	drivers["agree"] = func(o opts, res *core.Result) error {
		return alg.RunAgree(alg.Config{Prop: o.prop, In: o.in, Seed: o.seed, Bindings: o.bindings, Max: o.max, MaxSlow: o.maxslow}, res)
	}
	drivers["h2c"] = func(o opts, res *core.Result) error {
		err := alg.RunH2C(alg.Config{Prop: o.prop, Seed: o.seed}, res)
		if err == nil {
			alg.RunH2CLengths(alg.Config{Prop: o.prop, Seed: o.seed}, res)
			n := o.max
			if n <= 0 {
				n = 3000
			}
			alg.RunHashSweep(alg.Config{Prop: o.prop, Seed: o.seed}, res, n)
		}
		return err
	}
}
