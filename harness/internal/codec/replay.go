package codec

import (
	"fmt"
	"runtime"
	"strings"
	"sync"

	"verifharness/internal/core"
	"verifharness/internal/groups"
)

// Config of the C04 drivers.
type Config struct {
	Prop         string
	In           string // behaviours (replay) / unused (record)
	Trace        string // trace file to write (record drivers)
	Only         string // restrict to one scheme / parser
	Expect       string // replay of a trace-validation divergence: events (JSON) of the rejected object
	Key          string // its violation key
	Seed         int64
	Tier         string
	Kind         string // "point" | "scalar"
	Groups       string
	Per          int // witnesses per class
	PerComposite int // concrete variants per composite mutation class
	Corrupt      bool
}

func groupFilter(s string) map[string]bool {
	m := map[string]bool{}
	for _, n := range strings.Split(s, ",") {
		if n != "" {
			m[n] = true
		}
	}
	return m
}

func selectGroups(filter string) []string {
	f := groupFilter(filter)
	var out []string
	for _, g := range allGroups() {
		if len(f) == 0 || f[g.Name] {
			out = append(out, g.Name)
		}
	}
	return out
}

func poolFor(g *groups.Info, kind string, seed int64, per int) (*Pool, string, error) {
	if kind == "scalar" {
		return ScalarPool(g, seed, per), "sc", nil
	}
	p, err := PointPool(g, seed, per)
	return p, ProfileOf(g.Name), err
}

// Replay steps the real decoders through every behaviour TLC generated from
// Decode.tla (spec -> code): for each behaviour, each group of the
// behaviour's profile and each certified witness of the behaviour's class it
// feeds the bytes, compares the outcome with the allowed set shipped in the
// behaviour, and - when the real outcome is the one the behaviour assumes -
// applies the follow-up operations, comparing after every step.
func Replay(cfg Config, res *core.Result) error {
	bhs, err := LoadBehaviours(cfg.In)
	if err != nil {
		return err
	}
	if len(bhs) == 0 {
		return fmt.Errorf("no behaviours in %s", cfg.In)
	}
	byProfile := map[string][]Behaviour{}
	used := 0
	for _, b := range bhs {
		if b[0].Act != "Feed" || b[0].Kind != cfg.Kind {
			continue // behaviours of the other subject kinds are replayed by their own drivers
		}
		used++
		byProfile[b[0].Profile] = append(byProfile[b[0].Profile], b)
	}
	if used == 0 {
		return fmt.Errorf("no %s behaviours in %s", cfg.Kind, cfg.In)
	}
	res.AddTraces(used)
	names := selectGroups(cfg.Groups)
	var mu sync.Mutex
	perGroup := map[string]int{}
	unw := map[string]int{}
	// one task per (group, class): all behaviours of that class on all its witnesses
	type task struct {
		group string
		cls   Class
		bhs   []Behaviour
	}
	var tasks []task
	pools := map[string]*Pool{}
	var perr error
	// build pools first (parallel over groups; formats shared between groups are cached)
	core.Parallel(len(names), runtime.NumCPU(), func(i int) {
		g := groupByName(names[i])
		p, _, err := poolFor(g, cfg.Kind, cfg.Seed, cfg.Per)
		mu.Lock()
		if err != nil {
			perr = err
		}
		pools[names[i]] = p
		mu.Unlock()
	})
	if perr != nil {
		return perr
	}
	for _, n := range names {
		prof := ProfileOf(n)
		if cfg.Kind == "scalar" {
			prof = "sc"
		}
		byCls := map[Class][]Behaviour{}
		var order []Class
		for _, b := range byProfile[prof] {
			c := b[0].Cls
			if _, ok := byCls[c]; !ok {
				order = append(order, c)
			}
			byCls[c] = append(byCls[c], b)
		}
		if len(order) == 0 {
			return fmt.Errorf("no behaviours for profile %q (group %s)", prof, n)
		}
		for _, c := range order {
			nw := len(pools[n].By[c])
			if nw == 0 {
				unw[prof+":"+c.Short()]++
				res.Skip("unwitnessed-class")
				continue
			}
			if nw < 8 {
				res.Skip("class-with-fewer-than-8-witnesses")
			}
			tasks = append(tasks, task{n, c, byCls[c]})
		}
	}
	core.Parallel(len(tasks), runtime.NumCPU(), func(i int) {
		t := tasks[i]
		g := groupByName(t.group)
		pool := pools[t.group]
		n := 0
		for wi, w := range pool.By[t.cls] {
			for bi, b := range t.bhs {
				for path := 0; path < 2; path++ {
					if path == PathFrom && (len(w.B) > pool.Size || len(b) > 1 && bi%3 != 0) {
						continue // the reader path sees only the first MarshalSize bytes; follow-ups mostly through the direct path
					}
					if cfg.Tier != "thorough" && len(b) > 1 && (bi+wi)%4 != 0 {
						continue // quick tier: every follow-up sequence on a quarter of the witnesses (every witness still gets ~1/4 of the sequences)
					}
					if replayOne(cfg, res, g, pool, w, wi, b, bi, path) {
						n++
					}
				}
			}
		}
		mu.Lock()
		perGroup[t.group] += n
		mu.Unlock()
	})
	res.SetExtra("replay_cases_per_group_"+cfg.Kind, perGroup)
	res.SetExtra("unwitnessed_classes_"+cfg.Kind, unw)
	wc := map[string]int{}
	for n, p := range pools {
		wc[n] = p.Total
	}
	res.SetExtra("witnesses_per_group_"+cfg.Kind, wc)
	return nil
}

func pathName(p int) string {
	if p == PathFrom {
		return "UnmarshalFrom"
	}
	return "UnmarshalBinary"
}

// replayOne runs one behaviour on one witness; returns true if the behaviour applied.
func replayOne(cfg Config, res *core.Result, g *groups.Info, pool *Pool, w Witness, wi int, b Behaviour, bi int, path int) bool {
	feed := b[0]
	s := newSubject(g, cfg.Kind, pool, core.Rng(cfg.Seed, "ops", g.Name, fmt.Sprint(wi), fmt.Sprint(bi)))
	o := s.feed(w.B, path)
	id := fmt.Sprintf("%s|%s|%s|w%d|%s", g.Name, cfg.Kind, w.Cls, wi, pathName(path))
	detail := func(step int, exp any, got obs) map[string]any {
		return map[string]any{"group": g.Name, "kind": cfg.Kind, "class": w.Cls, "input_hex": hexs(w.B), "input_len": len(w.B), "source": w.Src,
			"path": pathName(path), "behaviour": b, "step": step, "expected": exp, "got": got.Outcome, "error": got.Err, "panic": got.Panic, "stack": got.Stack,
			"tlc": "Decode.tla Mode=" + cfg.Kind + " MaxUses=2, INVARIANT Emit"}
	}
	key := func(parts ...string) string {
		return cfg.Prop + "/" + g.Name + "/" + cfg.Kind + "/" + w.Cls.Short() + "/" + strings.Join(parts, "/")
	}
	if !in(feed.Allowed, o.Outcome) {
		res.Eval(id)
		k := map[string]string{"accept": "accepted", "reject": "rejected", "crash": "crash"}[o.Outcome]
		res.Violate(key(k), fmt.Sprintf("%s %s decoder: input of class [%s] -> %s, specification allows %v (%s)", g.Name, cfg.Kind, w.Cls.Short(), o.Outcome, feed.Allowed, feed.Tag),
			detail(0, feed.Allowed, o))
		return true
	}
	if o.Outcome != feed.Outcome {
		return false // the other branch of a free class: covered by the sibling behaviour
	}
	res.Eval(id + "|" + fmt.Sprint(len(b)))
	if o.Outcome == "accept" {
		if vm := s.valueMem(); !in(feed.OkMems, vm) {
			res.Violate(key("accepted-nonmember"), fmt.Sprintf("%s %s decoder accepted an input of class [%s]; the accepted value re-encodes to a string refmodel classifies as %q, promised set is %v", g.Name, cfg.Kind, w.Cls.Short(), vm, feed.OkMems),
				detail(0, feed.OkMems, obs{Outcome: vm}))
			return true
		}
	}
	for i := 1; i < len(b); i++ {
		st := b[i]
		if st.Act != "Use" {
			break
		}
		if !opSupported(g, cfg.Kind, st.Op) {
			res.Skip("op-unsupported-by-capability-matrix")
			continue
		}
		u := s.use(st.Op)
		if !in(st.Allowed, u.Outcome) {
			res.Violate(key("use:"+st.Op, u.Outcome), fmt.Sprintf("%s %s: %s on a value accepted from class [%s] -> %s, specification allows %v", g.Name, cfg.Kind, st.Op, w.Cls.Short(), u.Outcome, st.Allowed),
				detail(i, st.Allowed, u))
			return true
		}
	}
	if wi == 0 && bi%211 == 0 {
		res.Sample(map[string]any{"group": g.Name, "kind": cfg.Kind, "input_hex": hexs(w.B), "class": w.Cls, "path": pathName(path), "behaviour": b, "observed": o.Outcome})
	}
	return true
}
