package codec

import (
	"fmt"
	"os"
	"path/filepath"
	"strings"
	"sync"

	"verifharness/internal/core"
)

// C04All runs every C04 driver in one process (shared witness pools, all
// cores): replay of the TLC behaviours for points, scalars and composite
// parsers, and the three recorders, whose traces go to
// <trace>.point / .scalar / .composite.
func C04All(cfg Config, res *core.Result) error {
	type job struct {
		name string
		fn   func() error
	}
	sub := func(kind string, per int) Config {
		c := cfg
		c.Kind = kind
		if per > 0 {
			c.Per = per
		}
		return c
	}
	rec := func(kind string, per int) Config {
		c := sub(kind, per)
		c.Trace = cfg.Trace + "." + kind
		return c
	}
	jobs := []job{
		{"replay-point", func() error { return Replay(sub("point", 0), res) }},
		{"replay-composite", func() error { return CompositeReplay(sub("composite", cfg.PerComposite), res) }},
		{"record-point", func() error { return Record(rec("point", 0), res) }},
		{"record-composite", func() error { return CompositeRecord(rec("composite", cfg.PerComposite), res) }},
		{"replay-scalar", func() error { return Replay(sub("scalar", 0), res) }},
		{"record-scalar", func() error { return Record(rec("scalar", 0), res) }},
	}
	// replay mode (./check --replay): the behaviour file holds one behaviour of one kind and the directory of the
	// original trace is gone: run only what applies
	if _, err := os.Stat(filepath.Dir(cfg.Trace)); cfg.Trace == "" || err != nil {
		bhs, err := LoadBehaviours(cfg.In)
		if err != nil {
			return err
		}
		kinds := map[string]bool{}
		for _, b := range bhs {
			if b[0].Act == "Parse" {
				kinds["composite"] = true
			} else {
				kinds[b[0].Kind] = true
			}
		}
		var keep []job
		for _, j := range jobs {
			if strings.HasPrefix(j.name, "replay-") && kinds[strings.TrimPrefix(j.name, "replay-")] {
				keep = append(keep, j)
			}
		}
		jobs = keep
	}
	errs := make([]error, len(jobs))
	var wg sync.WaitGroup
	for i := range jobs {
		wg.Add(1)
		go func(i int) {
			defer wg.Done()
			errs[i] = jobs[i].fn()
		}(i)
	}
	wg.Wait()
	for i, e := range errs {
		if e != nil {
			return fmt.Errorf("%s: %w", jobs[i].name, e)
		}
	}
	return nil
}
