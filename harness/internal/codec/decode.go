package codec

import (
	"bytes"
	"fmt"
	"math/rand"

	"go.dedis.ch/kyber/v4"
	"verifharness/internal/core"
	"verifharness/internal/groups"
)

// subject wraps one freshly decoded point or scalar of a group.
type subject struct {
	g    *groups.Info
	kind string // "point" | "scalar"
	pool *Pool
	P    kyber.Point
	S    kyber.Scalar
	rng  *rand.Rand
}

// Paths through which bytes reach the decoder.
const (
	PathBinary = 0 // UnmarshalBinary(b)
	PathFrom   = 1 // UnmarshalFrom(bytes.Reader(b)) - reads MarshalSize bytes
)

type obs struct {
	Outcome string // "accept" | "reject" | "crash"
	Err     string
	Panic   string
	Stack   string
}

func newSubject(g *groups.Info, kind string, pool *Pool, rng *rand.Rand) *subject {
	return &subject{g: g, kind: kind, pool: pool, rng: rng}
}

// feed decodes b into a fresh value.
func (s *subject) feed(b []byte, path int) obs {
	in := append([]byte{}, b...) // the decoder gets its own copy
	var err error
	msg, stack, pan := core.Try(func() {
		if s.kind == "point" {
			s.P = s.g.NewPoint()
			if path == PathFrom {
				_, err = s.P.UnmarshalFrom(bytes.NewReader(in))
			} else {
				err = s.P.UnmarshalBinary(in)
			}
		} else {
			s.S = s.g.Group.Scalar()
			if path == PathFrom {
				_, err = s.S.UnmarshalFrom(bytes.NewReader(in))
			} else {
				err = s.S.UnmarshalBinary(in)
			}
		}
	})
	switch {
	case pan:
		return obs{Outcome: "crash", Panic: msg, Stack: stack}
	case err != nil:
		return obs{Outcome: "reject", Err: err.Error()}
	}
	return obs{Outcome: "accept"}
}

// valueMem asks refmodel what the accepted value is, through its re-encoding.
// Returns "na" when there is no model (GT, scalars), "unencodable" when the
// value cannot be re-encoded to a string of the encoding size.
func (s *subject) valueMem() string {
	if s.kind != "point" || s.pool.Format == nil {
		return "na"
	}
	var b []byte
	var err error
	if _, _, pan := core.Try(func() { b, err = s.P.MarshalBinary() }); pan || err != nil || len(b) != s.pool.Size {
		return "unencodable"
	}
	return s.pool.Format.Analyse(b).Mem
}

func (s *subject) scalar() kyber.Scalar {
	switch s.rng.Intn(4) {
	case 0:
		return s.g.Group.Scalar().SetInt64(3)
	case 1:
		return s.g.Group.Scalar().SetInt64(-1)
	}
	return s.g.Group.Scalar().Pick(&detStream{r: s.rng})
}

// use applies one follow-up operation to the accepted value and names the result.
func (s *subject) use(op string) obs {
	res := "ok"
	var errS string
	msg, stack, pan := core.Try(func() {
		if s.kind == "point" {
			P := s.P
			switch op {
			case "Add":
				s.g.NewPoint().Add(P, s.g.NewPoint().Null()) // into a fresh receiver
				P.Add(P, P)                                  // in place, aliased operands
			case "Mul":
				P.Mul(s.scalar(), P)
			case "Neg":
				P.Neg(P)
			case "Marshal":
				b, err := P.MarshalBinary()
				if err != nil {
					res, errS = "error", err.Error()
					return
				}
				var w bytes.Buffer
				if _, err := P.MarshalTo(&w); err != nil {
					res, errS = "error", err.Error()
				} else if !bytes.Equal(w.Bytes(), b) {
					res, errS = "error", "MarshalTo differs from MarshalBinary"
				}
			case "Equal":
				c := s.g.Fix(P.Clone())
				if !P.Equal(c) {
					res, errS = "error", "value not Equal to its clone"
				}
				_ = P.Equal(s.g.NewPoint().Null())
			case "Data":
				if _, err := P.Data(); err != nil {
					res, errS = "error", err.Error()
				}
			case "String":
				_ = P.String()
			case "ReDecode":
				b, err := P.MarshalBinary()
				if err != nil {
					res, errS = "error", err.Error()
					return
				}
				Q := s.g.NewPoint()
				if err := Q.UnmarshalBinary(b); err != nil {
					res, errS = "reject", err.Error()
					return
				}
				if !Q.Equal(P) || !P.Equal(Q) {
					res = "notequal"
				}
			default:
				panic("harness: unknown op " + op)
			}
			return
		}
		S := s.S
		switch op {
		case "Add":
			S.Add(S, S)
		case "Mul":
			S.Mul(S, S)
		case "Neg":
			S.Neg(S)
		case "Marshal":
			b, err := S.MarshalBinary()
			if err != nil {
				res, errS = "error", err.Error()
				return
			}
			var w bytes.Buffer
			if _, err := S.MarshalTo(&w); err != nil {
				res, errS = "error", err.Error()
			} else if !bytes.Equal(w.Bytes(), b) {
				res, errS = "error", "MarshalTo differs from MarshalBinary"
			}
		case "Equal":
			if !S.Equal(S.Clone()) {
				res, errS = "error", "value not Equal to its clone"
			}
			_ = S.Equal(s.g.Group.Scalar().Zero())
		case "String":
			_ = S.String()
		case "PointMul":
			if s.g.CanBase {
				s.g.NewPoint().Mul(S, nil)
			} else {
				s.g.NewPoint().Mul(S, s.g.NewPoint().Null())
			}
		case "ReDecode":
			b, err := S.MarshalBinary()
			if err != nil {
				res, errS = "error", err.Error()
				return
			}
			T := s.g.Group.Scalar()
			if err := T.UnmarshalBinary(b); err != nil {
				res, errS = "reject", err.Error()
				return
			}
			if !T.Equal(S) {
				res = "notequal"
			}
		default:
			panic("harness: unknown op " + op)
		}
	})
	if pan {
		return obs{Outcome: "crash", Panic: msg, Stack: stack}
	}
	return obs{Outcome: res, Err: errS}
}

// opSupported applies the capability matrix (static, DESIGN 3.3a): Data is
// declared unsupported (panics by design) on groups without Embed.
func opSupported(g *groups.Info, kind, op string) bool {
	if kind == "point" && op == "Data" {
		return g.CanEmbed
	}
	return true
}

func hexs(b []byte) string {
	if len(b) > 300 {
		return fmt.Sprintf("%x...(%d bytes)", b[:300], len(b))
	}
	return fmt.Sprintf("%x", b)
}
