package refmodel

import (
	"fmt"
	"math/big"
)

// FormatFor returns a fresh point-encoding model for a group of
// harness/internal/groups (by name). GT groups have no model: the property
// does not promise membership for them.
func FormatFor(group string, order *big.Int) (Format, error) {
	switch group {
	case "ed25519", "ed25519-vartime-mul", "edvt-proj", "edvt-ext":
		return Ed{}, nil
	case "p256":
		return &WXY{C: P256, CoefLen: 32, Prefix: 4}, nil
	case "qr512":
		return NewQR(order)
	case "bn256-g1":
		return &WXY{C: BN256G1, CoefLen: 32, Prefix: -1}, nil
	case "bn256-g2":
		return &WXY{C: BN256G2, CoefLen: 32, Prefix: -1}, nil
	case "bn254-g1":
		return &WXY{C: BN254G1, CoefLen: 32, Prefix: -1}, nil
	case "bn254-g2":
		return &WXY{C: BN254G2, CoefLen: 32, Prefix: -1}, nil
	case "kilic-g1", "circl-g1", "gnark-g1":
		return &ZC{C: BLSG1}, nil
	case "kilic-g2", "circl-g2", "gnark-g2":
		return &ZC{C: BLSG2}, nil
	}
	return nil, fmt.Errorf("refmodel: no format for group %q", group)
}

// EncodeMul returns the canonical encoding of k*B (B as set by SetBase).
func (f *WXY) EncodeMul(k *big.Int) []byte { return f.Encode(f.C.Mul(k, f.base)) }
func (f *ZC) EncodeMul(k *big.Int) []byte  { return f.Encode(f.C.Mul(k, f.base)) }
func (Ed) EncodeMul(k *big.Int) []byte     { return EdEncode(EdMul(k, EdBase())) }
func (f *QR) EncodeMul(k *big.Int) []byte {
	return beBytes(new(big.Int).Exp(big.NewInt(4), k, f.P), f.Size())
}
