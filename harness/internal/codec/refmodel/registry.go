package refmodel

import (
	"fmt"
	"math/big"
)

// FormatFor returns a fresh point-encoding model for a group of
// harness/internal/groups (by name). GT groups have no model: the property
// does not promise membership for them.
func FormatFor(group string, order *big.Int) (Format, error) {
	switch group {
	case "ed25519", "ed25519-vartime-mul", "edvt-proj", "edvt-ext":
		return Ed{}, nil
	case "p256":
		return &WXY{C: P256, CoefLen: 32, Prefix: 4}, nil
	case "qr512":
		return NewQR(order)
	case "qr43", "qr72":
		for _, rp := range ExtraResidueGroups() {
			if rp.Name == group {
				return NewQRParams(group, rp.P, rp.Q, rp.G)
			}
		}
	case "qr72-r44": // registry instance of harness/internal/groups (P = 44*Q + 1, G = 2^44)
		p, _ := new(big.Int).SetString("811656739243220271677", 10)
		g, _ := new(big.Int).SetString("17592186044416", 10)
		return NewQRParams(group, p, order, g)
	case "bn256-g1":
		return &WXY{C: BN256G1, CoefLen: 32, Prefix: -1}, nil
	case "bn256-g2":
		return &WXY{C: BN256G2, CoefLen: 32, Prefix: -1}, nil
	case "bn254-g1":
		return &WXY{C: BN254G1, CoefLen: 32, Prefix: -1}, nil
	case "bn254-g2":
		return &WXY{C: BN254G2, CoefLen: 32, Prefix: -1}, nil
	case "kilic-g1", "circl-g1", "gnark-g1":
		return &ZC{C: BLSG1}, nil
	case "kilic-g2", "circl-g2", "gnark-g2":
		return &ZC{C: BLSG2}, nil
	}
	return nil, fmt.Errorf("refmodel: no format for group %q", group)
}

// EncodeMul returns the canonical encoding of k*B (B as set by SetBase).
func (f *WXY) EncodeMul(k *big.Int) []byte { return f.Encode(f.C.Mul(k, f.base)) }
func (f *ZC) EncodeMul(k *big.Int) []byte  { return f.Encode(f.C.Mul(k, f.base)) }
func (Ed) EncodeMul(k *big.Int) []byte     { return EdEncode(EdMul(k, EdBase())) }
func (f *QR) EncodeMul(k *big.Int) []byte {
	return beBytes(new(big.Int).Exp(f.G, k, f.P), f.Size())
}

// ResidueParams are Schnorr-group parameters with cofactor R > 2, certified
// with math/big: P, Q prime, P = Q*R+1, G = h^R mod P != 1.
type ResidueParams struct {
	Name       string
	P, Q, R, G *big.Int
}

// ExtraResidueGroups returns the parameter sets the harness instantiates
// with the library's own ResidueGroup.SetParams in addition to the stock
// QR512 suite (whose cofactor 2 makes "square" and "in the subgroup"
// coincide): a tiny one (P = 43, Q = 7, R = 6) whose whole encoding space is
// enumerated, and a DSA-style one with a 65-bit Q found by deterministic search.
func ExtraResidueGroups() []ResidueParams {
	mk := func(name string, p, q *big.Int) ResidueParams {
		r := new(big.Int).Div(new(big.Int).Sub(p, big.NewInt(1)), q)
		g := new(big.Int)
		for h := int64(2); ; h++ {
			g.Exp(big.NewInt(h), r, p)
			if g.Cmp(big.NewInt(1)) != 0 {
				break
			}
		}
		if _, err := NewQRParams(name, p, q, g); err != nil || new(big.Int).Add(new(big.Int).Mul(q, r), big.NewInt(1)).Cmp(p) != 0 || r.Cmp(big.NewInt(2)) <= 0 {
			panic(fmt.Sprintf("refmodel: residue parameters %s not certified: %v", name, err))
		}
		return ResidueParams{Name: name, P: p, Q: q, R: r, G: g}
	}
	out := []ResidueParams{mk("qr43", big.NewInt(43), big.NewInt(7))}
	// Q = first prime above 2^64; R = smallest even cofactor >= 6 with Q*R+1 prime
	q := new(big.Int).Lsh(big.NewInt(1), 64)
	for !q.ProbablyPrime(32) {
		q.Add(q, big.NewInt(1))
	}
	for r := int64(6); ; r += 2 {
		p := new(big.Int).Mul(q, big.NewInt(r))
		p.Add(p, big.NewInt(1))
		if p.ProbablyPrime(32) {
			out = append(out, mk("qr72", p, q))
			break
		}
	}
	return out
}
