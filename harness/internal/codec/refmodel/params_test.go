package refmodel

import "testing"

func TestExtraResidueGroups(t *testing.T) {
	for _, rp := range ExtraResidueGroups() {
		t.Logf("%s P=%s (%d bits) Q=%s R=%s G=%s", rp.Name, rp.P, rp.P.BitLen(), rp.Q, rp.R, rp.G)
	}
}
