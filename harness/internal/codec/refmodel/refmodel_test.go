package refmodel_test

import (
	"bytes"
	"math/big"
	"math/rand"
	"testing"

	"go.dedis.ch/kyber/v4/util/random"
	"verifharness/internal/codec/refmodel"
	"verifharness/internal/groups"
)

func formatFor(t *testing.T, g *groups.Info) refmodel.Format {
	f, err := refmodel.FormatFor(g.Name, g.Order)
	if err != nil {
		t.Fatal(err)
	}
	return f
}

func TestAgainstLibrary(t *testing.T) {
	for _, g := range groups.All() {
		if g.Sort == "GT" {
			continue
		}
		f := formatFor(t, g)
		if f.Size() != g.Group.PointLen() {
			t.Fatalf("%s: size %d vs %d", g.Name, f.Size(), g.Group.PointLen())
		}
		bb, _ := g.Group.Point().Base().MarshalBinary()
		if err := f.SetBase(bb); err != nil {
			t.Fatalf("%s: %v", g.Name, err)
		}
		for i := 0; i < 6; i++ {
			p := g.Group.Point().Pick(random.New())
			b, _ := p.MarshalBinary()
			a := f.Analyse(b)
			if !a.Canonical() || a.Mem != "sub" {
				t.Fatalf("%s: picked point %x analysed as %+v", g.Name, b, a)
			}
		}
		nb, _ := g.Group.Point().Null().MarshalBinary()
		if a := f.Analyse(nb); a.Mem != "id" || !a.Canonical() {
			t.Fatalf("%s: identity %x analysed as %+v", g.Name, nb, a)
		}
		// every candidate that refmodel calls a canonical subgroup member must be what the library produces for some scalar: check k*B
		if enc, ok := f.(interface {
			EncodeMul(k *big.Int) []byte
		}); ok {
			for _, k := range []int64{1, 2, 3, 7, 1 << 40} {
				s := g.Group.Scalar().SetInt64(k)
				want, _ := g.Group.Point().Mul(s, nil).MarshalBinary()
				got := enc.EncodeMul(big.NewInt(k))
				if !bytes.Equal(want, got) {
					t.Fatalf("%s: %d*B: library %x refmodel %x", g.Name, k, want, got)
				}
			}
		}
		r := rand.New(rand.NewSource(1))
		cnt := map[string]int{}
		for _, c := range f.Candidates(r, 4) {
			if len(c) != f.Size() {
				t.Fatalf("%s: candidate of length %d", g.Name, len(c))
			}
			a := f.Analyse(c)
			cnt[a.Range+"/"+a.Mem+"/"+map[bool]string{true: "ok", false: "bad"}[a.FmtOK]+map[bool]string{true: "+alt", false: ""}[a.FlagAlt]]++
		}
		t.Logf("%s: %v", g.Name, cnt)
	}
}
