package refmodel

import "math/big"

// Twisted Edwards curve -x^2 + y^2 = 1 + d x^2 y^2 over GF(2^255-19)
// (RFC 8032), affine coordinates, complete addition law.

type EPoint struct{ X, Y *big.Int }

var (
	EdP = new(big.Int).Sub(new(big.Int).Lsh(big.NewInt(1), 255), big.NewInt(19))
	EdQ = bi("7237005577332262213973186563042994240857116359379907606001950938285454250989", 10)
	EdD *big.Int
)

func init() {
	// d = -121665/121666
	inv := new(big.Int).ModInverse(big.NewInt(121666), EdP)
	EdD = new(big.Int).Mul(big.NewInt(-121665), inv)
	EdD.Mod(EdD, EdP)
}

func edm(v *big.Int) *big.Int { return v.Mod(v, EdP) }

func EdIdentity() EPoint { return EPoint{new(big.Int), big.NewInt(1)} }

func EdOnCurve(p EPoint) bool {
	xx := edm(new(big.Int).Mul(p.X, p.X))
	yy := edm(new(big.Int).Mul(p.Y, p.Y))
	l := edm(new(big.Int).Sub(yy, xx))
	r := edm(new(big.Int).Mul(EdD, edm(new(big.Int).Mul(xx, yy))))
	r = edm(r.Add(r, big.NewInt(1)))
	return l.Cmp(r) == 0
}

func EdAdd(p, q EPoint) EPoint {
	x1y2 := new(big.Int).Mul(p.X, q.Y)
	x2y1 := new(big.Int).Mul(q.X, p.Y)
	y1y2 := new(big.Int).Mul(p.Y, q.Y)
	x1x2 := new(big.Int).Mul(p.X, q.X)
	t := edm(new(big.Int).Mul(EdD, edm(new(big.Int).Mul(x1x2, y1y2))))
	xn := edm(new(big.Int).Add(x1y2, x2y1))
	yn := edm(new(big.Int).Add(y1y2, x1x2))
	xd := edm(new(big.Int).Add(big.NewInt(1), t))
	yd := edm(new(big.Int).Sub(big.NewInt(1), t))
	x := edm(xn.Mul(xn, new(big.Int).ModInverse(xd, EdP)))
	y := edm(yn.Mul(yn, new(big.Int).ModInverse(yd, EdP)))
	return EPoint{x, y}
}

func EdMul(k *big.Int, p EPoint) EPoint {
	r := EdIdentity()
	for i := k.BitLen() - 1; i >= 0; i-- {
		r = EdAdd(r, r)
		if k.Bit(i) == 1 {
			r = EdAdd(r, p)
		}
	}
	return r
}

func EdEqual(p, q EPoint) bool { return p.X.Cmp(q.X) == 0 && p.Y.Cmp(q.Y) == 0 }

func EdIsIdentity(p EPoint) bool { return p.X.Sign() == 0 && p.Y.Cmp(big.NewInt(1)) == 0 }

// EdLiftY returns the x >= 0 representative (even or odd chosen by the caller)
// solving the curve equation for a reduced y, or nil.
func EdLiftY(y *big.Int) *big.Int {
	yy := edm(new(big.Int).Mul(y, y))
	num := edm(new(big.Int).Sub(yy, big.NewInt(1)))
	den := edm(new(big.Int).Add(edm(new(big.Int).Mul(EdD, yy)), big.NewInt(1)))
	if den.Sign() == 0 {
		return nil
	}
	xx := edm(num.Mul(num, new(big.Int).ModInverse(den, EdP)))
	return new(big.Int).ModSqrt(xx, EdP)
}

// EdBase is the standard base point (y = 4/5, x even... x chosen "positive").
func EdBase() EPoint {
	y := new(big.Int).Mul(big.NewInt(4), new(big.Int).ModInverse(big.NewInt(5), EdP))
	y.Mod(y, EdP)
	x := EdLiftY(y)
	if x.Bit(0) == 1 {
		x.Sub(EdP, x)
	}
	return EPoint{x, y}
}

// EdEncode is the RFC 8032 encoding of a reduced point.
func EdEncode(p EPoint) []byte {
	b := reverse(beBytes(p.Y, 32))
	if p.X.Bit(0) == 1 {
		b[31] |= 0x80
	}
	return b
}

// EdRaw places an arbitrary 255-bit y value and sign bit.
func EdRaw(y *big.Int, sign bool) []byte {
	b := reverse(beBytes(y, 32))
	if sign {
		b[31] |= 0x80
	}
	return b
}
