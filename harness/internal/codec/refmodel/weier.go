package refmodel

import (
	"math/big"
	"sync"
)

// WPoint is an affine point of a short Weierstrass curve, or infinity.
type WPoint struct {
	X, Y Fe
	Inf  bool
}

// WCurve is y^2 = x^3 + A x + B over F; Order is the prime order of the
// subgroup kyber works in (equal to the curve order when the cofactor is 1).
type WCurve struct {
	Name      string
	F         Fld
	A, B      Fe
	Order     *big.Int
	Cofactor1 bool
	subCache  sync.Map // affine coordinates -> in subgroup (the check costs a full scalar multiplication)
}

func (c *WCurve) Infinity() WPoint { return WPoint{Inf: true} }

// RHS returns x^3 + A x + B.
func (c *WCurve) RHS(x Fe) Fe {
	f := c.F
	t := f.Mul(f.Sqr(x), x)
	t = f.Add(t, f.Mul(c.A, x))
	return f.Add(t, c.B)
}

// OnCurve reports whether the affine point satisfies the curve equation
// (infinity counts as on the curve).
func (c *WCurve) OnCurve(p WPoint) bool {
	if p.Inf {
		return true
	}
	return c.F.Eq(c.F.Sqr(p.Y), c.RHS(p.X))
}

func (c *WCurve) Neg(p WPoint) WPoint {
	if p.Inf {
		return p
	}
	return WPoint{X: p.X, Y: c.F.Neg(p.Y)}
}

func (c *WCurve) Equal(p, q WPoint) bool {
	if p.Inf || q.Inf {
		return p.Inf == q.Inf
	}
	return c.F.Eq(p.X, q.X) && c.F.Eq(p.Y, q.Y)
}

// Add is the affine chord-and-tangent law (operands must be on the curve).
func (c *WCurve) Add(p, q WPoint) WPoint {
	f := c.F
	if p.Inf {
		return q
	}
	if q.Inf {
		return p
	}
	var lam Fe
	if f.Eq(p.X, q.X) {
		if !f.Eq(p.Y, q.Y) || f.IsZero(p.Y) {
			return c.Infinity()
		}
		num := f.Add(f.Mul(f.Int(3), f.Sqr(p.X)), c.A)
		lam = f.Mul(num, f.Inv(f.Add(p.Y, p.Y)))
	} else {
		lam = f.Mul(f.Sub(q.Y, p.Y), f.Inv(f.Sub(q.X, p.X)))
	}
	x3 := f.Sub(f.Sub(f.Sqr(lam), p.X), q.X)
	y3 := f.Sub(f.Mul(lam, f.Sub(p.X, x3)), p.Y)
	return WPoint{X: x3, Y: y3}
}

// Mul is left-to-right double-and-add with a non-negative scalar.
func (c *WCurve) Mul(k *big.Int, p WPoint) WPoint {
	r := c.Infinity()
	for i := k.BitLen() - 1; i >= 0; i-- {
		r = c.Add(r, r)
		if k.Bit(i) == 1 {
			r = c.Add(r, p)
		}
	}
	return r
}

// InSubgroup reports Order*p = O for a point on the curve.
func (c *WCurve) InSubgroup(p WPoint) bool {
	if p.Inf || c.Cofactor1 {
		return true
	}
	k := ""
	for _, e := range append(append(Fe{}, p.X...), p.Y...) {
		k += e.Text(62) + ","
	}
	if v, ok := c.subCache.Load(k); ok {
		return v.(bool)
	}
	r := c.Mul(c.Order, p).Inf
	c.subCache.Store(k, r)
	return r
}

// Lift returns the two points with the given x, or ok=false when x^3+Ax+B is
// not a square.
func (c *WCurve) Lift(x Fe) (WPoint, WPoint, bool) {
	y := c.F.Sqrt(c.RHS(x))
	if y == nil {
		return WPoint{}, WPoint{}, false
	}
	return WPoint{X: x, Y: y}, WPoint{X: x, Y: c.F.Neg(y)}, true
}

// ---------------------------------------------------------------- parameters

var (
	// NIST P-256 (FIPS 186-4 D.1.2.3)
	P256 = &WCurve{
		Name:  "P-256",
		F:     Fld{P: bi("ffffffff00000001000000000000000000000000ffffffffffffffffffffffff", 16), Deg: 1},
		Order: bi("ffffffff00000000ffffffffffffffffbce6faada7179e84f3b9cac2fc632551", 16), Cofactor1: true,
	}
	// BN curve of golang.org/x/crypto/bn256 / cloudflare (u = 6518589491078791937)
	BN256G1 = &WCurve{
		Name:  "BN256-G1",
		F:     Fld{P: bi("65000549695646603732796438742359905742825358107623003571877145026864184071783", 10), Deg: 1},
		Order: bi("65000549695646603732796438742359905742570406053903786389881062969044166799969", 10), Cofactor1: true,
	}
	BN256G2 = &WCurve{Name: "BN256-G2", F: Fld{P: BN256G1.F.P, Deg: 2}, Order: BN256G1.Order}
	// alt_bn128 (u = 4965661367192848881)
	BN254G1 = &WCurve{
		Name:  "BN254-G1",
		F:     Fld{P: bi("21888242871839275222246405745257275088696311157297823662689037894645226208583", 10), Deg: 1},
		Order: bi("21888242871839275222246405745257275088548364400416034343698204186575808495617", 10), Cofactor1: true,
	}
	BN254G2 = &WCurve{Name: "BN254-G2", F: Fld{P: BN254G1.F.P, Deg: 2}, Order: BN254G1.Order}
	// BLS12-381
	BLSG1 = &WCurve{
		Name:  "BLS12-381-G1",
		F:     Fld{P: bi("1a0111ea397fe69a4b1ba7b6434bacd764774b84f38512bf6730d2a0f6b0f6241eabfffeb153ffffb9feffffffffaaab", 16), Deg: 1},
		Order: bi("73eda753299d7d483339d80809a1d80553bda402fffe5bfeffffffff00000001", 16),
	}
	BLSG2 = &WCurve{Name: "BLS12-381-G2", F: Fld{P: BLSG1.F.P, Deg: 2}, Order: BLSG1.Order}
)

func init() {
	f := P256.F
	P256.A = f.New(big.NewInt(-3))
	P256.B = f.New(bi("5ac635d8aa3a93e7b3ebbd55769886bc651d06b0cc53b0f63bce3c3e27d2604b", 16))
	for _, c := range []*WCurve{BN256G1, BN254G1} {
		c.A = c.F.Zero()
		c.B = c.F.Int(3)
	}
	// sextic twists: y^2 = x^3 + 3/xi with xi = 3+i (BN256) resp. 9+i (alt_bn128)
	for _, t := range []struct {
		c  *WCurve
		xi int64
	}{{BN256G2, 3}, {BN254G2, 9}} {
		f := t.c.F
		t.c.A = f.Zero()
		xi := f.New(big.NewInt(t.xi), big.NewInt(1))
		t.c.B = f.Mul(f.Int(3), f.Inv(xi))
	}
	BLSG1.A = BLSG1.F.Zero()
	BLSG1.B = BLSG1.F.Int(4)
	BLSG2.A = BLSG2.F.Zero()
	BLSG2.B = BLSG2.F.New(big.NewInt(4), big.NewInt(4)) // 4(1+i)
}
