package refmodel

import (
	"fmt"
	"math/big"
	"math/rand"
	"sync"
)

// Analysis is what refmodel certifies about a byte string of exactly the
// encoding size of a format.
type Analysis struct {
	FmtOK   bool   // format byte / flag bits structurally valid
	FlagAlt bool   // sign / flag bits set in a position no canonical encoding uses
	Range   string // "lt" all coordinates < p | "eq" some = p, none above | "gt" some > p | "ff" all coordinate bits set
	Mem     string // of the coordinates reduced mod p: "sub" | "curve" (on curve, outside the prime-order subgroup) | "off" | "id"
}

// Canonical reports whether the string is the canonical encoding of what it denotes.
func (a Analysis) Canonical() bool { return a.FmtOK && !a.FlagAlt && a.Range == "lt" }

// Format is one point encoding.
type Format interface {
	Name() string
	Size() int
	// Analyse certifies a string of length Size().
	Analyse(b []byte) Analysis
	// SetBase hands the format the library's encoding of its base point; it is
	// accepted only if refmodel certifies it as a canonical subgroup member.
	SetBase(b []byte) error
	// Candidates returns strings of length Size() designed to populate every
	// realisable class (the caller buckets them with Analyse).
	Candidates(r *rand.Rand, n int) [][]byte
	// Alternates returns strings of OTHER lengths (mostly twice the size) that
	// some serialisation format of the same group, or a lenient reader, could
	// take for a point: uncompressed x||y forms of subgroup members, of points
	// on the curve outside the subgroup and of off-curve pairs, concatenated
	// and zero-padded encodings. What a decoder makes of them is judged on the
	// value it accepts (re-encoding classified by Analyse).
	Alternates(r *rand.Rand, n int) [][]byte
}

func cat(bs ...[]byte) []byte {
	var out []byte
	for _, b := range bs {
		out = append(out, b...)
	}
	return out
}

// pickBy returns up to n size-length candidates of the format whose analysis satisfies want.
func pickBy(f Format, r *rand.Rand, n int, want func(Analysis) bool) [][]byte {
	var out [][]byte
	for _, c := range f.Candidates(r, 2) {
		if a := f.Analyse(c); a.Canonical() && want(a) {
			out = append(out, c)
			if len(out) == n {
				break
			}
		}
	}
	return out
}

// concatAlternates builds member||member, nonmember||member, member||nonmember and zero-padded forms.
func concatAlternates(f Format, r *rand.Rand, n int) [][]byte {
	mem := pickBy(f, r, n, func(a Analysis) bool { return a.Mem == "sub" })
	non := pickBy(f, r, n, func(a Analysis) bool { return a.Mem == "curve" || a.Mem == "off" })
	var out [][]byte
	for i := range mem {
		out = append(out, cat(mem[i], mem[(i+1)%len(mem)]))
		out = append(out, cat(mem[i], make([]byte, f.Size())), cat(make([]byte, f.Size()), mem[i]))
		if len(non) > 0 {
			out = append(out, cat(non[i%len(non)], mem[i]), cat(mem[i], non[i%len(non)]))
		}
	}
	for i := range non {
		out = append(out, cat(non[i], non[(i+1)%len(non)]), cat(make([]byte, f.Size()), non[i]), cat(non[i], make([]byte, f.Size())))
	}
	return out
}

func rangeOf(coeffs []*big.Int, p *big.Int, bits int) string {
	ff := new(big.Int).Sub(new(big.Int).Lsh(big.NewInt(1), uint(bits)), big.NewInt(1))
	allff, anyGt, anyEq := true, false, false
	for _, c := range coeffs {
		if c.Cmp(ff) != 0 {
			allff = false
		}
		switch c.Cmp(p) {
		case 1:
			anyGt = true
		case 0:
			anyEq = true
		}
	}
	switch {
	case allff:
		return "ff"
	case anyGt:
		return "gt"
	case anyEq:
		return "eq"
	}
	return "lt"
}

func randBelow(r *rand.Rand, n *big.Int) *big.Int {
	b := make([]byte, (n.BitLen()+7)/8+8)
	r.Read(b)
	v := new(big.Int).SetBytes(b)
	return v.Mod(v, n)
}

// ------------------------------------------------------------------ Weierstrass, uncompressed

// WXY is X||Y big-endian with CoefLen bytes per Fp coefficient; for Fp2 the
// imaginary coefficient comes first (kyber's bn256/bn254 layout). With
// Prefix >= 0 a format byte precedes (SEC1 uncompressed, 0x04). The identity
// is encoded as all-zero coordinates.
type WXY struct {
	C       *WCurve
	CoefLen int
	Prefix  int
	base    WPoint
}

func (f *WXY) Name() string { return f.C.Name }
func (f *WXY) Size() int {
	n := 2 * f.C.F.Deg * f.CoefLen
	if f.Prefix >= 0 {
		n++
	}
	return n
}

func (f *WXY) split(b []byte) []*big.Int {
	if f.Prefix >= 0 {
		b = b[1:]
	}
	var out []*big.Int
	for i := 0; i+f.CoefLen <= len(b); i += f.CoefLen {
		out = append(out, new(big.Int).SetBytes(b[i:i+f.CoefLen]))
	}
	return out
}

func (f *WXY) fe(c []*big.Int) Fe {
	if f.C.F.Deg == 1 {
		return f.C.F.New(c[0])
	}
	return f.C.F.New(c[1], c[0]) // bytes: imaginary first
}

func (f *WXY) Analyse(b []byte) Analysis {
	a := Analysis{FmtOK: true}
	if f.Prefix >= 0 && int(b[0]) != f.Prefix {
		a.FmtOK = false
	}
	co := f.split(b)
	a.Range = rangeOf(co, f.C.F.P, 8*f.CoefLen)
	d := f.C.F.Deg
	p := WPoint{X: f.fe(co[:d]), Y: f.fe(co[d:])}
	switch {
	case f.C.F.IsZero(p.X) && f.C.F.IsZero(p.Y):
		a.Mem = "id"
	case !f.C.OnCurve(p):
		a.Mem = "off"
	case f.C.InSubgroup(p):
		a.Mem = "sub"
	default:
		a.Mem = "curve"
	}
	return a
}

// Raw encodes arbitrary (possibly unreduced) coefficient values in byte order.
func (f *WXY) Raw(prefix int, co []*big.Int) []byte {
	var out []byte
	if f.Prefix >= 0 {
		out = append(out, byte(prefix))
	}
	for _, c := range co {
		out = append(out, beBytes(c, f.CoefLen)...)
	}
	return out
}

func (f *WXY) coeffs(p WPoint) []*big.Int {
	if p.Inf {
		z := make([]*big.Int, 2*f.C.F.Deg)
		for i := range z {
			z[i] = new(big.Int)
		}
		return z
	}
	if f.C.F.Deg == 1 {
		return []*big.Int{p.X[0], p.Y[0]}
	}
	return []*big.Int{p.X[1], p.X[0], p.Y[1], p.Y[0]}
}

func (f *WXY) Encode(p WPoint) []byte { return f.Raw(f.Prefix, f.coeffs(p)) }

func (f *WXY) SetBase(b []byte) error {
	if len(b) != f.Size() {
		return fmt.Errorf("%s: base encoding has %d bytes, want %d", f.Name(), len(b), f.Size())
	}
	a := f.Analyse(b)
	if !a.Canonical() || a.Mem != "sub" {
		return fmt.Errorf("%s: library base point not certified (%+v)", f.Name(), a)
	}
	co := f.split(b)
	d := f.C.F.Deg
	f.base = WPoint{X: f.fe(co[:d]), Y: f.fe(co[d:])}
	return nil
}

func (f *WXY) randFe(r *rand.Rand, small bool) Fe {
	e := make(Fe, f.C.F.Deg)
	for i := range e {
		if small {
			e[i] = big.NewInt(int64(r.Intn(4000)))
		} else {
			e[i] = randBelow(r, f.C.F.P)
		}
	}
	return e
}

func (f *WXY) Candidates(r *rand.Rand, n int) [][]byte {
	var out [][]byte
	p := f.C.F.P
	maxv := new(big.Int).Lsh(big.NewInt(1), uint(8*f.CoefLen))
	// reduced-level points of every membership kind
	var pts []WPoint
	for i := 0; i < n; i++ {
		pts = append(pts, f.C.Mul(randBelow(r, f.C.Order), f.base)) // subgroup members
	}
	for i := 0; i < 6*n; i++ { // on the curve: random x, and small x (so that x+p still fits)
		if a, b, ok := f.C.Lift(f.randFe(r, i%2 == 1)); ok {
			if r.Intn(2) == 0 {
				a = b
			}
			pts = append(pts, a)
		}
	}
	for i := 0; i < n; i++ { // off the curve
		q := f.C.Mul(randBelow(r, f.C.Order), f.base)
		q.Y = f.C.F.Add(q.Y, f.C.F.Int(1))
		pts = append(pts, q)
		pts = append(pts, WPoint{X: f.randFe(r, i%2 == 1), Y: f.randFe(r, false)})
		if d := f.C.F.Deg; d > 1 {
			// off the curve in only part of the components of y^2 - x^3 - b: one component of one coordinate
			// of a member negated (over Fp2: the conjugate, or minus the conjugate, of that coordinate)
			m := f.C.Mul(randBelow(r, f.C.Order), f.base)
			x, y := append(Fe{}, m.X...), append(Fe{}, m.Y...)
			c := (i + 2*d - 1) % (2 * d) // y components first
			t := y
			if c < d {
				t = x
			}
			if t[c%d].Sign() != 0 {
				t[c%d] = new(big.Int).Sub(p, t[c%d])
				pts = append(pts, WPoint{X: x, Y: y})
			}
		}
	}
	pts = append(pts, f.C.Infinity())
	badPrefix := []int{0, 2, 3, 5, 6, 7, 0x84, 0xff}
	for i, q := range pts {
		co := f.coeffs(q)
		out = append(out, f.Raw(f.Prefix, co))
		if f.Prefix >= 0 {
			out = append(out, f.Raw(badPrefix[i%len(badPrefix)], co))
		}
		// unreduced variants: add p (or 2p, 3p) to one coefficient, or to all that fit
		for j := range co {
			for k := int64(1); k <= 3; k++ {
				v := new(big.Int).Add(co[j], new(big.Int).Mul(big.NewInt(k), p))
				if v.Cmp(maxv) >= 0 {
					break
				}
				c2 := append([]*big.Int{}, co...)
				c2[j] = v
				out = append(out, f.Raw(f.Prefix, c2))
				if f.Prefix >= 0 && (i+j)%3 == 0 {
					out = append(out, f.Raw(badPrefix[(i+j)%len(badPrefix)], c2))
				}
			}
		}
		all := make([]*big.Int, len(co))
		fits := true
		for j := range co {
			all[j] = new(big.Int).Add(co[j], p)
			if all[j].Cmp(maxv) >= 0 {
				fits = false
			}
		}
		if fits {
			out = append(out, f.Raw(f.Prefix, all))
		}
	}
	// coefficient exactly p (reduces to 0) combined with everything that goes with a zero coordinate
	ff := new(big.Int).Sub(maxv, big.NewInt(1))
	nco := 2 * f.C.F.Deg
	for j := 0; j < nco; j++ {
		for i := 0; i < n; i++ {
			co := make([]*big.Int, nco)
			for k := range co {
				co[k] = randBelow(r, p)
			}
			co[j] = new(big.Int).Set(p)
			out = append(out, f.Raw(f.Prefix, co))
		}
	}
	// x = 0 (or p): solve for y where possible
	if a, b, ok := f.C.Lift(f.C.F.Zero()); ok {
		for _, q := range []WPoint{a, b} {
			co := f.coeffs(q)
			for j := 0; j < f.C.F.Deg; j++ {
				c2 := append([]*big.Int{}, co...)
				c2[j] = new(big.Int).Set(p)
				out = append(out, f.Raw(f.Prefix, c2))
			}
			c3 := append([]*big.Int{}, co...)
			for j := 0; j < f.C.F.Deg; j++ {
				c3[j] = new(big.Int).Set(p)
			}
			out = append(out, f.Raw(f.Prefix, c3))
			if f.Prefix >= 0 {
				for _, bp := range badPrefix {
					out = append(out, f.Raw(bp, c3))
				}
			}
		}
	}
	// identity with every coordinate = p, all-ff
	allp := make([]*big.Int, nco)
	allf := make([]*big.Int, nco)
	for k := range allp {
		allp[k] = new(big.Int).Set(p)
		allf[k] = new(big.Int).Set(ff)
	}
	out = append(out, f.Raw(f.Prefix, allp), f.Raw(f.Prefix, allf))
	if f.Prefix >= 0 {
		for _, bp := range badPrefix {
			out = append(out, f.Raw(bp, allp), f.Raw(bp, allf))
		}
	}
	return out
}

func (f *WXY) Alternates(r *rand.Rand, n int) [][]byte { return concatAlternates(f, r, n) }

// ------------------------------------------------------------------ zcash compressed (BLS12-381)

// ZC is the zcash compressed encoding: x big-endian (for Fp2: c1 || c0), the
// three top bits of the first byte are flags: 0x80 compressed, 0x40 infinity,
// 0x20 y is the lexicographically larger root.
type ZC struct {
	C    *WCurve
	base WPoint
}

const zcCoef = 48

func (f *ZC) Name() string { return f.C.Name }
func (f *ZC) Size() int    { return zcCoef * f.C.F.Deg }

func (f *ZC) xcoeffs(b []byte) []*big.Int {
	c := make([]byte, len(b))
	copy(c, b)
	c[0] &= 0x1f
	var out []*big.Int
	for i := 0; i < len(c); i += zcCoef {
		out = append(out, new(big.Int).SetBytes(c[i:i+zcCoef]))
	}
	return out
}

func (f *ZC) fe(c []*big.Int) Fe {
	if f.C.F.Deg == 1 {
		return f.C.F.New(c[0])
	}
	return f.C.F.New(c[1], c[0]) // bytes: c1 first
}

// larger reports whether y is lexicographically larger than -y.
func (f *ZC) larger(y Fe) bool {
	ny := f.C.F.Neg(y)
	for i := len(y) - 1; i >= 0; i-- {
		if c := y[i].Cmp(ny[i]); c != 0 {
			return c > 0
		}
	}
	return false
}

func (f *ZC) Analyse(b []byte) Analysis {
	a := Analysis{FmtOK: true}
	comp, inf, sort := b[0]&0x80 != 0, b[0]&0x40 != 0, b[0]&0x20 != 0
	co := f.xcoeffs(b)
	a.Range = rangeOf(co, f.C.F.P, 381)
	if !comp {
		a.FmtOK = false
	}
	x := f.fe(co)
	if inf {
		zero := true
		for _, c := range co {
			if c.Sign() != 0 {
				zero = false
			}
		}
		if zero {
			a.Mem = "id"
			a.FlagAlt = sort
			return a
		}
		a.FmtOK = false // infinity flag on a non-zero body
	}
	p1, _, ok := f.C.Lift(x)
	switch {
	case !ok:
		a.Mem = "off"
	case f.C.InSubgroup(p1):
		a.Mem = "sub"
	default:
		a.Mem = "curve"
	}
	return a
}

func (f *ZC) Raw(flags byte, co []*big.Int) []byte {
	var out []byte
	for _, c := range co {
		out = append(out, beBytes(c, zcCoef)...)
	}
	out[0] |= flags
	return out
}

func (f *ZC) xco(p WPoint) []*big.Int {
	if f.C.F.Deg == 1 {
		return []*big.Int{p.X[0]}
	}
	return []*big.Int{p.X[1], p.X[0]}
}

func (f *ZC) Encode(p WPoint) []byte {
	if p.Inf {
		z := make([]byte, f.Size())
		z[0] = 0xc0
		return z
	}
	fl := byte(0x80)
	if f.larger(p.Y) {
		fl |= 0x20
	}
	return f.Raw(fl, f.xco(p))
}

func (f *ZC) SetBase(b []byte) error {
	if len(b) != f.Size() {
		return fmt.Errorf("%s: base encoding has %d bytes, want %d", f.Name(), len(b), f.Size())
	}
	a := f.Analyse(b)
	if !a.Canonical() || a.Mem != "sub" {
		return fmt.Errorf("%s: library base point not certified (%+v)", f.Name(), a)
	}
	p1, p2, _ := f.C.Lift(f.fe(f.xcoeffs(b)))
	if f.larger(p1.Y) != (b[0]&0x20 != 0) {
		p1 = p2
	}
	f.base = p1
	return nil
}

func (f *ZC) Candidates(r *rand.Rand, n int) [][]byte {
	var out [][]byte
	p := f.C.F.P
	maxv := new(big.Int).Lsh(big.NewInt(1), 381)
	type cand struct {
		co   []*big.Int
		sort bool
	}
	var cs []cand
	for i := 0; i < 2*n; i++ {
		q := f.C.Mul(randBelow(r, f.C.Order), f.base)
		cs = append(cs, cand{f.xco(q), f.larger(q.Y)})
	}
	for i := 0; i < 8*n; i++ { // random x: about half on the curve (outside the subgroup), half off
		x := make(Fe, f.C.F.Deg)
		for j := range x {
			x[j] = randBelow(r, p)
		}
		q := WPoint{X: x}
		cs = append(cs, cand{f.xco(q), r.Intn(2) == 0})
	}
	for _, c := range cs {
		fl := byte(0x80)
		if c.sort {
			fl |= 0x20
		}
		out = append(out, f.Raw(fl, c.co))
		out = append(out, f.Raw(fl&^0x80, c.co)) // compression flag missing
		out = append(out, f.Raw(fl|0x40, c.co))  // infinity flag on a non-zero body
		for j := range c.co {
			v := new(big.Int).Add(c.co[j], p)
			if v.Cmp(maxv) < 0 {
				c2 := append([]*big.Int{}, c.co...)
				c2[j] = v
				out = append(out, f.Raw(fl, c2), f.Raw(fl&^0x80, c2))
			}
		}
	}
	nco := f.C.F.Deg
	zero := make([]*big.Int, nco)
	allp := make([]*big.Int, nco)
	allf := make([]*big.Int, nco)
	for k := range zero {
		zero[k] = new(big.Int)
		allp[k] = new(big.Int).Set(p)
		allf[k] = new(big.Int).Sub(maxv, big.NewInt(1))
	}
	for _, fl := range []byte{0xc0, 0xe0, 0x40, 0x60, 0x80, 0xa0, 0x00, 0x20} {
		out = append(out, f.Raw(fl, zero), f.Raw(fl, allp), f.Raw(fl, allf))
		for j := 0; j < nco; j++ {
			for i := 0; i < n; i++ {
				co := make([]*big.Int, nco)
				for k := range co {
					co[k] = randBelow(r, p)
				}
				co[j] = new(big.Int).Set(p)
				out = append(out, f.Raw(fl, co))
			}
		}
	}
	return out
}

// Uncompressed returns x||y (for Fp2: c1||c0 per coordinate, or c0||c1 with c0first) with the given flag bits.
func (f *ZC) Uncompressed(p WPoint, flags byte, c0first bool) []byte {
	co := func(e Fe) []byte {
		if f.C.F.Deg == 1 {
			return beBytes(e[0], zcCoef)
		}
		if c0first {
			return cat(beBytes(e[0], zcCoef), beBytes(e[1], zcCoef))
		}
		return cat(beBytes(e[1], zcCoef), beBytes(e[0], zcCoef))
	}
	out := cat(co(p.X), co(p.Y))
	out[0] |= flags
	return out
}

func (f *ZC) Alternates(r *rand.Rand, n int) [][]byte {
	var pts []WPoint
	for i := 0; i < n; i++ {
		pts = append(pts, f.C.Mul(randBelow(r, f.C.Order), f.base)) // subgroup member
	}
	for len(pts) < 3*n { // on the curve, outside the subgroup: lift a random x (no cofactor clearing)
		x := make(Fe, f.C.F.Deg)
		for j := range x {
			x[j] = randBelow(r, f.C.F.P)
		}
		if a, b, ok := f.C.Lift(x); ok && !f.C.InSubgroup(a) {
			if r.Intn(2) == 0 {
				a = b
			}
			pts = append(pts, a)
		}
	}
	for i := 0; i < n; i++ { // off the curve
		q := f.C.Mul(randBelow(r, f.C.Order), f.base)
		q.Y = f.C.F.Add(q.Y, f.C.F.Int(1))
		pts = append(pts, q)
	}
	var out [][]byte
	for i, p := range pts {
		out = append(out, f.Uncompressed(p, 0, false))
		if f.C.F.Deg == 2 {
			out = append(out, f.Uncompressed(p, 0, true))
		}
		if i%2 == 0 {
			out = append(out, f.Uncompressed(p, 0x20, false), f.Uncompressed(p, 0x80, false))
		}
	}
	inf := make([]byte, 2*f.Size())
	out = append(out, append([]byte{}, inf...)) // raw (0,0)
	inf[0] = 0x40
	out = append(out, inf) // uncompressed infinity
	return append(out, concatAlternates(f, r, n)...)
}

// ------------------------------------------------------------------ Ed25519

type Ed struct{}

var edSubCache sync.Map // reduced (x, y) -> q*P == identity

func (Ed) Name() string { return "Ed25519" }
func (Ed) Size() int    { return 32 }

func (Ed) Analyse(b []byte) Analysis {
	a := Analysis{FmtOK: true}
	sign := b[31]&0x80 != 0
	c := reverse(b)
	c[0] &= 0x7f
	yraw := new(big.Int).SetBytes(c)
	a.Range = rangeOf([]*big.Int{yraw}, EdP, 255)
	y := new(big.Int).Mod(yraw, EdP)
	x := EdLiftY(y)
	if x == nil {
		a.Mem = "off"
		return a
	}
	if x.Sign() == 0 && sign {
		a.FlagAlt = true // "-0"
	}
	if (x.Bit(0) == 1) != sign && x.Sign() != 0 {
		x.Sub(EdP, x)
	}
	p := EPoint{x, y}
	switch {
	case EdIsIdentity(p):
		a.Mem = "id"
	case edInSubgroup(p):
		a.Mem = "sub"
	default:
		a.Mem = "curve"
	}
	return a
}

func edInSubgroup(p EPoint) bool {
	k := p.X.Text(62) + "," + p.Y.Text(62)
	if v, ok := edSubCache.Load(k); ok {
		return v.(bool)
	}
	r := EdIsIdentity(EdMul(EdQ, p))
	edSubCache.Store(k, r)
	return r
}

func (Ed) SetBase(b []byte) error {
	want := EdEncode(EdBase())
	if string(want) != string(b) {
		return fmt.Errorf("Ed25519: library base point %x differs from RFC 8032 base %x", b, want)
	}
	return nil
}

func (e Ed) Candidates(r *rand.Rand, n int) [][]byte {
	var out [][]byte
	base := EdBase()
	// torsion points: the order-8 component of random curve points
	var tors []EPoint
	for len(tors) < 8 {
		y := randBelow(r, EdP)
		x := EdLiftY(y)
		if x == nil {
			continue
		}
		t := EdMul(EdQ, EPoint{x, y})
		dup := false
		for _, u := range tors {
			if EdEqual(u, t) {
				dup = true
			}
		}
		if !dup {
			tors = append(tors, t)
		}
	}
	for i := 0; i < 2*n; i++ {
		m := EdMul(randBelow(r, EdQ), base)
		out = append(out, EdEncode(m))
		out = append(out, EdEncode(EdAdd(m, tors[i%len(tors)]))) // mixed order
	}
	for _, t := range tors {
		out = append(out, EdEncode(t))
		fl := EdEncode(t)
		fl[31] ^= 0x80
		out = append(out, fl)
	}
	for i := 0; i < 6*n; i++ { // random y: half on the curve
		out = append(out, EdRaw(randBelow(r, EdP), r.Intn(2) == 0))
	}
	// every unreduced y: p .. 2^255-1, both signs; every small y, both signs
	for k := int64(0); k < 19; k++ {
		yk := big.NewInt(k)
		yp := new(big.Int).Add(EdP, yk)
		for _, s := range []bool{false, true} {
			out = append(out, EdRaw(yk, s), EdRaw(yp, s))
		}
	}
	// y = p-1 (x = 0 as well: the point of order 2)
	pm1 := new(big.Int).Sub(EdP, big.NewInt(1))
	out = append(out, EdRaw(pm1, false), EdRaw(pm1, true))
	return out
}

func (e Ed) Alternates(r *rand.Rand, n int) [][]byte {
	out := concatAlternates(e, r, n)
	for i := 0; i < n; i++ { // both coordinates, little-endian: x||y and y||x, on and off the curve
		p := EdMul(randBelow(r, EdQ), EdBase())
		x, y := reverse(beBytes(p.X, 32)), reverse(beBytes(p.Y, 32))
		out = append(out, cat(x, y), cat(y, x))
		y2 := reverse(beBytes(new(big.Int).Mod(new(big.Int).Add(p.Y, big.NewInt(1)), EdP), 32))
		out = append(out, cat(x, y2), cat(y2, x))
	}
	return out
}

// ------------------------------------------------------------------ Schnorr group of quadratic residues

// QR is the subgroup of order Q of Z_P^*, P = Q*R+1 (Schnorr / DSA-style
// group), generated by G; elements are encoded as fixed-width big-endian
// integers. R = 2 gives the group of quadratic residues.
type QR struct {
	Label   string
	P, Q, G *big.Int
}

// NewQR is the residue group with cofactor 2 and generator 4 (kyber's QR512).
func NewQR(q *big.Int) (*QR, error) {
	p := new(big.Int).Lsh(q, 1)
	p.Add(p, big.NewInt(1))
	return NewQRParams("QR", p, q, big.NewInt(4))
}

// NewQRParams certifies the parameters with math/big: P and Q prime,
// Q | P-1, G != 1 of order Q.
func NewQRParams(label string, p, q, g *big.Int) (*QR, error) {
	if !p.ProbablyPrime(32) || !q.ProbablyPrime(32) {
		return nil, fmt.Errorf("%s: P or Q not prime", label)
	}
	pm1 := new(big.Int).Sub(p, big.NewInt(1))
	if new(big.Int).Mod(pm1, q).Sign() != 0 {
		return nil, fmt.Errorf("%s: Q does not divide P-1", label)
	}
	if g.Cmp(big.NewInt(1)) <= 0 || g.Cmp(p) >= 0 || new(big.Int).Exp(g, q, p).Cmp(big.NewInt(1)) != 0 {
		return nil, fmt.Errorf("%s: G is not an element of order Q", label)
	}
	return &QR{Label: label, P: p, Q: q, G: g}, nil
}

// Cofactor returns R = (P-1)/Q.
func (f *QR) Cofactor() *big.Int {
	return new(big.Int).Div(new(big.Int).Sub(f.P, big.NewInt(1)), f.Q)
}

func (f *QR) Name() string { return f.Label }
func (f *QR) Size() int    { return (f.P.BitLen() + 7) / 8 }

func (f *QR) Analyse(b []byte) Analysis {
	a := Analysis{FmtOK: true}
	v := new(big.Int).SetBytes(b)
	a.Range = rangeOf([]*big.Int{v}, f.P, 8*f.Size())
	x := new(big.Int).Mod(v, f.P)
	switch {
	case x.Sign() == 0:
		a.Mem = "off" // not a unit
	case x.Cmp(big.NewInt(1)) == 0:
		a.Mem = "id"
	case new(big.Int).Exp(x, f.Q, f.P).Cmp(big.NewInt(1)) == 0:
		a.Mem = "sub"
	default:
		a.Mem = "curve" // a unit outside the order-Q subgroup
	}
	return a
}

func (f *QR) SetBase(b []byte) error {
	a := f.Analyse(b)
	if len(b) != f.Size() || !a.Canonical() || a.Mem != "sub" {
		return fmt.Errorf("%s: library base point not certified (%+v)", f.Label, a)
	}
	return nil
}

func (f *QR) Candidates(r *rand.Rand, n int) [][]byte {
	var out [][]byte
	sz := f.Size()
	maxv := new(big.Int).Lsh(big.NewInt(1), uint(8*sz))
	if sz == 1 { // tiny group: every one-byte string
		for v := 0; v < 256; v++ {
			out = append(out, []byte{byte(v)})
		}
		return out
	}
	one := big.NewInt(1)
	// a non-square, to build non-squares from squares
	ns := big.NewInt(2)
	for big.Jacobi(ns, f.P) != -1 {
		ns.Add(ns, one)
	}
	var vals []*big.Int
	for i := 0; i < 4*n; i++ {
		k := randBelow(r, f.Q)
		vals = append(vals, new(big.Int).Exp(f.G, k, f.P)) // subgroup member
		v := randBelow(r, f.P)
		if i%3 == 2 {
			v.Rsh(v, 3)
		}
		sq := new(big.Int).Mul(v, v)
		sq.Mod(sq, f.P)
		vals = append(vals, sq) // square: in the subgroup iff R = 2 (otherwise almost never)
		nsq := new(big.Int).Mul(sq, ns)
		vals = append(vals, nsq.Mod(nsq, f.P))                      // non-square
		vals = append(vals, new(big.Int).Rsh(randBelow(r, f.P), 2)) // small random, so that v+P fits
	}
	// small members, so that member + P fits in the encoding width
	for i := 0; len(vals) < 40*n && i < 4000*n; i++ {
		m := new(big.Int).Exp(f.G, randBelow(r, f.Q), f.P)
		if new(big.Int).Add(m, f.P).Cmp(maxv) < 0 {
			vals = append(vals, m)
			if i > 200 && len(vals) > 24*n {
				break
			}
		}
	}
	vals = append(vals, new(big.Int), big.NewInt(1), big.NewInt(2), big.NewInt(3), big.NewInt(4), new(big.Int).Sub(f.P, one))
	for _, v := range vals {
		out = append(out, beBytes(v, sz))
		w := new(big.Int).Add(v, f.P)
		if w.Cmp(maxv) < 0 {
			out = append(out, beBytes(w, sz))
		}
	}
	out = append(out, beBytes(new(big.Int).Sub(maxv, one), sz))
	return out
}

func (f *QR) Alternates(r *rand.Rand, n int) [][]byte {
	sz := f.Size()
	var out [][]byte
	if sz == 1 {
		return nil // the tiny group's short strings are enumerated exhaustively
	}
	for i := 0; i < 2*n; i++ { // big-endian integers with leading zeros, twice as wide
		m := new(big.Int).Exp(f.G, randBelow(r, f.Q), f.P)
		out = append(out, beBytes(m, 2*sz))
		v := randBelow(r, f.P)
		out = append(out, beBytes(v, 2*sz)) // mostly outside the subgroup when R > 2, half when R = 2
	}
	out = append(out, beBytes(new(big.Int), 2*sz), beBytes(big.NewInt(1), 2*sz), beBytes(f.P, 2*sz))
	return append(out, concatAlternates(f, r, n)...)
}
