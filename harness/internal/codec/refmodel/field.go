// Package refmodel is an independent arbitrary-precision model of the
// groups kyber exposes: prime fields and their quadratic extensions
// Fp[i]/(i^2+1), short Weierstrass curves over either, the twisted Edwards
// curve of Ed25519 and the Schnorr group of quadratic residues. It shares no
// code with kyber: only math/big. It is used to *certify* what a byte string
// denotes (coordinate ranges, on-curve, subgroup membership) before the
// string is fed to the library's decoders.
package refmodel

import (
	"math/big"
)

// Fe is an element of Fp (len 1) or Fp2 (len 2: Fe[0] + Fe[1]*i, i^2 = -1).
type Fe []*big.Int

// Fld is Fp (Deg 1) or Fp2 = Fp[i]/(i^2+1) (Deg 2; needs p = 3 mod 4).
type Fld struct {
	P   *big.Int
	Deg int
}

func bi(s string, base int) *big.Int {
	v, ok := new(big.Int).SetString(s, base)
	if !ok {
		panic("refmodel: bad constant " + s)
	}
	return v
}

func (f Fld) mod(v *big.Int) *big.Int { return v.Mod(v, f.P) }

// New builds an element from integers (reduced mod p).
func (f Fld) New(c ...*big.Int) Fe {
	e := make(Fe, f.Deg)
	for i := range e {
		e[i] = new(big.Int)
		if i < len(c) {
			e[i].Mod(c[i], f.P)
		}
	}
	return e
}

func (f Fld) Int(v int64) Fe { return f.New(big.NewInt(v)) }

func (f Fld) Zero() Fe { return f.New() }

func (f Fld) IsZero(a Fe) bool {
	for _, c := range a {
		if c.Sign() != 0 {
			return false
		}
	}
	return true
}

func (f Fld) Eq(a, b Fe) bool {
	for i := range a {
		if a[i].Cmp(b[i]) != 0 {
			return false
		}
	}
	return true
}

func (f Fld) Add(a, b Fe) Fe {
	r := make(Fe, f.Deg)
	for i := range r {
		r[i] = f.mod(new(big.Int).Add(a[i], b[i]))
	}
	return r
}

func (f Fld) Sub(a, b Fe) Fe {
	r := make(Fe, f.Deg)
	for i := range r {
		r[i] = f.mod(new(big.Int).Sub(a[i], b[i]))
	}
	return r
}

func (f Fld) Neg(a Fe) Fe { return f.Sub(f.Zero(), a) }

func (f Fld) Mul(a, b Fe) Fe {
	if f.Deg == 1 {
		return Fe{f.mod(new(big.Int).Mul(a[0], b[0]))}
	}
	// (a0 + a1 i)(b0 + b1 i) = a0b0 - a1b1 + (a0b1 + a1b0) i
	t0 := new(big.Int).Mul(a[0], b[0])
	t1 := new(big.Int).Mul(a[1], b[1])
	re := f.mod(new(big.Int).Sub(t0, t1))
	u0 := new(big.Int).Mul(a[0], b[1])
	u1 := new(big.Int).Mul(a[1], b[0])
	im := f.mod(new(big.Int).Add(u0, u1))
	return Fe{re, im}
}

func (f Fld) Sqr(a Fe) Fe { return f.Mul(a, a) }

// Inv returns 1/a (a must be non-zero).
func (f Fld) Inv(a Fe) Fe {
	if f.Deg == 1 {
		return Fe{new(big.Int).ModInverse(a[0], f.P)}
	}
	// 1/(a0 + a1 i) = (a0 - a1 i)/(a0^2 + a1^2)
	n := new(big.Int).Mul(a[0], a[0])
	n.Add(n, new(big.Int).Mul(a[1], a[1]))
	n.Mod(n, f.P)
	ni := new(big.Int).ModInverse(n, f.P)
	re := f.mod(new(big.Int).Mul(a[0], ni))
	im := f.mod(new(big.Int).Mul(new(big.Int).Neg(a[1]), ni))
	return Fe{re, im}
}

// sqrtP returns a square root of v mod p, or nil.
func (f Fld) sqrtP(v *big.Int) *big.Int {
	r := new(big.Int).ModSqrt(new(big.Int).Mod(v, f.P), f.P)
	return r
}

// Sqrt returns some square root of a, or nil if a is not a square.
// The result is verified by squaring.
func (f Fld) Sqrt(a Fe) Fe {
	if f.Deg == 1 {
		r := f.sqrtP(a[0])
		if r == nil {
			return nil
		}
		return Fe{r}
	}
	if f.IsZero(a) {
		return f.Zero()
	}
	// complex method: a = a0 + a1 i. |a| = a0^2 + a1^2 must be a square s^2 in Fp;
	// x0^2 = (a0 + s)/2 (or (a0 - s)/2), x1 = a1 / (2 x0).
	if a[1].Sign() == 0 {
		if r := f.sqrtP(a[0]); r != nil {
			return Fe{r, new(big.Int)}
		}
		// sqrt(a0) = i * sqrt(-a0)
		r := f.sqrtP(new(big.Int).Neg(a[0]))
		if r == nil {
			return nil
		}
		return Fe{new(big.Int), r}
	}
	n := new(big.Int).Mul(a[0], a[0])
	n.Add(n, new(big.Int).Mul(a[1], a[1]))
	s := f.sqrtP(n)
	if s == nil {
		return nil
	}
	inv2 := new(big.Int).ModInverse(big.NewInt(2), f.P)
	for k := 0; k < 2; k++ {
		t := new(big.Int)
		if k == 0 {
			t.Add(a[0], s)
		} else {
			t.Sub(a[0], s)
		}
		t.Mul(t, inv2).Mod(t, f.P)
		x0 := f.sqrtP(t)
		if x0 == nil || x0.Sign() == 0 {
			continue
		}
		d := new(big.Int).Lsh(x0, 1)
		d.ModInverse(d.Mod(d, f.P), f.P)
		x1 := f.mod(new(big.Int).Mul(a[1], d))
		r := Fe{x0, x1}
		if f.Eq(f.Sqr(r), f.New(a[0], a[1])) {
			return r
		}
	}
	return nil
}

// Bytes returns the big-endian fixed-width encoding of one coefficient.
func beBytes(v *big.Int, n int) []byte {
	b := v.Bytes()
	if len(b) > n {
		panic("refmodel: value does not fit")
	}
	out := make([]byte, n)
	copy(out[n-len(b):], b)
	return out
}

func reverse(b []byte) []byte {
	out := make([]byte, len(b))
	for i := range b {
		out[len(b)-1-i] = b[i]
	}
	return out
}
