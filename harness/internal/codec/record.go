package codec

import (
	"bufio"
	"bytes"
	"encoding/json"
	"fmt"
	"os"
	"runtime"
	"sort"
	"sync"

	"verifharness/internal/core"
	"verifharness/internal/groups"
)

// Event is one line of a recorded trace (DESIGN 3.2a).
type Event struct {
	Obj   string         `json:"obj"`
	Seq   int            `json:"seq"`
	Ev    string         `json:"ev"`
	Args  map[string]any `json:"args"`
	Ret   string         `json:"ret"`
	State map[string]any `json:"state"`
	N     int            `json:"n,omitempty"` // how many concrete runs produced exactly this abstract object
}

// object is the event sequence of one fed input.
type object struct {
	Group, Kind, Subject string
	ClsShort             string
	Events               []Event
	Input                []byte
	Path                 string
	Note                 string
	count                int
}

func (o *object) signature() string {
	var b bytes.Buffer
	b.WriteString(o.Group + "|" + o.Kind + "|" + o.Subject)
	for _, e := range o.Events {
		a, _ := json.Marshal(e.Args)
		s, _ := json.Marshal(e.State)
		fmt.Fprintf(&b, "|%s:%s:%s:%s", e.Ev, a, e.Ret, s)
	}
	return b.String()
}

// traceWriter merges identical abstract objects and writes the trace plus a
// side file mapping trace lines back to concrete inputs.
type traceWriter struct {
	mu   sync.Mutex
	objs map[string]*object
}

func newTraceWriter() *traceWriter { return &traceWriter{objs: map[string]*object{}} }

func (t *traceWriter) add(o *object) {
	sig := o.signature()
	t.mu.Lock()
	if e, ok := t.objs[sig]; ok {
		e.count++
	} else {
		o.count = 1
		t.objs[sig] = o
	}
	t.mu.Unlock()
}

type metaEntry struct {
	First   int    `json:"first"` // 1-based line of the object's reset event
	Lines   int    `json:"lines"`
	Group   string `json:"group"`
	Kind    string `json:"kind"`
	Subject string `json:"subject"`
	Class   string `json:"class"`
	Input   string `json:"input_hex"`
	Path    string `json:"path"`
	Note    string `json:"note,omitempty"`
	Count   int    `json:"count"`
}

// write emits the merged objects in a stable order; corrupt > 0 rewrites the
// ret of the first Use event (binding self-test) and returns its line.
func (t *traceWriter) write(path string, corrupt bool) (objects, lines, runs, corruptedLine int, err error) {
	var sigs []string
	for s := range t.objs {
		sigs = append(sigs, s)
	}
	sort.Strings(sigs)
	f, err := os.Create(path)
	if err != nil {
		return
	}
	defer f.Close()
	w := bufio.NewWriter(f)
	var meta []metaEntry
	line := 0
	for i, s := range sigs {
		o := t.objs[s]
		id := fmt.Sprintf("%s/%s#%d", o.Group, o.Kind, i)
		first := line + 1
		evs := append([]Event{{Ev: "reset", Args: map[string]any{"subject": o.Subject}, Ret: "", State: map[string]any{}}}, o.Events...)
		for j := range evs {
			evs[j].Obj, evs[j].Seq, evs[j].N = id, j, o.count
			if evs[j].State == nil {
				evs[j].State = map[string]any{}
			}
			if evs[j].Args == nil {
				evs[j].Args = map[string]any{}
			}
			line++
			if corrupt && corruptedLine == 0 && evs[j].Ev == "Use" && evs[j].Ret == "ok" {
				evs[j].Ret = "crash"
				corruptedLine = line
			}
			b, _ := json.Marshal(evs[j])
			w.Write(b)
			w.WriteByte('\n')
		}
		meta = append(meta, metaEntry{First: first, Lines: len(evs), Group: o.Group, Kind: o.Kind, Subject: o.Subject, Class: o.ClsShort,
			Input: hexs(o.Input), Path: o.Path, Note: o.Note, Count: o.count})
		runs += o.count
	}
	if err = w.Flush(); err != nil {
		return
	}
	mb, _ := json.Marshal(meta)
	err = os.WriteFile(path+".meta.json", mb, 0o644)
	return len(sigs), line, runs, corruptedLine, err
}

// recordInputs assembles what is fed to one group's decoder in the recorded
// direction: every witness of the pool, every single-bit flip of valid
// encodings (sampled for formats whose certification is slow), every
// truncation, extensions, all-00/ff and random strings of lengths 0..2*size+40.
func recordInputs(g *groups.Info, kind string, pool *Pool, seed int64, thorough bool) [][]byte {
	var in [][]byte
	for _, c := range pool.Classes() {
		for _, w := range pool.By[c] {
			in = append(in, w.B)
		}
	}
	rng := core.Rng(seed, "record", g.Name, kind)
	size := pool.Size
	if tinyGroup(g) && kind == "point" { // the whole space of short strings: lengths 0..2, and length 3 with a leading zero
		in = append(in, []byte{})
		for v := 0; v < 1<<16; v++ {
			if v < 256 {
				in = append(in, []byte{byte(v)})
			}
			in = append(in, []byte{byte(v >> 8), byte(v)}, []byte{0, byte(v >> 8), byte(v)})
		}
	}
	var valid [][]byte
	if kind == "point" {
		valid = validPoints(g, seed+7, 3)
	} else {
		st := seedStream(seed+7, "recscalar", g.Name)
		for i := 0; i < 3; i++ {
			b, _ := g.Group.Scalar().Pick(st).MarshalBinary()
			valid = append(valid, b)
		}
	}
	slow := kind == "point" && (g.Sort == "G2" || g.Family == "bls12381" || g.Family == "ed25519")
	nv := 1
	if thorough {
		nv = 2
	}
	for vi := 0; vi < nv && vi < len(valid); vi++ {
		v := valid[vi]
		bits := len(v) * 8
		step := 1
		if slow && !thorough {
			step = bits / 96
		} else if slow {
			step = bits / 256
		}
		if step < 1 {
			step = 1
		}
		off := rng.Intn(step)
		for b := off; b < bits; b += step {
			m := append([]byte{}, v...)
			m[b/8] ^= 1 << uint(b%8)
			in = append(in, m)
		}
		for n := 0; n < len(v); n++ { // every truncation
			in = append(in, append([]byte{}, v[:n]...))
		}
		for _, ext := range []int{1, 2, 8, size, size + 40} {
			e := make([]byte, ext)
			rng.Read(e)
			in = append(in, append(append([]byte{}, v...), e...))
		}
	}
	maxLen := 2*size + 40
	nr := 120
	if thorough {
		nr = 600
	}
	for i := 0; i < nr; i++ {
		n := rng.Intn(maxLen + 1)
		if i%4 == 0 {
			n = size
		}
		b := make([]byte, n)
		rng.Read(b)
		in = append(in, b)
	}
	for _, n := range []int{0, 1, 2, size - 1, size, size + 1, 2 * size, maxLen} {
		in = append(in, make([]byte, n), bytes.Repeat([]byte{0xff}, n))
	}
	return in
}

var recOps = map[string][]string{
	"point":  {"Add", "Mul", "Neg", "Marshal", "Equal", "Data", "String"},
	"scalar": {"Add", "Mul", "Neg", "Marshal", "Equal", "String", "PointMul"},
}

// runObject feeds one input and applies a (seed-determined) follow-up
// sequence; it returns the recorded object.
func runObject(g *groups.Info, kind, subj string, pool *Pool, b []byte, idx int, seed int64) *object {
	cls := pool.Classify(b)
	rng := core.Rng(seed, "recops", g.Name, kind, fmt.Sprint(idx))
	path := PathBinary
	if len(b) <= pool.Size && idx%3 == 1 {
		path = PathFrom
	}
	s := newSubject(g, kind, pool, rng)
	o := &object{Group: g.Name, Kind: kind, Subject: subj, ClsShort: cls.Short(), Input: b, Path: pathName(path)}
	fo := s.feed(b, path)
	ev := Event{Ev: "Feed", Args: map[string]any{"cls": cls}, Ret: fo.Outcome, State: map[string]any{"val": "none"}}
	if fo.Outcome == "accept" {
		ev.State["val"] = s.valueMem()
	}
	o.Events = append(o.Events, ev)
	if fo.Outcome == "crash" {
		o.Note = fo.Panic + "\n" + fo.Stack
	}
	if fo.Outcome != "accept" {
		return o
	}
	ops := recOps[kind]
	var seq []string
	for i, n := 0, rng.Intn(3); i < n; i++ {
		seq = append(seq, ops[rng.Intn(len(ops))])
	}
	seq = append(seq, "ReDecode")
	for _, op := range seq {
		if !opSupported(g, kind, op) {
			continue
		}
		u := s.use(op)
		o.Events = append(o.Events, Event{Ev: "Use", Args: map[string]any{"op": op}, Ret: u.Outcome})
		if u.Outcome == "crash" {
			o.Note = u.Panic + "\n" + u.Stack
			break
		}
	}
	return o
}

// Record runs the recorded direction for points or scalars of every group and
// writes the trace for DecodeTrace.tla.
func Record(cfg Config, res *core.Result) error {
	names := selectGroups(cfg.Groups)
	tw := newTraceWriter()
	var mu sync.Mutex
	perGroup := map[string]int{}
	var perr error
	type job struct {
		g    string
		pool *Pool
		subj string
		in   [][]byte
	}
	jobs := make([]job, len(names))
	core.Parallel(len(names), runtime.NumCPU(), func(i int) {
		g := groupByName(names[i])
		pool, subj, err := poolFor(g, cfg.Kind, cfg.Seed, cfg.Per)
		if err != nil {
			mu.Lock()
			perr = err
			mu.Unlock()
			return
		}
		jobs[i] = job{names[i], pool, subj, recordInputs(g, cfg.Kind, pool, cfg.Seed, cfg.Tier == "thorough")}
	})
	if perr != nil {
		return perr
	}
	type unit struct{ j, lo, hi int }
	var units []unit
	for j := range jobs {
		for lo := 0; lo < len(jobs[j].in); lo += 64 {
			hi := lo + 64
			if hi > len(jobs[j].in) {
				hi = len(jobs[j].in)
			}
			units = append(units, unit{j, lo, hi})
		}
	}
	core.Parallel(len(units), runtime.NumCPU(), func(i int) {
		u := units[i]
		jb := jobs[u.j]
		g := groupByName(jb.g)
		for k := u.lo; k < u.hi; k++ {
			o := runObject(g, cfg.Kind, jb.subj, jb.pool, jb.in[k], k, cfg.Seed)
			tw.add(o)
			res.Eval(fmt.Sprintf("rec|%s|%s|%x", jb.g, cfg.Kind, core.Hash64(string(jb.in[k]))))
		}
		mu.Lock()
		perGroup[jb.g] += u.hi - u.lo
		mu.Unlock()
	})
	if cfg.Expect != "" {
		return findExpected(tw, cfg, res)
	}
	objs, lines, runs, cl, err := tw.write(cfg.Trace, cfg.Corrupt)
	if err != nil {
		return err
	}
	res.AddTraces(objs)
	res.SetExtra("recorded_inputs_per_group_"+cfg.Kind, perGroup)
	res.SetExtra("trace_objects_"+cfg.Kind, objs)
	res.SetExtra("trace_lines_"+cfg.Kind, lines)
	res.SetExtra("recorded_runs_"+cfg.Kind, runs)
	res.SetExtra("corrupted_line_"+cfg.Kind, cl)
	if cl > 0 {
		res.SetExtra("corrupted_line", cl)
	}
	for _, o := range tw.objs {
		res.Sample(map[string]any{"recorded_object": o.Events, "group": o.Group, "input_hex": hexs(o.Input), "runs_with_this_abstract_object": o.count})
		break
	}
	return nil
}

// findExpected is the replay of a divergence found by trace validation: the
// recorder is re-run (same seed, restricted to the group / parser) and the
// violation is reported again iff some run still produces exactly the
// abstract object TLC rejected (cfg.Expect = its events as JSON).
func findExpected(tw *traceWriter, cfg Config, res *core.Result) error {
	var want []Event
	if err := json.Unmarshal([]byte(cfg.Expect), &want); err != nil {
		return fmt.Errorf("bad -expect: %w", err)
	}
	if len(want) > 0 && want[0].Ev == "reset" {
		want = want[1:]
	}
	canon := func(v any) string { // key order independent of struct vs map
		b, _ := json.Marshal(v)
		var x any
		_ = json.Unmarshal(b, &x)
		b, _ = json.Marshal(x)
		if string(b) == "null" {
			return "{}"
		}
		return string(b)
	}
	sig := func(evs []Event) string {
		var b bytes.Buffer
		for _, e := range evs {
			fmt.Fprintf(&b, "|%s:%s:%s:%s", e.Ev, canon(e.Args), e.Ret, canon(e.State))
		}
		return b.String()
	}
	w := sig(want)
	for _, o := range tw.objs {
		evs := make([]Event, len(o.Events))
		copy(evs, o.Events)
		if sig(evs) == w {
			res.Eval("replay|" + cfg.Key)
			res.AddTraces(1)
			res.Sample(map[string]any{"reproduced": o.Events, "group": o.Group, "input_hex": hexs(o.Input)})
			res.Violate(cfg.Key, "the recorded divergent run reproduces: "+o.Group+" "+o.Subject+" still yields the abstract object rejected by trace validation",
				map[string]any{"group": o.Group, "subject": o.Subject, "events": o.Events, "input_hex": hexs(o.Input), "note": o.Note})
			return nil
		}
	}
	res.Eval("replay|" + cfg.Key)
	res.AddTraces(1)
	res.Sample(map[string]any{"reproduced": false, "key": cfg.Key})
	return nil
}
