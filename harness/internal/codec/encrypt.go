package codec

import (
	"bytes"
	"crypto/cipher"
	"encoding/json"
	"fmt"
	"hash"
	"runtime"
	"sort"
	"strings"
	"sync"

	"go.dedis.ch/kyber/v4"
	"go.dedis.ch/kyber/v4/encrypt/ecies"
	"go.dedis.ch/kyber/v4/encrypt/ibe"
	"go.dedis.ch/kyber/v4/group/p256"
	"go.dedis.ch/kyber/v4/pairing"
	"go.dedis.ch/kyber/v4/pairing/bls12381/circl"
	"go.dedis.ch/kyber/v4/pairing/bls12381/gnark"
	"go.dedis.ch/kyber/v4/pairing/bls12381/kilic"
	"go.dedis.ch/kyber/v4/sign/anon"
	"go.dedis.ch/kyber/v4/util/key"
	"verifharness/internal/codec/refmodel"
	"verifharness/internal/core"
)

// ---- refinement mapping of spec/Encrypt.tla

// field of a ciphertext in the abstract vocabulary of Encrypt.tla.
type ctField struct {
	Name string // "ephemeral" | "header" | "body" | "tag"
	B    []byte
}

// ctext is a ciphertext as an ordered list of abstract fields.
type ctext []ctField

func (c ctext) clone() ctext {
	out := make(ctext, len(c))
	for i, f := range c {
		out[i] = ctField{f.Name, append([]byte{}, f.B...)}
	}
	return out
}

func (c ctext) bytes() []byte {
	var out []byte
	for _, f := range c {
		out = append(out, f.B...)
	}
	return out
}

func (c ctext) field(name string) *ctField {
	for i := range c {
		if c[i].Name == name {
			return &c[i]
		}
	}
	return nil
}

// encConfig is one configuration of a scheme (group / back-end / recipient set).
type encConfig struct {
	Scheme   string // scheme of Encrypt.tla
	Name     string // configuration, used in keys
	KeyName  string // configuration without per-instance details (stable key)
	HashSize int
	Limit    int  // explicit length limit of the scheme (0: none)
	Struct   bool // ciphertext is a structure of fields (IBE), not one byte string
	NoPairs  bool // configuration takes part only in behaviours with at most one alteration (cost)
	Sweep    int  // additional honest round trips (fresh encryptions) of the untouched / right-key behaviour
	// Encrypt returns the ciphertext split into fields.
	Encrypt func(msg []byte) (ctext, error)
	// Decrypt gets its own copy; keyRel "right" or "wrong" (variant selects which wrong key).
	Decrypt func(ct ctext, keyRel string, variant int) ([]byte, error)
	// Retag recomputes the tag of ct from public data only (nil if the scheme's tag is keyed).
	Retag func(ct ctext) bool
	// Shared builds ONE caller-owned ciphertext object from ct and returns a decryption closure that hands that
	// very object to the library on every call, and a snapshot of the bytes the caller currently holds.
	// nil: the scheme is exempt from the same-buffer dimension (anon: PreservesInput is false in Encrypt.tla).
	Shared func(ct ctext) (dec func(keyRel string, variant int) ([]byte, error), snapshot func() []byte)
}

const tagLen = 16

// encSuites are the suites ECIES and the anonymous-set scheme run over: the generic ones plus a residue group
// with a 70-bit modulus and cofactor 44 (refmodel-certified parameters, the library's own QrSuite.SetParams):
// one element in 44 has a zero top byte there, so encodings with leading zeros are met all the time.
func encSuites() map[string]fullSuite {
	gs := genericSuites()
	for _, rp := range refmodel.ExtraResidueGroups() {
		if rp.Name == "qr72" {
			q := new(p256.QrSuite)
			q.SetParams(rp.P, rp.Q, rp.R, rp.G)
			gs["qr72"] = q
		}
	}
	return gs
}

// sweepFor is the number of additional honest round trips (fresh encryptions of a hash-size message, right
// key) per configuration: events that depend on the random ephemeral value - an encoding with a leading zero
// byte happens once in ~195 encryptions on QR512, once in 44 on qr72, once in 256 on the curves - are only
// met by volume, ECIES draws its ephemeral key from crypto/rand.
func sweepFor(suite string) int {
	switch {
	case suite == "qr512":
		return 750 // x 2 ECIES configurations, x 4 anon configurations: >= 1500 per scheme
	case suite == "qr72":
		return 200
	case strings.HasPrefix(suite, "edvt"):
		return 20
	}
	return 200
}

func eciesConfigs(seed int64) []*encConfig {
	var out []*encConfig
	gs := encSuites()
	var names []string
	for n := range gs {
		names = append(names, n)
	}
	sort.Strings(names)
	for _, n := range names {
		for _, hv := range []string{"default-sha256", "suite-hash"} {
			n, hv := n, hv
			s := gs[n]
			var hf func() hash.Hash
			if hv == "suite-hash" {
				hf = s.Hash
			}
			st := seedStream(seed, "ecies-keys", n, hv)
			x, X := keyPair(s, st)
			w, _ := keyPair(s, st)
			l := s.PointLen()
			out = append(out, &encConfig{Scheme: "ecies", Name: "ecies:" + n + "/" + hv, KeyName: "ecies:" + n, HashSize: 32, Sweep: sweepFor(n),
				Encrypt: func(msg []byte) (ctext, error) {
					ct, err := ecies.Encrypt(s, X, msg, hf)
					if err != nil {
						return nil, err
					}
					if len(ct) != l+len(msg)+tagLen {
						return nil, fmt.Errorf("harness: unexpected ecies ciphertext length %d", len(ct))
					}
					return ctext{{"ephemeral", ct[:l]}, {"body", ct[l : l+len(msg)]}, {"tag", ct[l+len(msg):]}}, nil
				},
				Decrypt: func(ct ctext, keyRel string, _ int) ([]byte, error) {
					k := x
					if keyRel == "wrong" {
						k = w
					}
					return ecies.Decrypt(s, k, ct.bytes(), hf)
				},
				Shared: func(ct ctext) (func(string, int) ([]byte, error), func() []byte) {
					buf := ct.bytes() // the caller's slice
					return func(keyRel string, _ int) ([]byte, error) {
							k := x
							if keyRel == "wrong" {
								k = w
							}
							return ecies.Decrypt(s, k, buf, hf)
						}, func() []byte {
							return append([]byte{}, buf...)
						}
				}})
		}
	}
	return out
}

func ibeSuites() map[string]pairing.Suite {
	// static table: the back-ends whose G1 and G2 points implement kyber.HashablePoint
	return map[string]pairing.Suite{"kilic": kilic.NewBLS12381Suite(), "circl": circl.NewSuiteBLS12381(), "gnark": gnark.NewSuiteBLS12381()}
}

func ibeConfigs(seed int64) []*encConfig {
	var out []*encConfig
	ss := ibeSuites()
	var names []string
	for n := range ss {
		names = append(names, n)
	}
	sort.Strings(names)
	id, otherID := []byte("verif-identity"), []byte("verif-other-identity")
	for _, n := range names {
		n := n
		s := ss[n]
		hs := s.Hash().Size()
		for _, variant := range []string{"ibe-cca-g1", "ibe-cca-g2", "ibe-cpa-g1"} {
			variant := variant
			st := seedStream(seed, "ibe-keys", n, variant)
			var master, priv, wrongID, wrongMaster, base kyber.Point
			var ptGroup kyber.Group
			switch variant {
			case "ibe-cca-g1", "ibe-cpa-g1":
				ptGroup = s.G1()
				ms := s.G1().Scalar().Pick(st)
				base = s.G1().Point().Base()
				if variant == "ibe-cpa-g1" {
					base = s.G1().Point().Pick(st)
				}
				master = s.G1().Point().Mul(ms, base)
				q := s.G2().Point().(kyber.HashablePoint).Hash(id)
				priv = q.Mul(ms, q)
				q2 := s.G2().Point().(kyber.HashablePoint).Hash(otherID)
				wrongID = q2.Mul(ms, q2)
				q3 := s.G2().Point().(kyber.HashablePoint).Hash(id)
				wrongMaster = q3.Mul(s.G1().Scalar().Pick(st), q3)
			default:
				ptGroup = s.G2()
				ms := s.G2().Scalar().Pick(st)
				master = s.G2().Point().Mul(ms, s.G2().Point().Base())
				q := s.G1().Point().(kyber.HashablePoint).Hash(id)
				priv = q.Mul(ms, q)
				q2 := s.G1().Point().(kyber.HashablePoint).Hash(otherID)
				wrongID = q2.Mul(ms, q2)
				q3 := s.G1().Point().(kyber.HashablePoint).Hash(id)
				wrongMaster = q3.Mul(s.G2().Scalar().Pick(st), q3)
			}
			cfg := &encConfig{Scheme: variant, Name: variant + ":" + n, KeyName: variant + ":" + n, HashSize: hs, Limit: 1 << 16, Struct: true}
			pick := func(keyRel string, v int) kyber.Point {
				if keyRel == "right" {
					return priv
				}
				if v%2 == 0 {
					return wrongID
				}
				return wrongMaster
			}
			if variant == "ibe-cpa-g1" {
				cfg.Encrypt = func(msg []byte) (ctext, error) {
					c, err := ibe.EncryptCPAonG1(s, base, master, id, msg)
					if err != nil {
						return nil, err
					}
					rp, err := c.RP.MarshalBinary()
					if err != nil {
						return nil, err
					}
					return ctext{{"ephemeral", rp}, {"body", c.C}}, nil
				}
				cfg.Decrypt = func(ct ctext, keyRel string, v int) ([]byte, error) {
					rp := ptGroup.Point()
					if err := rp.UnmarshalBinary(ct.field("ephemeral").B); err != nil {
						return nil, err
					}
					return ibe.DecryptCPAonG1(s, pick(keyRel, v), &ibe.CiphertextCPA{RP: rp, C: ct.field("body").B})
				}
				cfg.Shared = func(ct ctext) (func(string, int) ([]byte, error), func() []byte) {
					rp := ptGroup.Point()
					must(rp.UnmarshalBinary(append([]byte{}, ct.field("ephemeral").B...)))
					c := &ibe.CiphertextCPA{RP: rp, C: append([]byte{}, ct.field("body").B...)} // the caller's object
					return func(keyRel string, v int) ([]byte, error) { return ibe.DecryptCPAonG1(s, pick(keyRel, v), c) },
						func() []byte {
							b, _ := c.RP.MarshalBinary()
							return append(b, c.C...)
						}
				}
			} else {
				enc, dec := ibe.EncryptCCAonG1, ibe.DecryptCCAonG1
				if variant == "ibe-cca-g2" {
					enc, dec = ibe.EncryptCCAonG2, ibe.DecryptCCAonG2
				}
				cfg.Encrypt = func(msg []byte) (ctext, error) {
					c, err := enc(s, master, id, msg)
					if err != nil {
						return nil, err
					}
					u, err := c.U.MarshalBinary()
					if err != nil {
						return nil, err
					}
					return ctext{{"ephemeral", u}, {"header", c.V}, {"body", c.W}}, nil
				}
				cfg.Decrypt = func(ct ctext, keyRel string, v int) ([]byte, error) {
					u := ptGroup.Point()
					if err := u.UnmarshalBinary(ct.field("ephemeral").B); err != nil {
						return nil, err
					}
					return dec(s, pick(keyRel, v), &ibe.Ciphertext{U: u, V: ct.field("header").B, W: ct.field("body").B})
				}
				cfg.Shared = func(ct ctext) (func(string, int) ([]byte, error), func() []byte) {
					u := ptGroup.Point()
					must(u.UnmarshalBinary(append([]byte{}, ct.field("ephemeral").B...)))
					c := &ibe.Ciphertext{U: u, V: append([]byte{}, ct.field("header").B...), W: append([]byte{}, ct.field("body").B...)}
					return func(keyRel string, v int) ([]byte, error) { return dec(s, pick(keyRel, v), c) },
						func() []byte {
							b, _ := c.U.MarshalBinary()
							return append(append(b, c.V...), c.W...)
						}
				}
			}
			out = append(out, cfg)
		}
	}
	return out
}

type keySuite struct {
	fullSuite
	st cipher.Stream
}

func (k keySuite) RandomStream() cipher.Stream { return k.st }
func (k keySuite) NewKey(st cipher.Stream) kyber.Scalar {
	if g, ok := k.fullSuite.(key.Generator); ok {
		return g.NewKey(st)
	}
	return k.Scalar().Pick(st)
}

func anonConfigs(seed int64, thorough bool) []*encConfig {
	var out []*encConfig
	gs := encSuites()
	var names []string
	for n := range gs {
		names = append(names, n)
	}
	sort.Strings(names)
	sizes := []int{1, 3}
	if thorough {
		sizes = []int{1, 2, 3, 4, 5, 6}
	}
	for _, n := range names {
		s := gs[n]
		for _, size := range sizes {
			if strings.HasPrefix(n, "edvt") && size != 1 && size != 3 {
				continue // the generic variable-time curve is ~10x slower: recipient sets 1 and 3 only
			}
			st := seedStream(seed, "anon-keys", n, fmt.Sprint(size))
			ks := keySuite{s, st}
			var set anon.Set
			var privs []kyber.Scalar
			for i := 0; i < size; i++ {
				kp := key.NewKeyPair(ks) // util/key: honours the suite's key.Generator
				set, privs = append(set, kp.Public), append(privs, kp.Private)
			}
			outsider := key.NewKeyPair(ks).Private
			for mine := 0; mine < size; mine++ {
				n, s, size, mine, set, privs := n, s, size, mine, set, privs
				pl, sl := s.PointLen(), s.ScalarLen()
				out = append(out, &encConfig{Scheme: "anon", Name: fmt.Sprintf("anon:%s/n=%d/i=%d", n, size, mine), KeyName: "anon:" + n, HashSize: 32,
					NoPairs: size != 1 && size != 3, Sweep: sweepFor(n) / 2,
					Encrypt: func(msg []byte) (ctext, error) {
						ct, err := anon.Encrypt(s, msg, set)
						if err != nil {
							return nil, err
						}
						hl := pl + sl*size
						if len(ct) != hl+len(msg)+tagLen {
							return nil, fmt.Errorf("harness: unexpected anon ciphertext length %d", len(ct))
						}
						return ctext{{"ephemeral", ct[:pl]}, {"header", ct[pl:hl]}, {"body", ct[hl : hl+len(msg)]}, {"tag", ct[hl+len(msg):]}}, nil
					},
					Decrypt: func(ct ctext, keyRel string, v int) ([]byte, error) {
						k := privs[mine]
						if keyRel == "wrong" {
							k = outsider
							if v%2 == 1 && size > 1 {
								k = privs[(mine+1)%size] // another recipient's key at this index
							}
						}
						return anon.Decrypt(s, ct.bytes(), set, mine, k)
					},
					Retag: func(ct ctext) bool { // the tag is XOF(body): computable without any key
						x := s.XOF(ct.field("body").B)
						t := make([]byte, tagLen)
						if _, err := x.Read(t); err != nil {
							return false
						}
						ct.field("tag").B = t
						return true
					}})
			}
		}
	}
	return out
}

func msgLen(c *encConfig, lc string) (int, bool) {
	h := c.HashSize
	switch lc {
	case "0":
		return 0, true
	case "1":
		return 1, true
	case "hash-1":
		return h - 1, true
	case "hash":
		return h, true
	case "hash+1":
		return h + 1, true
	case "2hash":
		return 2 * h, true
	case "big":
		return 4096, true
	case "limit":
		if c.Limit == 0 {
			return 0, false
		}
		return c.Limit + 1, true
	}
	return 0, false
}

// ---- concretisers of the abstract alterations

type alt struct{ Field, Kind string }

func (a alt) String() string { return a.Field + "." + a.Kind }

// applyAlt returns the variants of one alteration applied to ct (each on its
// own copy). every = all bit positions / all byte positions (thorough).
func applyAlt(c *encConfig, ct ctext, a alt, every bool) []ctext {
	var out []ctext
	bitsOf := func() []uint {
		if every {
			return []uint{0, 1, 2, 3, 4, 5, 6, 7}
		}
		return []uint{0, 7}
	}
	flipAt := func(pos []int) {
		for _, p := range pos {
			for _, b := range bitsOf() {
				m := ct.clone()
				f := m.field(a.Field)
				f.B[p] ^= 1 << b
				out = append(out, m)
			}
		}
	}
	switch a.Kind {
	case "flipFirst", "flipMid", "flipLast":
		f := ct.field(a.Field)
		if f == nil || len(f.B) == 0 {
			return nil
		}
		switch a.Kind {
		case "flipFirst", "flipLast": // every bit of the byte, in every tier: format / header / sign bits live here
			every8 := every
			every = true
			if a.Kind == "flipFirst" {
				flipAt([]int{0})
			} else {
				flipAt([]int{len(f.B) - 1})
			}
			every = every8
		default:
			if every && len(f.B) <= 160 { // every single-bit flip of the field
				var all []int
				for i := range f.B {
					all = append(all, i)
				}
				flipAt(all)
			} else {
				flipAt([]int{len(f.B) / 2})
			}
		}
	case "retag":
		f := ct.field("body")
		if c.Retag == nil || f == nil || len(f.B) == 0 {
			return nil
		}
		for _, p := range []int{0, len(f.B) / 2, len(f.B) - 1} {
			m := ct.clone()
			m.field("body").B[p] ^= 0x10
			if c.Retag(m) {
				out = append(out, m)
			}
		}
	case "trunc1", "truncTag", "truncToHeader":
		if c.Struct {
			// structured ciphertext: the byte-string fields are shortened (V and W must stay equally long to get past the length check, so both and each)
			cut := func(f []byte) ([]byte, bool) {
				switch a.Kind {
				case "trunc1":
					if len(f) < 1 {
						return nil, false
					}
					return f[:len(f)-1], true
				case "truncTag":
					if len(f) < tagLen {
						return nil, false
					}
					return f[:len(f)-tagLen], true
				}
				if len(f) < 1 {
					return nil, false
				}
				return f[:0], true
			}
			var names []string
			for _, f := range ct {
				if f.Name != "ephemeral" {
					names = append(names, f.Name)
				}
			}
			var sets [][]string
			for _, n := range names {
				sets = append(sets, []string{n})
			}
			if len(names) > 1 {
				sets = append(sets, names)
			}
			for _, set := range sets {
				m := ct.clone()
				ok := true
				for _, n := range set {
					nb, can := cut(m.field(n).B)
					if !can {
						ok = false
						break
					}
					m.field(n).B = nb
				}
				if ok {
					out = append(out, m)
				}
			}
			// the ephemeral point itself shortened
			if a.Kind == "trunc1" {
				m := ct.clone()
				e := m.field("ephemeral")
				e.B = e.B[:len(e.B)-1]
				out = append(out, m)
			}
			return out
		}
		whole := ct.bytes()
		var keep int
		switch a.Kind {
		case "trunc1":
			keep = len(whole) - 1
		case "truncTag":
			keep = len(whole) - tagLen
		default:
			keep = 0
			for _, f := range ct {
				if f.Name == "ephemeral" || f.Name == "header" {
					keep += len(f.B)
				}
			}
		}
		if keep < 0 || keep >= len(whole) {
			return nil
		}
		out = append(out, ctext{{"ephemeral", whole[:keep]}}) // decryption re-splits the byte string itself
		if a.Kind == "truncToHeader" && keep > 0 {
			out = append(out, ctext{{"ephemeral", whole[:keep-1]}}, ctext{{"ephemeral", nil}})
		}
	}
	return out
}

// ---- replay

type encInstance struct {
	msg        []byte
	msgTouched bool // Encrypt wrote to the caller's message slice
	ct         ctext
	err        error
	pan        string
	stk        string
}

type encCache struct {
	mu sync.Mutex
	m  map[string]*encInstance
}

func (ec *encCache) get(c *encConfig, lc string, inst int, seed int64) *encInstance {
	k := fmt.Sprintf("%s|%s|%d", c.Name, lc, inst)
	ec.mu.Lock()
	defer ec.mu.Unlock()
	if e, ok := ec.m[k]; ok {
		return e
	}
	n, _ := msgLen(c, lc)
	msg := make([]byte, n)
	core.Rng(seed, "msg", c.Name, lc, fmt.Sprint(inst)).Read(msg)
	e := &encInstance{msg: msg}
	own := append([]byte{}, msg...) // the caller's message slice, handed to the library as is
	e.pan, e.stk, _ = core.Try(func() { e.ct, e.err = c.Encrypt(own) })
	e.msgTouched = !bytes.Equal(own, msg)
	ec.m[k] = e
	return e
}

func leak(msg []byte, ct ctext) (int, bool) {
	whole := ct.bytes()
	for i := 0; i+8 <= len(msg); i += 8 {
		if bytes.Contains(whole, msg[i:i+8]) {
			return i, true
		}
	}
	return 0, false
}

// EncryptReplay replays the behaviours TLC generated from Encrypt.tla on every
// configuration of every scheme.
func EncryptReplay(cfg Config, res *core.Result) error {
	bhs, err := LoadEncBehaviours(cfg.In)
	if err != nil {
		return err
	}
	if len(bhs) == 0 {
		return fmt.Errorf("no behaviours in %s", cfg.In)
	}
	res.AddTraces(len(bhs))
	thorough := cfg.Tier == "thorough"
	var cfgs []*encConfig
	cfgs = append(cfgs, eciesConfigs(cfg.Seed)...)
	cfgs = append(cfgs, ibeConfigs(cfg.Seed)...)
	cfgs = append(cfgs, anonConfigs(cfg.Seed, thorough)...)
	if cfg.Only != "" {
		var keep []*encConfig
		for _, c := range cfgs {
			if strings.HasPrefix(c.Name, cfg.Only) {
				keep = append(keep, c)
			}
		}
		cfgs = keep
	}
	byScheme := map[string][]EncBehaviour{}
	for _, b := range bhs {
		byScheme[b[0].Scheme] = append(byScheme[b[0].Scheme], b)
	}
	cache := &encCache{m: map[string]*encInstance{}}
	insts := 1
	if thorough {
		insts = 2
	}
	var mu sync.Mutex
	perCfg := map[string]int{}
	schemesSeen := map[string]bool{}
	for _, c := range cfgs {
		schemesSeen[c.Scheme] = true
	}
	for s := range byScheme {
		if !schemesSeen[s] && cfg.Only == "" {
			return fmt.Errorf("no configuration for scheme %q of Encrypt.tla", s)
		}
	}
	core.Parallel(len(cfgs), runtime.NumCPU(), func(i int) {
		c := cfgs[i]
		n := 0
		for bi, b := range byScheme[c.Scheme] {
			k := insts
			if len(b) == 2 && b[0].Len == "hash" && b[1].Act == "Decrypt" && b[1].Key == "right" {
				k += c.Sweep // honest round-trip sweep: same abstract case, many ephemeral values
			}
			for inst := 0; inst < k; inst++ {
				if encReplayOne(cfg, res, c, cache, b, bi, inst, thorough) {
					n++
				}
			}
		}
		mu.Lock()
		perCfg[c.Name] = n
		mu.Unlock()
	})
	res.SetExtra("cases_per_configuration", perCfg)
	res.SetExtra("configurations", len(cfgs))
	return nil
}

// EncStep is one record of a behaviour of Encrypt.tla.
type EncStep struct {
	Act     string   `json:"act"`
	Scheme  string   `json:"scheme,omitempty"`
	Len     string   `json:"len,omitempty"`
	Outcome string   `json:"outcome,omitempty"`
	Allowed []string `json:"allowed,omitempty"`
	Tag     string   `json:"tag,omitempty"`
	Field   string   `json:"field,omitempty"`
	Kind    string   `json:"kind,omitempty"`
	Key     string   `json:"key,omitempty"`
	Buffer  []string `json:"buffer,omitempty"`  // SharedDecrypt: allowed states of the caller's ciphertext afterwards
	Message []string `json:"message,omitempty"` // Encrypt: allowed states of the caller's message slice afterwards
}

type EncBehaviour []EncStep

func LoadEncBehaviours(path string) ([]EncBehaviour, error) {
	var out []EncBehaviour
	err := core.ReadLines(path, func(line []byte) error {
		var b EncBehaviour
		if err := json.Unmarshal(line, &b); err != nil {
			return fmt.Errorf("bad behaviour line: %w", err)
		}
		if len(b) > 0 && b[0].Act == "Encrypt" {
			out = append(out, b)
		}
		return nil
	})
	return out, err
}

func encReplayOne(cfg Config, res *core.Result, c *encConfig, cache *encCache, b EncBehaviour, bi, inst int, thorough bool) bool {
	e0 := b[0]
	if _, ok := msgLen(c, e0.Len); !ok {
		return false
	}
	e := cache.get(c, e0.Len, inst, cfg.Seed)
	cfgPart := "len=" + e0.Len + "/" + strings.TrimPrefix(c.KeyName, c.Scheme+":")
	key := func(parts ...string) string {
		return cfg.Prop + "/" + c.Scheme + "/" + strings.Join(parts, "/") + "/" + cfgPart
	}
	detail := func(step int, exp any, got string, extra map[string]any) map[string]any {
		d := map[string]any{"configuration": c.Name, "scheme": c.Scheme, "len_class": e0.Len, "message_len": len(e.msg), "message_hex": hexs(e.msg),
			"behaviour": b, "step": step, "expected": exp, "got": got, "instance": inst, "tlc": "Encrypt.tla, INVARIANT Emit"}
		for k, v := range extra {
			d[k] = v
		}
		return d
	}
	// step 0: Encrypt
	encOut := "ok"
	switch {
	case e.pan != "":
		encOut = "crash"
	case e.err != nil:
		encOut = "refused"
	}
	id := fmt.Sprintf("%s|%s|%d", c.Name, e0.Len, inst)
	if !in(e0.Allowed, encOut) {
		res.Eval(id + "|enc")
		errS := ""
		if e.err != nil {
			errS = e.err.Error()
		}
		res.Violate(key("encrypt", encOut), fmt.Sprintf("%s: Encrypt of a %d-byte message (class %s) -> %s, specification allows %v", c.Name, len(e.msg), e0.Len, encOut, e0.Allowed),
			detail(0, e0.Allowed, encOut, map[string]any{"error": errS, "panic": e.pan, "stack": e.stk}))
		return true
	}
	if encOut == "ok" && e.msgTouched && !in(e0.Message, "modified") {
		res.Eval(id + "|enc")
		res.Violate(key("encrypt", "message-modified"), fmt.Sprintf("%s: Encrypt wrote to the caller's %d-byte message slice", c.Name, len(e.msg)),
			detail(0, "message intact", "message modified", nil))
		return true
	}
	if encOut != e0.Outcome {
		return false
	}
	if len(b) == 1 {
		res.Eval(id + "|enc")
		return true
	}
	// LeakScan
	if b[1].Act == "LeakScan" {
		if len(e.msg) < 8 {
			res.Skip("leakscan-message-shorter-than-a-block")
			return false
		}
		res.Eval(id + "|leak")
		if off, l := leak(e.msg, e.ct); l {
			res.Violate(key("leak"), fmt.Sprintf("%s: the ciphertext of a %d-byte incompressible message contains plaintext bytes %d..%d in the clear", c.Name, len(e.msg), off, off+8),
				detail(1, b[1].Allowed, "leak", map[string]any{"ciphertext_hex": hexs(e.ct.bytes()), "offset": off}))
		}
		return true
	}
	// SharedDecrypt+ ; SharedLeakScan: all calls on ONE caller-owned ciphertext
	if b[1].Act == "SharedDecrypt" {
		if c.Shared == nil {
			return false
		}
		if inst > 0 {
			return false
		}
		var seq []string
		dec, snap := c.Shared(e.ct.clone())
		orig := snap()
		for si, st := range b[1:] {
			switch st.Act {
			case "SharedDecrypt":
				seq = append(seq, st.Key)
				name := "same-buffer:" + strings.Join(seq, ">")
				var msg []byte
				var derr error
				pmsg, stk, pan := core.Try(func() { msg, derr = dec(st.Key, 0) })
				got := "ok"
				switch {
				case pan:
					got = "crash"
				case derr != nil:
					got = "error"
				case !bytes.Equal(msg, e.msg):
					got = "other"
				}
				res.Eval(fmt.Sprintf("%s|%s|%d", id, name, si))
				errS := ""
				if derr != nil {
					errS = derr.Error()
				}
				now := snap()
				if !in(st.Allowed, got) {
					// the buffer has been byte-identical to the ciphertext after every earlier call (checked below), so
					// this is the abstract case "untouched ciphertext, key k" whatever was called before: same key
					res.Violate(key("untouched", "key="+st.Key, got),
						fmt.Sprintf("%s: call %d on the same caller-owned ciphertext (keys so far %v, message class %s) -> %s, specification allows %v", c.Name, si+1, seq, e0.Len, got, st.Allowed),
						detail(si+1, st.Allowed, got, map[string]any{"ciphertext_hex": hexs(orig), "buffer_now_hex": hexs(now), "returned_hex": hexs(msg), "error": errS, "panic": pmsg, "stack": stk}))
					return true
				}
				if !bytes.Equal(now, orig) && !in(st.Buffer, "modified") {
					res.Violate(key(name, "buffer-modified"),
						fmt.Sprintf("%s: Decrypt (key %s) wrote to the caller's ciphertext (message class %s)", c.Name, st.Key, e0.Len),
						detail(si+1, "buffer intact", "buffer modified", map[string]any{"ciphertext_hex": hexs(orig), "buffer_now_hex": hexs(now)}))
					return true
				}
			case "SharedLeakScan":
				if len(e.msg) < 8 {
					res.Skip("leakscan-message-shorter-than-a-block")
					continue
				}
				name := "same-buffer:" + strings.Join(seq, ">")
				res.Eval(fmt.Sprintf("%s|%s|leak", id, name))
				if off, l := leak(e.msg, ctext{{"ephemeral", snap()}}); l {
					res.Violate(key(name, "leak"), fmt.Sprintf("%s: after decryption the caller's ciphertext buffer holds plaintext bytes %d.. in the clear", c.Name, off),
						detail(si+1, st.Allowed, "leak", map[string]any{"ciphertext_hex": hexs(orig), "buffer_now_hex": hexs(snap())}))
				}
			}
		}
		return true
	}
	// Tamper* ; Decrypt
	var alts []alt
	var dec EncStep
	for _, st := range b[1:] {
		switch st.Act {
		case "Tamper":
			alts = append(alts, alt{st.Field, st.Kind})
		case "Decrypt":
			dec = st
		}
	}
	if len(alts) > 1 && (c.NoPairs || inst > 0) {
		return false // pairs of alterations: recipient sets of size 1 and 3, first instance
	}
	variants := []ctext{e.ct.clone()}
	for _, a := range alts {
		var next []ctext
		for _, v := range variants {
			// every single-bit flip of the field: thorough tier, three lengths, first instance, right key
			every := thorough && (e0.Len == "1" || e0.Len == "hash" || e0.Len == "2hash") && len(alts) == 1 && inst == 0 && dec.Key == "right"
			next = append(next, applyAlt(c, v, a, every)...)
		}
		if len(alts) > 1 && len(next) > 6 {
			next = next[:6]
		}
		if len(next) > 24 && !(thorough && len(alts) == 1 && inst == 0 && dec.Key == "right") {
			next = next[:24]
		}
		variants = next
	}
	var names []string
	for _, a := range alts {
		names = append(names, a.String())
	}
	altName := strings.Join(names, "+")
	if altName == "" {
		altName = "untouched"
	}
	// for keys: body or tag flips followed by a retag are one and the same forgery (alter the body, recompute the
	// public tag - which overwrites whatever was done to the tag before)
	keyAlt := altName
	if n := len(alts); n > 1 && alts[n-1].Kind == "retag" {
		onlyBody := true
		for _, a := range alts[:n-1] {
			if (a.Field != "body" && a.Field != "tag") || !strings.HasPrefix(a.Kind, "flip") {
				onlyBody = false
			}
		}
		if onlyBody {
			keyAlt = "body.retag"
		}
	}
	orig := e.ct.bytes()
	ran := false
	for vi, v := range variants {
		if len(alts) > 0 && bytes.Equal(v.bytes(), orig) {
			res.Skip("alteration-without-effect") // e.g. two flips of the same bit
			continue
		}
		for kv := 0; kv < 2; kv++ {
			if dec.Key == "right" && kv > 0 {
				break
			}
			if kv > 0 && len(alts) > 0 && !thorough {
				break // quick tier: both kinds of wrong key on the untouched ciphertext, one kind on altered ones
			}
			var msg []byte
			var derr error
			own := v.clone() // every decryption gets its own copy
			pmsg, stk, pan := core.Try(func() { msg, derr = c.Decrypt(own, dec.Key, kv) })
			got := "ok"
			switch {
			case pan:
				got = "crash"
			case derr != nil:
				got = "error"
			case !bytes.Equal(msg, e.msg):
				got = "other"
			}
			ran = true
			res.Eval(fmt.Sprintf("%s|%s|%s|%d|%d", id, altName, dec.Key, vi, kv))
			if !in(dec.Allowed, got) {
				errS := ""
				if derr != nil {
					errS = derr.Error()
				}
				res.Violate(key(keyAlt, "key="+dec.Key, got),
					fmt.Sprintf("%s: decryption of a ciphertext (message class %s) altered by [%s] with the %s key -> %s, specification allows %v", c.Name, e0.Len, altName, dec.Key, got, dec.Allowed),
					detail(len(b)-1, dec.Allowed, got, map[string]any{"ciphertext_hex": hexs(orig), "altered_hex": hexs(v.bytes()), "returned_hex": hexs(msg), "error": errS, "panic": pmsg, "stack": stk, "wrong_key_variant": kv}))
			}
		}
	}
	if !ran {
		if len(variants) == 0 {
			res.Skip("alteration-not-applicable:" + altName)
		}
		return false
	}
	if bi%97 == 0 && inst == 0 {
		res.Sample(map[string]any{"configuration": c.Name, "behaviour": b, "message_len": len(e.msg)})
	}
	return true
}
