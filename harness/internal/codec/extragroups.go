package codec

import (
	"go.dedis.ch/kyber/v4/group/p256"
	"verifharness/internal/codec/refmodel"
	"verifharness/internal/groups"
)

// Residue groups with cofactor R > 2, instantiated with the library's own
// ResidueGroup.SetParams from parameters refmodel certifies. In the stock
// QR512 suite R = 2, where "is a square" and "is in the order-Q subgroup"
// coincide; only R > 2 separates them. Profile: `qr` (promised set = the
// order-Q subgroup).
func extraGroups() []*groups.Info {
	var out []*groups.Info
	for _, rp := range refmodel.ExtraResidueGroups() {
		g := new(p256.ResidueGroup)
		g.SetParams(rp.P, rp.Q, rp.R, rp.G)
		out = append(out, &groups.Info{Name: rp.Name, Family: "qr", Group: g, Order: rp.Q, ScalarTy: "modint-" + rp.Name,
			CanBase: true, CanPick: true,
			// Embed/Data reserve 24 bits of the modulus: not offered by a 6-bit group (capability matrix)
			CanEmbed: rp.P.BitLen() > 32})
	}
	return out
}

// allGroups is the registry of harness/internal/groups plus the extra residue groups.
func allGroups() []*groups.Info { return append(groups.All(), extraGroups()...) }

func groupByName(name string) *groups.Info {
	if g := groups.ByName(name); g != nil {
		return g
	}
	for _, g := range extraGroups() {
		if g.Name == name {
			return g
		}
	}
	return nil
}

// tinyGroup reports groups whose encoding space is enumerated exhaustively.
func tinyGroup(g *groups.Info) bool { return g.Family == "qr" && g.Group.PointLen() == 1 }
