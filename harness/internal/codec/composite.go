package codec

import (
	"bytes"
	"crypto/aes"
	"crypto/cipher"
	"errors"
	"fmt"
	"hash"
	"math/rand"
	"runtime"
	"sort"
	"strings"
	"sync"

	"go.dedis.ch/kyber/v4"
	"go.dedis.ch/kyber/v4/encrypt/ecies"
	"go.dedis.ch/kyber/v4/group/edwards25519"
	"go.dedis.ch/kyber/v4/group/edwards25519vartime"
	"go.dedis.ch/kyber/v4/group/p256"
	"go.dedis.ch/kyber/v4/pairing"
	"go.dedis.ch/kyber/v4/pairing/bls12381/circl"
	"go.dedis.ch/kyber/v4/pairing/bls12381/gnark"
	"go.dedis.ch/kyber/v4/pairing/bls12381/kilic"
	"go.dedis.ch/kyber/v4/pairing/bn254"
	"go.dedis.ch/kyber/v4/pairing/bn256"
	"go.dedis.ch/kyber/v4/proof"
	"go.dedis.ch/kyber/v4/share"
	vssp "go.dedis.ch/kyber/v4/share/vss/pedersen"
	vssr "go.dedis.ch/kyber/v4/share/vss/rabin"
	"go.dedis.ch/kyber/v4/sign"
	"go.dedis.ch/kyber/v4/sign/anon"
	"go.dedis.ch/kyber/v4/sign/bdn"
	"go.dedis.ch/kyber/v4/sign/bls"
	"go.dedis.ch/kyber/v4/sign/cosi"
	"go.dedis.ch/kyber/v4/sign/eddsa"
	"go.dedis.ch/kyber/v4/sign/schnorr"
	"go.dedis.ch/kyber/v4/sign/tbls"
	"go.dedis.ch/kyber/v4/util/key"
	"golang.org/x/crypto/hkdf"
	"verifharness/internal/core"
)

// fullSuite is what the generic protocol packages need.
type fullSuite interface {
	kyber.Group
	kyber.HashFactory
	kyber.XOFFactory
	kyber.Random
	kyber.Encoding
}

func genericSuites() map[string]fullSuite {
	return map[string]fullSuite{
		"ed25519":   edwards25519.NewBlakeSHA256Ed25519(),
		"edvt-ext":  edwards25519vartime.NewBlakeSHA256Ed25519(false),
		"edvt-full": edwards25519vartime.NewBlakeSHA256Ed25519(true),
		"p256":      p256.NewBlakeSHA256P256(),
		"qr512":     p256.NewBlakeSHA256QR512(),
	}
}

func pairingSuites() map[string]pairing.Suite {
	return map[string]pairing.Suite{
		"bn256": bn256.NewSuite(), "bn254": bn254.NewSuite(),
		"kilic": kilic.NewBLS12381Suite(), "circl": circl.NewSuiteBLS12381(), "gnark": gnark.NewSuiteBLS12381(),
	}
}

// fixture is one composite parser instance: an honest value of the untrusted
// field and a way to hand (possibly mutated) bytes to the real entry point.
type fixture struct {
	Parser string // name in Decode.tla
	Config string // group / suite
	Valid  []byte
	// Run feeds b; err != nil means the parser answered "error". follow, when
	// non-nil, applies the follow-up operation to the parsed value.
	Run func(b []byte) (err error, follow func() error)
	// Fields are structured alterations (mutation class "field"): name -> bytes or alternative run
	Fields func(r *rand.Rand) []fieldMut
	// Layout names the consecutive fields of Valid (mutation class "truncEvery": every prefix, keyed by the
	// field the cut falls in). Empty: derived (protobuf top-level fields, else one field "input").
	Layout []span
}

// span is a named run of bytes of a valid input.
type span struct {
	Name string
	Len  int
}

// maxEveryPrefix bounds the inputs whose every prefix is fed.
const maxEveryPrefix = 640

// layoutOf returns the field layout used to name truncation points.
func (fx *fixture) layoutOf() []span {
	if len(fx.Layout) > 0 {
		return fx.Layout
	}
	if strings.HasPrefix(fx.Parser, "vss-") {
		// top-level protobuf fields: tag+length prefix belongs to the field
		var out []span
		b := fx.Valid
		for len(b) > 0 {
			tag, n := pbVarint(b)
			if n < 0 {
				break
			}
			l := n
			switch tag & 7 {
			case 0:
				_, m := pbVarint(b[n:])
				if m < 0 {
					return []span{{"input", len(fx.Valid)}}
				}
				l += m
			case 2:
				ln, m := pbVarint(b[n:])
				if m < 0 || int(ln) > len(b)-n-m {
					return []span{{"input", len(fx.Valid)}}
				}
				l += m + int(ln)
			default:
				return []span{{"input", len(fx.Valid)}}
			}
			name := fmt.Sprintf("f%d", tag>>3)
			if k := len(out); k > 0 && out[k-1].Name == name {
				out[k-1].Len += l // repeated field (commitments)
			} else {
				out = append(out, span{name, l})
			}
			b = b[l:]
		}
		return out
	}
	return []span{{"input", len(fx.Valid)}}
}

// fieldAt names the field containing offset off (a cut at off keeps bytes [0,off)).
func fieldAt(layout []span, off int) string {
	pos := 0
	for _, s := range layout {
		if off < pos+s.Len {
			if off == pos {
				return "before-" + s.Name
			}
			return "in-" + s.Name
		}
		pos += s.Len
	}
	return "end"
}

type fieldMut struct {
	Name string
	B    []byte                                  // replaces the untrusted field, or
	Run  func() (err error, follow func() error) // a run with another input altered
}

func must(err error) {
	if err != nil {
		panic("harness fixture: " + err.Error())
	}
}

func keyPair(g kyber.Group, st cipher.Stream) (kyber.Scalar, kyber.Point) {
	x := g.Scalar().Pick(st)
	return x, g.Point().Mul(x, nil)
}

// ---- protobuf surgery (dedis/protobuf wire format: tag = field<<3|wiretype; 0 varint, 2 length-delimited)

type pbField struct {
	Num, Wire int
	Varint    uint64
	Data      []byte
}

func pbVarint(b []byte) (uint64, int) {
	var v uint64
	for i := 0; i < len(b) && i < 10; i++ {
		v |= uint64(b[i]&0x7f) << (7 * uint(i))
		if b[i]&0x80 == 0 {
			return v, i + 1
		}
	}
	return 0, -1
}

func pbPutVarint(v uint64) []byte {
	var out []byte
	for v >= 0x80 {
		out = append(out, byte(v)|0x80)
		v >>= 7
	}
	return append(out, byte(v))
}

func pbParse(b []byte) ([]pbField, bool) {
	var out []pbField
	for len(b) > 0 {
		tag, n := pbVarint(b)
		if n < 0 {
			return nil, false
		}
		b = b[n:]
		f := pbField{Num: int(tag >> 3), Wire: int(tag & 7)}
		switch f.Wire {
		case 0:
			v, n := pbVarint(b)
			if n < 0 {
				return nil, false
			}
			f.Varint = v
			b = b[n:]
		case 2:
			l, n := pbVarint(b)
			if n < 0 || int(l) > len(b)-n {
				return nil, false
			}
			f.Data = append([]byte{}, b[n:n+int(l)]...)
			b = b[n+int(l):]
		default:
			return nil, false
		}
		out = append(out, f)
	}
	return out, true
}

func pbEncode(fs []pbField) []byte {
	var out []byte
	for _, f := range fs {
		out = append(out, pbPutVarint(uint64(f.Num<<3|f.Wire))...)
		if f.Wire == 0 {
			out = append(out, pbPutVarint(f.Varint)...)
		} else {
			out = append(out, pbPutVarint(uint64(len(f.Data)))...)
			out = append(out, f.Data...)
		}
	}
	return out
}

// pbSurgery produces structured alterations of a protobuf message: every
// field dropped / emptied / duplicated / truncated / lengthened, nested
// share messages (fields named in nested) altered the same way, varints set
// to edge values.
func pbSurgery(valid []byte, nested map[int]bool, r *rand.Rand) []fieldMut {
	fs, ok := pbParse(valid)
	if !ok {
		return nil
	}
	var out []fieldMut
	add := func(name string, g []pbField) { out = append(out, fieldMut{Name: name, B: pbEncode(g)}) }
	clone := func() []pbField {
		c := make([]pbField, len(fs))
		copy(c, fs)
		return c
	}
	seen := map[int]bool{}
	for i, f := range fs {
		if seen[f.Num] {
			continue
		}
		seen[f.Num] = true
		n := fmt.Sprint(f.Num)
		g := clone()
		add("drop-f"+n, append(g[:i:i], g[i+1:]...))
		g = clone()
		add("dup-f"+n, append(g, f))
		if f.Wire == 2 {
			g = clone()
			g[i].Data = nil
			add("empty-f"+n, g)
			if len(f.Data) > 1 {
				g = clone()
				g[i].Data = f.Data[:len(f.Data)-1]
				add("short-f"+n, g)
				g = clone()
				g[i].Data = append(append([]byte{}, f.Data...), 0)
				add("long-f"+n, g)
				g = clone()
				g[i].Data = bytes.Repeat([]byte{0xff}, len(f.Data))
				add("ff-f"+n, g)
			}
			g = clone()
			g[i].Wire, g[i].Varint = 0, 7
			add("retype-f"+n, g)
			if nested[f.Num] {
				for _, m := range pbSurgery(f.Data, nil, r) {
					g = clone()
					g[i].Data = m.B
					add("f"+n+"."+m.Name, g)
				}
			}
		} else {
			for _, v := range []uint64{0, 1, 1 << 31, 1<<32 - 1, 1 << 32, 1<<63 - 1, 1<<64 - 1} {
				g = clone()
				g[i].Varint = v
				add(fmt.Sprintf("f%s=%d", n, v), g)
			}
			g = clone()
			g[i].Wire, g[i].Data = 2, []byte{1}
			add("retype-f"+n, g)
		}
	}
	// an unknown field, and a length prefix pointing past the end
	add("unknown-field", append(clone(), pbField{Num: 15, Wire: 2, Data: []byte{1, 2, 3}}))
	out = append(out, fieldMut{Name: "overlong-length", B: append(append([]byte{}, valid...), 0x0a, 0xff, 0xff, 0x03)})
	return out
}

// ---- fixtures

type randSuite struct {
	kyber.Group
	st cipher.Stream
}

func (r randSuite) RandomStream() cipher.Stream { return r.st }

func buildFixtures(seed int64, only string) []*fixture {
	var out []*fixture
	want := func(p string) bool { return only == "" || strings.HasPrefix(p, only) }
	gs := genericSuites()
	var gnames []string
	for n := range gs {
		gnames = append(gnames, n)
	}
	sort.Strings(gnames)
	msg := []byte("verif: composite parser message")

	// Schnorr over every generic suite and over BN256 G1
	if want("schnorr.Verify") {
		type sg struct {
			name string
			g    kyber.Group
		}
		var list []sg
		for _, n := range gnames {
			list = append(list, sg{n, gs[n]})
		}
		list = append(list, sg{"bn256-g1", bn256.NewSuite().G1()})
		for _, e := range list {
			e := e
			st := seedStream(seed, "schnorr", e.name)
			x, X := keyPair(e.g, st)
			sig, err := schnorr.Sign(randSuite{e.g, st}, x, msg)
			must(err)
			pub, _ := X.MarshalBinary()
			out = append(out, &fixture{Parser: "schnorr.Verify", Config: e.name, Valid: sig,
				Layout: []span{{"R", e.g.PointLen()}, {"s", e.g.ScalarLen()}},
				Run:    func(b []byte) (error, func() error) { return schnorr.VerifyWithChecks(e.g, pub, msg, b), nil },
				Fields: func(r *rand.Rand) []fieldMut {
					var fm []fieldMut
					for _, m := range byteMutations(pub, r, 2) {
						m := m
						fm = append(fm, fieldMut{Name: "pub:" + m.name, Run: func() (error, func() error) {
							return schnorr.VerifyWithChecks(e.g, m.b, msg, sig), nil
						}})
					}
					return fm
				}})
		}
	}
	if want("eddsa") {
		st := seedStream(seed, "eddsa")
		ed := eddsa.NewEdDSA(st)
		sig, err := ed.Sign(msg)
		must(err)
		pub, _ := ed.Public.MarshalBinary()
		out = append(out, &fixture{Parser: "eddsa.Verify", Config: "ed25519", Valid: sig, Layout: []span{{"R", 32}, {"s", 32}},
			Run: func(b []byte) (error, func() error) { return eddsa.VerifyWithChecks(pub, msg, b), nil },
			Fields: func(r *rand.Rand) []fieldMut {
				var fm []fieldMut
				for _, m := range byteMutations(pub, r, 2) {
					m := m
					fm = append(fm, fieldMut{Name: "pub:" + m.name, Run: func() (error, func() error) {
						return eddsa.VerifyWithChecks(m.b, msg, sig), nil
					}})
				}
				return fm
			}})
		enc, err := ed.MarshalBinary()
		must(err)
		out = append(out, &fixture{Parser: "eddsa.UnmarshalBinary", Config: "ed25519", Valid: enc,
			Run: func(b []byte) (error, func() error) {
				e2 := &eddsa.EdDSA{}
				if err := e2.UnmarshalBinary(b); err != nil {
					return err, nil
				}
				return nil, func() error { _, err := e2.Sign(msg); return err }
			}})
	}
	ps := pairingSuites()
	var pnames []string
	for n := range ps {
		pnames = append(pnames, n)
	}
	sort.Strings(pnames)
	for _, pn := range pnames {
		pn := pn
		suite := ps[pn]
		type sch struct {
			name string
			mk   func() sign.Scheme
			th   func() sign.ThresholdScheme
			kg   kyber.Group
		}
		for _, sc := range []sch{
			{"sigs-on-g1", func() sign.Scheme { return bls.NewSchemeOnG1(suite) }, func() sign.ThresholdScheme { return tbls.NewThresholdSchemeOnG1(suite) }, suite.G2()},
			{"sigs-on-g2", func() sign.Scheme { return bls.NewSchemeOnG2(suite) }, func() sign.ThresholdScheme { return tbls.NewThresholdSchemeOnG2(suite) }, suite.G1()},
		} {
			sc := sc
			cfgName := pn + "/" + sc.name
			var sig []byte
			var X kyber.Point
			var scheme sign.Scheme
			if _, _, pan := core.Try(func() {
				scheme = sc.mk()
				st := seedStream(seed, "bls", cfgName)
				var x kyber.Scalar
				x, X = scheme.NewKeyPair(st)
				var err error
				sig, err = scheme.Sign(x, msg)
				must(err)
				must(scheme.Verify(X, msg, sig))
			}); pan {
				continue // this suite does not offer the scheme on this group assignment (no hash-to-group)
			}
			if want("bls.Verify") {
				out = append(out, &fixture{Parser: "bls.Verify", Config: cfgName, Valid: sig,
					Run: func(b []byte) (error, func() error) { return scheme.Verify(X, msg, b), nil }})
			}
			if want("bdn") {
				var bsch *bdn.Scheme
				if sc.name == "sigs-on-g1" {
					bsch = bdn.NewSchemeOnG1(suite)
				} else {
					bsch = bdn.NewSchemeOnG2(suite)
				}
				st := seedStream(seed, "bdn", cfgName)
				x1, X1 := bsch.NewKeyPair(st)
				_, X2 := bsch.NewKeyPair(st)
				bsig, err := bsch.Sign(x1, msg)
				must(err)
				out = append(out, &fixture{Parser: "bdn.Verify", Config: cfgName, Valid: bsig,
					Run: func(b []byte) (error, func() error) { return bsch.Verify(X1, msg, b), nil }})
				out = append(out, &fixture{Parser: "bdn.AggregateSignatures", Config: cfgName, Valid: bsig,
					Run: func(b []byte) (error, func() error) {
						mask, err := bdn.NewMask(sc.kg, []kyber.Point{X1, X2}, nil)
						if err != nil {
							return nil, nil
						}
						_ = mask.SetBit(0, true)
						_, err = bsch.AggregateSignatures([][]byte{b}, mask)
						return err, nil
					}})
			}
			if want("tbls") {
				th := sc.th()
				st := seedStream(seed, "tbls", cfgName)
				n, t := 4, 3
				pri := share.NewPriPoly(sc.kg, uint32(t), nil, st)
				pub := pri.Commit(sc.kg.Point().Base())
				var parts [][]byte
				for _, s := range pri.Shares(uint32(n)) {
					p, err := th.Sign(s, msg)
					must(err)
					parts = append(parts, p)
				}
				out = append(out, &fixture{Parser: "tbls.VerifyPartial", Config: cfgName, Valid: parts[1], Layout: []span{{"index", 2}, {"sig", len(parts[1]) - 2}},
					Run: func(b []byte) (error, func() error) { return th.VerifyPartial(pub, msg, b), nil }})
				out = append(out, &fixture{Parser: "tbls.Recover", Config: cfgName, Valid: parts[0], Layout: []span{{"index", 2}, {"sig", len(parts[0]) - 2}},
					Run: func(b []byte) (error, func() error) {
						sigs := [][]byte{b, parts[1], parts[2], parts[3]}
						_, err := th.Recover(pub, msg, sigs, uint32(t), uint32(n))
						return err, nil
					}})
			}
		}
	}
	for _, n := range gnames {
		n := n
		s := gs[n]
		if want("cosi.Verify") {
			st := seedStream(seed, "cosi", n)
			var privs []kyber.Scalar
			var pubs []kyber.Point
			for i := 0; i < 3; i++ {
				x, X := keyPair(s, st)
				privs, pubs = append(privs, x), append(pubs, X)
			}
			var sig []byte
			if _, _, pan := core.Try(func() {
				mask, err := cosi.NewMask(s, pubs, nil)
				must(err)
				var vs []kyber.Scalar
				var Vs []kyber.Point
				var masks [][]byte
				for i := range privs {
					v, V := cosi.Commit(s)
					vs, Vs = append(vs, v), append(Vs, V)
					m, err := cosi.NewMask(s, pubs, pubs[i])
					must(err)
					masks = append(masks, m.Mask())
				}
				aggV, aggMask, err := cosi.AggregateCommitments(s, Vs, masks)
				must(err)
				must(mask.SetMask(aggMask))
				c, err := cosi.Challenge(s, aggV, mask.AggregatePublic, msg)
				must(err)
				var rs []kyber.Scalar
				for i := range privs {
					r, err := cosi.Response(s, privs[i], vs[i], c)
					must(err)
					rs = append(rs, r)
				}
				aggR, err := cosi.AggregateResponses(s, rs)
				must(err)
				sig, err = cosi.Sign(s, aggV, aggR, mask)
				must(err)
				must(cosi.Verify(s, pubs, msg, sig, nil))
			}); !pan {
				out = append(out, &fixture{Parser: "cosi.Verify", Config: n, Valid: sig,
					Layout: []span{{"commitment", s.PointLen()}, {"response", s.ScalarLen()}, {"mask", len(sig) - s.PointLen() - s.ScalarLen()}},
					Run: func(b []byte) (error, func() error) {
						if b == nil {
							b = []byte{}
						}
						return cosi.Verify(s, pubs, msg, b, cosi.NewThresholdPolicy(1)), nil
					}})
			}
		}
		if want("proof.HashVerify") {
			st := seedStream(seed, "proof", n)
			x, X := keyPair(s, st)
			pred := proof.Rep("X", "x", "B")
			B := s.Point().Base()
			prover := pred.Prover(s, map[string]kyber.Scalar{"x": x}, map[string]kyber.Point{"B": B, "X": X}, nil)
			pf, err := proof.HashProve(s, "verif-c04", prover)
			must(err)
			out = append(out, &fixture{Parser: "proof.HashVerify", Config: n + "/rep", Valid: pf,
				Run: func(b []byte) (error, func() error) {
					v := pred.Verifier(s, map[string]kyber.Point{"B": B, "X": X})
					return proof.HashVerify(s, "verif-c04", v, b), nil
				}})
			// an Or of two Ands: the proof carries sub-challenges and more responses
			y, Y := keyPair(s, st)
			_ = y
			or := proof.Or(proof.And(proof.Rep("X", "x", "B"), proof.Rep("X2", "x", "B2")), proof.Rep("Y", "y", "B"))
			B2 := s.Point().Pick(st)
			X2 := s.Point().Mul(x, B2)
			pts := map[string]kyber.Point{"B": B, "B2": B2, "X": X, "X2": X2, "Y": Y}
			choice := map[proof.Predicate]int{or: 0}
			prover2 := or.Prover(s, map[string]kyber.Scalar{"x": x}, pts, choice)
			pf2, err := proof.HashProve(s, "verif-c04", prover2)
			must(err)
			out = append(out, &fixture{Parser: "proof.HashVerify", Config: n + "/or-and", Valid: pf2,
				Run: func(b []byte) (error, func() error) {
					return proof.HashVerify(s, "verif-c04", or.Verifier(s, pts), b), nil
				}})
		}
		if want("ecies.Decrypt") {
			st := seedStream(seed, "ecies", n)
			x, X := keyPair(s, st)
			ct, err := ecies.Encrypt(s, X, msg, s.Hash)
			must(err)
			out = append(out, &fixture{Parser: "ecies.Decrypt", Config: n, Valid: ct,
				Layout: []span{{"ephemeral", s.PointLen()}, {"body", len(msg)}, {"tag", 16}},
				Run:    func(b []byte) (error, func() error) { _, err := ecies.Decrypt(s, x, b, s.Hash); return err, nil }})
		}
		if want("anon") {
			st := seedStream(seed, "anon", n)
			var set anon.Set
			var privs []kyber.Scalar
			for i := 0; i < 3; i++ {
				kp := key.NewKeyPair(randSuiteFull{s, st})
				set = append(set, kp.Public)
				privs = append(privs, kp.Private)
			}
			ct, err := anon.Encrypt(s, msg, set)
			must(err)
			out = append(out, &fixture{Parser: "anon.Decrypt", Config: n, Valid: ct,
				Layout: []span{{"ephemeral", s.PointLen()}, {"header", 3 * s.ScalarLen()}, {"body", len(msg)}, {"tag", 16}},
				Run:    func(b []byte) (error, func() error) { _, err := anon.Decrypt(s, b, set, 1, privs[1]); return err, nil }})
			for _, scope := range [][]byte{nil, []byte("scope")} {
				scope := scope
				sig := anon.Sign(s, msg, set, scope, 1, privs[1])
				cn := n + "/unlinkable"
				if scope != nil {
					cn = n + "/linkable"
				}
				out = append(out, &fixture{Parser: "anon.Verify", Config: cn, Valid: sig,
					Run: func(b []byte) (error, func() error) { _, err := anon.Verify(s, msg, set, scope, b); return err, nil }})
			}
		}
		if want("vss-pedersen") && n != "edvt-full" {
			out = append(out, vssPedersenFixtures(s, n, seed)...)
		}
		if want("vss-rabin") && n != "edvt-full" {
			out = append(out, vssRabinFixtures(s, n, seed)...)
		}
	}
	return out
}

type randSuiteFull struct {
	fullSuite
	st cipher.Stream
}

func (r randSuiteFull) RandomStream() cipher.Stream { return r.st }

func vssContextPedersen(s fullSuite, dealer kyber.Point, verifiers []kyber.Point) []byte {
	h := s.Hash()
	_, _ = h.Write([]byte("vss-dealer"))
	_, _ = dealer.MarshalTo(h)
	_, _ = h.Write([]byte("vss-verifiers"))
	for _, v := range verifiers {
		_, _ = v.MarshalTo(h)
	}
	return h.Sum(nil)
}

func vssContextRabin(s fullSuite, dealer kyber.Point, verifiers []kyber.Point) []byte {
	h := s.XOF([]byte("vss-dealer"))
	_, _ = dealer.MarshalTo(h)
	_, _ = h.Write([]byte("vss-verifiers"))
	for _, v := range verifiers {
		_, _ = v.MarshalTo(h)
	}
	sum := make([]byte, 128)
	_, _ = h.Read(sum)
	return sum
}

// sealDeal is what a (malicious) dealer does to ship arbitrary plaintext as an
// encrypted deal: ephemeral DH key signed with the long-term key, HKDF, AES-GCM.
func sealDeal(s fullSuite, fn func() hash.Hash, dealerLong kyber.Scalar, vPub kyber.Point, ctx, plaintext []byte, st cipher.Stream) (dhPub kyber.Point, dhBytes, sig, ct []byte) {
	dhSecret := s.Scalar().Pick(st)
	dhPub = s.Point().Mul(dhSecret, nil)
	dhBytes, _ = dhPub.MarshalBinary()
	sig, err := schnorr.Sign(s, dealerLong, dhBytes)
	must(err)
	pre, _ := s.Point().Mul(dhSecret, vPub).MarshalBinary()
	rd := hkdf.New(fn, pre, nil, ctx)
	k := make([]byte, 32)
	_, err = rd.Read(k)
	must(err)
	blk, err := aes.NewCipher(k)
	must(err)
	gcm, err := cipher.NewGCM(blk)
	must(err)
	ct = gcm.Seal(nil, make([]byte, gcm.NonceSize()), plaintext, ctx)
	return
}

func vssPedersenFixtures(s fullSuite, n string, seed int64) []*fixture {
	st := seedStream(seed, "vssp", n)
	nv, t := 4, 3
	dl, dp := keyPair(s, st)
	var vx []kyber.Scalar
	var vp []kyber.Point
	for i := 0; i < nv; i++ {
		x, X := keyPair(s, st)
		vx, vp = append(vx, x), append(vp, X)
	}
	dealer, err := vssp.NewDealer(s, dl, s.Scalar().Pick(st), vp, uint32(t))
	must(err)
	d1, err := dealer.PlaintextDeal(1)
	must(err)
	enc, err := d1.Marshal()
	must(err)
	ctx := vssContextPedersen(s, dp, vp)
	fx := &fixture{Parser: "vss-pedersen.Deal", Config: n, Valid: enc,
		Run: func(b []byte) (error, func() error) {
			d := &vssp.Deal{}
			if err := d.Unmarshal(b, s); err != nil {
				return err, nil
			}
			return nil, func() error { return vssp.NewEmptyAggregator(s, vp).VerifyDeal(d, false) }
		},
		Fields: func(r *rand.Rand) []fieldMut { return pbSurgery(enc, map[int]bool{2: true}, r) }}
	runEnc := func(pt []byte, k int) (error, func() error) {
		_, dhb, sig, ct := sealDeal(s, s.Hash, dl, vp[1], ctx, pt, seedStream(seed, "seal", n, fmt.Sprint(k)))
		v, err := vssp.NewVerifier(s, vx[1], dp, vp)
		must(err)
		_, err = v.ProcessEncryptedDeal(&vssp.EncryptedDeal{DHKey: dhb, Signature: sig, Cipher: ct})
		return err, nil
	}
	// self-check of the harness-side sealing: the honest plaintext must be processed
	if err, _ := runEnc(enc, 0); err != nil {
		panic("harness: sealed honest deal refused: " + err.Error())
	}
	k := 0
	fe := &fixture{Parser: "vss-pedersen.EncryptedDeal", Config: n, Valid: enc,
		Run: func(b []byte) (error, func() error) { k++; return runEnc(b, k) },
		Fields: func(r *rand.Rand) []fieldMut {
			out := pbSurgery(enc, map[int]bool{2: true}, r)
			// the envelope fields themselves are untrusted too
			_, dhb, sig, ct := sealDeal(s, s.Hash, dl, vp[1], ctx, enc, seedStream(seed, "seal-env", n))
			for fi, fld := range [][]byte{dhb, sig, ct} {
				for _, m := range byteMutations(fld, r, 1) {
					fi, m := fi, m
					out = append(out, fieldMut{Name: []string{"dhkey:", "signature:", "cipher:"}[fi] + m.name, Run: func() (error, func() error) {
						e := &vssp.EncryptedDeal{DHKey: dhb, Signature: sig, Cipher: ct}
						switch fi {
						case 0:
							e.DHKey = m.b
						case 1:
							e.Signature = m.b
						default:
							e.Cipher = m.b
						}
						v, err := vssp.NewVerifier(s, vx[1], dp, vp)
						must(err)
						_, err = v.ProcessEncryptedDeal(e)
						return err, nil
					}})
				}
			}
			return out
		}}
	return []*fixture{fx, fe}
}

func vssRabinFixtures(s fullSuite, n string, seed int64) []*fixture {
	st := seedStream(seed, "vssr", n)
	nv, t := 4, 3
	dl, dp := keyPair(s, st)
	var vx []kyber.Scalar
	var vp []kyber.Point
	for i := 0; i < nv; i++ {
		x, X := keyPair(s, st)
		vx, vp = append(vx, x), append(vp, X)
	}
	dealer, err := vssr.NewDealer(s, dl, s.Scalar().Pick(st), vp, uint32(t))
	must(err)
	d1, err := dealer.PlaintextDeal(1)
	must(err)
	enc, err := d1.Marshal()
	must(err)
	ctx := vssContextRabin(s, dp, vp)
	fx := &fixture{Parser: "vss-rabin.Deal", Config: n, Valid: enc,
		Run: func(b []byte) (error, func() error) {
			d := &vssr.Deal{}
			if err := d.Unmarshal(b, s); err != nil {
				return err, nil
			}
			return nil, func() error { // what the library does next with a received deal
				if d.SecShare == nil || d.RndShare == nil {
					return errors.New("missing share")
				}
				_, err := vssr.RecoverSecret(s, []*vssr.Deal{d, d, d}, uint32(nv), uint32(t))
				return err
			}
		},
		Fields: func(r *rand.Rand) []fieldMut { return pbSurgery(enc, map[int]bool{2: true, 3: true}, r) }}
	runEnc := func(pt []byte, k int) (error, func() error) {
		dhPub, _, sig, ct := sealDeal(s, s.Hash, dl, vp[1], ctx, pt, seedStream(seed, "sealr", n, fmt.Sprint(k)))
		v, err := vssr.NewVerifier(s, vx[1], dp, vp)
		must(err)
		_, err = v.ProcessEncryptedDeal(&vssr.EncryptedDeal{DHKey: dhPub, Signature: sig, Cipher: ct})
		return err, nil
	}
	if err, _ := runEnc(enc, 0); err != nil {
		panic("harness: sealed honest rabin deal refused: " + err.Error())
	}
	k := 0
	fe := &fixture{Parser: "vss-rabin.EncryptedDeal", Config: n, Valid: enc,
		Run:    func(b []byte) (error, func() error) { k++; return runEnc(b, k) },
		Fields: func(r *rand.Rand) []fieldMut { return pbSurgery(enc, map[int]bool{2: true, 3: true}, r) }}
	return []*fixture{fx, fe}
}

// ---- byte-level mutation classes of Decode.tla (Muts)

type bmut struct {
	name string
	b    []byte
}

// byteMutations returns a few representatives of every byte-level class (used for secondary fields).
func byteMutations(v []byte, r *rand.Rand, per int) []bmut {
	var out []bmut
	for _, m := range []string{"empty", "trunc1", "truncHalf", "extend1", "flipFirst", "flipMid", "flipLast", "all00", "allff", "random"} {
		for i, b := range concretise(m, v, r, per) {
			out = append(out, bmut{fmt.Sprintf("%s#%d", m, i), b})
		}
	}
	return out
}

// concretise builds up to `per` byte strings of one mutation class.
func concretise(mut string, v []byte, r *rand.Rand, per int) [][]byte {
	cp := func() []byte { return append([]byte{}, v...) }
	n := len(v)
	var out [][]byte
	flip := func(pos int) {
		for k := 0; k < 8 && len(out) < per; k++ {
			b := cp()
			b[pos] ^= 1 << uint((k*3)%8)
			out = append(out, b)
		}
	}
	switch mut {
	case "valid":
		out = append(out, cp())
	case "empty":
		out = append(out, []byte{}, nil)
	case "trunc1":
		if n > 0 {
			out = append(out, cp()[:n-1])
		}
	case "truncHalf":
		out = append(out, cp()[:n/2])
		if n > 3 {
			out = append(out, cp()[:n/3], cp()[:2*n/3])
		}
	case "truncTo1":
		if n > 0 {
			out = append(out, cp()[:1])
		}
	case "extend1":
		out = append(out, append(cp(), 0), append(cp(), byte(1+r.Intn(255))))
	case "extendBig":
		for i := 0; i < per; i++ {
			e := make([]byte, n+40+r.Intn(n+1))
			r.Read(e)
			out = append(out, append(cp(), e...))
		}
	case "flipFirst":
		if n > 0 {
			flip(0)
		}
	case "flipMid":
		if n > 0 {
			flip(n / 2)
		}
	case "flipLast":
		if n > 0 {
			flip(n - 1)
		}
	case "all00":
		out = append(out, make([]byte, n))
	case "allff":
		out = append(out, bytes.Repeat([]byte{0xff}, n))
	case "random":
		for i := 0; i < per; i++ {
			b := make([]byte, n)
			r.Read(b)
			out = append(out, b)
		}
	case "randomLen":
		for i := 0; i < 2*per; i++ {
			b := make([]byte, r.Intn(2*n+41))
			r.Read(b)
			out = append(out, b)
		}
		for _, l := range []int{1, 2, n - 1, n + 1, 2*n + 40} {
			if l >= 0 {
				out = append(out, make([]byte, l), bytes.Repeat([]byte{0xff}, l))
			}
		}
	}
	if len(out) > per && mut != "randomLen" && mut != "empty" {
		out = out[:per]
	}
	return out
}

type compRun struct {
	outcome string // "ok" | "error" | "crash"
	err     string
	panicS  string
	stack   string
	follow  string // "", "ok", "error", "crash"
	fpanic  string
	fstack  string
}

func runFixture(run func() (error, func() error), withFollow bool) compRun {
	var err error
	var fol func() error
	msg, stack, pan := core.Try(func() { err, fol = run() })
	if pan {
		return compRun{outcome: "crash", panicS: msg, stack: stack}
	}
	if err != nil {
		return compRun{outcome: "error", err: err.Error()}
	}
	cr := compRun{outcome: "ok"}
	if fol != nil && withFollow {
		var ferr error
		msg, stack, pan = core.Try(func() { ferr = fol() })
		switch {
		case pan:
			cr.follow, cr.fpanic, cr.fstack = "crash", msg, stack
		case ferr != nil:
			cr.follow, cr.err = "error", ferr.Error()
		default:
			cr.follow = "ok"
		}
	}
	return cr
}

// compCase is one concrete input of a composite parser.
type compCase struct {
	fx  *fixture
	mut string // class of Decode.tla
	sub string // stable sub-name (field surgery) or ""
	b   []byte
	run func() (error, func() error)
}

func casesFor(fx *fixture, mut string, seed int64, per int) []compCase {
	r := core.Rng(seed, "comp", fx.Parser, fx.Config, mut)
	var out []compCase
	if mut == "field" {
		if fx.Fields == nil {
			return nil
		}
		for _, fm := range fx.Fields(r) {
			fm := fm
			c := compCase{fx: fx, mut: mut, sub: fm.Name, b: fm.B, run: fm.Run}
			if c.run == nil {
				c.run = func() (error, func() error) { return fx.Run(append([]byte{}, fm.B...)) }
			}
			out = append(out, c)
		}
		return out
	}
	if mut == "truncEvery" {
		if len(fx.Valid) > maxEveryPrefix {
			return nil
		}
		layout := fx.layoutOf()
		for n := 0; n < len(fx.Valid); n++ {
			b := append([]byte{}, fx.Valid[:n]...)
			out = append(out, compCase{fx: fx, mut: mut, sub: fieldAt(layout, n), b: b, run: func() (error, func() error) {
				return fx.Run(append([]byte{}, b...))
			}})
		}
		return out
	}
	for _, b := range concretise(mut, fx.Valid, r, per) {
		b := b
		out = append(out, compCase{fx: fx, mut: mut, b: b, run: func() (error, func() error) {
			if b == nil {
				return fx.Run(nil)
			}
			return fx.Run(append([]byte{}, b...))
		}})
	}
	return out
}

func compKey(prop string, c compCase, parts ...string) string {
	m := c.mut
	if c.sub != "" {
		// strip run-specific counters from byte-mutation names: "pub:flipFirst#3" -> "pub:flipFirst"
		s := c.sub
		if i := strings.Index(s, "#"); i >= 0 {
			s = s[:i]
		}
		m += ":" + s
	}
	return prop + "/" + c.fx.Parser + ":" + c.fx.Config + "/" + m + "/" + strings.Join(parts, "/")
}

// CompositeReplay runs the behaviours TLC generated in Mode "composite"
// (parser x mutation class [x follow-up]) against the real entry points.
func CompositeReplay(cfg Config, res *core.Result) error {
	bhs, err := LoadBehaviours(cfg.In)
	if err != nil {
		return err
	}
	if len(bhs) == 0 {
		return fmt.Errorf("no behaviours in %s", cfg.In)
	}
	var keep []Behaviour
	for _, b := range bhs {
		if b[0].Act == "Parse" {
			keep = append(keep, b)
		}
	}
	bhs = keep
	if len(bhs) == 0 {
		return fmt.Errorf("no composite behaviours in %s", cfg.In)
	}
	res.AddTraces(len(bhs))
	fxs := buildFixtures(cfg.Seed, cfg.Only)
	byParser := map[string][]*fixture{}
	for _, f := range fxs {
		byParser[f.Parser] = append(byParser[f.Parser], f)
	}
	// one task per (fixture, mutation class): every concrete case runs once and is judged against each behaviour
	// of that class (the "ok" branch, the "error" branch, the branch with the follow-up)
	type task struct {
		fx  *fixture
		mut string
		bs  []Behaviour
	}
	var tasks []task
	idx := map[string]int{}
	missing := map[string]bool{}
	for _, b := range bhs {
		fl := byParser[b[0].Parser]
		if len(fl) == 0 && (cfg.Only == "" || strings.HasPrefix(b[0].Parser, cfg.Only)) {
			missing[b[0].Parser] = true
		}
		for _, f := range fl {
			k := f.Parser + "|" + f.Config + "|" + b[0].Mut
			ti, ok := idx[k]
			if !ok {
				ti = len(tasks)
				idx[k] = ti
				tasks = append(tasks, task{fx: f, mut: b[0].Mut})
			}
			tasks[ti].bs = append(tasks[ti].bs, b)
		}
	}
	for p := range missing {
		return fmt.Errorf("no fixture for parser %q of Decode.tla", p)
	}
	// fixtures are not safe for concurrent use (vss verifiers keep counters): serialise per fixture
	locks := map[*fixture]*sync.Mutex{}
	for _, f := range fxs {
		locks[f] = &sync.Mutex{}
	}
	var mu sync.Mutex
	perParser := map[string]int{}
	core.Parallel(len(tasks), runtime.NumCPU(), func(i int) {
		t := tasks[i]
		locks[t.fx].Lock()
		defer locks[t.fx].Unlock()
		cases := casesFor(t.fx, t.mut, cfg.Seed, cfg.Per)
		if len(cases) == 0 {
			res.Skip("mutation-class-not-applicable:" + t.mut)
			return
		}
		anyFollow := false
		for _, b := range t.bs {
			if len(b) > 1 {
				anyFollow = true
			}
		}
		for ci, c := range cases {
			cr := runFixture(c.run, anyFollow)
			id := fmt.Sprintf("%s|%s|%s|%s|%d", t.fx.Parser, t.fx.Config, t.mut, c.sub, ci)
			for _, b := range t.bs {
				st := b[0]
				detail := func(step int, exp any, got, pn, stk string) map[string]any {
					return map[string]any{"parser": t.fx.Parser, "config": t.fx.Config, "mutation": st.Mut, "sub": c.sub, "input_hex": hexs(c.b), "input_len": len(c.b),
						"valid_hex": hexs(t.fx.Valid), "behaviour": b, "step": step, "expected": exp, "got": got, "error": cr.err, "panic": pn, "stack": stk,
						"tlc": "Decode.tla Mode=all, INVARIANT Emit"}
				}
				if !in(st.Allowed, cr.outcome) {
					res.Eval(id)
					res.Violate(compKey(cfg.Prop, c, cr.outcome), fmt.Sprintf("%s (%s): input mutated by [%s %s] -> %s, specification allows %v", t.fx.Parser, t.fx.Config, st.Mut, c.sub, cr.outcome, st.Allowed),
						detail(0, st.Allowed, cr.outcome, cr.panicS, cr.stack))
					break
				}
				if cr.outcome != st.Outcome {
					continue
				}
				res.Eval(id + fmt.Sprint(len(b)))
				mu.Lock()
				perParser[t.fx.Parser]++
				mu.Unlock()
				if len(b) > 1 && cr.follow != "" && !in(b[1].Allowed, cr.follow) {
					res.Violate(compKey(cfg.Prop, c, "use:"+b[1].Op, cr.follow), fmt.Sprintf("%s (%s): %s on the value parsed from input mutated by [%s %s] -> %s, specification allows %v", t.fx.Parser, t.fx.Config, b[1].Op, st.Mut, c.sub, cr.follow, b[1].Allowed),
						detail(1, b[1].Allowed, cr.follow, cr.fpanic, cr.fstack))
				}
				if ci == 0 && st.Mut == "flipMid" {
					res.Sample(map[string]any{"parser": t.fx.Parser, "config": t.fx.Config, "behaviour": b, "input_hex": hexs(c.b), "observed": cr.outcome})
				}
			}
		}
	})
	res.SetExtra("replay_cases_per_parser", perParser)
	res.SetExtra("fixtures", len(fxs))
	return nil
}

// CompositeRecord logs (parser, mutation class, outcome[, follow-up]) for
// DecodeTrace.tla in Mode "composite" (code -> spec).
func CompositeRecord(cfg Config, res *core.Result) error {
	fxs := buildFixtures(cfg.Seed+1000, cfg.Only)
	tw := newTraceWriter()
	muts := []string{"valid", "empty", "trunc1", "truncHalf", "truncTo1", "truncEvery", "extend1", "extendBig", "flipFirst", "flipMid", "flipLast", "all00", "allff", "random", "randomLen", "field"}
	core.Parallel(len(fxs), runtime.NumCPU(), func(i int) {
		fx := fxs[i]
		for _, m := range muts {
			for ci, c := range casesFor(fx, m, cfg.Seed+1000, cfg.Per) {
				cr := runFixture(c.run, true)
				o := &object{Group: fx.Config, Kind: "composite", Subject: fx.Parser, ClsShort: strings.TrimSuffix(m+":"+strings.SplitN(c.sub, "#", 2)[0], ":"), Input: c.b, Path: fx.Parser}
				o.Events = append(o.Events, Event{Ev: "Parse", Args: map[string]any{"mut": m}, Ret: cr.outcome})
				if cr.outcome == "crash" {
					o.Note = cr.panicS + "\n" + cr.stack
				}
				if cr.follow != "" {
					o.Events = append(o.Events, Event{Ev: "Use", Args: map[string]any{"op": "UseParsed"}, Ret: cr.follow})
					if cr.follow == "crash" {
						o.Note = cr.fpanic + "\n" + cr.fstack
					}
				}
				tw.add(o)
				res.Eval(fmt.Sprintf("rec|%s|%s|%s|%s|%d", fx.Parser, fx.Config, m, c.sub, ci))
			}
		}
	})
	if cfg.Expect != "" {
		return findExpected(tw, cfg, res)
	}
	objs, lines, runs, cl, err := tw.write(cfg.Trace, cfg.Corrupt)
	if err != nil {
		return err
	}
	res.AddTraces(objs)
	res.SetExtra("trace_objects_composite", objs)
	res.SetExtra("trace_lines_composite", lines)
	res.SetExtra("recorded_runs_composite", runs)
	res.SetExtra("corrupted_line", cl)
	return nil
}
