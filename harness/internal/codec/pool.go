package codec

import (
	"bytes"
	"fmt"
	"math/big"
	"math/rand"
	"runtime"
	"sort"
	"strings"
	"sync"

	"go.dedis.ch/kyber/v4"
	"verifharness/internal/codec/refmodel"
	"verifharness/internal/core"
	"verifharness/internal/groups"
)

// Witness is a byte string together with the class refmodel certified for it.
type Witness struct {
	B   []byte
	Cls Class
	Src string // how it was built (for the replay file)
}

// Pool holds the witnesses of one encoding format, by class.
type Pool struct {
	Format refmodel.Format // nil for opaque formats (GT) and scalars
	Size   int
	By     map[Class][]Witness
	Total  int
	cf     func(b []byte) Class
}

func (p *Pool) add(b []byte, c Class, src string, cap int) {
	ws := p.By[c]
	if len(ws) >= cap {
		return
	}
	for _, w := range ws {
		if bytes.Equal(w.B, b) {
			return
		}
	}
	p.By[c] = append(ws, Witness{B: append([]byte{}, b...), Cls: c, Src: src})
	p.Total++
}

// Classes returns the witnessed classes in a stable order.
func (p *Pool) Classes() []Class {
	var cs []Class
	for c := range p.By {
		cs = append(cs, c)
	}
	sort.Slice(cs, func(i, j int) bool { return cs[i].String() < cs[j].String() })
	return cs
}

// seedStream is a deterministic kyber random stream.
func seedStream(seed int64, labels ...string) *detStream {
	return &detStream{r: core.Rng(seed, labels...)}
}

type detStream struct{ r *rand.Rand }

func (d *detStream) XORKeyStream(dst, src []byte) {
	buf := make([]byte, len(src))
	d.r.Read(buf)
	for i := range src {
		dst[i] = src[i] ^ buf[i]
	}
}

// validPoints returns library-produced elements of the group (encodings).
func validPoints(g *groups.Info, seed int64, n int) [][]byte {
	var out [][]byte
	st := seedStream(seed, "valid", g.Name)
	add := func(p kyber.Point) {
		if b, err := p.MarshalBinary(); err == nil {
			out = append(out, b)
		}
	}
	for i := 0; i < n; i++ {
		switch {
		case g.CanPick:
			add(g.NewPoint().Pick(st))
		case g.CanBase:
			add(g.NewPoint().Mul(g.Group.Scalar().Pick(st), nil))
		default: // kilic GT: only pairings produce elements
			add(g.Suite.Pair(g.Suite.G1().Point().Pick(st), g.Suite.G2().Point().Pick(st)))
		}
	}
	add(g.NewPoint().Null())
	if g.CanBase {
		add(g.NewPoint().Base())
	}
	return out
}

var (
	poolMu    sync.Mutex
	poolCache = map[string]*Pool{}
)

// PointPool builds (once per format and seed) the witness pool for a group's
// point encoding: candidates from refmodel and from the library, bucketed by
// the class refmodel certifies, plus length variants.
func PointPool(g *groups.Info, seed int64, per int) (*Pool, error) {
	size := g.Group.PointLen()
	var f refmodel.Format
	name := "opaque:" + g.Name
	if g.Sort != "GT" {
		var err error
		f, err = refmodel.FormatFor(g.Name, g.Order)
		if err != nil {
			return nil, err
		}
		name = f.Name()
	}
	key := fmt.Sprintf("%s/%d/%d", name, seed, per)
	poolMu.Lock()
	if p, ok := poolCache[key]; ok {
		poolMu.Unlock()
		return p, nil
	}
	poolMu.Unlock()

	p := &Pool{Format: f, Size: size, By: map[Class][]Witness{}}
	p.cf = func(b []byte) Class { return ClassOf(f, size, b) }
	rng := core.Rng(seed, "pool", name)
	var cands [][]byte
	var srcs []string
	push := func(b []byte, src string) { cands = append(cands, b); srcs = append(srcs, src) }
	valid := validPoints(g, seed, per+4)
	for i, b := range valid {
		if i < per+4 {
			push(b, "library-picked") // Pick / random multiples: classified like any other candidate
		} else {
			push(b, "library") // Null and Base: the model must agree on these
		}
	}
	if f != nil {
		bb, _ := g.Group.Point().Base().MarshalBinary()
		if err := f.SetBase(bb); err != nil {
			return nil, err
		}
		for _, b := range f.Candidates(rng, per) {
			push(b, "refmodel-candidate")
		}
		// other serialisation formats / lenient readings at other lengths (uncompressed x||y of members, of
		// on-curve points outside the subgroup, of off-curve pairs; concatenations; zero padding); and the
		// same one byte shorter and longer
		for _, b := range f.Alternates(rng, per/2+1) {
			push(b, "refmodel-alternate-format")
			if len(b) > 1 && rng.Intn(3) == 0 {
				push(b[:len(b)-1], "refmodel-alternate-format-1")
				push(append(append([]byte{}, b...), byte(rng.Intn(256))), "refmodel-alternate-format+1")
			}
		}
	}
	// strings of the encoding size with no structure
	for i := 0; i < per; i++ {
		b := make([]byte, size)
		rng.Read(b)
		push(b, "random")
	}
	push(make([]byte, size), "all-00")
	push(bytes.Repeat([]byte{0xff}, size), "all-ff")
	// length variants: truncations / extensions of valid encodings and of arbitrary candidates, random, 00, ff
	lens := []int{0, 1, size - 1, size + 1, 2*size + 40, size / 2, size + 7, 2*size - 1, 2 * size, 2*size + 1, 3 * size}
	for _, n := range lens {
		for i := 0; i < per; i++ {
			var b []byte
			src := ""
			switch i % 4 {
			case 0, 1: // valid encoding truncated or followed by trailing bytes
				v := valid[(i/2)%len(valid)]
				src = "valid-resized"
				if n <= len(v) {
					b = append([]byte{}, v[:n]...)
				} else {
					b = append(append([]byte{}, v...), make([]byte, n-len(v))...)
					if i%4 == 1 {
						rng.Read(b[len(v):])
					}
				}
			case 2:
				b = make([]byte, n)
				rng.Read(b)
				src = "random"
			case 3: // short integers / leading zeros
				b = make([]byte, n)
				if n > 0 {
					b[n-1] = byte(1 + rng.Intn(8))
				}
				src = "small-integer"
			}
			push(b, src)
		}
		push(make([]byte, n), "all-00")
		push(bytes.Repeat([]byte{0xff}, n), "all-ff")
		if n > size && len(valid) > 0 { // zero-padded on the left (big-endian integers)
			v := valid[0]
			push(append(make([]byte, n-len(v)), v...), "valid-left-padded")
		}
	}
	classes := make([]Class, len(cands))
	core.Parallel(len(cands), runtime.NumCPU(), func(i int) { classes[i] = ClassOf(f, size, cands[i]) })
	capFor := func(c Class) int {
		if tinyGroup(g) && c.Len == "size" {
			return 1 << 20 // tiny group: every string of the encoding size is a witness
		}
		if strings.HasPrefix(c.Len, "2size") && c.Len != "2size+40" {
			return 12 * per // these length classes hold the other-format encodings of every membership kind
		}
		return per
	}
	if tinyGroup(g) { // and every string of lengths 2 and 3 that could be read as a short integer, plus all of length 2
		for v := 0; v < 1<<16; v++ {
			push([]byte{byte(v >> 8), byte(v)}, "exhaustive-2")
			if v%257 == 0 || v < 512 {
				push([]byte{0, byte(v >> 8), byte(v)}, "exhaustive-3-sample")
			}
		}
		classes = make([]Class, len(cands))
		core.Parallel(len(cands), runtime.NumCPU(), func(i int) { classes[i] = ClassOf(f, size, cands[i]) })
	}
	for i, b := range cands {
		// the model and the library must agree on the identity and the base point, or nothing can be certified
		// (picked points are not part of this gate: a library whose Pick leaves the group is a defect to report)
		if c := classes[i]; srcs[i] == "library" && f != nil && !(c.Len == "size" && c.Fmt == "ok" && c.Range == "lt" && c.Flag == "canon" && (c.Mem == "sub" || c.Mem == "id")) {
			return nil, fmt.Errorf("refmodel does not certify an encoding produced by %s itself (%x classified %s): model and library disagree, no verdict possible", g.Name, b, c)
		}
		p.add(b, classes[i], srcs[i], capFor(classes[i]))
	}
	poolMu.Lock()
	poolCache[key] = p
	poolMu.Unlock()
	return p, nil
}

// ScalarPool builds the witnesses for a group's scalar encoding. Classes use
// only the length and range dimensions (range relative to the group order).
func ScalarPool(g *groups.Info, seed int64, per int) *Pool {
	size := g.Group.ScalarLen()
	p := &Pool{Size: size, By: map[Class][]Witness{}}
	rng := core.Rng(seed, "scalarpool", g.Name)
	enc := func(v *big.Int) []byte {
		b := v.Bytes()
		out := make([]byte, size)
		copy(out[size-len(b):], b)
		if g.ScalarLE {
			for i, j := 0, size-1; i < j; i, j = i+1, j-1 {
				out[i], out[j] = out[j], out[i]
			}
		}
		return out
	}
	q := g.Order
	maxv := new(big.Int).Lsh(big.NewInt(1), uint(8*size))
	var vals []*big.Int
	vals = append(vals, big.NewInt(0), big.NewInt(1), big.NewInt(2), new(big.Int).Sub(q, big.NewInt(1)), new(big.Int).Sub(q, big.NewInt(2)))
	vals = append(vals, new(big.Int).Set(q), new(big.Int).Add(q, big.NewInt(1)), new(big.Int).Lsh(q, 1), new(big.Int).Sub(maxv, big.NewInt(1)), new(big.Int).Sub(maxv, big.NewInt(2)))
	for i := 0; i < 2*per; i++ {
		v := new(big.Int).Rand(rng, q)
		vals = append(vals, v)
		w := new(big.Int).Add(v, q)
		vals = append(vals, w, new(big.Int).Rand(rng, maxv))
	}
	classify := func(b []byte) Class {
		l := LenClass(len(b), size)
		if l != "size" {
			return naClass(l)
		}
		c := append([]byte{}, b...)
		if g.ScalarLE {
			for i, j := 0, size-1; i < j; i, j = i+1, j-1 {
				c[i], c[j] = c[j], c[i]
			}
		}
		v := new(big.Int).SetBytes(c)
		r := "lt"
		switch {
		case v.Cmp(new(big.Int).Sub(maxv, big.NewInt(1))) == 0:
			r = "ff"
		case v.Cmp(q) > 0:
			r = "gt"
		case v.Cmp(q) == 0:
			r = "eq"
		}
		return Class{Len: "size", Fmt: "ok", Range: r, Mem: "na", Flag: "canon"}
	}
	for _, v := range vals {
		if v.Cmp(maxv) < 0 {
			b := enc(v)
			p.add(b, classify(b), "value", per)
		}
	}
	st := seedStream(seed, "validscalar", g.Name)
	var valid [][]byte
	for i := 0; i < per; i++ {
		b, _ := g.Group.Scalar().Pick(st).MarshalBinary()
		valid = append(valid, b)
		p.add(b, classify(b), "library", per)
	}
	for _, n := range []int{0, 1, size - 1, size + 1, 2*size + 40, size / 2, 2 * size} {
		for i := 0; i < per; i++ {
			var b []byte
			switch i % 3 {
			case 0:
				v := valid[i%len(valid)]
				if n <= len(v) {
					b = append([]byte{}, v[:n]...)
				} else {
					b = append(append([]byte{}, v...), make([]byte, n-len(v))...)
				}
			case 1:
				b = make([]byte, n)
				rng.Read(b)
			case 2:
				b = make([]byte, n)
				if n > 0 {
					b[rng.Intn(n)] = byte(1 + rng.Intn(200))
				}
			}
			p.add(b, classify(b), "resized", per)
		}
		b0 := make([]byte, n)
		p.add(b0, classify(b0), "all-00", per+2)
		bf := bytes.Repeat([]byte{0xff}, n)
		p.add(bf, classify(bf), "all-ff", per+2)
	}
	p.cf = classify
	return p
}

// Classify returns the classifier of the pool's format for arbitrary strings
// (used by the trace recorder).
func (p *Pool) Classify(b []byte) Class { return p.cf(b) }
