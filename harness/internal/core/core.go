// Package core holds what every property driver shares: the result envelope
// written for tools/check.py, violation records with stable keys, seeded
// randomness, and a small parallel runner.
package core

import (
	"bufio"
	"encoding/json"
	"fmt"
	"hash/fnv"
	"math/rand"
	"os"
	"runtime/debug"
	"sort"
	"sync"
)

// Violation is one divergence of the real code from the specification.
// Key is stable across seeds (configuration + abstract case) and is what
// known_findings.json lists.
type Violation struct {
	Key    string         `json:"key"`
	What   string         `json:"what"`
	Detail map[string]any `json:"detail,omitempty"`
}

// Result is the JSON document a driver writes.
type Result struct {
	mu          sync.Mutex
	Property    string         `json:"property"`
	Evaluations int            `json:"evaluations"`
	Distinct    int            `json:"distinct_nontrivial"`
	Rule        string         `json:"rule"`
	Traces      int            `json:"traces"`
	Skipped     map[string]int `json:"skipped,omitempty"`
	Samples     []any          `json:"samples"`
	Violations  []Violation    `json:"violations"`
	Extra       map[string]any `json:"extra,omitempty"`
	distinct    map[uint64]struct{}
	vioSeen     map[string]int
}

func NewResult(prop string) *Result {
	return &Result{Property: prop, Skipped: map[string]int{}, Extra: map[string]any{},
		distinct: map[uint64]struct{}{}, vioSeen: map[string]int{}}
}

// Eval counts one executed case; id identifies it for the distinct count
// (pass "" for trivial cases that must not be counted as distinct).
func (r *Result) Eval(id string) {
	r.mu.Lock()
	r.Evaluations++
	if id != "" {
		h := fnv.New64a()
		h.Write([]byte(id))
		r.distinct[h.Sum64()] = struct{}{}
	}
	r.mu.Unlock()
}

func (r *Result) AddTraces(n int) { r.mu.Lock(); r.Traces += n; r.mu.Unlock() }

func (r *Result) Skip(why string) { r.mu.Lock(); r.Skipped[why]++; r.mu.Unlock() }

func (r *Result) Sample(s any) {
	r.mu.Lock()
	if len(r.Samples) < 3 {
		r.Samples = append(r.Samples, s)
	}
	r.mu.Unlock()
}

func (r *Result) SetExtra(k string, v any) { r.mu.Lock(); r.Extra[k] = v; r.mu.Unlock() }

func (r *Result) AddExtra(k string, n int) {
	r.mu.Lock()
	c, _ := r.Extra[k].(int)
	r.Extra[k] = c + n
	r.mu.Unlock()
}

// Violate records a violation; at most 3 instances per key keep their detail.
func (r *Result) Violate(key, what string, detail map[string]any) {
	r.mu.Lock()
	r.vioSeen[key]++
	if r.vioSeen[key] <= 2 {
		r.Violations = append(r.Violations, Violation{Key: key, What: what, Detail: detail})
	}
	r.mu.Unlock()
}

func (r *Result) Write(path string) error {
	r.mu.Lock()
	defer r.mu.Unlock()
	r.Distinct = len(r.distinct)
	counts := map[string]int{}
	for k, v := range r.vioSeen {
		counts[k] = v
	}
	r.Extra["violation_counts"] = counts
	if r.Samples == nil {
		r.Samples = []any{}
	}
	if r.Violations == nil {
		r.Violations = []Violation{}
	}
	sort.SliceStable(r.Violations, func(i, j int) bool { return r.Violations[i].Key < r.Violations[j].Key })
	b, err := json.MarshalIndent(r, "", " ")
	if err != nil {
		return err
	}
	return os.WriteFile(path, b, 0o644)
}

// Rng returns a deterministic generator for (seed, labels...).
func Rng(seed int64, labels ...string) *rand.Rand {
	h := fnv.New64a()
	fmt.Fprintf(h, "%d", seed)
	for _, l := range labels {
		h.Write([]byte{0})
		h.Write([]byte(l))
	}
	return rand.New(rand.NewSource(int64(h.Sum64())))
}

// Hash64 hashes strings to a uint64 (for deterministic sub-sampling).
func Hash64(parts ...string) uint64 {
	h := fnv.New64a()
	for _, l := range parts {
		h.Write([]byte(l))
		h.Write([]byte{0})
	}
	return h.Sum64()
}

// Parallel runs fn(i) for i in [0,n) on `workers` goroutines.
func Parallel(n, workers int, fn func(i int)) {
	if workers < 1 {
		workers = 1
	}
	var wg sync.WaitGroup
	ch := make(chan int)
	for w := 0; w < workers; w++ {
		wg.Add(1)
		go func() {
			defer wg.Done()
			for i := range ch {
				fn(i)
			}
		}()
	}
	for i := 0; i < n; i++ {
		ch <- i
	}
	close(ch)
	wg.Wait()
}

// Try runs f and converts a panic into (msg, stack, true).
func Try(f func()) (msg string, stack string, panicked bool) {
	defer func() {
		if r := recover(); r != nil {
			msg = fmt.Sprint(r)
			stack = string(debug.Stack())
			if len(stack) > 1500 {
				stack = stack[:1500]
			}
			panicked = true
		}
	}()
	f()
	return
}

// ReadLines reads an ndjson file and calls fn for each non-empty line.
func ReadLines(path string, fn func(line []byte) error) error {
	f, err := os.Open(path)
	if err != nil {
		return err
	}
	defer f.Close()
	sc := bufio.NewScanner(f)
	sc.Buffer(make([]byte, 1<<20), 1<<28)
	for sc.Scan() {
		b := sc.Bytes()
		if len(b) == 0 {
			continue
		}
		cp := make([]byte, len(b))
		copy(cp, b)
		if err := fn(cp); err != nil {
			return err
		}
	}
	return sc.Err()
}
