//go:build !constantTime

package groups

import (
	"math/big"

	"go.dedis.ch/kyber/v4"
	"go.dedis.ch/kyber/v4/group/edwards25519"
	"go.dedis.ch/kyber/v4/group/edwards25519vartime"
	"go.dedis.ch/kyber/v4/group/p256"
	"go.dedis.ch/kyber/v4/pairing/bls12381/circl"
	"go.dedis.ch/kyber/v4/pairing/bls12381/gnark"
	"go.dedis.ch/kyber/v4/pairing/bls12381/kilic"
	"go.dedis.ch/kyber/v4/pairing/bn254"
	"go.dedis.ch/kyber/v4/pairing/bn256"
)

// All returns every group instance. The list is built afresh on every call so
// that callers may run in parallel without sharing group objects.
func All() []*Info {
	var out []*Info
	ed := edwards25519.NewBlakeSHA256Ed25519()
	out = append(out,
		&Info{Name: "ed25519", Family: "ed25519", Group: ed, Order: OrderEd25519, ScalarLE: true, ScalarTy: "ed25519-limb", UnreducedOK: true, CanBase: true, CanPick: true, CanEmbed: true},
		&Info{Name: "ed25519-vartime-mul", Family: "ed25519", Group: ed, Order: OrderEd25519, ScalarLE: true, ScalarTy: "ed25519-limb", UnreducedOK: true, VarTime: true, CanBase: true, CanPick: true, CanEmbed: true},
	)
	proj := new(edwards25519vartime.ProjectiveCurve).Init(edwards25519vartime.ParamEd25519(), false)
	ext := new(edwards25519vartime.ExtendedCurve).InitCurve(edwards25519vartime.ParamEd25519(), false)
	out = append(out,
		&Info{Name: "edvt-proj", Family: "ed25519", Group: proj, Order: OrderEd25519, ScalarTy: "modint-ed", CanBase: true, CanPick: true, CanEmbed: true},
		&Info{Name: "edvt-ext", Family: "ed25519", Group: ext, Order: OrderEd25519, ScalarTy: "modint-ed", CanBase: true, CanPick: true, CanEmbed: true},
	)
	out = append(out,
		&Info{Name: "p256", Family: "p256", Group: p256.NewBlakeSHA256P256(), Order: OrderP256, ScalarTy: "modint-p256", CanBase: true, CanPick: true, CanEmbed: true},
		&Info{Name: "qr512", Family: "qr", Group: p256.NewBlakeSHA256QR512(), Order: OrderQR512, ScalarTy: "modint-qr", CanBase: true, CanPick: true, CanEmbed: true},
	)
	// a DSA-style residue group with cofactor R = 44 > 2 (the stock QR512 has R = 2, where
	// "quadratic residue" and "in the order-Q subgroup" coincide): P = 44*Q + 1, G = 2^44
	qr72 := new(p256.QrSuite)
	qr72.SetParams(bi("811656739243220271677"), OrderQR72, big.NewInt(44), bi("17592186044416"))
	out = append(out, &Info{Name: "qr72-r44", Family: "qr", Group: qr72, Order: OrderQR72, ScalarTy: "modint-qr72", CanBase: true, CanPick: true, CanEmbed: true})
	b6 := bn256.NewSuite()
	out = append(out,
		&Info{Name: "bn256-g1", Family: "bn256", Sort: "G1", Group: b6.G1(), Order: OrderBN256, ScalarTy: "modint-bn256", CanBase: true, CanPick: true, CanEmbed: true, Suite: b6, SuiteKey: "bn256"},
		&Info{Name: "bn256-g2", Family: "bn256", Sort: "G2", Group: b6.G2(), Order: OrderBN256, ScalarTy: "modint-bn256", CanBase: true, CanPick: true, Suite: b6, SuiteKey: "bn256"},
		&Info{Name: "bn256-gt", Family: "bn256", Sort: "GT", Group: b6.GT(), Order: OrderBN256, ScalarTy: "modint-bn256", CanBase: true, CanPick: true, Slow: true, Suite: b6, SuiteKey: "bn256"},
	)
	b4 := bn254.NewSuite()
	out = append(out,
		&Info{Name: "bn254-g1", Family: "bn254", Sort: "G1", Group: b4.G1(), Order: OrderBN254, ScalarTy: "modint-bn254", CanBase: true, CanPick: true, Suite: b4, SuiteKey: "bn254"},
		&Info{Name: "bn254-g2", Family: "bn254", Sort: "G2", Group: b4.G2(), Order: OrderBN254, ScalarTy: "modint-bn254", CanBase: true, CanPick: true, Suite: b4, SuiteKey: "bn254"},
		&Info{Name: "bn254-gt", Family: "bn254", Sort: "GT", Group: b4.GT(), Order: OrderBN254, ScalarTy: "modint-bn254", CanBase: true, CanPick: true, Slow: true, Suite: b4, SuiteKey: "bn254"},
	)
	ks := kilic.NewBLS12381Suite()
	out = append(out,
		&Info{Name: "kilic-g1", Family: "bls12381", Sort: "G1", Group: ks.G1(), Order: OrderBLS, ScalarTy: "modint-bls", CanBase: true, CanPick: true, Suite: ks, SuiteKey: "kilic"},
		&Info{Name: "kilic-g2", Family: "bls12381", Sort: "G2", Group: ks.G2(), Order: OrderBLS, ScalarTy: "modint-bls", CanBase: true, CanPick: true, Suite: ks, SuiteKey: "kilic"},
		&Info{Name: "kilic-gt", Family: "bls12381", Sort: "GT", Group: ks.GT(), Order: OrderBLS, ScalarTy: "modint-bls", Slow: true, Suite: ks, SuiteKey: "kilic"},
	)
	cs := circl.NewSuite()
	out = append(out,
		&Info{Name: "circl-g1", Family: "bls12381", Sort: "G1", Group: cs.G1(), Order: OrderBLS, ScalarTy: "circl", CanBase: true, CanPick: true, Suite: cs, SuiteKey: "circl"},
		&Info{Name: "circl-g2", Family: "bls12381", Sort: "G2", Group: cs.G2(), Order: OrderBLS, ScalarTy: "circl", CanBase: true, CanPick: true, Suite: cs, SuiteKey: "circl"},
		&Info{Name: "circl-gt", Family: "bls12381", Sort: "GT", Group: cs.GT(), Order: OrderBLS, ScalarTy: "circl", CanBase: true, Slow: true, Suite: cs, SuiteKey: "circl"},
	)
	gs := gnark.NewSuite()
	out = append(out,
		&Info{Name: "gnark-g1", Family: "bls12381", Sort: "G1", Group: gs.G1(), Order: OrderBLS, ScalarTy: "gnark", CanBase: true, CanPick: true, Suite: gs, SuiteKey: "gnark"},
		&Info{Name: "gnark-g2", Family: "bls12381", Sort: "G2", Group: gs.G2(), Order: OrderBLS, ScalarTy: "gnark", CanBase: true, CanPick: true, Suite: gs, SuiteKey: "gnark"},
		&Info{Name: "gnark-gt", Family: "bls12381", Sort: "GT", Group: gs.GT(), Order: OrderBLS, ScalarTy: "gnark", CanBase: true, Slow: true, Suite: gs, SuiteKey: "gnark"},
	)
	return out
}

// Adapters returns the suite-as-group adapters (suites.Suite implementations
// whose Point() is the key group G2 of a pairing suite). They advertise their
// own PointLen/ScalarLen and are exercised by the encoding check (C03).
func Adapters() []*Info {
	mk := func(name, fam string, g kyber.Group, q *big.Int, sty string) *Info {
		return &Info{Name: name, Family: fam, Sort: "G2", Group: g, Order: q, ScalarTy: sty, CanBase: true, CanPick: true, Adapter: true}
	}
	return []*Info{
		mk("bn256-adapter", "bn256", bn256.NewSuiteBn256(), OrderBN256, "modint-bn256"),
		mk("bn254-adapter", "bn254", bn254.NewSuiteBn254(), OrderBN254, "modint-bn254"),
		mk("kilic-adapter", "bls12381", kilic.NewSuiteBLS12381(), OrderBLS, "modint-bls"),
		mk("circl-adapter", "bls12381", circl.NewSuiteBLS12381(), OrderBLS, "circl"),
		mk("gnark-adapter", "bls12381", gnark.NewSuiteBLS12381(), OrderBLS, "gnark"),
	}
}

