// Package groups is the static registry of the group instances kyber exposes,
// together with the capability matrix (DESIGN 3.3a) and facts the harness
// states independently of the library (group order, declared byte order).
package groups

import (
	"math/big"

	"go.dedis.ch/kyber/v4"
	"go.dedis.ch/kyber/v4/pairing"
)

// Info describes one exposed group instance.
type Info struct {
	Name     string
	Family   string // ed25519 | p256 | qr | bn256 | bn254 | bls12381
	Sort     string // "" | G1 | G2 | GT
	Group    kyber.Group
	Order    *big.Int // stated by the harness, not read from the library
	ScalarLE bool     // declared scalar byte order (SetBytes and encoding)
	ScalarTy string   // identifies the scalar implementation (for C02 de-duplication)
	VarTime  bool     // call AllowVarTime(true) on every point
	CanBase  bool
	CanPick  bool
	CanEmbed bool
	Slow     bool // GT-like: exponentiations ~1ms
	ScalarOnly bool // no points (mod.Int over a bare modulus)
	Adapter  bool // suite-as-group adapter (only used by the encoding check)
	UnreducedOK bool // Scalar.UnmarshalBinary accepts unreduced values and keeps them as they are (Ed25519 limb scalar)
	Suite    pairing.Suite
	SuiteKey string
}

func bi(s string) *big.Int {
	v, ok := new(big.Int).SetString(s, 10)
	if !ok {
		panic(s)
	}
	return v
}

var (
	OrderEd25519 = bi("7237005577332262213973186563042994240857116359379907606001950938285454250989")
	OrderP256    = bi("115792089210356248762697446949407573529996955224135760342422259061068512044369")
	OrderQR512   = bi("5099133861178675934299038070513690140208594154615901954959232152506056770707302268711370548280642524887896017588520836152823386566007063045571431221913131")
	OrderQR72    = bi("18446744073709551629") // first prime above 2^64
	OrderBN256   = bi("65000549695646603732796438742359905742570406053903786389881062969044166799969")
	OrderBN254   = bi("21888242871839275222246405745257275088548364400416034343698204186575808495617")
	OrderBLS     = bi("52435875175126190479447740508185965837690552500527637822603658699938581184513")
)

// NewPoint returns a fresh point of the group with the instance's flags applied.
func (g *Info) NewPoint() kyber.Point {
	p := g.Group.Point()
	if g.VarTime {
		if v, ok := p.(kyber.AllowsVarTime); ok {
			v.AllowVarTime(true)
		}
	}
	return p
}

// Fix applies the instance's flags to a point produced by the library (Clone).
func (g *Info) Fix(p kyber.Point) kyber.Point {
	if g.VarTime {
		if v, ok := p.(kyber.AllowsVarTime); ok {
			v.AllowVarTime(true)
		}
	}
	return p
}

// ByName returns a fresh Info for the named group or nil.
func ByName(name string) *Info {
	for _, g := range append(All(), Adapters()...) {
		if g.Name == name {
			return g
		}
	}
	return nil
}
