// Package groups is the static registry of the group instances kyber exposes,
// together with the capability matrix (DESIGN 3.3a) and facts the harness
// states independently of the library (group order, declared byte order).
package groups

import (
	"math/big"

	"go.dedis.ch/kyber/v4"
	"go.dedis.ch/kyber/v4/group/edwards25519"
	"go.dedis.ch/kyber/v4/group/edwards25519vartime"
	"go.dedis.ch/kyber/v4/group/p256"
	"go.dedis.ch/kyber/v4/pairing"
	"go.dedis.ch/kyber/v4/pairing/bls12381/circl"
	"go.dedis.ch/kyber/v4/pairing/bls12381/gnark"
	"go.dedis.ch/kyber/v4/pairing/bls12381/kilic"
	"go.dedis.ch/kyber/v4/pairing/bn254"
	"go.dedis.ch/kyber/v4/pairing/bn256"
)

// Info describes one exposed group instance.
type Info struct {
	Name     string
	Family   string // ed25519 | p256 | qr | bn256 | bn254 | bls12381
	Sort     string // "" | G1 | G2 | GT
	Group    kyber.Group
	Order    *big.Int // stated by the harness, not read from the library
	ScalarLE bool     // declared scalar byte order (SetBytes and encoding)
	ScalarTy string   // identifies the scalar implementation (for C02 de-duplication)
	VarTime  bool     // call AllowVarTime(true) on every point
	CanBase  bool
	CanPick  bool
	CanEmbed bool
	Slow     bool // GT-like: exponentiations ~1ms
	Suite    pairing.Suite
	SuiteKey string
}

func bi(s string) *big.Int {
	v, ok := new(big.Int).SetString(s, 10)
	if !ok {
		panic(s)
	}
	return v
}

var (
	OrderEd25519 = bi("7237005577332262213973186563042994240857116359379907606001950938285454250989")
	OrderP256    = bi("115792089210356248762697446949407573529996955224135760342422259061068512044369")
	OrderQR512   = bi("5099133861178675934299038070513690140208594154615901954959232152506056770707302268711370548280642524887896017588520836152823386566007063045571431221913131")
	OrderBN256   = bi("65000549695646603732796438742359905742570406053903786389881062969044166799969")
	OrderBN254   = bi("21888242871839275222246405745257275088548364400416034343698204186575808495617")
	OrderBLS     = bi("52435875175126190479447740508185965837690552500527637822603658699938581184513")
)

// NewPoint returns a fresh point of the group with the instance's flags applied.
func (g *Info) NewPoint() kyber.Point {
	p := g.Group.Point()
	if g.VarTime {
		if v, ok := p.(kyber.AllowsVarTime); ok {
			v.AllowVarTime(true)
		}
	}
	return p
}

// Fix applies the instance's flags to a point produced by the library (Clone).
func (g *Info) Fix(p kyber.Point) kyber.Point {
	if g.VarTime {
		if v, ok := p.(kyber.AllowsVarTime); ok {
			v.AllowVarTime(true)
		}
	}
	return p
}

// All returns every group instance. The list is built afresh on every call so
// that callers may run in parallel without sharing group objects.
func All() []*Info {
	var out []*Info
	ed := edwards25519.NewBlakeSHA256Ed25519()
	out = append(out,
		&Info{Name: "ed25519", Family: "ed25519", Group: ed, Order: OrderEd25519, ScalarLE: true, ScalarTy: "ed25519-limb", CanBase: true, CanPick: true, CanEmbed: true},
		&Info{Name: "ed25519-vartime-mul", Family: "ed25519", Group: ed, Order: OrderEd25519, ScalarLE: true, ScalarTy: "ed25519-limb", VarTime: true, CanBase: true, CanPick: true, CanEmbed: true},
	)
	proj := new(edwards25519vartime.ProjectiveCurve).Init(edwards25519vartime.ParamEd25519(), false)
	ext := new(edwards25519vartime.ExtendedCurve).InitCurve(edwards25519vartime.ParamEd25519(), false)
	out = append(out,
		&Info{Name: "edvt-proj", Family: "ed25519", Group: proj, Order: OrderEd25519, ScalarTy: "modint-ed", CanBase: true, CanPick: true, CanEmbed: true},
		&Info{Name: "edvt-ext", Family: "ed25519", Group: ext, Order: OrderEd25519, ScalarTy: "modint-ed", CanBase: true, CanPick: true, CanEmbed: true},
	)
	out = append(out,
		&Info{Name: "p256", Family: "p256", Group: p256.NewBlakeSHA256P256(), Order: OrderP256, ScalarTy: "modint-p256", CanBase: true, CanPick: true, CanEmbed: true},
		&Info{Name: "qr512", Family: "qr", Group: p256.NewBlakeSHA256QR512(), Order: OrderQR512, ScalarTy: "modint-qr", CanBase: true, CanPick: true, CanEmbed: true},
	)
	b6 := bn256.NewSuite()
	out = append(out,
		&Info{Name: "bn256-g1", Family: "bn256", Sort: "G1", Group: b6.G1(), Order: OrderBN256, ScalarTy: "modint-bn256", CanBase: true, CanPick: true, CanEmbed: true, Suite: b6, SuiteKey: "bn256"},
		&Info{Name: "bn256-g2", Family: "bn256", Sort: "G2", Group: b6.G2(), Order: OrderBN256, ScalarTy: "modint-bn256", CanBase: true, CanPick: true, Suite: b6, SuiteKey: "bn256"},
		&Info{Name: "bn256-gt", Family: "bn256", Sort: "GT", Group: b6.GT(), Order: OrderBN256, ScalarTy: "modint-bn256", CanBase: true, CanPick: true, Slow: true, Suite: b6, SuiteKey: "bn256"},
	)
	b4 := bn254.NewSuite()
	out = append(out,
		&Info{Name: "bn254-g1", Family: "bn254", Sort: "G1", Group: b4.G1(), Order: OrderBN254, ScalarTy: "modint-bn254", CanBase: true, CanPick: true, Suite: b4, SuiteKey: "bn254"},
		&Info{Name: "bn254-g2", Family: "bn254", Sort: "G2", Group: b4.G2(), Order: OrderBN254, ScalarTy: "modint-bn254", CanBase: true, CanPick: true, Suite: b4, SuiteKey: "bn254"},
		&Info{Name: "bn254-gt", Family: "bn254", Sort: "GT", Group: b4.GT(), Order: OrderBN254, ScalarTy: "modint-bn254", CanBase: true, CanPick: true, Slow: true, Suite: b4, SuiteKey: "bn254"},
	)
	ks := kilic.NewBLS12381Suite()
	out = append(out,
		&Info{Name: "kilic-g1", Family: "bls12381", Sort: "G1", Group: ks.G1(), Order: OrderBLS, ScalarTy: "modint-bls", CanBase: true, CanPick: true, Suite: ks, SuiteKey: "kilic"},
		&Info{Name: "kilic-g2", Family: "bls12381", Sort: "G2", Group: ks.G2(), Order: OrderBLS, ScalarTy: "modint-bls", CanBase: true, CanPick: true, Suite: ks, SuiteKey: "kilic"},
		&Info{Name: "kilic-gt", Family: "bls12381", Sort: "GT", Group: ks.GT(), Order: OrderBLS, ScalarTy: "modint-bls", Slow: true, Suite: ks, SuiteKey: "kilic"},
	)
	cs := circl.NewSuite()
	out = append(out,
		&Info{Name: "circl-g1", Family: "bls12381", Sort: "G1", Group: cs.G1(), Order: OrderBLS, ScalarTy: "circl", CanBase: true, CanPick: true, Suite: cs, SuiteKey: "circl"},
		&Info{Name: "circl-g2", Family: "bls12381", Sort: "G2", Group: cs.G2(), Order: OrderBLS, ScalarTy: "circl", CanBase: true, CanPick: true, Suite: cs, SuiteKey: "circl"},
		&Info{Name: "circl-gt", Family: "bls12381", Sort: "GT", Group: cs.GT(), Order: OrderBLS, ScalarTy: "circl", CanBase: true, Slow: true, Suite: cs, SuiteKey: "circl"},
	)
	gs := gnark.NewSuite()
	out = append(out,
		&Info{Name: "gnark-g1", Family: "bls12381", Sort: "G1", Group: gs.G1(), Order: OrderBLS, ScalarTy: "gnark", CanBase: true, CanPick: true, Suite: gs, SuiteKey: "gnark"},
		&Info{Name: "gnark-g2", Family: "bls12381", Sort: "G2", Group: gs.G2(), Order: OrderBLS, ScalarTy: "gnark", CanBase: true, CanPick: true, Suite: gs, SuiteKey: "gnark"},
		&Info{Name: "gnark-gt", Family: "bls12381", Sort: "GT", Group: gs.GT(), Order: OrderBLS, ScalarTy: "gnark", CanBase: true, Slow: true, Suite: gs, SuiteKey: "gnark"},
	)
	return out
}

// ByName returns a fresh Info for the named group or nil.
func ByName(name string) *Info {
	for _, g := range All() {
		if g.Name == name {
			return g
		}
	}
	return nil
}
