//go:build constantTime

package groups

import (
	"math/big"

	"go.dedis.ch/kyber/v4"
	"go.dedis.ch/kyber/v4/compatible/compatiblemod"
	"go.dedis.ch/kyber/v4/group/edwards25519"
	"go.dedis.ch/kyber/v4/group/mod"
	"go.dedis.ch/kyber/v4/pairing/bls12381/circl"
)

// scalarGroup exposes mod.Int over a given modulus as the scalar field of a
// group without points (scalar-only replays in the constantTime build, where
// mod.Int runs on the bigmod engine).
type scalarGroup struct {
	name string
	m    *compatiblemod.Mod
	q    *big.Int
}

func (g *scalarGroup) String() string       { return g.name }
func (g *scalarGroup) ScalarLen() int       { return (g.q.BitLen() + 7) / 8 }
func (g *scalarGroup) Scalar() kyber.Scalar { return mod.NewInt64(0, g.m) }
func (g *scalarGroup) PointLen() int        { return 0 }
func (g *scalarGroup) Point() kyber.Point   { panic("scalar-only group") }

func modGroup(name string, q *big.Int) *Info {
	return &Info{Name: name, Family: "modint", Group: &scalarGroup{name, compatiblemod.FromBigInt(q), q}, Order: q, ScalarTy: name, ScalarOnly: true}
}

// All returns the group instances that exist in the constantTime build.
func All() []*Info {
	ed := edwards25519.NewBlakeSHA256Ed25519()
	cs := circl.NewSuite()
	return []*Info{
		{Name: "ed25519", Family: "ed25519", Group: ed, Order: OrderEd25519, ScalarLE: true, ScalarTy: "ed25519-limb", UnreducedOK: true, CanBase: true, CanPick: true, CanEmbed: true},
		{Name: "circl-g1", Family: "bls12381", Sort: "G1", Group: cs.G1(), Order: OrderBLS, ScalarTy: "circl", CanBase: true, CanPick: true, Suite: cs, SuiteKey: "circl"},
		{Name: "circl-g2", Family: "bls12381", Sort: "G2", Group: cs.G2(), Order: OrderBLS, ScalarTy: "circl", CanBase: true, CanPick: true, Suite: cs, SuiteKey: "circl"},
		{Name: "circl-gt", Family: "bls12381", Sort: "GT", Group: cs.GT(), Order: OrderBLS, ScalarTy: "circl", CanBase: true, Slow: true, Suite: cs, SuiteKey: "circl"},
		modGroup("modint-ct-ed25519-order", OrderEd25519),
		modGroup("modint-ct-p256-order", OrderP256),
		modGroup("modint-ct-bn254-order", OrderBN254),
		modGroup("modint-ct-bls-order", OrderBLS),
		modGroup("modint-ct-qr512-order", OrderQR512),
	}
}

// Adapters: none are exercised in the constantTime build.
func Adapters() []*Info { return nil }
