package dkg

import (
	"encoding/json"
	"fmt"
	"runtime"
	"sort"
	"strings"
	"sync"
	"time"

	pdkg "go.dedis.ch/kyber/v4/share/dkg/pedersen"

	"verifharness/internal/core"
)

// Protocol-level replay: n real dkg.Protocol goroutines wired to a harness Board / Phaser.
// All channels are unbuffered and the harness offers exactly one event at a time, then a no-op InitPhase
// tick to the same node: a send can only complete while the node sits in its `select`, so when the no-op
// has been taken the previous event is fully processed (including the Push* calls it made).  No sleeps,
// no wall clock; the only timer is a watchdog that turns a hung node into an observation instead of a hung harness.

type OrdJ struct {
	H   int       `json:"h"`
	Seq []BundleJ `json:"seq"`
}

type PStep struct {
	Step
	Ords []OrdJ   `json:"ords"`
	Cls  []string `json:"cls"`
}

type pnode struct {
	p      int
	proto  *pdkg.Protocol
	dealCh chan pdkg.DealBundle
	respCh chan pdkg.ResponseBundle
	justCh chan pdkg.JustificationBundle
	tick   chan pdkg.Phase
	done   chan struct{}
	result pdkg.OptionResult
	mu     sync.Mutex
	deals  []*pdkg.DealBundle
	resps  []*pdkg.ResponseBundle
	justs  []*pdkg.JustificationBundle
	hung   bool
}

func (n *pnode) PushDeals(b *pdkg.DealBundle) {
	n.mu.Lock()
	n.deals = append(n.deals, b)
	n.mu.Unlock()
}
func (n *pnode) PushResponses(b *pdkg.ResponseBundle) {
	n.mu.Lock()
	n.resps = append(n.resps, b)
	n.mu.Unlock()
}
func (n *pnode) PushJustifications(b *pdkg.JustificationBundle) {
	n.mu.Lock()
	n.justs = append(n.justs, b)
	n.mu.Unlock()
}
func (n *pnode) IncomingDeal() <-chan pdkg.DealBundle                   { return n.dealCh }
func (n *pnode) IncomingResponse() <-chan pdkg.ResponseBundle           { return n.respCh }
func (n *pnode) IncomingJustification() <-chan pdkg.JustificationBundle { return n.justCh }
func (n *pnode) NextPhase() chan pdkg.Phase                             { return n.tick }

const watchdog = 20 * time.Second

// offer hands one event to the node; false if the node's goroutine has ended (or hangs)
func (n *pnode) offer(send func(stop <-chan struct{}) bool) bool {
	if n.hung {
		return false
	}
	select {
	case <-n.done:
		return false
	default:
	}
	return send(n.done)
}

func (n *pnode) sync() {
	if n.hung {
		return
	}
	t := time.NewTimer(watchdog)
	defer t.Stop()
	select {
	case n.tick <- pdkg.InitPhase:
	case <-n.done:
	case <-t.C:
		n.hung = true
	}
}

func (n *pnode) sendTick(ph pdkg.Phase) {
	n.offer(func(stop <-chan struct{}) bool {
		t := time.NewTimer(watchdog)
		defer t.Stop()
		select {
		case n.tick <- ph:
			return true
		case <-stop:
			return false
		case <-t.C:
			n.hung = true
			return false
		}
	})
	n.sync()
}

func (n *pnode) sendDeal(b *pdkg.DealBundle) {
	n.offer(func(stop <-chan struct{}) bool {
		t := time.NewTimer(watchdog)
		defer t.Stop()
		select {
		case n.dealCh <- *cloneDeal(b):
			return true
		case <-stop:
			return false
		case <-t.C:
			n.hung = true
			return false
		}
	})
	n.sync()
}

func (n *pnode) sendResp(b *pdkg.ResponseBundle) {
	c := *b
	c.Responses = append([]pdkg.Response(nil), b.Responses...)
	n.offer(func(stop <-chan struct{}) bool {
		t := time.NewTimer(watchdog)
		defer t.Stop()
		select {
		case n.respCh <- c:
			return true
		case <-stop:
			return false
		case <-t.C:
			n.hung = true
			return false
		}
	})
	n.sync()
}

func (n *pnode) sendJust(b *pdkg.JustificationBundle) {
	c := *b
	c.Justifications = append([]pdkg.Justification(nil), b.Justifications...)
	n.offer(func(stop <-chan struct{}) bool {
		t := time.NewTimer(watchdog)
		defer t.Stop()
		select {
		case n.justCh <- c:
			return true
		case <-stop:
			return false
		case <-t.C:
			n.hung = true
			return false
		}
	})
	n.sync()
}

func (n *pnode) ended() bool {
	select {
	case <-n.done:
		return true
	default:
		return false
	}
}

type protoReplay struct {
	apiReplay
	steps []PStep
	nodes map[int]*pnode
	cls   []string
}

func (r *protoReplay) pviolate(kind, what string, step int, extra map[string]any) {
	mode := "regular"
	if r.w.setup.Fast {
		mode = "fastsync"
	}
	if r.w.setup.Resh {
		mode = "reshare-" + r.w.setup.Shape + "-" + mode
	}
	cased := r.cased
	if len(r.cls) > 0 {
		cased = r.cls[0] // primary root-cause class (all of them are in the detail)
	}
	key := fmt.Sprintf("%s/pedersen-protocol/%s/%s/%s", r.res.Property, mode, cased, kind)
	d := r.detail(step, extra)
	d["config"] = r.w.label
	d["case"] = r.cased
	d["classes"] = r.cls
	if len(r.cls) > 0 {
		r.res.Violate(key, what, d)
		return
	}
	// outside every known class: keyed by kind, then the abstract case (only the simplest cases are reported)
	key = fmt.Sprintf("%s/pedersen-protocol/%s/%s/%s", r.res.Property, mode, kind, r.cased)
	r.agg.add("proto/"+mode+"/"+kind, r.cased, key, what, d)
}

func idOf(b BundleJ) string { return fmt.Sprintf("%d/%d", b.From, b.C) }

func (r *protoReplay) run() {
	w := r.w
	r.bh = nil
	for _, s := range r.steps {
		r.bh = append(r.bh, s.Step)
		if len(s.Cls) > 0 {
			r.cls = s.Cls
		}
	}
	// labels use the same scheme as the API level (Deal/Resp/Just act names)
	for i := range r.bh {
		r.bh[i].Act = strings.TrimPrefix(r.bh[i].Act, "P")
	}
	r.cased = r.caseLabel()
	sort.Strings(r.cls)
	r.nodes = map[int]*pnode{}
	r.outs = map[int]*nodeOut{}
	for _, p := range w.order {
		if w.faulty[p] {
			continue
		}
		n := &pnode{p: p, dealCh: make(chan pdkg.DealBundle), respCh: make(chan pdkg.ResponseBundle),
			justCh: make(chan pdkg.JustificationBundle), tick: make(chan pdkg.Phase), done: make(chan struct{})}
		pr, err := pdkg.NewProtocol(w.config(p), n, n, false)
		if err != nil {
			r.pviolate("setup-error", "NewProtocol failed for an honest party: "+err.Error(), 0, nil)
			return
		}
		n.proto = pr
		go func() {
			n.result = <-pr.WaitEnd()
			close(n.done)
		}()
		r.nodes[p] = n
		r.outs[p] = &nodeOut{}
	}
	defer r.shutdown()
	// DealPhase tick: every honest dealer pushes its bundle
	for _, p := range w.order {
		if n := r.nodes[p]; n != nil {
			n.sendTick(pdkg.DealPhase)
		}
	}
	for i, s := range r.steps {
		switch s.Act {
		case "PDeal":
			r.roundDeal(i, s)
		case "PResp":
			r.roundResp(i, s)
		case "PJust":
			r.roundJust(i, s)
		}
	}
}

func (r *protoReplay) shutdown() {
	// a node still in its select loop is released by the FinishPhase tick (it always returns after it)
	for _, n := range r.nodes {
		if !n.ended() && !n.hung {
			n.sendTick(pdkg.FinishPhase)
		}
	}
}

func (r *protoReplay) roundDeal(i int, s PStep) {
	w := r.w
	r.dealt = s.Bundles
	pk := map[string]*pdkg.DealBundle{}
	cache := map[string]*pdkg.DealBundle{}
	for _, b := range s.Bundles {
		if b.Honest {
			n := r.nodes[b.From]
			if len(n.deals) != 1 {
				r.driftf("deal-bundle-pushed", i, b.From, 1, len(n.deals))
				continue
			}
			pk[idOf(b)] = n.deals[0]
			w.dealPub[b.From] = append(w.dealPub[b.From], n.deals[0].Public)
			continue
		}
		bb := b
		bb.C = 0
		kb, _ := json.Marshal(bb)
		var db *pdkg.DealBundle
		if prev, ok := cache[string(kb)]; ok {
			db = cloneDeal(prev)
		} else {
			db = w.craftDeal(b)
			cache[string(kb)] = db
		}
		pk[idOf(b)] = db
		w.dealPub[b.From] = append(w.dealPub[b.From], db.Public)
	}
	for _, o := range s.Ords {
		n := r.nodes[o.H]
		for _, id := range o.Seq {
			if b := pk[idOf(id)]; b != nil {
				n.sendDeal(b)
			}
		}
		before := len(n.resps)
		n.sendTick(pdkg.ResponsePhase)
		for _, e := range s.Exp {
			if e.H != o.H {
				continue
			}
			early := r.w.setup.Fast && before > 0 // the response bundle was pushed before the tick
			var rb *pdkg.ResponseBundle
			if len(n.resps) > 0 {
				rb = n.resps[len(n.resps)-1]
			}
			got, exp := w.respProj(rb), kvMap(e.Resp)
			if (rb != nil) != e.Has || kvString(got) != kvString(exp) || len(n.resps) > 1 {
				r.driftf("responses-emitted", i, e.H, kvString(exp), kvString(got))
			}
			if early != e.Early && w.parties[e.H].ni >= 0 { // a leaving node pushes nothing: not observable
				r.driftf("early-transition", i, e.H, e.Early, early)
			}
		}
	}
}

func (r *protoReplay) collect(n *pnode) {
	o := r.outs[n.p]
	if o.done {
		return
	}
	if n.ended() {
		o.done = true
		o.res, o.err = n.result.Result, n.result.Error
	}
}

func (r *protoReplay) roundResp(i int, s PStep) {
	w := r.w
	pk := map[string]*pdkg.ResponseBundle{}
	for _, b := range s.Bundles {
		if b.Honest {
			n := r.nodes[b.From]
			if len(n.resps) > 0 {
				pk[idOf(b)] = n.resps[len(n.resps)-1]
			}
			continue
		}
		pk[idOf(b)] = w.craftResp(b)
	}
	for _, o := range s.Ords {
		n := r.nodes[o.H]
		for _, id := range o.Seq {
			if b := pk[idOf(id)]; b != nil {
				n.sendResp(b)
			}
		}
		n.sendTick(pdkg.JustifPhase)
		r.collect(n)
	}
	for _, e := range s.Exp {
		n := r.nodes[e.H]
		o := r.outs[e.H]
		if !e.Called {
			continue
		}
		extra := "wait"
		var jb *pdkg.JustificationBundle
		if len(n.justs) > 0 {
			jb = n.justs[len(n.justs)-1]
			extra = "just"
		}
		if o.done && o.res == nil && o.err == nil {
			extra = "left" // the Protocol of a leaving node ended with an empty result
		}
		r.compareOut("protocol-response-round-outcome", i, e, o, extra)
		if jb != nil {
			var got []int
			for _, j := range jb.Justifications {
				got = append(got, w.partyOfNew(j.ShareIndex))
			}
			if intsString(got) != intsString(e.Just) {
				r.driftf("justifications-emitted", i, e.H, intsString(e.Just), intsString(got))
			}
		}
	}
}

func (r *protoReplay) roundJust(i int, s PStep) {
	w := r.w
	pk := map[string]*pdkg.JustificationBundle{}
	for _, b := range s.Bundles {
		if b.Honest {
			n := r.nodes[b.From]
			if len(n.justs) > 0 {
				pk[idOf(b)] = n.justs[len(n.justs)-1]
			}
			continue
		}
		pk[idOf(b)] = w.craftJust(b, r.dealt)
	}
	for _, o := range s.Ords {
		n := r.nodes[o.H]
		for _, id := range o.Seq {
			if b := pk[idOf(id)]; b != nil {
				n.sendJust(b)
			}
		}
	}
	// FinishPhase tick for everybody still running
	for _, p := range w.order {
		n := r.nodes[p]
		if n == nil {
			continue
		}
		if !n.ended() {
			n.sendTick(pdkg.FinishPhase)
			if !n.hung {
				t := time.NewTimer(watchdog)
				select {
				case <-n.done:
				case <-t.C:
					n.hung = true
				}
				t.Stop()
			}
		}
		r.collect(n)
		if n.hung {
			r.outs[p].done = true
			r.outs[p].err = fmt.Errorf("BUG (harness observation): Protocol goroutine never delivers a result")
		}
	}
	for _, e := range s.Exp {
		if e.Called {
			extra := "none"
			if o := r.outs[e.H]; o.done && o.res == nil && o.err == nil {
				extra = "left"
			}
			r.compareOut("protocol-final-outcome", i, e, r.outs[e.H], extra)
		}
	}
	if s.Req != nil {
		r.requirements(i, s.Req)
	}
}

// RunProto replays behaviours of spec/DKGProtocol.tla.
func RunProto(cfg Config, res *core.Result) error {
	var lines [][]byte
	if err := core.ReadLines(cfg.In, func(l []byte) error { lines = append(lines, l); return nil }); err != nil {
		return err
	}
	if len(lines) == 0 {
		return fmt.Errorf("no behaviours in %s", cfg.In)
	}
	if cfg.Max > 0 && len(lines) > cfg.Max {
		type hl struct {
			h uint64
			l []byte
		}
		allHonest, rest := splitHonest(lines)
		hs := make([]hl, len(rest))
		for i, l := range rest {
			hs[i] = hl{core.Hash64(fmt.Sprint(cfg.Seed), string(l)), l}
		}
		sort.Slice(hs, func(a, b int) bool { return hs[a].h < hs[b].h })
		res.AddExtra("behaviours_generated", len(lines))
		lines = append([][]byte(nil), allHonest...)
		for _, x := range hs {
			if len(lines) >= cfg.Max {
				break
			}
			lines = append(lines, x.l)
		}
	}
	drift := &driftRec{counts: map[string]int{}}
	agg := newVioAgg(3)
	var perr error
	var pmu sync.Mutex
	core.Parallel(len(lines), runtime.NumCPU(), func(i int) {
		var steps []PStep
		if err := json.Unmarshal(lines[i], &steps); err != nil || len(steps) == 0 || steps[0].Act != "Setup" {
			pmu.Lock()
			perr = fmt.Errorf("bad protocol behaviour: %v", err)
			pmu.Unlock()
			return
		}
		id := canonID(lines[i])
		variant := int(core.Hash64(fmt.Sprint(cfg.Seed), id) % 1000)
		w := newWorld(steps[0].Step, cfg.Seed, variant, id)
		r := &protoReplay{steps: steps}
		r.w, r.res, r.drift, r.raw = w, res, drift, json.RawMessage(lines[i])
		r.agg = agg
		r.violateFn = r.pviolate
		r.run()
		res.Eval("proto|" + w.label + "|" + id)
		if i%499 == 0 {
			res.Sample(map[string]any{"config": "protocol/" + w.label, "case": r.cased, "class": r.cls, "behaviour": json.RawMessage(lines[i])})
		}
	})
	if perr != nil {
		return perr
	}
	agg.flush(res)
	res.AddTraces(len(lines))
	res.SetExtra("drift", map[string]any{"counts": drift.counts, "samples": drift.samples})
	res.Rule = "behaviour = faulty-party menu choices x per-node delivery order (with repeats) per round, replayed on real Protocol goroutines"
	return nil
}
