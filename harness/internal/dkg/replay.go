package dkg

import (
	"encoding/json"
	"fmt"
	"runtime"
	"sort"
	"sync"

	"go.dedis.ch/kyber/v4"
	"go.dedis.ch/kyber/v4/share"
	pdkg "go.dedis.ch/kyber/v4/share/dkg/pedersen"

	"verifharness/internal/core"
)

// Config of one replay run of the API-level driver.
type Config struct {
	Prop     string
	In       string
	Seed     int64
	Variants int // concretisations ("bindings") per behaviour
	Max      int // replay at most this many behaviours (deterministic sub-sample by hash); 0 = all
}

type driftRec struct {
	mu      sync.Mutex
	counts  map[string]int
	samples []map[string]any
}

func (d *driftRec) add(kind string, detail map[string]any) {
	d.mu.Lock()
	d.counts[kind]++
	if d.counts[kind] <= 2 && len(d.samples) < 12 {
		detail["kind"] = kind
		d.samples = append(d.samples, detail)
	}
	d.mu.Unlock()
}

type nodeOut struct {
	res  *pdkg.Result
	err  error
	done bool
}

type apiReplay struct {
	w     *world
	res   *core.Result
	drift *driftRec
	agg   *vioAgg
	bh    Behaviour
	raw   json.RawMessage
	gens  map[int]*pdkg.DistKeyGenerator
	deals map[int]*pdkg.DealBundle
	resps map[int]*pdkg.ResponseBundle
	justs map[int]*pdkg.JustificationBundle
	outs  map[int]*nodeOut
	dealt []BundleJ
	cased string
	// violateFn, when set, replaces the API-level key scheme (Protocol level)
	violateFn func(kind, what string, step int, extra map[string]any)
}

func (r *apiReplay) detail(step int, extra map[string]any) map[string]any {
	d := map[string]any{"behaviour": r.raw, "config": r.w.label, "variant": r.w.variant, "step": step,
		"bad_share_kind": badShareKinds[r.w.variant%len(badShareKinds)]}
	for k, v := range extra {
		d[k] = v
	}
	return d
}

func (r *apiReplay) violate(kind, what string, step int, extra map[string]any) {
	if r.violateFn != nil {
		r.violateFn(kind, what, step, extra)
		return
	}
	key := fmt.Sprintf("%s/pedersen-api/%s/%s/%s", r.res.Property, r.w.label, kind, r.cased)
	r.agg.add(r.w.label+"/"+kind, r.cased, key, what, r.detail(step, extra))
}

func (r *apiReplay) driftf(kind string, step, h int, exp, got any) {
	r.drift.add(kind, r.detail(step, map[string]any{"node": h, "expected": exp, "got": got}))
}

func (r *apiReplay) caseLabel() string {
	d, rs, j := "nodeal", "noresp", "nojust"
	for _, s := range r.bh {
		switch s.Act {
		case "Deal":
			d = dealLabel(s.Bundles)
		case "Resp":
			rs = respLabel(s.Bundles, r.w.setup.Fast)
		case "Just":
			j = justLabel(s.Bundles)
		}
	}
	if len(r.w.setup.Faulty) == 0 {
		return "all-honest"
	}
	return "deal:" + d + "/resp:" + rs + "/just:" + j
}

func (r *apiReplay) run() {
	w := r.w
	r.cased = r.caseLabel()
	r.gens = map[int]*pdkg.DistKeyGenerator{}
	r.deals = map[int]*pdkg.DealBundle{}
	r.resps = map[int]*pdkg.ResponseBundle{}
	r.justs = map[int]*pdkg.JustificationBundle{}
	r.outs = map[int]*nodeOut{}
	// Setup: real generators for the honest parties, Deals() of the honest dealers
	for _, p := range w.order {
		if w.faulty[p] {
			continue
		}
		g, err := pdkg.NewDistKeyHandler(w.config(p))
		if err != nil {
			r.violate("setup-error", "NewDistKeyHandler failed for an honest party: "+err.Error(), 0, map[string]any{"node": p})
			return
		}
		r.gens[p] = g
		r.outs[p] = &nodeOut{}
		if w.parties[p].oi >= 0 {
			db, err := g.Deals()
			if err != nil || db == nil {
				r.violate("deals-error", fmt.Sprintf("Deals() of an honest dealer failed: %v", err), 0, map[string]any{"node": p})
				return
			}
			r.deals[p] = db
		}
	}
	for i, s := range r.bh {
		var msg, stack string
		var pan bool
		switch s.Act {
		case "Deal":
			msg, stack, pan = core.Try(func() { r.stepDeal(i, s) })
		case "Resp":
			msg, stack, pan = core.Try(func() { r.stepResp(i, s) })
		case "Just":
			msg, stack, pan = core.Try(func() { r.stepJust(i, s) })
		}
		if pan {
			r.violate("panic", "phase call panicked: "+msg, i, map[string]any{"stack": stack})
			return
		}
	}
}

func (r *apiReplay) checkSig(step int, pk pdkg.Packet, from int, authOK ...bool) {
	// what an application does before handing a bundle to the state machine; hand-made bundles carry the
	// faulty party's own signature, so they must pass
	for _, p := range r.w.order {
		if g := r.gens[p]; g != nil {
			_ = g
			err := pdkg.VerifyPacketSignature(r.w.config(p), pk)
			if len(authOK) > 0 && !authOK[0] {
				// author index outside the group: an application that verifies packets drops it, the state machine ignores it
				if err == nil {
					r.driftf("unknown-author-signature-accepted", step, from, "rejected", "accepted")
				}
				return
			}
			if err != nil {
				r.driftf("handmade-bundle-signature-rejected", step, from, "valid", err.Error())
			}
			return
		}
	}
}

func (r *apiReplay) stepDeal(i int, s Step) {
	w := r.w
	r.dealt = s.Bundles
	cache := map[string]*pdkg.DealBundle{}
	var list []*pdkg.DealBundle
	for _, b := range s.Bundles {
		if b.Honest {
			list = append(list, r.deals[b.From])
			w.dealPub[b.From] = append(w.dealPub[b.From], r.deals[b.From].Public)
			continue
		}
		bb := b
		bb.C = 0
		kb, _ := json.Marshal(bb)
		var db *pdkg.DealBundle
		if prev, ok := cache[string(kb)]; ok {
			db = cloneDeal(prev) // duplicate: byte-identical bundle
		} else {
			db = w.craftDeal(b)
			cache[string(kb)] = db
		}
		r.checkSig(i, db, b.From, b.authOK())
		if b.authOK() {
			w.dealPub[b.From] = append(w.dealPub[b.From], db.Public)
		}
		list = append(list, db)
	}
	for _, e := range s.Exp {
		g := r.gens[e.H]
		rb, err := g.ProcessDeals(append([]*pdkg.DealBundle(nil), list...))
		if err != nil {
			r.outs[e.H].err, r.outs[e.H].done = err, true
			r.driftf("processdeals-error", i, e.H, "no error", err.Error())
			continue
		}
		got := w.respProj(rb)
		exp := kvMap(e.Resp)
		if (rb != nil) != e.Has || kvString(got) != kvString(exp) {
			r.driftf("responses-emitted", i, e.H, kvString(exp), kvString(got))
		}
		if rb != nil {
			r.resps[e.H] = rb
		}
	}
}

func (r *apiReplay) compareOut(kind string, i int, e ExpJ, o *nodeOut, extra string) {
	w := r.w
	got := "none"
	var q []int
	switch {
	case o.err != nil:
		got = "err:" + errClass(o.err)
	case o.res != nil:
		got = "res"
		q = w.qualProj(o.res)
	default:
		got = extra
	}
	exp := e.Out.K
	switch e.Out.K {
	case "err":
		exp = "err:" + e.Out.E
	case "none":
		exp = extra2(e)
	}
	if got != exp || (e.Out.K == "res" && intsString(q) != intsString(e.Out.Qual)) {
		r.driftf(kind, i, e.H, fmt.Sprint(exp, " ", e.Out.Qual), fmt.Sprint(got, " ", q))
	}
}

func extra2(e ExpJ) string {
	if e.Has {
		return "just"
	}
	return "wait"
}

func (r *apiReplay) stepResp(i int, s Step) {
	w := r.w
	var list []*pdkg.ResponseBundle
	for _, b := range s.Bundles {
		if b.Honest {
			if rb := r.resps[b.From]; rb != nil {
				list = append(list, rb)
			}
			continue
		}
		rb := w.craftResp(b)
		r.checkSig(i, rb, b.From, b.authOK())
		list = append(list, rb)
	}
	for _, e := range s.Exp {
		o := r.outs[e.H]
		if o.done {
			continue
		}
		g := r.gens[e.H]
		res, jb, err := g.ProcessResponses(append([]*pdkg.ResponseBundle(nil), list...))
		extra := "wait"
		switch {
		case err != nil:
			o.err, o.done = err, true
		case res != nil:
			o.res, o.done = res, true
		case jb != nil:
			extra = "just"
			r.justs[e.H] = jb
		}
		if e.Out.K == "left" && err == nil && res == nil && jb == nil {
			extra = "left"
			o.done = true
		}
		if e.Out.K == "left" {
			if extra != "left" {
				r.driftf("processresponses-outcome", i, e.H, "left", fmt.Sprint(extra, " ", errClass(err)))
			}
			continue
		}
		r.compareOut("processresponses-outcome", i, e, o, extra)
		if jb != nil {
			var got []int
			for _, j := range jb.Justifications {
				got = append(got, w.partyOfNew(j.ShareIndex))
			}
			if intsString(got) != intsString(e.Just) {
				r.driftf("justifications-emitted", i, e.H, intsString(e.Just), intsString(got))
			}
		}
	}
}

func (r *apiReplay) stepJust(i int, s Step) {
	w := r.w
	var list []*pdkg.JustificationBundle
	for _, b := range s.Bundles {
		if b.Honest {
			if jb := r.justs[b.From]; jb != nil {
				list = append(list, jb)
			}
			continue
		}
		jb := w.craftJust(b, r.dealt)
		r.checkSig(i, jb, b.From, b.authOK())
		list = append(list, jb)
	}
	for _, e := range s.Exp {
		o := r.outs[e.H]
		if o.done {
			if e.Called {
				r.driftf("processjustifications-called", i, e.H, "node still running", "node already finished")
			}
			continue
		}
		// every node that has not finished is driven through the last phase (as Protocol does at the FinishPhase tick)
		g := r.gens[e.H]
		res, err := g.ProcessJustifications(append([]*pdkg.JustificationBundle(nil), list...))
		o.res, o.err, o.done = res, err, true
		extra := "none"
		if res == nil && err == nil {
			extra = "left"
		}
		if !e.Called {
			r.driftf("processjustifications-called", i, e.H, "node already finished", "node still running")
			continue
		}
		if e.Out.K == "left" {
			if extra != "left" {
				r.driftf("processjustifications-outcome", i, e.H, "left", fmt.Sprint(errClass(err)))
			}
			continue
		}
		r.compareOut("processjustifications-outcome", i, e, o, extra)
	}
	if s.Req != nil {
		r.requirements(i, s.Req)
	}
}

// requirements decides the observables of the property with real crypto on the real outputs.
func (r *apiReplay) requirements(i int, req *ReqJ) {
	w := r.w
	suite := w.suite
	var fin []int
	for _, p := range w.order {
		if o := r.outs[p]; o != nil && o.res != nil {
			fin = append(fin, p)
		}
	}
	inInts := func(a []int, x int) bool {
		for _, y := range a {
			if y == x {
				return true
			}
		}
		return false
	}
	// honest nodes that abort although enough honest dealers exist, or find themselves evicted
	for _, p := range w.order {
		o := r.outs[p]
		if o == nil || o.err == nil {
			continue
		}
		switch errClass(o.err) {
		case "abort", "notenough":
			if req.NoAbort {
				r.violate("honest-dealer-disqualified", "an honest node aborts for lack of valid deals although enough honest dealers (each with fewer than t complaints) took part: "+o.err.Error(), i, map[string]any{"node": p})
			}
		case "evicted":
			r.violate("honest-node-evicted", "an honest node finds itself evicted: "+o.err.Error(), i, map[string]any{"node": p})
		case "bug", "sharecheck":
			// "BUG: ..." / "share do not correspond to public polynomial": the node's own bookkeeping is inconsistent
			r.violate("honest-node-internal-error", "an honest node fails with an internal error: "+o.err.Error(), i, map[string]any{"node": p})
		case "other":
			// an error the model does not know is not by itself against the property: reported as drift
			r.driftf("unknown-error-class", i, p, "known error class", o.err.Error())
		}
	}
	if req.AllHonest {
		for _, p := range w.order {
			o := r.outs[p]
			if o == nil {
				continue
			}
			if o.err != nil || (w.parties[p].ni >= 0 && o.res == nil) {
				r.violate("all-honest-not-finished", fmt.Sprintf("everyone is honest but node %d does not complete (err=%v)", p, o.err), i, map[string]any{"node": p})
			}
		}
	}
	if len(fin) == 0 {
		return
	}
	// Agreement
	first := r.outs[fin[0]].res
	q0 := w.qualProj(first)
	for _, p := range fin[1:] {
		res := r.outs[p].res
		if intsString(w.qualProj(res)) != intsString(q0) {
			r.violate("qual-disagreement", fmt.Sprintf("honest nodes %d and %d complete with different QUAL: %v vs %v", fin[0], p, q0, w.qualProj(res)), i, nil)
		}
		same := len(res.Key.Commits) == len(first.Key.Commits)
		if same {
			for k := range res.Key.Commits {
				if !res.Key.Commits[k].Equal(first.Key.Commits[k]) {
					same = false
				}
			}
		}
		if !same {
			r.violate("commits-disagreement", fmt.Sprintf("honest nodes %d and %d complete with different commitment polynomials / public keys", fin[0], p), i, nil)
		}
		for k, n := range res.QUAL {
			if k < len(first.QUAL) && intsString(w.qualProj(res)) == intsString(q0) {
				// same set: the public keys attached to the indices must agree as well
				for _, m := range first.QUAL {
					if m.Index == n.Index && !m.Public.Equal(n.Public) {
						r.violate("qual-disagreement", "same QUAL indices but different public keys", i, nil)
					}
				}
			}
		}
	}
	// every share on the polynomial, index is the node's own
	var shares []*share.PriShare
	for _, p := range fin {
		res := r.outs[p].res
		if len(res.Key.Commits) != w.setup.NT {
			r.violate("commits-length", fmt.Sprintf("node %d outputs %d commitments, threshold is %d", p, len(res.Key.Commits), w.setup.NT), i, nil)
			continue
		}
		pp := share.NewPubPoly(suite, suite.Point().Base(), res.Key.Commits)
		if res.Key.Share == nil || res.Key.Share.I != w.newIdx(p) || !pp.Check(res.Key.Share) {
			r.violate("share-off-polynomial", fmt.Sprintf("output share of honest node %d does not lie on its output polynomial", p), i, nil)
		}
		shares = append(shares, res.Key.Share)
	}
	// any t of them reconstruct a secret matching the public key
	t := w.setup.NT
	if len(shares) >= t {
		n := 0
		subsets(len(shares), t, func(idx []int) bool {
			sub := make([]*share.PriShare, 0, t)
			for _, k := range idx {
				sub = append(sub, shares[k])
			}
			sec, err := share.RecoverSecret(suite, sub, uint32(t), uint32(len(w.new)))
			if err != nil || !suite.Point().Mul(sec, nil).Equal(first.Key.Commits[0]) {
				r.violate("recovered-secret-mismatch", fmt.Sprintf("t output shares do not reconstruct the public key (err=%v)", err), i, map[string]any{"subset": idx})
				return false
			}
			n++
			return n < 6
		})
	}
	// key = sum of the qualified dealers' contributions / unchanged after resharing
	if w.setup.Resh {
		for _, p := range fin {
			if !r.outs[p].res.Key.Commits[0].Equal(w.oldCommits[0]) {
				r.violate("key-changed", fmt.Sprintf("after resharing node %d outputs a different public key", p), i, nil)
			}
		}
	} else {
		for _, p := range fin {
			res := r.outs[p].res
			if !r.sumOfQual(res) {
				r.violate("key-not-sum-of-qual", fmt.Sprintf("node %d: output polynomial is not the sum of the polynomials broadcast by its QUAL %v", p, w.qualProj(res)), i, nil)
			}
		}
	}
	// unjustified invalid deal => dealer out; honest parties stay
	for _, p := range fin {
		q := w.qualProj(r.outs[p].res)
		for _, f := range req.MustOut {
			if w.parties[f].ni >= 0 && inInts(q, f) {
				r.violate("unjustified-dealer-in-qual", fmt.Sprintf("dealer %d gave an invalid deal to an honest party, never justified it, and is in node %d's QUAL %v", f, p, q), i, nil)
			}
		}
		if !w.setup.Resh {
			for _, d := range req.HonestDealers {
				if !inInts(q, d) {
					r.violate("honest-dealer-disqualified", fmt.Sprintf("honest dealer %d (fewer than t complaints) is missing from node %d's QUAL %v", d, p, q), i, nil)
				}
			}
		}
		for _, d := range req.HonestHolders {
			if !inInts(q, d) {
				r.violate("honest-holder-disqualified", fmt.Sprintf("honest share holder %d is missing from node %d's QUAL %v", d, p, q), i, nil)
			}
		}
	}
}

// sumOfQual: Commits == sum over QUAL of a polynomial that dealer put on the board
func (r *apiReplay) sumOfQual(res *pdkg.Result) bool {
	w := r.w
	var cands [][][]kyber.Point
	for _, n := range res.QUAL {
		p := w.partyOfNew(n.Index)
		pubs := w.dealPub[p]
		if len(pubs) == 0 {
			return false
		}
		cands = append(cands, pubs)
	}
	var try func(k int, acc []kyber.Point) bool
	try = func(k int, acc []kyber.Point) bool {
		if k == len(cands) {
			if len(acc) != len(res.Key.Commits) {
				return false
			}
			for i := range acc {
				if !acc[i].Equal(res.Key.Commits[i]) {
					return false
				}
			}
			return true
		}
		for _, pub := range cands[k] {
			if acc != nil && len(pub) != len(acc) {
				continue
			}
			next := make([]kyber.Point, len(pub))
			for i := range pub {
				if acc == nil {
					next[i] = pub[i].Clone()
				} else {
					next[i] = w.suite.Point().Add(acc[i], pub[i])
				}
			}
			if try(k+1, next) {
				return true
			}
		}
		return false
	}
	return try(0, nil)
}

func subsets(n, k int, fn func([]int) bool) {
	idx := make([]int, k)
	var rec func(start, d int) bool
	rec = func(start, d int) bool {
		if d == k {
			return fn(append([]int(nil), idx...))
		}
		for i := start; i < n; i++ {
			idx[d] = i
			if !rec(i+1, d+1) {
				return false
			}
		}
		return true
	}
	rec(0, 0)
}

// RunAPI replays API-level behaviours of spec/DKGPedersen.tla.
func RunAPI(cfg Config, res *core.Result) error {
	var lines [][]byte
	if err := core.ReadLines(cfg.In, func(l []byte) error { lines = append(lines, l); return nil }); err != nil {
		return err
	}
	if len(lines) == 0 {
		return fmt.Errorf("no behaviours in %s", cfg.In)
	}
	if cfg.Max > 0 && len(lines) > cfg.Max {
		// deterministic stratified sub-sample (seeded hash order inside the strata)
		type hl struct {
			h uint64
			l []byte
		}
		groups := map[string][]hl{}
		allHonest, faultyLines := splitHonest(lines)
		nGenerated := len(lines)
		type item struct {
			hl
			singles [3]string
		}
		var items []item
		for _, l := range faultyLines {
			bh, err := parseBehaviour(l)
			if err != nil {
				return err
			}
			r := &apiReplay{bh: bh, w: &world{setup: bh[0]}}
			cfgk := fmt.Sprint(bh[0].Shape, bh[0].OT, bh[0].NT, bh[0].Fast, len(bh[0].Parties), bh[0].Faulty)
			k := cfgk + r.caseLabel()
			x := hl{core.Hash64(fmt.Sprint(cfg.Seed), string(l)), l}
			groups[k] = append(groups[k], x)
			it := item{hl: x}
			for _, st := range bh {
				switch st.Act {
				case "Deal":
					it.singles[0] = cfgk + "|deal:" + dealLabel(st.Bundles)
				case "Resp":
					it.singles[1] = cfgk + "|resp:" + respLabel(st.Bundles, bh[0].Fast)
				case "Just":
					it.singles[2] = cfgk + "|just:" + justLabel(st.Bundles)
				}
			}
			items = append(items, it)
		}
		// 1. every single-phase label of every (configuration, faulty set) is replayed at least `per` times ...
		const per = 4
		sort.Slice(items, func(a, b int) bool { return items[a].h < items[b].h })
		cnt := map[string]int{}
		taken := map[string]bool{}
		lines = append([][]byte(nil), allHonest...)
		for _, it := range items {
			need := false
			for _, sl := range it.singles {
				if sl != "" && cnt[sl] < per {
					need = true
				}
			}
			if need {
				for _, sl := range it.singles {
					cnt[sl]++
				}
				lines = append(lines, it.l)
				taken[string(it.l)] = true
			}
		}
		res.AddExtra("label_cover", len(lines))
		// 2. ... then the full abstract cases round-robin in seeded order up to Max
		var keys []string
		for k, g := range groups {
			keys = append(keys, k)
			sort.Slice(g, func(a, b int) bool { return g[a].h < g[b].h })
		}
		sort.Slice(keys, func(a, b int) bool {
			return core.Hash64(fmt.Sprint(cfg.Seed), keys[a]) < core.Hash64(fmt.Sprint(cfg.Seed), keys[b])
		})
		res.AddExtra("behaviours_generated", nGenerated)
		res.AddExtra("case_groups", len(keys))
		for round := 0; len(lines) < cfg.Max; round++ {
			took := false
			for _, k := range keys {
				if round < len(groups[k]) && len(lines) < cfg.Max {
					if !taken[string(groups[k][round].l)] {
						lines = append(lines, groups[k][round].l)
					}
					took = true
				}
			}
			if !took {
				break
			}
		}
	}
	if cfg.Variants < 1 {
		cfg.Variants = 1
	}
	drift := &driftRec{counts: map[string]int{}}
	agg := newVioAgg(3)
	var perr error
	var pmu sync.Mutex
	core.Parallel(len(lines), runtime.NumCPU(), func(i int) {
		bh, err := parseBehaviour(lines[i])
		if err != nil {
			pmu.Lock()
			perr = err
			pmu.Unlock()
			return
		}
		id := canonID(lines[i])
		for v := 0; v < cfg.Variants; v++ {
			variant := int(core.Hash64(fmt.Sprint(cfg.Seed), id)%1000)*cfg.Variants + v
			if len(bh[0].Faulty) == 0 && v > 0 {
				continue
			}
			w := newWorld(bh[0], cfg.Seed, variant, id)
			r := &apiReplay{w: w, res: res, drift: drift, agg: agg, bh: bh, raw: json.RawMessage(lines[i])}
			r.run()
			res.Eval(w.label + "|" + id + "|" + fmt.Sprint(variant%len(badShareKinds)))
			if i%997 == 0 && v == 0 {
				res.Sample(map[string]any{"config": w.label, "case": r.cased, "variant": variant, "behaviour": json.RawMessage(lines[i])})
			}
		}
	})
	if perr != nil {
		return perr
	}
	agg.flush(res)
	res.AddTraces(len(lines))
	res.SetExtra("drift", map[string]any{"counts": drift.counts, "samples": drift.samples})
	res.Rule = "behaviour = faulty-party menu choices x per-phase delivery order, replayed on real DistKeyGenerators"
	return nil
}
