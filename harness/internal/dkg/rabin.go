package dkg

import (
	"encoding/json"
	"fmt"
	"runtime"
	"sort"
	"strings"
	"sync"

	"go.dedis.ch/kyber/v4"
	"go.dedis.ch/kyber/v4/group/edwards25519"
	"go.dedis.ch/kyber/v4/share"
	rdkg "go.dedis.ch/kyber/v4/share/dkg/rabin"
	rvss "go.dedis.ch/kyber/v4/share/vss/rabin"
	"go.dedis.ch/kyber/v4/sign/schnorr"
	"go.dedis.ch/kyber/v4/xof/blake2xb"

	"verifharness/internal/core"
)

// ---- behaviours of spec/DKGRabin.tla ----

type RStratDeal struct {
	F  int    `json:"f"`
	Sh []KV   `json:"sh"`
	Rs []KV   `json:"rs"`
	K  string `json:"k"`
}

type RMsg struct {
	I  int    `json:"i"`
	D  int    `json:"d"`
	Sk string `json:"sk"`
	C  int    `json:"c"`
}

type RExp struct {
	H               int    `json:"h"`
	Resp            []KV   `json:"resp"`
	Just            []int  `json:"just"`
	Qual            []int  `json:"qual"`
	DealerCertified bool   `json:"dealerCertified"`
	Sent            bool   `json:"sent"`
	CC              []int  `json:"cc"`
	RC              []KV   `json:"rc"`
	K               string `json:"k"`
	E               string `json:"e"`
	Seq             []RMsg `json:"seq"`
}

type RReq struct {
	MustOut   []int    `json:"mustOut"`
	Honest    []int    `json:"honest"`
	AllHonest bool     `json:"allHonest"`
	Cls       []string `json:"cls"`
}

type RStep struct {
	Act    string       `json:"act"`
	N      int          `json:"n"`
	T      int          `json:"t"`
	Faulty []int        `json:"faulty"`
	Deal   []RStratDeal `json:"deal"`
	FResp  []RStratDeal `json:"fresp"`
	FJust  []RStratDeal `json:"fjust"`
	FSc    []RStratDeal `json:"fsc"`
	Msgs   []RMsg       `json:"msgs"`
	Ords   []RExp       `json:"ords"`
	Exp    []RExp       `json:"exp"`
	Req    *RReq        `json:"req"`
}

type rabinReplay struct {
	res     *core.Result
	drift   *driftRec
	agg     *vioAgg
	raw     json.RawMessage
	steps   []RStep
	variant int
	label   string
	cased   string
	cls     []string

	n, t   int
	suite  *edwards25519.SuiteEd25519
	rnd    kyber.XOF
	priv   []kyber.Scalar
	pubs   []kyber.Point
	faulty map[int]bool
	gens   map[int]*rdkg.DistKeyGenerator

	// faulty material
	fdealer  map[int]*rvss.Dealer
	fpoly    map[int]*share.PriPoly
	fgood    map[int]map[int]*rvss.Deal // clean copies of the plaintext deals
	fver     map[int]map[int]*rvss.Verifier
	fkinds   map[int]map[int]string
	trueComm map[int][]kyber.Point // the polynomial every dealer really shared (honest: what it announces)

	resps []*rdkg.Response
	justs []*rdkg.Justification
	ccs   []*rdkg.ComplaintCommits
	rcs   map[string]*rdkg.ReconstructCommits
	outs  map[int]*rdkg.DistKeyShare
	errs  map[int]error
}

func (r *rabinReplay) detail(step int, extra map[string]any) map[string]any {
	d := map[string]any{"behaviour": r.raw, "config": r.label, "variant": r.variant, "step": step}
	for k, v := range extra {
		d[k] = v
	}
	return d
}

// violate: the key names the root-cause class TLC attached to the behaviour (first one in the spec's fixed order);
// a violation outside every known class is keyed by the full abstract case and therefore never matches a known finding.
func (r *rabinReplay) violate(kind, what string, step int, extra map[string]any) {
	d := r.detail(step, extra)
	d["case"] = r.cased
	d["classes"] = r.cls
	if len(r.cls) > 0 {
		r.res.Violate(fmt.Sprintf("%s/rabin/%s/%s", r.res.Property, r.cls[0], kind), what, d)
		return
	}
	key := fmt.Sprintf("%s/rabin/%s/%s/%s", r.res.Property, r.label, kind, r.cased)
	r.agg.add("rabin/"+r.label+"/"+kind, r.cased, key, what, d)
}

func (r *rabinReplay) driftf(kind string, step, h int, exp, got any) {
	r.drift.add("rabin-"+kind, r.detail(step, map[string]any{"node": h, "expected": exp, "got": got}))
}

func cloneVssDeal(s kyber.Group, d *rvss.Deal) *rvss.Deal {
	return &rvss.Deal{
		SessionID:   append([]byte(nil), d.SessionID...),
		SecShare:    &share.PriShare{I: d.SecShare.I, V: d.SecShare.V.Clone()},
		RndShare:    &share.PriShare{I: d.RndShare.I, V: d.RndShare.V.Clone()},
		T:           d.T,
		Commitments: append([]kyber.Point(nil), d.Commitments...),
	}
}

// the abstract case: what the faulty party does in every round (stable, no seed-dependent value)
func (r *rabinReplay) caseLabel() string {
	if len(r.faulty) == 0 {
		return "all-honest"
	}
	var parts []string
	for _, s := range r.steps {
		switch s.Act {
		case "Setup":
			for _, d := range s.Deal {
				g, b, u := 0, 0, 0
				for _, e := range d.Sh {
					switch e.V {
					case "G":
						g++
					case "B":
						b++
					default:
						u++
					}
				}
				l := "deal:good"
				switch {
				case b > 0 && u > 0:
					l = "deal:badshare+missing"
				case b > 0 && g == 0:
					l = "deal:badshare-all"
				case b > 0:
					l = "deal:badshare-some"
				case u > 0 && g == 0:
					l = "deal:missing-all"
				case u > 0:
					l = "deal:missing-some"
				}
				parts = append(parts, l)
			}
		case "Resp":
			for _, d := range s.FResp {
				c, nn := 0, 0
				for _, e := range d.Rs {
					if e.V == "comp" {
						c++
					}
					if e.V == "none" {
						nn++
					}
				}
				switch {
				case c > 0:
					parts = append(parts, "resp:false-complaint")
				case nn > 0:
					parts = append(parts, "resp:absent")
				default:
					parts = append(parts, "resp:approve")
				}
			}
		case "Just":
			for _, d := range s.FJust {
				parts = append(parts, "just:"+d.K)
			}
		case "SecretCommits":
			for _, d := range s.FSc {
				parts = append(parts, "sc:"+d.K)
			}
		case "Reconstruct":
			var l []string
			for _, m := range s.Msgs {
				if r.faulty[m.I] {
					l = append(l, m.Sk)
				}
			}
			if len(l) == 0 {
				parts = append(parts, "rc:none")
			} else {
				parts = append(parts, "rc:"+strings.Join(l, "+"))
			}
		}
	}
	return strings.Join(parts, "/")
}

func (r *rabinReplay) sign(p int, msg []byte) []byte {
	sig, err := schnorr.Sign(r.suite, r.priv[p], msg)
	if err != nil {
		panic(err)
	}
	return sig
}

func (r *rabinReplay) honest() []int {
	var hs []int
	for p := 0; p < r.n; p++ {
		if !r.faulty[p] {
			hs = append(hs, p)
		}
	}
	return hs
}

func (r *rabinReplay) run(seed int64, id string) {
	setup := r.steps[0]
	r.n, r.t = setup.N, setup.T
	r.rnd = blake2xb.New(seedBytes(seed, "dkg-rabin", id, fmt.Sprint(r.variant)))
	r.suite = edwards25519.NewBlakeSHA256Ed25519WithRand(r.rnd)
	r.faulty = map[int]bool{}
	for _, f := range setup.Faulty {
		r.faulty[f] = true
	}
	r.label = fmt.Sprintf("n%dt%d", r.n, r.t)
	r.cased = r.caseLabel()
	for _, st := range r.steps {
		if st.Req != nil {
			r.cls = st.Req.Cls
		}
	}
	for p := 0; p < r.n; p++ {
		k := r.suite.Scalar().Pick(r.rnd)
		r.priv = append(r.priv, k)
		r.pubs = append(r.pubs, r.suite.Point().Mul(k, nil))
	}
	r.gens = map[int]*rdkg.DistKeyGenerator{}
	r.fdealer, r.fpoly, r.fgood = map[int]*rvss.Dealer{}, map[int]*share.PriPoly{}, map[int]map[int]*rvss.Deal{}
	r.fver, r.fkinds, r.trueComm = map[int]map[int]*rvss.Verifier{}, map[int]map[int]string{}, map[int][]kyber.Point{}
	r.rcs, r.outs, r.errs = map[string]*rdkg.ReconstructCommits{}, map[int]*rdkg.DistKeyShare{}, map[int]error{}
	for p := 0; p < r.n; p++ {
		if r.faulty[p] {
			continue
		}
		g, err := rdkg.NewDistKeyGenerator(r.suite, r.priv[p], r.pubs, uint32(r.t))
		if err != nil {
			r.violate("setup-error", "NewDistKeyGenerator failed: "+err.Error(), 0, nil)
			return
		}
		r.gens[p] = g
	}
	for _, d := range setup.Deal {
		r.fkinds[d.F] = kvMap(d.Sh)
	}
	for i, s := range r.steps {
		var fn func(int, RStep)
		switch s.Act {
		case "Deal":
			fn = r.roundDeal
		case "Resp":
			fn = r.roundResp
		case "Just":
			fn = r.roundJust
		case "SecretCommits":
			fn = r.roundSC
		case "Reconstruct":
			fn = r.roundRC
		default:
			continue
		}
		msg, stack, pan := core.Try(func() { fn(i, s) })
		if pan {
			r.violate("panic", "honest node panicked in round "+s.Act+": "+msg, i, map[string]any{"stack": stack})
			return
		}
	}
}

func (r *rabinReplay) roundDeal(i int, s RStep) {
	got := map[int]map[int]string{}
	for _, h := range r.honest() {
		got[h] = map[int]string{}
	}
	// honest dealers
	hdeals := map[int]map[int]*rdkg.Deal{}
	for _, h := range r.honest() {
		deals, err := r.gens[h].Deals()
		if err != nil {
			r.violate("deals-error", "Deals() failed: "+err.Error(), i, map[string]any{"node": h})
			return
		}
		hdeals[h] = deals
	}
	for _, d := range r.honest() {
		for _, x := range r.honest() {
			if x == d {
				continue
			}
			resp, err := r.gens[x].ProcessDeal(hdeals[d][x])
			if err != nil {
				r.driftf("processdeal-error", i, x, "no error", err.Error())
				continue
			}
			r.resps = append(r.resps, resp)
			got[x][d] = approvedStr(resp.Response.Approved)
		}
	}
	// faulty dealers: a real vss.Dealer whose plaintext deals are corrupted in place before encryption
	for f := range r.faulty {
		secret := r.suite.Scalar().Pick(r.rnd)
		dl, err := rvss.NewDealer(r.suite, r.priv[f], secret, r.pubs, uint32(r.t))
		if err != nil {
			panic(err)
		}
		r.fdealer[f] = dl
		r.fgood[f] = map[int]*rvss.Deal{}
		var shares []*share.PriShare
		for x := 0; x < r.n; x++ {
			pd, err := dl.PlaintextDeal(x)
			if err != nil {
				panic(err)
			}
			r.fgood[f][x] = cloneVssDeal(r.suite, pd)
			shares = append(shares, &share.PriShare{I: pd.SecShare.I, V: pd.SecShare.V.Clone()})
		}
		pl, err := share.RecoverPriPoly(r.suite, shares, uint32(r.t), uint32(r.n))
		if err != nil {
			panic(err)
		}
		r.fpoly[f] = pl
		_, r.trueComm[f] = pl.Commit(r.suite.Point().Base()).Info()
		for _, x := range r.honest() {
			kind := r.fkinds[f][x]
			if kind == "U" {
				if r.variant%2 == 0 {
					continue // absent
				}
				// undecryptable: encrypted for another key
				other := (x + 1) % r.n
				ed, err := dl.EncryptedDeal(other)
				if err != nil {
					panic(err)
				}
				if _, err := r.gens[x].ProcessDeal(&rdkg.Deal{Index: uint32(f), Deal: ed}); err == nil {
					r.driftf("undecryptable-deal-accepted", i, x, "error", "response")
				}
				continue
			}
			if kind == "B" {
				pd, _ := dl.PlaintextDeal(x)
				pd.SecShare.V = r.suite.Scalar().Add(pd.SecShare.V, r.suite.Scalar().One())
			}
			ed, err := dl.EncryptedDeal(x)
			if err != nil {
				panic(err)
			}
			resp, err := r.gens[x].ProcessDeal(&rdkg.Deal{Index: uint32(f), Deal: ed})
			if err != nil {
				r.driftf("processdeal-error", i, x, "response", err.Error())
				continue
			}
			r.resps = append(r.resps, resp)
			got[x][f] = approvedStr(resp.Response.Approved)
		}
		// f's own verifiers for the honest deals (to learn session ids and build its responses)
		r.fver[f] = map[int]*rvss.Verifier{}
		for _, d := range r.honest() {
			v, err := rvss.NewVerifier(r.suite, r.priv[f], r.pubs[d], r.pubs)
			if err != nil {
				panic(err)
			}
			r.fver[f][d] = v
		}
		for _, d := range r.honest() {
			if _, err := r.fver[f][d].ProcessEncryptedDeal(hdeals[d][f].Deal); err != nil {
				panic(err)
			}
		}
	}
	for _, e := range s.Exp {
		if kvString(got[e.H]) != kvString(kvMap(e.Resp)) {
			r.driftf("responses-emitted", i, e.H, kvString(kvMap(e.Resp)), kvString(got[e.H]))
		}
	}
}

func approvedStr(b bool) string {
	if b {
		return "app"
	}
	return "comp"
}

func (r *rabinReplay) roundResp(i int, s RStep) {
	// the faulty parties' responses about the honest deals
	for _, fr := range s.FResp {
		f := fr.F
		for _, e := range fr.Rs {
			if e.V == "none" {
				continue
			}
			d := e.K
			sid := r.fver[f][d].SessionID()
			vr := &rvss.Response{SessionID: append([]byte(nil), sid...), Index: uint32(f), Approved: e.V == "app"}
			vr.Signature = r.sign(f, vr.Hash(r.suite))
			r.resps = append(r.resps, &rdkg.Response{Index: uint32(d), Response: vr})
		}
	}
	got := map[int][]int{}
	for _, resp := range r.resps {
		for _, x := range r.honest() {
			if int(resp.Response.Index) == x {
				continue // never handed its own response
			}
			j, err := r.gens[x].ProcessResponse(resp)
			if err != nil {
				continue // e.g. no verifier for that dealer at x
			}
			if j != nil {
				r.justs = append(r.justs, j)
				got[x] = append(got[x], int(j.Justification.Index))
			}
		}
	}
	for _, e := range s.Exp {
		if intsString(got[e.H]) != intsString(e.Just) {
			r.driftf("justifications-emitted", i, e.H, intsString(e.Just), intsString(got[e.H]))
		}
	}
}

func (r *rabinReplay) roundJust(i int, s RStep) {
	for _, fj := range s.FJust {
		f := fj.F
		if fj.K == "none" {
			continue
		}
		for _, h := range r.honest() {
			if r.fkinds[f][h] != "B" {
				continue
			}
			dl := cloneVssDeal(r.suite, r.fgood[f][h])
			if fj.K == "invalid" {
				dl.SecShare.V = r.suite.Scalar().Add(dl.SecShare.V, r.suite.Scalar().SetInt64(2))
			}
			vj := &rvss.Justification{SessionID: append([]byte(nil), r.fdealer[f].SessionID()...), Index: uint32(h), Deal: dl}
			vj.Signature = r.sign(f, vj.Hash(r.suite))
			r.justs = append(r.justs, &rdkg.Justification{Index: uint32(f), Justification: vj})
		}
	}
	for _, j := range r.justs {
		for _, x := range r.honest() {
			if int(j.Index) == x {
				continue
			}
			_ = r.gens[x].ProcessJustification(j)
		}
	}
	for _, h := range r.honest() {
		r.gens[h].SetTimeout()
	}
	for _, e := range s.Exp {
		var q []int
		for _, x := range r.gens[e.H].QUAL() {
			q = append(q, int(x))
		}
		if intsString(q) != intsString(e.Qual) {
			r.driftf("qual-after-timeout", i, e.H, intsString(e.Qual), intsString(q))
		}
	}
}

func (r *rabinReplay) altPoly(f int, agree map[int]bool) *share.PriPoly {
	// a polynomial of degree t-1 that agrees with f's real one exactly on `agree` (|agree| <= t-1) among the participants
	var pts []*share.PriShare
	for x := 0; x < r.n && len(pts) < r.t; x++ {
		if agree[x] {
			pts = append(pts, r.fpoly[f].Eval(uint32(x)))
		}
	}
	for x := 0; x < r.n && len(pts) < r.t; x++ {
		if !agree[x] {
			sh := r.fpoly[f].Eval(uint32(x))
			sh.V = r.suite.Scalar().Add(sh.V, r.suite.Scalar().SetInt64(int64(7+x)))
			pts = append(pts, sh)
		}
	}
	pl, err := share.RecoverPriPoly(r.suite, pts, uint32(r.t), uint32(r.n))
	if err != nil {
		panic(err)
	}
	return pl
}

func (r *rabinReplay) roundSC(i int, s RStep) {
	var scs []*rdkg.SecretCommits
	sent := map[int]bool{}
	for _, h := range r.honest() {
		sc, err := r.gens[h].SecretCommits()
		if err == nil && sc != nil {
			scs = append(scs, sc)
			sent[h] = true
			r.trueComm[h] = sc.Commitments
		}
	}
	hs := r.honest()
	for _, fs := range s.FSc {
		f := fs.F
		if fs.K == "none" {
			continue
		}
		comm := r.trueComm[f]
		if fs.K != "true" {
			agree := map[int]bool{}
			if fs.K == "altmost" {
				for _, h := range hs[1:] {
					agree[h] = true
				}
			}
			_, comm = r.altPoly(f, agree).Commit(r.suite.Point().Base()).Info()
		}
		sc := &rdkg.SecretCommits{Index: uint32(f), Commitments: comm, SessionID: append([]byte(nil), r.fdealer[f].SessionID()...)}
		sc.Signature = r.sign(f, sc.Hash(r.suite))
		scs = append(scs, sc)
	}
	gotCC := map[int][]int{}
	for _, sc := range scs {
		for _, x := range r.honest() {
			if int(sc.Index) == x {
				continue
			}
			cc, err := r.gens[x].ProcessSecretCommits(sc)
			if err != nil {
				continue
			}
			if cc != nil {
				r.ccs = append(r.ccs, cc)
				gotCC[x] = append(gotCC[x], int(cc.DealerIndex))
			}
		}
	}
	gotRC := map[int]map[int]string{}
	for _, h := range r.honest() {
		gotRC[h] = map[int]string{}
	}
	for _, cc := range r.ccs {
		for _, y := range r.honest() {
			if int(cc.Index) == y {
				continue
			}
			rc, err := r.gens[y].ProcessComplaintCommits(cc)
			if err != nil || rc == nil {
				continue
			}
			d := int(rc.DealerIndex)
			kind := "bad"
			if tc := r.trueComm[d]; tc != nil && share.NewPubPoly(r.suite, r.suite.Point().Base(), tc).Check(rc.Share) {
				kind = "true"
			}
			gotRC[y][d] = kind
			r.rcs[fmt.Sprintf("%d/%d/1", y, d)] = rc
		}
	}
	for _, e := range s.Exp {
		if sent[e.H] != e.Sent {
			r.driftf("secretcommits-sent", i, e.H, e.Sent, sent[e.H])
		}
		if intsString(gotCC[e.H]) != intsString(e.CC) {
			r.driftf("complaintcommits-emitted", i, e.H, intsString(e.CC), intsString(gotCC[e.H]))
		}
		if kvString(gotRC[e.H]) != kvString(kvMap(e.RC)) {
			r.driftf("reconstructcommits-emitted", i, e.H, kvString(kvMap(e.RC)), kvString(gotRC[e.H]))
		}
	}
}

func (r *rabinReplay) roundRC(i int, s RStep) {
	// the faulty parties' reconstruct commits about their own deal
	for _, m := range s.Msgs {
		if !r.faulty[m.I] {
			continue
		}
		f := m.I
		sh := r.fpoly[f].Eval(uint32(f))
		switch m.Sk {
		case "g1":
			sh.V = r.suite.Scalar().Add(sh.V, r.suite.Scalar().SetInt64(11))
		case "g2":
			sh.V = r.suite.Scalar().Add(sh.V, r.suite.Scalar().SetInt64(29))
		}
		rc := &rdkg.ReconstructCommits{SessionID: append([]byte(nil), r.fdealer[f].SessionID()...), Index: uint32(f), DealerIndex: uint32(m.D), Share: sh}
		rc.Signature = r.sign(f, rc.Hash(r.suite))
		r.rcs[fmt.Sprintf("%d/%d/%d", m.I, m.D, m.C)] = rc
	}
	for _, o := range s.Ords {
		for _, m := range o.Seq {
			if m.I == o.H {
				continue
			}
			rc := r.rcs[fmt.Sprintf("%d/%d/%d", m.I, m.D, m.C)]
			if rc == nil {
				r.driftf("reconstructcommit-missing", i, o.H, fmt.Sprint(m), "not produced by the real node")
				continue
			}
			_ = r.gens[o.H].ProcessReconstructCommits(rc)
		}
	}
	for _, e := range s.Exp {
		dks, err := r.gens[e.H].DistKeyShare()
		got, ge := "res", ""
		var q []int
		if err != nil {
			got = "err"
			r.errs[e.H] = err
			switch {
			case strings.Contains(err.Error(), "not certified"):
				ge = "notcertified"
			case strings.Contains(err.Error(), "commitments missing"):
				ge = "missing"
			default:
				ge = "other"
			}
		} else {
			r.outs[e.H] = dks
			for _, x := range r.gens[e.H].QUAL() {
				q = append(q, int(x))
			}
		}
		if got != e.K || ge != e.E || (got == "res" && intsString(q) != intsString(e.Qual)) {
			r.driftf("distkeyshare-outcome", i, e.H, fmt.Sprint(e.K, " ", e.E, " ", e.Qual), fmt.Sprint(got, " ", ge, " ", q, " ", err))
		}
	}
	if s.Req != nil {
		r.requirements(i, s.Req)
	}
}

func (r *rabinReplay) requirements(i int, req *RReq) {
	suite := r.suite
	var fin []int
	for _, h := range r.honest() {
		if r.outs[h] != nil {
			fin = append(fin, h)
		}
	}
	// at least t dealers are honest and an honest dealer is never disqualified: "not certified" at an honest node
	// means honest dealers were not counted as qualified
	for _, h := range r.honest() {
		if e := r.errs[h]; e != nil && strings.Contains(e.Error(), "not certified") {
			r.violate("honest-dealer-disqualified", fmt.Sprintf("node %d: %v although %d honest dealers (threshold %d) took part; its QUAL is %v",
				h, e, len(r.honest()), r.t, r.gens[h].QUAL()), i, map[string]any{"node": h})
		}
	}
	if req.AllHonest {
		for _, h := range r.honest() {
			if r.outs[h] == nil {
				r.violate("all-honest-not-finished", fmt.Sprintf("everyone is honest but node %d does not complete: %v", h, r.errs[h]), i, nil)
			}
		}
	}
	if len(fin) == 0 {
		return
	}
	qualOf := func(h int) []int {
		var q []int
		for _, x := range r.gens[h].QUAL() {
			q = append(q, int(x))
		}
		sort.Ints(q)
		return q
	}
	first := r.outs[fin[0]]
	for _, h := range fin[1:] {
		if intsString(qualOf(h)) != intsString(qualOf(fin[0])) {
			r.violate("qual-disagreement", fmt.Sprintf("honest nodes %d and %d complete with different QUAL: %v vs %v", fin[0], h, qualOf(fin[0]), qualOf(h)), i, nil)
		}
		o := r.outs[h]
		same := len(o.Commits) == len(first.Commits)
		if same {
			for k := range o.Commits {
				if !o.Commits[k].Equal(first.Commits[k]) {
					same = false
				}
			}
		}
		if !same {
			r.violate("commits-disagreement", fmt.Sprintf("honest nodes %d and %d complete with different commitment polynomials / public keys", fin[0], h), i, nil)
		}
	}
	var shares []*share.PriShare
	for _, h := range fin {
		o := r.outs[h]
		pp := share.NewPubPoly(suite, suite.Point().Base(), o.Commits)
		if o.Share == nil || int(o.Share.I) != h || !pp.Check(o.Share) {
			r.violate("share-off-polynomial", fmt.Sprintf("output share of honest node %d does not lie on its output polynomial", h), i, nil)
		}
		shares = append(shares, o.Share)
		// key = sum of the qualified dealers' contributions
		var sum []kyber.Point
		ok := true
		for _, d := range qualOf(h) {
			tc := r.trueComm[d]
			if tc == nil {
				ok = false
				break
			}
			if sum == nil {
				sum = append([]kyber.Point(nil), tc...)
				continue
			}
			for k := range sum {
				sum[k] = suite.Point().Add(sum[k], tc[k])
			}
		}
		if ok && len(sum) == len(o.Commits) {
			for k := range sum {
				if !sum[k].Equal(o.Commits[k]) {
					ok = false
				}
			}
		} else {
			ok = false
		}
		if !ok {
			r.violate("key-not-sum-of-qual", fmt.Sprintf("node %d: output polynomial is not the sum of the polynomials shared by its QUAL %v", h, qualOf(h)), i, nil)
		}
		for _, f := range req.MustOut {
			for _, d := range qualOf(h) {
				if d == f {
					r.violate("unjustified-dealer-in-qual", fmt.Sprintf("dealer %d gave an invalid / no deal to an honest party, never justified it, and is in node %d's QUAL %v", f, h, qualOf(h)), i, nil)
				}
			}
		}
		for _, d := range req.Honest {
			in := false
			for _, x := range qualOf(h) {
				if x == d {
					in = true
				}
			}
			if !in {
				r.violate("honest-dealer-disqualified", fmt.Sprintf("honest dealer %d is missing from node %d's QUAL %v", d, h, qualOf(h)), i, nil)
			}
		}
	}
	if len(shares) >= r.t {
		k := 0
		subsets(len(shares), r.t, func(idx []int) bool {
			sub := make([]*share.PriShare, 0, r.t)
			for _, j := range idx {
				sub = append(sub, shares[j])
			}
			sec, err := share.RecoverSecret(suite, sub, uint32(r.t), uint32(r.n))
			if err != nil || !suite.Point().Mul(sec, nil).Equal(first.Commits[0]) {
				r.violate("recovered-secret-mismatch", fmt.Sprintf("t output shares do not reconstruct the public key (err=%v)", err), i, map[string]any{"subset": idx})
				return false
			}
			k++
			return k < 6
		})
	}
}

// RunRabin replays behaviours of spec/DKGRabin.tla.
func RunRabin(cfg Config, res *core.Result) error {
	var lines [][]byte
	if err := core.ReadLines(cfg.In, func(l []byte) error { lines = append(lines, l); return nil }); err != nil {
		return err
	}
	if len(lines) == 0 {
		return fmt.Errorf("no behaviours in %s", cfg.In)
	}
	if cfg.Max > 0 && len(lines) > cfg.Max {
		type hl struct {
			h uint64
			l []byte
		}
		allHonest, rest := splitHonest(lines)
		hs := make([]hl, len(rest))
		for i, l := range rest {
			hs[i] = hl{core.Hash64(fmt.Sprint(cfg.Seed), string(l)), l}
		}
		sort.Slice(hs, func(a, b int) bool { return hs[a].h < hs[b].h })
		res.AddExtra("behaviours_generated", len(lines))
		lines = append([][]byte(nil), allHonest...)
		for _, x := range hs {
			if len(lines) >= cfg.Max {
				break
			}
			lines = append(lines, x.l)
		}
	}
	drift := &driftRec{counts: map[string]int{}}
	agg := newVioAgg(3)
	var perr error
	var pmu sync.Mutex
	core.Parallel(len(lines), runtime.NumCPU(), func(i int) {
		var steps []RStep
		if err := json.Unmarshal(lines[i], &steps); err != nil || len(steps) == 0 || steps[0].Act != "Setup" {
			pmu.Lock()
			perr = fmt.Errorf("bad rabin behaviour: %v", err)
			pmu.Unlock()
			return
		}
		id := canonID(lines[i])
		r := &rabinReplay{res: res, drift: drift, agg: agg, raw: json.RawMessage(lines[i]), steps: steps,
			variant: int(core.Hash64(fmt.Sprint(cfg.Seed), id) % 1000)}
		msg, stack, pan := core.Try(func() { r.run(cfg.Seed, id) })
		if pan {
			pmu.Lock()
			perr = fmt.Errorf("rabin replayer panicked (harness defect): %s\n%s", msg, stack)
			pmu.Unlock()
			return
		}
		res.Eval("rabin|" + r.label + "|" + id)
		if i%499 == 0 {
			res.Sample(map[string]any{"config": "rabin/" + r.label, "case": r.cased, "behaviour": json.RawMessage(lines[i])})
		}
	})
	if perr != nil {
		return perr
	}
	agg.flush(res)
	res.AddTraces(len(lines))
	res.SetExtra("drift", map[string]any{"counts": drift.counts, "samples": drift.samples})
	res.Rule = "behaviour = faulty party's strategy per round x per-node delivery order of the reconstruct commits, replayed on real rabin DistKeyGenerators"
	return nil
}
