package dkg

import (
	"crypto/sha256"
	"encoding/binary"
	"errors"
	"fmt"
	"sort"
	"strings"

	"go.dedis.ch/kyber/v4"
	"go.dedis.ch/kyber/v4/encrypt/ecies"
	"go.dedis.ch/kyber/v4/group/edwards25519"
	"go.dedis.ch/kyber/v4/share"
	pdkg "go.dedis.ch/kyber/v4/share/dkg/pedersen"
	"go.dedis.ch/kyber/v4/sign"
	"go.dedis.ch/kyber/v4/sign/schnorr"
	"go.dedis.ch/kyber/v4/xof/blake2xb"
)

// unkIdx is an index that is not in the given group: the first one past the group (index == n for contiguous
// indices) or a far one, depending on the variant
func (w *world) unkIdx(nodes []pdkg.Node) uint32 {
	if w.variant%2 == 1 {
		return 1000
	}
	var m uint32
	for _, n := range nodes {
		if n.Index >= m {
			m = n.Index + 1
		}
	}
	return m
}

type party struct {
	p, oi, ni int // abstract party, old index, new index (-1: not in that group)
	priv      kyber.Scalar
	pub       kyber.Point
}

// world is the concrete counterpart of one behaviour's Setup step.
type world struct {
	setup   Step
	label   string
	variant int
	suite   *edwards25519.SuiteEd25519
	rnd     kyber.XOF
	auth    sign.Scheme
	parties map[int]*party
	order   []int
	old     []pdkg.Node
	new     []pdkg.Node
	nonce   []byte
	faulty  map[int]bool
	// resharing
	oldPoly    *share.PriPoly
	oldCommits []kyber.Point
	// faulty material
	fpoly map[[2]int]*share.PriPoly
	// what was put on the board, by party
	dealPub map[int][][]kyber.Point
}

// index mapping: abstract index -> index used with the library (variants exercise non-contiguous indices)
func (w *world) ridx(i int) uint32 {
	if w.variant%4 == 3 {
		return uint32(2*i + 1)
	}
	return uint32(i)
}

func (w *world) oldIdx(p int) uint32 { return w.ridx(w.parties[p].oi) }
func (w *world) newIdx(p int) uint32 { return w.ridx(w.parties[p].ni) }

func (w *world) partyOfOld(i uint32) int {
	for _, p := range w.order {
		if w.parties[p].oi >= 0 && w.oldIdx(p) == i {
			return p
		}
	}
	return -1
}

func (w *world) partyOfNew(i uint32) int {
	for _, p := range w.order {
		if w.parties[p].ni >= 0 && w.newIdx(p) == i {
			return p
		}
	}
	return -1
}

func seedBytes(seed int64, labels ...string) []byte {
	h := sha256.New()
	_ = binary.Write(h, binary.BigEndian, seed)
	for _, l := range labels {
		h.Write([]byte{0})
		h.Write([]byte(l))
	}
	return h.Sum(nil)
}

func newWorld(setup Step, seed int64, variant int, id string) *world {
	w := &world{setup: setup, variant: variant, parties: map[int]*party{}, faulty: map[int]bool{},
		fpoly: map[[2]int]*share.PriPoly{}, dealPub: map[int][][]kyber.Point{}}
	w.rnd = blake2xb.New(seedBytes(seed, "dkg-world", id, fmt.Sprint(variant)))
	w.suite = edwards25519.NewBlakeSHA256Ed25519WithRand(w.rnd)
	w.auth = schnorr.NewScheme(w.suite)
	nOld, nNew := 0, 0
	for _, pj := range setup.Parties {
		pr := &party{p: pj.P, oi: pj.OI, ni: pj.NI}
		pr.priv = w.suite.Scalar().Pick(w.rnd)
		pr.pub = w.suite.Point().Mul(pr.priv, nil)
		w.parties[pj.P] = pr
		w.order = append(w.order, pj.P)
		if pj.OI >= 0 {
			nOld++
		}
		if pj.NI >= 0 {
			nNew++
		}
	}
	sort.Ints(w.order)
	byOld := append([]int(nil), w.order...)
	sort.Slice(byOld, func(a, b int) bool { return w.parties[byOld[a]].oi < w.parties[byOld[b]].oi })
	for _, p := range byOld {
		if w.parties[p].oi >= 0 {
			w.old = append(w.old, pdkg.Node{Index: w.oldIdx(p), Public: w.parties[p].pub})
		}
	}
	byNew := append([]int(nil), w.order...)
	sort.Slice(byNew, func(a, b int) bool { return w.parties[byNew[a]].ni < w.parties[byNew[b]].ni })
	for _, p := range byNew {
		if w.parties[p].ni >= 0 {
			w.new = append(w.new, pdkg.Node{Index: w.newIdx(p), Public: w.parties[p].pub})
		}
	}
	for _, f := range setup.Faulty {
		w.faulty[f] = true
	}
	w.nonce = make([]byte, pdkg.NonceLength)
	_, _ = w.rnd.Read(w.nonce)
	mode := "regular"
	if setup.Fast {
		mode = "fastsync"
	}
	if setup.Resh {
		w.label = fmt.Sprintf("reshare-%s-old%dt%d-new%dt%d-%s", setup.Shape, nOld, setup.OT, nNew, setup.NT, mode)
		w.oldPoly = share.NewPriPoly(w.suite, uint32(setup.OT), nil, w.rnd)
		_, w.oldCommits = w.oldPoly.Commit(w.suite.Point().Base()).Info()
	} else {
		w.label = fmt.Sprintf("fresh-n%dt%d-%s", nNew, setup.NT, mode)
	}
	return w
}

func (w *world) config(p int) *pdkg.Config {
	pr := w.parties[p]
	c := &pdkg.Config{
		Suite:          w.suite,
		Longterm:       pr.priv,
		NewNodes:       append([]pdkg.Node(nil), w.new...),
		Threshold:      uint32(w.setup.NT),
		FastSync:       w.setup.Fast,
		Nonce:          append([]byte(nil), w.nonce...),
		Auth:           w.auth,
		Reader:         w.rnd,
		UserReaderOnly: true,
	}
	if w.setup.Resh {
		c.OldNodes = append([]pdkg.Node(nil), w.old...)
		c.OldThreshold = uint32(w.setup.OT)
		if pr.oi >= 0 {
			c.Share = &pdkg.DistKeyShare{Commits: append([]kyber.Point(nil), w.oldCommits...),
				Share: w.oldPoly.Eval(w.oldIdx(p))}
		} else {
			c.PublicCoeffs = append([]kyber.Point(nil), w.oldCommits...)
		}
	}
	return c
}

// ---- the faulty parties: bundles built by hand and signed with the party's key ----

func (w *world) sign(p int, pk pdkg.Packet) []byte {
	h, err := pk.Hash()
	if err != nil {
		panic(err)
	}
	sig, err := w.auth.Sign(w.parties[p].priv, h)
	if err != nil {
		panic(err)
	}
	return sig
}

func (w *world) badNonce() []byte {
	n := append([]byte(nil), w.nonce...)
	n[w.variant%len(n)] ^= 0x40
	return n
}

func (w *world) polyOf(f, id int, sec bool) *share.PriPoly {
	k := [2]int{f, id}
	if !sec {
		k[1] = id + 100
	}
	if pl, ok := w.fpoly[k]; ok {
		return pl
	}
	var secret kyber.Scalar
	if w.setup.Resh && sec && w.parties[f].oi >= 0 {
		secret = w.oldPoly.Eval(w.oldIdx(f)).V
	}
	pl := share.NewPriPoly(w.suite, uint32(w.setup.NT), secret, w.rnd)
	w.fpoly[k] = pl
	return pl
}

// how an abstract "B" (invalid share) is made concrete
var badShareKinds = []string{"wrong-value", "share-of-other-index", "encrypted-to-other-key", "garbage-ciphertext", "not-a-scalar"}

func (w *world) craftDeal(b BundleJ) *pdkg.DealBundle {
	f := b.From
	pl := w.polyOf(f, b.Poly, b.Sec)
	_, commits := pl.Commit(w.suite.Point().Base()).Info()
	pub := append([]kyber.Point(nil), commits...)
	if !b.Thr {
		if w.variant%2 == 0 && len(pub) > 1 {
			pub = pub[:len(pub)-1]
		} else {
			pub = append(pub, w.suite.Point().Pick(w.rnd))
		}
	}
	sh := kvMap(b.Sh)
	var deals []pdkg.Deal
	holders := []int{}
	for _, p := range w.order {
		if w.parties[p].ni >= 0 {
			holders = append(holders, p)
		}
	}
	for hi, j := range holders {
		if j == f {
			continue
		}
		kind := sh[j]
		if kind == "M" {
			continue
		}
		idx := w.newIdx(j)
		val := pl.Eval(idx).V
		to := w.parties[j].pub
		var ct []byte
		if kind == "B" {
			other := holders[(hi+1)%len(holders)]
			switch badShareKinds[w.variant%len(badShareKinds)] {
			case "wrong-value":
				val = w.suite.Scalar().Add(val, w.suite.Scalar().One())
			case "share-of-other-index":
				if other == j {
					val = w.suite.Scalar().Add(val, w.suite.Scalar().One())
				} else {
					val = pl.Eval(w.newIdx(other)).V
				}
			case "encrypted-to-other-key":
				if other == j {
					to = w.suite.Point().Pick(w.rnd)
				} else {
					to = w.parties[other].pub
				}
			case "garbage-ciphertext":
				ct = make([]byte, 80)
				_, _ = w.rnd.Read(ct)
			case "not-a-scalar":
				msg := []byte{1, 2, 3}
				c, err := ecies.Encrypt(w.suite, to, msg, sha256.New)
				if err != nil {
					panic(err)
				}
				ct = c
			}
		}
		if ct == nil {
			msg, _ := val.MarshalBinary()
			c, err := ecies.Encrypt(w.suite, to, msg, sha256.New)
			if err != nil {
				panic(err)
			}
			ct = c
		}
		deals = append(deals, pdkg.Deal{ShareIndex: idx, EncryptedShare: ct})
	}
	if b.Unk {
		ct := make([]byte, 80)
		_, _ = w.rnd.Read(ct)
		deals = append(deals, pdkg.Deal{ShareIndex: w.unkIdx(w.new), EncryptedShare: ct})
	}
	db := &pdkg.DealBundle{DealerIndex: w.oldIdx(f), Deals: deals, Public: pub, SessionID: append([]byte(nil), w.nonce...)}
	if !b.Sid {
		db.SessionID = w.badNonce()
	}
	if !b.authOK() {
		db.DealerIndex = w.unkIdx(w.old)
	}
	db.Signature = w.sign(f, db)
	return db
}

func cloneDeal(d *pdkg.DealBundle) *pdkg.DealBundle {
	c := *d
	c.Deals = make([]pdkg.Deal, len(d.Deals))
	for i, x := range d.Deals {
		c.Deals[i] = pdkg.Deal{ShareIndex: x.ShareIndex, EncryptedShare: append([]byte(nil), x.EncryptedShare...)}
	}
	c.Public = append([]kyber.Point(nil), d.Public...)
	c.SessionID = append([]byte(nil), d.SessionID...)
	c.Signature = append([]byte(nil), d.Signature...)
	return &c
}

func (w *world) craftResp(b BundleJ) *pdkg.ResponseBundle {
	f := b.From
	var rs []pdkg.Response
	for _, e := range b.Rs {
		st := pdkg.Success
		switch e.V {
		case "C":
			st = pdkg.Complaint
		case "X":
			st = pdkg.Status(2 + w.variant%3) // a value outside the enum
		}
		rs = append(rs, pdkg.Response{DealerIndex: w.oldIdx(e.K), Status: st})
	}
	if b.Unk {
		rs = append(rs, pdkg.Response{DealerIndex: w.unkIdx(w.old), Status: pdkg.Complaint})
	}
	rb := &pdkg.ResponseBundle{ShareIndex: w.newIdx(f), Responses: rs, SessionID: append([]byte(nil), w.nonce...)}
	if !b.Sid {
		rb.SessionID = w.badNonce()
	}
	if !b.authOK() {
		rb.ShareIndex = w.unkIdx(w.new)
	}
	rb.Signature = w.sign(f, rb)
	return rb
}

func (w *world) craftJust(b BundleJ, dealt []BundleJ) *pdkg.JustificationBundle {
	f := b.From
	// the polynomial the abstract bundle names (one of those f dealt with; an absent dealer justifies with a
	// polynomial nobody saw)
	polyID, sec := b.Poly, true
	if polyID == 0 {
		polyID = 1
	}
	for _, d := range dealt {
		if d.From == f && !d.Honest && d.Poly == polyID {
			sec = d.Sec
			break
		}
	}
	pl := w.polyOf(f, polyID, sec)
	var js []pdkg.Justification
	for _, e := range b.Js {
		v := pl.Eval(w.newIdx(e.K)).V
		if e.V != "good" {
			v = w.suite.Scalar().Add(v, w.suite.Scalar().One())
		}
		js = append(js, pdkg.Justification{ShareIndex: w.newIdx(e.K), Share: v})
	}
	if b.Unk {
		js = append(js, pdkg.Justification{ShareIndex: w.unkIdx(w.new), Share: w.suite.Scalar().Pick(w.rnd)})
	}
	jb := &pdkg.JustificationBundle{DealerIndex: w.oldIdx(f), Justifications: js, SessionID: append([]byte(nil), w.nonce...)}
	if !b.Sid {
		jb.SessionID = w.badNonce()
	}
	if !b.authOK() {
		jb.DealerIndex = w.unkIdx(w.old)
	}
	jb.Signature = w.sign(f, jb)
	return jb
}

// ---- projections ----

func errClass(err error) string {
	if err == nil {
		return ""
	}
	if errors.Is(err, pdkg.ErrEvicted) {
		return "evicted"
	}
	var pe *pdkg.PhaseError
	if errors.As(err, &pe) {
		return "phase"
	}
	m := err.Error()
	switch {
	case strings.Contains(m, "BUG"):
		return "bug"
	case strings.Contains(m, "not enough shares"):
		return "notenough"
	case strings.Contains(m, "do not correspond"):
		return "sharecheck"
	case strings.Contains(m, "too many uncompliant"):
		return "qualsmall"
	case strings.Contains(m, "dkg abort"):
		return "abort"
	case strings.Contains(m, "can only"):
		return "phase"
	}
	return "other"
}

func (w *world) respProj(rb *pdkg.ResponseBundle) map[int]string {
	m := map[int]string{}
	if rb == nil {
		return m
	}
	for _, r := range rb.Responses {
		s := "S"
		if r.Status == pdkg.Complaint {
			s = "C"
		}
		m[w.partyOfOld(r.DealerIndex)] = s
	}
	return m
}

func (w *world) qualProj(res *pdkg.Result) []int {
	var q []int
	for _, n := range res.QUAL {
		// fresh: QUAL lists dealers (= holders); resharing: new holders
		q = append(q, w.partyOfNew(n.Index))
	}
	sort.Ints(q)
	return q
}
