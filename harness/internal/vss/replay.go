package vss

import (
	"bytes"
	"encoding/json"
	"fmt"
	"runtime"
	"sort"
	"strconv"

	"go.dedis.ch/kyber/v4/sign/schnorr"

	"verifharness/internal/core"
)

// Step is one record of a VSSAgg behaviour as TLC printed it.
type Step struct {
	Act  string `json:"act"`
	Kind string `json:"kind,omitempty"`
	I    int    `json:"i"`
	St   string `json:"st,omitempty"`
	Cls  string `json:"cls,omitempty"`
	// implementation-layer prediction
	Ret     string            `json:"ret,omitempty"`
	Resp    map[string]string `json:"resp,omitempty"`
	Bad     bool              `json:"bad"`
	HasDeal bool              `json:"hasDeal"`
	Thr     int               `json:"thr"`
	Tmo     bool              `json:"tmo"`
	Own     string            `json:"own,omitempty"`
	CmtOK   bool              `json:"cmtOK"`
	Cert    bool              `json:"cert"`
	Enough  bool              `json:"enough"`
	// requirement layer
	Allowed  []string          `json:"allowed,omitempty"`
	Clear    string            `json:"clear,omitempty"`
	Badm     string            `json:"badm,omitempty"`
	Record   string            `json:"record,omitempty"`
	Truth    map[string]string `json:"truth,omitempty"`
	BadTruth bool              `json:"badTruth"`
	Sound    bool              `json:"sound"`
	Napp     int               `json:"napp"`
	Must     bool              `json:"must"`
	// init record
	N       int    `json:"N,omitempty"`
	T       int    `json:"T,omitempty"`
	Variant string `json:"variant,omitempty"`
	Role    string `json:"role,omitempty"`
	Me      int    `json:"me"`
}

type ReplayConfig struct {
	Prop string
	In   string
	Seed int64
	Max  int // 0 = all; otherwise a deterministic sub-sample of about Max behaviours
	// PerCase > 0: keep at most PerCase behaviours per abstract case of their FINAL step (every case of a
	// transition tour stays covered; which representatives are kept depends on the seed)
	PerCase int
}

func AdapterByName(n string) Adapter {
	if n == "rabin" {
		return Rabin()
	}
	return Pedersen()
}

type observation struct {
	Ret    string          `json:"ret"`
	Cert   string          `json:"cert"`
	Enough string          `json:"enough,omitempty"`
	Resp   map[string]bool `json:"resp,omitempty"`
	State  *AggState       `json:"state,omitempty"`
}

func boolStr(f func() bool) string {
	var v bool
	if _, _, p := core.Try(func() { v = f() }); p {
		return "panic"
	}
	return strconv.FormatBool(v)
}

func observe(a Agg, ret string) observation {
	o := observation{Ret: ret}
	o.Cert = boolStr(a.DealCertified)
	if a.HasEnough() {
		o.Enough = boolStr(func() bool { v, _ := a.EnoughApprovals(); return v })
	}
	core.Try(func() {
		if m, ok := a.Responses(); ok {
			o.Resp = map[string]bool{}
			for k, v := range m {
				o.Resp[strconv.Itoa(int(k))] = v
			}
		}
		o.State = a.State()
	})
	return o
}

func tableOf(o observation, n int) map[string]string {
	if o.Resp == nil {
		return nil
	}
	t := map[string]string{}
	for i := 0; i < n; i++ {
		k := strconv.Itoa(i)
		if v, ok := o.Resp[k]; !ok {
			t[k] = "none"
		} else if v {
			t[k] = "app"
		} else {
			t[k] = "comp"
		}
	}
	for k := range o.Resp { // anything stored outside 0..n-1 is reported as such
		if i, err := strconv.Atoi(k); err != nil || i < 0 || i >= n {
			t["extra:"+k] = "present"
		}
	}
	return t
}

func contains(xs []string, x string) bool {
	for _, y := range xs {
		if x == y {
			return true
		}
	}
	return false
}

// caseOf names the abstract case of a step given the table before it.
func caseOf(st Step, pre Step, role string) string {
	switch st.Act {
	case "ProcessDeal":
		c := "deal:" + st.Kind
		if pre.HasDeal {
			c += ":second"
		}
		return c
	case "Response":
		c := "response:" + st.Cls + ":" + st.St
		if role == "verifier" && !pre.HasDeal {
			return c + ":before-deal"
		}
		if st.Cls == "valid" && pre.Resp[strconv.Itoa(st.I)] != "none" {
			c += ":duplicate"
		}
		if pre.Tmo {
			c += ":after-timeout"
		}
		return c
	case "Justification":
		c := "justification:" + st.Cls
		if !pre.HasDeal {
			return c + ":before-deal"
		}
		switch pre.Resp[strconv.Itoa(st.I)] {
		case "none":
			c += ":unsolicited"
		case "app":
			c += ":for-approval"
		}
		return c
	case "Timeout":
		if role == "verifier" && !pre.HasDeal {
			return "timeout:before-deal"
		}
		return "timeout"
	}
	return st.Act
}

type runner struct {
	cfg ReplayConfig
	res *core.Result
}

// replayOne steps the real object through one behaviour. Returns the number of steps executed.
func (rn *runner) replayOne(b Behaviour, idx int) {
	res := rn.res
	bh := b.Steps
	if len(bh) < 2 || bh[0].Act != "init" {
		res.Skip("malformed behaviour")
		return
	}
	in := bh[0]
	var rawc json.RawMessage
	rawf := func() json.RawMessage {
		if rawc == nil {
			rawc, _ = json.Marshal(bh)
		}
		return rawc
	}
	ad := AdapterByName(in.Variant)
	w, err := NewWorld(ad, in.N, in.T, rn.cfg.Seed, fmt.Sprintf("%x", core.Hash64(b.ID)))
	if err != nil {
		res.Skip("world: " + err.Error())
		return
	}
	var agg Agg
	var ver VerifierH
	if in.Role == "dealer" {
		agg = w.Dealer
	} else {
		if ver, err = w.NewVerifier(in.Me); err != nil {
			res.Skip("verifier: " + err.Error())
			return
		}
		agg = ver
	}
	cfgKey := fmt.Sprintf("C10/%s/%s", in.Variant, in.Role)
	pre := initialPre(in)
	var trace []map[string]any
	prevBad := false
	for si := 1; si < len(bh); si++ {
		st := *bh[si]
		cs := caseOf(st, *pre, in.Role)
		var ret string
		unwit := false
		msg, stack, panicked := core.Try(func() {
			switch st.Act {
			case "ProcessDeal":
				e, err := w.EncDeal(st.Kind, in.Me)
				if err != nil {
					unwit = true
					return
				}
				r, err := ver.ProcessEncryptedDeal(e)
				switch {
				case err != nil && isUnwitnessed(err):
					unwit = true
				case err != nil:
					ret = "error"
				case r == nil:
					ret = "nil"
				case r.Approved:
					ret = "approve"
				default:
					ret = "complaint"
				}
				if err == nil && r != nil && r.Approved && st.Kind == "otherpoly" && bytes.Equal(r.SID, w.SID) {
					// the approval of a deal on another polynomial is labelled with THIS session's id
					ret = "approve-for-other-deal"
				}
				if err == nil && r != nil {
					if r.Index != uint32(in.Me) || schnorr.Verify(w.S, w.VPub[in.Me], ad.RespHash(w.S, r), r.Sig) != nil {
						ret += "+unusable"
					}
				}
			case "Response":
				r, err := w.MakeResp(st.Cls, st.I, st.St == "app")
				if err != nil {
					unwit = true
					return
				}
				if in.Role == "dealer" {
					j, err := w.Dealer.ProcessResponse(r)
					switch {
					case err != nil:
						ret = "error"
					case j != nil:
						ret = "justification"
						if why := w.checkHonestJust(j, st.I); why != "" {
							ret += "+" + why
						}
					default:
						ret = "ok"
					}
				} else if err := ver.ProcessResponse(r); err != nil {
					ret = "error"
				} else {
					ret = "ok"
				}
			case "Justification":
				j, err := w.MakeJust(st.Cls, st.I)
				if err != nil {
					unwit = true
					return
				}
				if err := ver.ProcessJustification(j); err != nil {
					ret = "error"
				} else {
					ret = "ok"
				}
			case "Timeout":
				agg.SetTimeout()
				ret = "ok"
			default:
				unwit = true
			}
		})
		if panicked {
			ret = "panic"
		}
		if unwit {
			res.Skip("unwitnessed:" + in.Variant + ":" + cs)
			return
		}
		got := observe(agg, ret)
		res.Eval(cfgKey + fmt.Sprintf("/n%d/t%d/", in.N, in.T) + cs + "/" + stateSig(*pre))
		trace = append(trace, map[string]any{"step": si, "case": cs, "got": got})
		detail := func(what string) map[string]any {
			return map[string]any{"behaviour": rawf(), "variant": in.Variant, "role": in.Role, "n": in.N, "t": in.T,
				"me": in.Me, "step": si, "case": cs, "expected": st, "got": got, "observations": trace, "why": what,
				"panic": msg, "stack": stack}
		}
		vio := func(kind, what string) {
			res.Violate(cfgKey+"/"+cs+"/"+kind, what, detail(what))
		}
		// 1. outcome class of the call against the set the property allows
		if !contains(st.Allowed, got.Ret) {
			vio("outcome:"+got.Ret, fmt.Sprintf("%s returned %q; C10 allows %v", cs, got.Ret, st.Allowed))
			return
		}
		if got.Ret == "panic" {
			res.AddExtra("observation:panic:"+in.Variant+":"+cs, 1)
		}
		abandon := false
		if st.Act == "ProcessDeal" && got.Ret != st.Ret {
			// an allowed answer other than the predicted one: the rest of the behaviour describes another branch
			res.AddExtra("drift:outcome:"+in.Variant+":"+cs+":"+got.Ret, 1)
			res.AddExtra("abandoned-on-allowed-alternative", 1)
			return
		}
		// 2. response table
		if tb := tableOf(got, in.N); tb != nil {
			keys := make([]string, 0, len(tb))
			for k := range tb {
				keys = append(keys, k)
			}
			sort.Strings(keys)
			for _, k := range keys {
				g, e := tb[k], st.Resp[k]
				if g == e {
					continue
				}
				tr := st.Truth[k]
				switch {
				case st.Act == "Justification" && st.Clear == "free" && k == strconv.Itoa(st.I):
					// C10 leaves the choice open (content correct, origin unproven / inconsistent T): follow-up not judged
					res.AddExtra("drift:free-choice:"+in.Variant+":"+cs, 1)
					abandon = true
				case st.Act == "Response" && st.Record == "free" && k == strconv.Itoa(st.I):
					// C10 leaves open whether this response is recorded (before the deal / after the timeout /
					// observer dealt another T or polynomial): follow-up not judged
					res.AddExtra("drift:free-choice:"+in.Variant+":"+cs, 1)
					abandon = true
				case g == "app" && tr != "app" && tr != "just":
					kind := "counted-as-approval"
					if st.Act == "Justification" {
						kind = "complaint-cleared"
					}
					vio(kind, fmt.Sprintf("after %s the aggregator holds an approval for verifier %s who %s", cs, k, truthWords(tr)))
					return
				case st.Act == "Justification" && st.Clear == "must" && k == strconv.Itoa(st.I) && g != "app":
					vio("correct-justification-refused", fmt.Sprintf("a correct justification did not clear the complaint of verifier %s (entry %q)", k, g))
					return
				case st.Act == "Response" && st.Record == "must" && k == strconv.Itoa(st.I):
					vio("valid-response-dropped", fmt.Sprintf("a fresh, correctly signed response of verifier %s was not recorded (entry %q, expected %q)", k, g, e))
					return
				case e == "" && g == "present":
					vio("entry-out-of-range", "the table holds an entry outside 0..n-1: "+k)
					return
				default:
					res.AddExtra("drift:table:"+in.Variant+":"+cs, 1)
					abandon = true
				}
			}
		}
		// 3. badDealer (only observable through the verif accessor)
		if got.State != nil {
			switch {
			case st.Badm == "must" && !got.State.Bad:
				vio("dealer-not-marked-bad", "an incorrect justification signed by the dealer left badDealer unset")
				return
			case st.BadTruth && prevBad && !got.State.Bad:
				vio("bad-dealer-reset", "badDealer went back to false")
				return
			case got.State.Bad != st.Bad:
				res.AddExtra("drift:bad:"+in.Variant+":"+cs, 1)
				abandon = true
			}
			prevBad = got.State.Bad
			if got.State.Timeout != (st.Tmo && in.Variant == "pedersen") || int(got.State.T) != st.Thr && !got.State.Nil {
				res.AddExtra("drift:state:"+in.Variant+":"+cs, 1)
			}
		}
		// 4. certification
		switch {
		case got.Cert == "true" && !st.Sound:
			why := fmt.Sprintf("only %d of the required %d verifiers approved or were correctly justified", st.Napp, in.T)
			kind := "certified-unsound:approvals"
			if st.BadTruth {
				why = "the dealer has produced an invalid justification"
				if st.Napp >= in.T {
					kind = "certified-unsound:bad-dealer"
				}
			}
			vio(kind, "DealCertified() is true after "+cs+" although "+why)
			return
		case st.Must && got.Cert != "true":
			vio("honest-not-certified", "every verifier approved a correct deal but DealCertified() = "+got.Cert)
			return
		case got.Cert == "panic":
			vio("certified-panics", "DealCertified() panicked")
			return
		case got.Cert != strconv.FormatBool(st.Cert):
			res.AddExtra("drift:certified:"+in.Variant+":"+cs, 1)
		}
		// 5. EnoughApprovals (rabin)
		if got.Enough != "" {
			switch {
			case got.Enough == "true" && st.Napp < in.T:
				vio("enough-unsound", fmt.Sprintf("EnoughApprovals() is true with %d of %d approvals", st.Napp, in.T))
				return
			case got.Enough == "panic" && st.HasDeal:
				vio("enough-panics", "EnoughApprovals() panicked")
				return
			case got.Enough != strconv.FormatBool(st.Enough) && got.Enough != "panic":
				res.AddExtra("drift:enough:"+in.Variant+":"+cs, 1)
			}
		}
		// 6. the dealer's view of its own commitment
		if in.Role == "dealer" {
			sc := w.Dealer.SecretCommit()
			if got.Cert == "true" {
				if sc == nil || !sc.Equal(w.S.Point().Mul(w.Secret, nil)) {
					vio("secret-commit", "certified dealer publishes a commitment that is not secret*G")
					return
				}
			} else if sc != nil {
				vio("secret-commit-early", "SecretCommit() non-nil although the deal is not certified")
				return
			}
		} else if got.Cert == "true" && st.Sound && bh[firstDeal(bh)].Kind == "good" {
			d := ver.Deal()
			if d == nil || d.V == nil || !d.V.Equal(w.Honest[in.Me].V) || d.I != uint32(in.Me) {
				vio("deal-after-certification", "Deal() of a certified verifier is not the share the dealer sent")
				return
			}
		}
		if got.Ret != st.Ret {
			res.AddExtra("drift:outcome:"+in.Variant+":"+cs+":"+got.Ret, 1)
		}
		if abandon {
			res.AddExtra("abandoned-on-allowed-alternative", 1)
			return
		}
		pre = bh[si]
	}
	rn.recoverCheck(w, ad, in, bh, ver, cfgKey, rawf)
	if idx < 3 {
		res.Sample(map[string]any{"behaviour": rawf(), "observations": trace})
	}
}

// recoverCheck is the CertifiedRecoverable clause at the end of a behaviour that the real object reports
// certified and in which the dealer was honest towards the observer: every T-subset (all of them for n <= 5,
// 24 seeded ones above) of the decrypted deals of the verifiers whose approval the observer holds must give the
// dealer's secret through the variant's own exported RecoverSecret(suite, deals, n, t).
func (rn *runner) recoverCheck(w *World, ad Adapter, in *Step, bh []*Step, ver VerifierH, cfgKey string, rawf func() json.RawMessage) {
	last := bh[len(bh)-1]
	var agg Agg = w.Dealer
	if in.Role == "verifier" {
		agg = ver
		if last.Own != "good" {
			return
		}
	}
	if !last.Sound || boolStr(agg.DealCertified) != "true" {
		return
	}
	var idxs []int
	deals := map[int]*PDeal{}
	for i := 0; i < in.N; i++ {
		if last.Truth[strconv.Itoa(i)] != "app" {
			continue
		}
		d := w.Honest[i] // what verifier i decrypts from the honest dealer's deal
		if in.Role == "verifier" && i == in.Me {
			d = ver.Deal()
		}
		if d == nil {
			rn.res.Violate(cfgKey+"/recover/deal-nil", "certified verifier returns no deal", map[string]any{"behaviour": rawf(), "variant": in.Variant, "n": in.N, "t": in.T})
			return
		}
		idxs = append(idxs, i)
		deals[i] = d
	}
	if len(idxs) < in.T {
		return
	}
	var subs [][]int
	subsets(idxs, in.T, func(s []int) bool { subs = append(subs, s); return true })
	if in.N > 5 && len(subs) > 24 {
		r := core.Rng(rn.cfg.Seed, "recover", string(rawf()))
		r.Shuffle(len(subs), func(i, j int) { subs[i], subs[j] = subs[j], subs[i] })
		subs = subs[:24]
	}
	for _, sub := range subs {
		ds := make([]*PDeal, len(sub))
		for k, i := range sub {
			ds[k] = deals[i].Clone()
		}
		got, err := ad.RecoverSecret(w.S, ds, uint32(in.N), uint32(in.T))
		rn.res.Eval("")
		if err != nil || !got.Equal(w.Secret) {
			what := fmt.Sprintf("RecoverSecret(n=%d, t=%d) on %d decrypted deals of approving verifiers: err=%v, equals the dealer's secret: %v",
				in.N, in.T, len(sub), err, err == nil && got.Equal(w.Secret))
			rn.res.Violate(cfgKey+"/recover/wrong-secret", what, map[string]any{"behaviour": rawf(), "variant": in.Variant, "role": in.Role,
				"n": in.N, "t": in.T, "subset_size": len(sub), "why": what})
			return
		}
	}
	rn.res.AddExtra("recovered_subsets", len(subs))
}

func initialPre(in *Step) *Step {
	pre := &Step{Resp: map[string]string{}, Thr: 0, HasDeal: in.Role == "dealer"}
	for i := 0; i < in.N; i++ {
		pre.Resp[strconv.Itoa(i)] = "none"
	}
	return pre
}

func firstDeal(bh []*Step) int {
	for i, s := range bh {
		if s.Act == "ProcessDeal" && s.HasDeal {
			return i
		}
	}
	return 0
}

func truthWords(tr string) string {
	switch tr {
	case "comp":
		return "complained and was not correctly justified"
	case "none":
		return "sent no valid response"
	}
	return "is " + tr
}

func stateSig(s Step) string {
	keys := make([]string, 0, len(s.Resp))
	for k := range s.Resp {
		keys = append(keys, k)
	}
	sort.Strings(keys)
	var b bytes.Buffer
	for _, k := range keys {
		b.WriteString(s.Resp[k][:1])
		if tr := s.Truth[k]; tr != "" {
			b.WriteString(tr[:1])
		}
	}
	fmt.Fprintf(&b, "|%v%v%v%v%d", s.Bad, s.BadTruth, s.Tmo, s.HasDeal, s.Thr)
	return b.String()
}

func isUnwitnessed(err error) bool {
	return err != nil && bytes.Contains([]byte(err.Error()), []byte("unwitnessed"))
}

// checkHonestJust recognises whether a justification produced by the real
// Dealer is of class "correct" (the refinement mapping's recogniser).
func (w *World) checkHonestJust(j *Just, i int) string {
	switch {
	case j.Index != uint32(i):
		return "wrong-index"
	case !bytes.Equal(j.SID, w.SID):
		return "wrong-session"
	case j.Deal == nil || j.Deal.V == nil || !j.Deal.V.Equal(w.Honest[i].V) || j.Deal.I != uint32(i):
		return "wrong-share"
	case schnorr.Verify(w.S, w.DPub, w.A.JustHash(w.S, j), j.Sig) != nil:
		return "bad-signature"
	}
	return ""
}

// Replay is the spec -> code driver for VSSAgg behaviours.
func Replay(cfg ReplayConfig, res *core.Result) error {
	bhs, stats, err := LoadBehaviours(cfg.In)
	if err != nil {
		return err
	}
	if len(bhs) == 0 {
		return fmt.Errorf("no behaviours in %s", cfg.In)
	}
	if stats != nil {
		res.SetExtra("tour", stats)
	}
	for i := range bhs {
		bhs[i].h = core.Hash64(strconv.FormatInt(cfg.Seed, 10), bhs[i].ID)
	}
	if cfg.PerCase > 0 || cfg.Max > 0 {
		sort.Slice(bhs, func(i, j int) bool { return bhs[i].h < bhs[j].h })
	}
	if cfg.PerCase > 0 {
		cnt := map[string]int{}
		kept := bhs[:0:0]
		for _, b := range bhs {
			n := len(b.Steps)
			pre := initialPre(b.Steps[0])
			if n > 2 {
				pre = b.Steps[n-2]
			}
			c := b.Steps[0].Variant + b.Steps[0].Role + caseOf(*b.Steps[n-1], *pre, b.Steps[0].Role) + fmt.Sprintf("|%v%v", pre.Bad, pre.Tmo)
			if cnt[c] < cfg.PerCase {
				cnt[c]++
				kept = append(kept, b)
			}
		}
		res.SetExtra("percase", map[string]int{"of": len(bhs), "kept": len(kept), "cases": len(cnt)})
		bhs = kept
	}
	if cfg.Max > 0 && len(bhs) > cfg.Max {
		bhs = bhs[:cfg.Max]
		res.Skip("subsampled")
	}
	rn := &runner{cfg: cfg, res: res}
	res.AddTraces(len(bhs))
	core.Parallel(len(bhs), runtime.NumCPU(), func(i int) { rn.replayOne(bhs[i], i) })
	res.Rule = "one evaluation = one step of a TLC behaviour executed on a real Dealer/Verifier; distinct = (variant, role, n, t, abstract case incl. position, abstract pre-state)"
	return nil
}
