package vss

import (
	"go.dedis.ch/kyber/v4"
	"go.dedis.ch/kyber/v4/share"
	pvss "go.dedis.ch/kyber/v4/share/vss/pedersen"
)

// Pedersen adapter -----------------------------------------------------------

type pedAdapter struct{}

func Pedersen() Adapter { return pedAdapter{} }

func (pedAdapter) Name() string { return "pedersen" }

func (pedAdapter) MinimumT(n uint32) uint32 { return pvss.MinimumT(n) }

func pedDealTo(d *pvss.Deal) *PDeal {
	if d == nil {
		return nil
	}
	o := &PDeal{SID: append([]byte(nil), d.SessionID...), T: d.T}
	if d.SecShare != nil {
		o.I = d.SecShare.I
		if d.SecShare.V != nil {
			o.V = d.SecShare.V.Clone()
		}
	}
	for _, c := range d.Commitments {
		o.Commits = append(o.Commits, c.Clone())
	}
	return o
}

func pedDealFrom(d *PDeal) *pvss.Deal {
	if d == nil {
		return nil
	}
	o := &pvss.Deal{SessionID: append([]byte(nil), d.SID...), T: d.T,
		SecShare: &share.PriShare{I: d.I}}
	if d.V != nil {
		o.SecShare.V = d.V.Clone()
	}
	for _, c := range d.Commits {
		o.Commitments = append(o.Commitments, c.Clone())
	}
	return o
}

func pedResp(r *Resp) *pvss.Response {
	return &pvss.Response{SessionID: append([]byte(nil), r.SID...), Index: r.Index, StatusApproved: r.Approved,
		Signature: append([]byte(nil), r.Sig...)}
}

func pedRespTo(r *pvss.Response) *Resp {
	if r == nil {
		return nil
	}
	return &Resp{SID: append([]byte(nil), r.SessionID...), Index: r.Index, Approved: r.StatusApproved,
		Sig: append([]byte(nil), r.Signature...)}
}

func pedJust(j *Just) *pvss.Justification {
	return &pvss.Justification{SessionID: append([]byte(nil), j.SID...), Index: j.Index, Deal: pedDealFrom(j.Deal),
		Signature: append([]byte(nil), j.Sig...)}
}

func (pedAdapter) RespHash(s Suite, r *Resp) []byte { return pedResp(r).Hash(s) }
func (pedAdapter) JustHash(s Suite, j *Just) []byte { return pedJust(j).Hash(s) }
func (pedAdapter) MarshalDeal(d *PDeal) ([]byte, error) {
	return pedDealFrom(d).Marshal()
}

func (pedAdapter) Context(s Suite, dealer kyber.Point, verifiers []kyber.Point) []byte {
	h := s.Hash()
	_, _ = h.Write([]byte("vss-dealer"))
	_, _ = dealer.MarshalTo(h)
	_, _ = h.Write([]byte("vss-verifiers"))
	for _, v := range verifiers {
		_, _ = v.MarshalTo(h)
	}
	return h.Sum(nil)
}

func (pedAdapter) RecoverSecret(s Suite, deals []*PDeal, n, t uint32) (kyber.Scalar, error) {
	ds := make([]*pvss.Deal, len(deals))
	for i, d := range deals {
		ds[i] = pedDealFrom(d)
	}
	return pvss.RecoverSecret(s, ds, n, t)
}

type pedDealer struct{ d *pvss.Dealer }

func (pedAdapter) NewDealer(s Suite, long, secret kyber.Scalar, verifiers []kyber.Point, t uint32) (DealerH, error) {
	d, err := pvss.NewDealer(s, long, secret, verifiers, t)
	if err != nil {
		return nil, err
	}
	return &pedDealer{d}, nil
}

func (p *pedDealer) DealCertified() bool           { return p.d.DealCertified() }
func (p *pedDealer) EnoughApprovals() (bool, bool) { return false, false }
func (p *pedDealer) HasEnough() bool               { return false }
func (p *pedDealer) SetTimeout()                   { p.d.SetTimeout() }
func (p *pedDealer) State() *AggState              { return stateOf(p.d) }
func (p *pedDealer) Responses() (map[uint32]bool, bool) {
	m := map[uint32]bool{}
	for k, r := range p.d.Responses() {
		m[k] = r.StatusApproved
	}
	return m, true
}
func (p *pedDealer) Deal(i int) *PDeal {
	d, err := p.d.PlaintextDeal(i)
	if err != nil {
		return nil
	}
	return pedDealTo(d)
}
func (p *pedDealer) SetDeal(i int, n *PDeal) {
	d, err := p.d.PlaintextDeal(i)
	if err != nil {
		return
	}
	f := pedDealFrom(n)
	d.SessionID, d.SecShare, d.T, d.Commitments = f.SessionID, f.SecShare, f.T, f.Commitments
}
func (p *pedDealer) EncryptedDeal(i int) (*Enc, error) {
	e, err := p.d.EncryptedDeal(i)
	if err != nil {
		return nil, err
	}
	return &Enc{DH: e.DHKey, Sig: e.Signature, Cipher: e.Cipher}, nil
}
func (p *pedDealer) ProcessResponse(r *Resp) (*Just, error) {
	j, err := p.d.ProcessResponse(pedResp(r))
	if j == nil {
		return nil, err
	}
	return &Just{SID: append([]byte(nil), j.SessionID...), Index: j.Index, Deal: pedDealTo(j.Deal),
		Sig: append([]byte(nil), j.Signature...)}, err
}
func (p *pedDealer) SecretCommit() kyber.Point { return p.d.SecretCommit() }
func (p *pedDealer) SessionID() []byte         { return p.d.SessionID() }
func (p *pedDealer) Commits() []kyber.Point    { return p.d.Commits() }

type pedVerifier struct {
	v *pvss.Verifier
	s Suite
}

func (pedAdapter) NewVerifier(s Suite, long kyber.Scalar, dealer kyber.Point, verifiers []kyber.Point) (VerifierH, error) {
	v, err := pvss.NewVerifier(s, long, dealer, verifiers)
	if err != nil {
		return nil, err
	}
	return &pedVerifier{v, s}, nil
}

func (p *pedVerifier) DealCertified() bool           { return p.v.DealCertified() }
func (p *pedVerifier) EnoughApprovals() (bool, bool) { return false, false }
func (p *pedVerifier) HasEnough() bool               { return false }
func (p *pedVerifier) SetTimeout()                   { p.v.SetTimeout() }
func (p *pedVerifier) State() *AggState              { return stateOf(p.v) }
func (p *pedVerifier) Responses() (map[uint32]bool, bool) {
	m := map[uint32]bool{}
	for k, r := range p.v.Responses() {
		m[k] = r.StatusApproved
	}
	return m, true
}
func (p *pedVerifier) ProcessEncryptedDeal(e *Enc) (*Resp, error) {
	r, err := p.v.ProcessEncryptedDeal(&pvss.EncryptedDeal{DHKey: append([]byte(nil), e.DH...),
		Signature: append([]byte(nil), e.Sig...), Cipher: append([]byte(nil), e.Cipher...)})
	return pedRespTo(r), err
}
func (p *pedVerifier) ProcessResponse(r *Resp) error { return p.v.ProcessResponse(pedResp(r)) }
func (p *pedVerifier) ProcessJustification(j *Just) error {
	return p.v.ProcessJustification(pedJust(j))
}
func (p *pedVerifier) Deal() *PDeal               { return pedDealTo(p.v.Deal()) }
func (p *pedVerifier) SetThreshold(t uint32) bool { p.v.SetThreshold(t); return true }
