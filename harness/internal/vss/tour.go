package vss

import (
	"encoding/json"
	"fmt"
	"sort"
	"strconv"
	"strings"

	"verifharness/internal/core"
)

// Behaviour is a sequence of TLC steps, the first being the init record.
type Behaviour struct {
	ID    string // stable identifier (content), seeds the concrete world
	Steps []*Step
	h     uint64
}

type edgeRec struct {
	Src  *Step `json:"src"`
	Step *Step `json:"step"`
}

// stateKey canonicalises an abstract state (the VIEW of VSSAgg) given its configuration.
func stateKey(conf, s *Step) string {
	var b strings.Builder
	fmt.Fprintf(&b, "%s/%s/%d/%d/%d|%v|%s|%d|%v%v%v%v|", conf.Variant, conf.Role, conf.N, conf.T, conf.Me,
		s.HasDeal, s.Own, s.Thr, s.Bad, s.BadTruth, s.Tmo, s.CmtOK)
	for i := 0; i < conf.N; i++ {
		k := strconv.Itoa(i)
		b.WriteString(s.Resp[k])
		b.WriteByte(':')
		b.WriteString(s.Truth[k])
		b.WriteByte(',')
	}
	return b.String()
}

func confKey(c *Step) string {
	return fmt.Sprintf("%s/%s/%d/%d/%d", c.Variant, c.Role, c.N, c.T, c.Me)
}

// LoadBehaviours reads either whole behaviours (JSON arrays, BFS / simulation
// generators) or the edges of a transition tour (JSON objects {src, step}).
// For a tour it rebuilds, per configuration, the reduced graph TLC explored,
// finds the initial state (the only node without an incoming edge from
// another node) and prefixes every edge with a shortest path of edges from
// it: one behaviour per (abstract state, action) pair.  This is plain graph
// search; every expected value inside the steps is TLC's.
func LoadBehaviours(path string) ([]Behaviour, map[string]int, error) {
	var out []Behaviour
	type edge struct {
		src, dst string
		step     *Step
		conf     *Step
		id       string
	}
	var edges []edge
	seen := map[string]bool{}
	err := core.ReadLines(path, func(line []byte) error {
		if line[0] == '[' {
			var st []*Step
			if err := json.Unmarshal(line, &st); err != nil {
				return fmt.Errorf("bad behaviour: %w", err)
			}
			out = append(out, Behaviour{ID: string(line), Steps: st})
			return nil
		}
		if seen[string(line)] {
			return nil
		}
		seen[string(line)] = true
		var e edgeRec
		if err := json.Unmarshal(line, &e); err != nil {
			return fmt.Errorf("bad edge: %w", err)
		}
		if e.Src == nil || e.Step == nil {
			return nil
		}
		edges = append(edges, edge{src: stateKey(e.Src, e.Src), dst: stateKey(e.Src, e.Step), step: e.Step, conf: e.Src, id: string(line)})
		return nil
	})
	if err != nil || len(edges) == 0 {
		return out, nil, err
	}
	sort.Slice(edges, func(i, j int) bool { return edges[i].id < edges[j].id })
	// per configuration: nodes, incoming edges from other nodes
	type node struct {
		parent int // index of the tree edge reaching this node (-1 = root / unreached)
		depth  int
		conf   string
	}
	nodes := map[string]*node{}
	incoming := map[string]int{}
	bySrc := map[string][]int{}
	for i, e := range edges {
		for _, k := range []string{e.src, e.dst} {
			if nodes[k] == nil {
				nodes[k] = &node{parent: -1, depth: -1, conf: confKey(e.conf)}
			}
		}
		if e.src != e.dst {
			incoming[e.dst]++
		}
		bySrc[e.src] = append(bySrc[e.src], i)
	}
	roots := map[string]string{}
	var keys []string
	for k := range nodes {
		keys = append(keys, k)
	}
	sort.Strings(keys)
	for _, k := range keys {
		if incoming[k] == 0 {
			if r, dup := roots[nodes[k].conf]; dup {
				return nil, nil, fmt.Errorf("tour: two candidate initial states for %s: %s / %s", nodes[k].conf, r, k)
			}
			roots[nodes[k].conf] = k
		}
	}
	for _, r := range roots {
		nodes[r].depth = 0
		queue := []string{r}
		for len(queue) > 0 {
			cur := queue[0]
			queue = queue[1:]
			for _, ei := range bySrc[cur] {
				if edges[ei].step.Kind == "equivocate" {
					continue // a class that may be unwitnessed is never used as a prefix
				}
				d := edges[ei].dst
				if nodes[d].depth < 0 {
					nodes[d].depth = nodes[cur].depth + 1
					nodes[d].parent = ei
					queue = append(queue, d)
				}
			}
		}
	}
	inits := map[string]*Step{}
	maxDepth := 0
	for _, e := range edges {
		n := nodes[e.src]
		if n.depth < 0 {
			return nil, nil, fmt.Errorf("tour: state unreachable from the initial state: %s", e.src)
		}
		ck := confKey(e.conf)
		if inits[ck] == nil {
			inits[ck] = &Step{Act: "init", N: e.conf.N, T: e.conf.T, Variant: e.conf.Variant, Role: e.conf.Role, Me: e.conf.Me}
		}
		steps := make([]*Step, n.depth+2)
		steps[0] = inits[ck]
		steps[n.depth+1] = e.step
		cur := e.src
		for d := n.depth; d >= 1; d-- {
			pe := edges[nodes[cur].parent]
			steps[d] = pe.step
			cur = pe.src
		}
		if n.depth+1 > maxDepth {
			maxDepth = n.depth + 1
		}
		out = append(out, Behaviour{ID: e.id, Steps: steps})
	}
	return out, map[string]int{"edges": len(edges), "states": len(nodes), "configurations": len(roots), "longest": maxDepth}, nil
}
