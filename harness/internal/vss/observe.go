package vss

import (
	"fmt"

	"verifharness/internal/core"
)

// Observe runs a few scripted probes whose outcome C10 does NOT fix (they are
// outside the letter of the property). Nothing here can become a violation;
// the outcomes are written to the evidence file under extra.observations so
// that a change of behaviour is visible.
func Observe(seed int64, res *core.Result) error {
	obs := map[string]any{}
	for _, ad := range []Adapter{Pedersen(), Rabin()} {
		name := ad.Name()
		mk := func(label string) (*World, VerifierH) {
			w, err := NewWorld(ad, 5, 3, seed, "observe", label)
			if err != nil {
				panic(err)
			}
			v, err := w.NewVerifier(0)
			if err != nil {
				panic(err)
			}
			return w, v
		}
		put := func(k string, v any) { obs[name+"/"+k] = v; res.Eval("observe/" + name + "/" + k) }

		// (a) calls before any deal
		{
			w, v := mk("predeal")
			r1, _ := w.MakeResp("valid", 1, true)
			j1, _ := w.MakeJust("correct", 1)
			out := map[string]string{}
			for k, f := range map[string]func() error{
				"ProcessResponse":      func() error { return v.ProcessResponse(r1) },
				"ProcessJustification": func() error { return v.ProcessJustification(j1) },
				"SetTimeout":           func() error { v.SetTimeout(); return nil },
			} {
				var err error
				if msg, _, p := core.Try(func() { err = f() }); p {
					out[k] = "panic: " + msg
				} else if err != nil {
					out[k] = "error: " + err.Error()
				} else {
					out[k] = "ok"
				}
			}
			put("calls-before-deal", out)
		}
		// (b) deal stating another in-range threshold than the session's (3 commitments, T=4)
		{
			w, v := mk("tother")
			setThr := v.SetThreshold(3)
			e, _ := w.EncDeal("tother", 0)
			r, err := v.ProcessEncryptedDeal(e)
			st := v.State()
			put("deal-with-other-inrange-T", map[string]any{"SetThreshold(3) available": setThr, "approved": r != nil && r.Approved,
				"err": fmt.Sprint(err), "aggregator.t afterwards": func() any {
					if st == nil {
						return "unknown (no hook)"
					}
					return st.T
				}()})
		}
		// (c) deal whose SessionID field is altered: approved? later valid responses?
		{
			w, v := mk("badsid")
			e, _ := w.EncDeal("badsid", 0)
			r, err := v.ProcessEncryptedDeal(e)
			r1, _ := w.MakeResp("valid", 1, true)
			err2 := v.ProcessResponse(r1)
			put("deal-with-altered-session-id", map[string]any{"approved": r != nil && r.Approved, "err": fmt.Sprint(err),
				"valid response of verifier 1 afterwards": fmt.Sprint(err2)})
		}
		// (d) a correctly justified complainer keeps (and hands out) the deal it complained about
		{
			w, v := mk("justified-deal")
			e, _ := w.EncDeal("badshare", 0)
			_, _ = v.ProcessEncryptedDeal(e)
			j, _ := w.MakeJust("correct", 0)
			errJ := v.ProcessJustification(j)
			for i := 1; i < w.N; i++ {
				r, _ := w.MakeResp("valid", i, true)
				_ = v.ProcessResponse(r)
			}
			d := v.Deal()
			put("deal-of-justified-complainer", map[string]any{"justification": fmt.Sprint(errJ), "certified": v.DealCertified(),
				"Deal() is the share the dealer revealed": d != nil && d.V != nil && d.V.Equal(w.Honest[0].V)})
		}
		// (f) an unsigned justification with a wrong share marks the dealer bad (anybody can frame the dealer)
		{
			w, v := mk("framing")
			e, _ := w.EncDeal("good", 0)
			_, _ = v.ProcessEncryptedDeal(e)
			r, _ := w.MakeResp("valid", 1, false)
			_ = v.ProcessResponse(r)
			j, _ := w.MakeJust("unsignedwrong", 1)
			err := v.ProcessJustification(j)
			st := v.State()
			put("unsigned-wrong-justification", map[string]any{"err": fmt.Sprint(err), "badDealer": func() any {
				if st == nil {
					return "unknown (no hook)"
				}
				return st.Bad
			}()})
		}
	}
	res.SetExtra("observations", obs)
	res.Sample(obs)
	res.Rule = "scripted probes outside the letter of C10; never judged"
	return nil
}
