package vss

import (
	"encoding/json"
	"fmt"
	"os"
	"runtime"
	"sort"
	"strconv"

	"verifharness/internal/core"
)

// SysStep is one record of a VSSSystem behaviour.
type SysStep struct {
	Act   string `json:"act"`
	I     int    `json:"i"`
	Kind  string `json:"kind,omitempty"`
	Flush []int  `json:"flush,omitempty"`
	St    string `json:"st,omitempty"`
	Pol   string `json:"pol,omitempty"`
	// snapshot after the step (party N = dealer)
	Tab       map[string]map[string]string `json:"tab,omitempty"`
	Bad       map[string]bool              `json:"bad,omitempty"`
	Thr       map[string]int               `json:"thr,omitempty"`
	Tmo       bool                         `json:"tmo"`
	Cert      map[string]bool              `json:"cert,omitempty"`
	Napp      map[string]int               `json:"napp,omitempty"`
	Wseen     map[string]bool              `json:"wseen,omitempty"`
	AllHonest bool                         `json:"allHonest"`
	// init
	N       int    `json:"N,omitempty"`
	T       int    `json:"T,omitempty"`
	Variant string `json:"variant,omitempty"`
}

func (s *SysStep) kindArg() string { return s.Kind }

// ReplaySystem drives a real Dealer and n real Verifiers through VSSSystem behaviours.
func ReplaySystem(cfg ReplayConfig, res *core.Result) error {
	var raws []json.RawMessage
	if err := core.ReadLines(cfg.In, func(line []byte) error {
		raws = append(raws, json.RawMessage(line))
		return nil
	}); err != nil {
		return err
	}
	if len(raws) == 0 {
		return fmt.Errorf("no behaviours in %s", cfg.In)
	}
	if cfg.Max > 0 && len(raws) > cfg.Max {
		sort.Slice(raws, func(i, j int) bool {
			return core.Hash64(strconv.FormatInt(cfg.Seed, 10), string(raws[i])) < core.Hash64(strconv.FormatInt(cfg.Seed, 10), string(raws[j]))
		})
		raws = raws[:cfg.Max]
		res.Skip("subsampled")
	}
	res.AddTraces(len(raws))
	core.Parallel(len(raws), runtime.NumCPU(), func(i int) {
		var bh []SysStep
		if err := json.Unmarshal(raws[i], &bh); err != nil {
			res.Skip("bad json: " + err.Error())
			return
		}
		replaySystemOne(cfg, res, bh, raws[i], i)
	})
	res.Rule = "one evaluation = one step of a VSSSystem behaviour executed on a real Dealer and n real Verifiers (all parties compared after every step); distinct = (variant, n, t, action, abstract global pre-state)"
	return nil
}

func replaySystemOne(cfg ReplayConfig, res *core.Result, bh []SysStep, raw json.RawMessage, idx int) {
	if len(bh) < 2 || bh[0].Act != "init" {
		res.Skip("malformed behaviour")
		return
	}
	in := bh[0]
	ad := AdapterByName(in.Variant)
	w, err := NewWorld(ad, in.N, in.T, cfg.Seed, "system", fmt.Sprintf("%x", core.Hash64(string(raw))))
	if err != nil {
		res.Skip("world: " + err.Error())
		return
	}
	n := in.N
	vs := make([]VerifierH, n)
	for i := range vs {
		if vs[i], err = w.NewVerifier(i); err != nil {
			res.Skip("verifier: " + err.Error())
			return
		}
	}
	has := make([]bool, n)
	kinds := make([]string, n)
	resps := make([]*Resp, n)
	justs := make([]*Just, n)
	cfgKey := "C10/" + in.Variant + "/system"
	var trace []map[string]any
	party := func(p int) Agg {
		if p == n {
			return w.Dealer
		}
		return vs[p]
	}
	pname := func(p int) string {
		if p == n {
			return "dealer"
		}
		return "verifier"
	}
	preSig := "init"
	for si := 1; si < len(bh); si++ {
		st := bh[si]
		if st.Act == "Idle" {
			continue
		}
		cs := st.Act
		var note []string
		stop := false
		detail := func(what string, extra map[string]any) map[string]any {
			d := map[string]any{"behaviour": raw, "variant": in.Variant, "n": n, "t": in.T, "step": si, "expected": st,
				"observations": trace, "why": what}
			for k, v := range extra {
				d[k] = v
			}
			return d
		}
		vio := func(kind, what string, extra map[string]any) {
			res.Violate(cfgKey+"/"+cs+"/"+kind, what, detail(what, extra))
			stop = true
		}
		msg, stack, panicked := core.Try(func() {
			switch st.Act {
			case "Deal":
				k := st.kindArg()
				cs = "deal:" + k
				d := w.Honest[st.I].Clone()
				switch k {
				case "badshare":
					d.V = d.V.Add(d.V, w.one())
				case "tlow":
					d.T = 1
				case "otherpoly": // equivocation: another polynomial of the same dealer announcing this session's id
					d = w.AltDeal[st.I].Clone()
					d.SID = append([]byte(nil), w.SID...)
				case "othersession": // a valid deal of the dealer's other session
					d = w.AltDeal[st.I].Clone()
				}
				w.Dealer.SetDeal(st.I, d) // a faulty dealer keeps what it sent: its own justification reveals exactly this
				e, err := w.Dealer.EncryptedDeal(st.I)
				if err != nil {
					vio("dealer-cannot-encrypt", err.Error(), nil)
					return
				}
				r, err := vs[st.I].ProcessEncryptedDeal(e)
				switch {
				case k == "good" && (err != nil || r == nil || !r.Approved):
					vio("honest-deal-not-approved", fmt.Sprintf("verifier %d answered an honest deal with approved=%v err=%v", st.I, r != nil && r.Approved, err), nil)
					return
				case k == "othersession":
					if err != nil || r == nil || !r.Approved {
						note = append(note, "deal of the other session not approved: run not followed further")
						stop = true
						return
					}
				case k != "good" && err == nil && r != nil && r.Approved:
					vio("bad-deal-approved", fmt.Sprintf("verifier %d approved a deal of kind %s", st.I, k), nil)
					return
				case err != nil:
					note = append(note, "deal answered with an error: run not followed further")
					stop = true
					return
				}
				has[st.I], kinds[st.I], resps[st.I] = true, k, r
				fl := append([]int(nil), st.Flush...)
				sort.Ints(fl)
				for _, j := range fl {
					if err := vs[st.I].ProcessResponse(resps[j].Clone()); err != nil {
						note = append(note, fmt.Sprintf("pending response of %d refused: %v", j, err))
					}
				}
			case "Bcast":
				cs = "bcast:" + fmt.Sprint(st.St)
				for p := 0; p < n; p++ {
					if p != st.I && has[p] {
						if err := vs[p].ProcessResponse(resps[st.I].Clone()); err != nil {
							note = append(note, fmt.Sprintf("verifier %d refused: %v", p, err))
						}
					}
				}
				j, err := w.Dealer.ProcessResponse(resps[st.I].Clone())
				if err != nil {
					note = append(note, "dealer refused: "+err.Error())
				}
				justs[st.I] = j
			case "Justify":
				cs = "justify:" + st.Pol
				j := justs[st.I]
				if j == nil {
					vio("dealer-produced-no-justification", fmt.Sprintf("Dealer.ProcessResponse returned no justification for the complaint of %d", st.I), nil)
					return
				}
				if st.Pol == "correct" { // the dealer reveals the share on the committed polynomial
					if j, err = w.MakeJust("correct", st.I); err != nil {
						stop = true
						return
					}
				}
				for p := 0; p < n; p++ {
					if has[p] {
						jj := *j
						jj.Deal = j.Deal.Clone()
						_ = vs[p].ProcessJustification(&jj)
					}
				}
			case "Timeout":
				for p := 0; p <= n; p++ {
					if p == n || has[p] || in.Variant == "pedersen" {
						party(p).SetTimeout()
					}
				}
			}
		})
		if panicked {
			vio("panic", "panic during "+cs+": "+msg, map[string]any{"stack": stack})
		}
		if stop {
			return
		}
		res.Eval(cfgKey + fmt.Sprintf("/n%d/t%d/", n, in.T) + cs + "/" + preSig)
		// compare every party
		obsAll := map[string]any{}
		abandon := false
		for p := 0; p <= n && !stop; p++ {
			ps := strconv.Itoa(p)
			if p < n && !has[p] && in.Variant == "rabin" {
				// nil aggregator: nothing to observe but DealCertified() = false
				if boolStr(party(p).DealCertified) == "true" {
					vio("certified-unsound", fmt.Sprintf("verifier %d reports certified without a recorded deal", p), nil)
				}
				continue
			}
			got := observe(party(p), "")
			obsAll[ps] = got
			if tb := tableOf(got, n); tb != nil {
				for i := 0; i < n; i++ {
					k := strconv.Itoa(i)
					g, e := tb[k], st.Tab[ps][k]
					if g == e {
						continue
					}
					polyB := func(q int) bool { return q < n && (kinds[q] == "otherpoly" || kinds[q] == "othersession") }
					genuine := resps[i] != nil && resps[i].Approved
					if g == "app" && e != "app" && genuine && polyB(p) != polyB(i) {
						vio("approval-of-other-polynomial", fmt.Sprintf("%s %d counts the approval verifier %d gave to a deal on another polynomial", pname(p), p, i), map[string]any{"got": obsAll})
						break
					}
					if g == "app" && e != "app" && !genuine { // nobody approved: the entry is not backed by any approval

						vio("counted-as-approval", fmt.Sprintf("%s %d holds an approval for verifier %d (expected %q)", pname(p), p, i, e), map[string]any{"got": obsAll})
						break
					}
					res.AddExtra("drift:system-table:"+in.Variant+":"+cs, 1)
					if os.Getenv("VSS_DEBUG") != "" {
						fmt.Fprintf(os.Stderr, "DRIFT %s step %d party %d entry %d got %s exp %s notes %v\n  %s\n", cs, si, p, i, g, e, note, raw)
					}
					abandon = true
				}
			}
			if stop {
				break
			}
			sound := st.Napp[ps] >= in.T && !st.Wseen[ps]
			switch {
			case got.Cert == "true" && !sound:
				vio("certified-unsound", fmt.Sprintf("%s %d reports certified with %d/%d approvals, invalid justification seen=%v", pname(p), p, st.Napp[ps], in.T, st.Wseen[ps]), map[string]any{"got": obsAll})
			case st.AllHonest && got.Cert != "true":
				vio("honest-not-certified", fmt.Sprintf("everybody followed the protocol and all responses were delivered, but %s %d reports certified=%s", pname(p), p, got.Cert), map[string]any{"got": obsAll})
			case got.Cert != strconv.FormatBool(st.Cert[ps]):
				res.AddExtra("drift:system-certified:"+in.Variant+":"+cs, 1)
			}
		}
		trace = append(trace, map[string]any{"step": si, "case": cs, "notes": note})
		if stop {
			return
		}
		if abandon {
			res.AddExtra("abandoned-on-allowed-alternative", 1)
			return
		}
		b, _ := json.Marshal([]any{st.Tab, st.Bad, st.Tmo})
		preSig = fmt.Sprintf("%x", core.Hash64(string(b)))
	}
	// end of run: CertifiedRecoverable
	last := bh[len(bh)-1]
	allGood := true
	for i := 0; i < n; i++ {
		if kinds[i] != "good" {
			allGood = false
		}
	}
	var holders []int
	for i := 0; i < n; i++ {
		if has[i] && kinds[i] == "good" && vs[i].DealCertified() {
			holders = append(holders, i)
		}
	}
	fail := func(kind, what string) {
		res.Violate(cfgKey+"/recover/"+kind, what, map[string]any{"behaviour": raw, "variant": in.Variant, "n": n, "t": in.T,
			"holders": holders, "final": last, "why": what})
	}
	if allGood && last.AllHonest {
		if len(holders) != n {
			fail("deal-unavailable", fmt.Sprintf("honest run: only %d of %d verifiers are certified at the end", len(holders), n))
			return
		}
		sc := w.Dealer.SecretCommit()
		if sc == nil || !sc.Equal(w.S.Point().Mul(w.Secret, nil)) {
			fail("secret-commit", "honest run: the dealer's SecretCommit() is not secret*G")
			return
		}
	}
	if len(holders) >= in.T {
		subsets(holders, in.T, func(sub []int) bool {
			ds := make([]*PDeal, len(sub))
			for k, i := range sub {
				ds[k] = vs[i].Deal()
				if ds[k] == nil {
					fail("deal-nil", fmt.Sprintf("certified verifier %d returns no deal", i))
					return false
				}
			}
			sec, err := ad.RecoverSecret(w.S, ds, uint32(n), uint32(in.T))
			res.Eval("")
			if err != nil || !sec.Equal(w.Secret) {
				fail("wrong-secret", fmt.Sprintf("deals of certified verifiers %v recover err=%v, equal to the dealer's secret: %v", sub, err, err == nil && sec.Equal(w.Secret)))
				return false
			}
			return true
		})
		res.AddExtra("recovered_subsets_runs", 1)
	}
	// observation (outside the letter of C10): a correctly justified complainer hands out the deal it complained about
	for i := 0; i < n; i++ {
		if has[i] && kinds[i] == "badshare" && vs[i].DealCertified() {
			if d := vs[i].Deal(); d != nil && d.V != nil && !d.V.Equal(w.Honest[i].V) {
				res.AddExtra("observation:justified-complainer-keeps-bad-deal:"+in.Variant, 1)
			}
		}
	}
	if idx < 2 {
		res.Sample(map[string]any{"behaviour": raw, "notes": trace})
	}
}

func subsets(xs []int, k int, fn func([]int) bool) {
	cur := make([]int, 0, k)
	var rec func(start int) bool
	rec = func(start int) bool {
		if len(cur) == k {
			return fn(append([]int(nil), cur...))
		}
		for i := start; i < len(xs); i++ {
			cur = append(cur, xs[i])
			if !rec(i + 1) {
				return false
			}
			cur = cur[:len(cur)-1]
		}
		return true
	}
	rec(0)
}
