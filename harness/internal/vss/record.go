package vss

import (
	"bufio"
	"encoding/json"
	"fmt"
	"math/rand"
	"os"
	"strconv"

	"verifharness/internal/core"
)

type RecordConfig struct {
	Seed    int64
	Out     string
	Num     int
	Variant string
	NMax    int
}

type traceEvent struct {
	Obj   string         `json:"obj"`
	Seq   int            `json:"seq"`
	Ev    string         `json:"ev"`
	Args  map[string]any `json:"args"`
	Ret   string         `json:"ret"`
	State map[string]any `json:"state,omitempty"`
}

func projState(a Agg, n int, role string) map[string]any {
	o := observe(a, "")
	st := map[string]any{"n": n, "certified": o.Cert, "enough": o.Enough, "extra": 0,
		"badKnown": false, "bad": false, "tmo": false, "thr": 0, "hasDeal": role == "dealer"}
	tb := tableOf(o, n)
	table := map[string]string{}
	extra := 0
	for i := 0; i < n; i++ {
		table[strconv.Itoa(i)] = "none"
	}
	for k, v := range tb {
		if len(k) > 6 && k[:6] == "extra:" {
			extra++
			continue
		}
		table[k] = v
	}
	st["resp"] = table
	st["extra"] = extra
	if o.State != nil && !o.State.Nil {
		st["badKnown"] = true
		st["bad"] = o.State.Bad
		st["tmo"] = o.State.Timeout
		st["thr"] = o.State.T
		st["hasDeal"] = o.State.HasDeal || role == "dealer"
	}
	return st
}

func pickW(r *rand.Rand, xs []string, w []int) string {
	tot := 0
	for _, x := range w {
		tot += x
	}
	k := r.Intn(tot)
	for i, x := range w {
		if k < x {
			return xs[i]
		}
		k -= x
	}
	return xs[len(xs)-1]
}

// Record is the code -> spec driver: seeded random walks over the public API
// of real Dealer / Verifier objects (the same class concretisers as the
// replayer), every call logged at its return with the projected state.
// Nothing is judged here: spec/VSSAggTrace.tla decides whether each recorded
// run is a behaviour the requirement layer allows.
func Record(cfg RecordConfig, res *core.Result) error {
	f, err := os.Create(cfg.Out)
	if err != nil {
		return err
	}
	defer f.Close()
	bw := bufio.NewWriterSize(f, 1<<20)
	defer bw.Flush()
	enc := json.NewEncoder(bw)
	variants := []string{"pedersen", "rabin"}
	if cfg.Variant != "" {
		variants = []string{cfg.Variant}
	}
	if cfg.NMax < 3 {
		cfg.NMax = 3
	}
	events := 0
	for run := 0; run < cfg.Num; run++ {
		r := core.Rng(cfg.Seed, "vss-record", strconv.Itoa(run))
		variant := variants[run%len(variants)]
		n := 3 + r.Intn(cfg.NMax-2)
		t := 2 + r.Intn(n-1)
		role := "verifier"
		if r.Intn(5) == 0 {
			role = "dealer"
		}
		me := r.Intn(n)
		ad := AdapterByName(variant)
		w, err := NewWorld(ad, n, t, cfg.Seed, "record", strconv.Itoa(run))
		if err != nil {
			return err
		}
		var agg Agg
		var ver VerifierH
		if role == "dealer" {
			agg = w.Dealer
		} else {
			if ver, err = w.NewVerifier(me); err != nil {
				return err
			}
			agg = ver
		}
		if _, ok := agg.Responses(); !ok {
			// rabin exposes its table only through the verif accessor; without it a run cannot be projected
			res.Skip("no table projection (tree without verif hooks): " + variant)
			continue
		}
		obj := fmt.Sprintf("%s.%s#%d", variant, role, run)
		seq := 0
		emit := func(ev string, args map[string]any, ret string, withState bool) {
			seq++
			e := traceEvent{Obj: obj, Seq: seq, Ev: ev, Args: args, Ret: ret}
			if withState {
				e.State = projState(agg, n, role)
			}
			_ = enc.Encode(e)
			events++
		}
		emit("reset", map[string]any{"N": n, "T": t, "variant": variant, "role": role, "me": me, "mode": "api"}, "ok", false)
		steps := 5 + r.Intn(3*n)
		timedOut := false
		dealKinds := DealKinds(variant)
		for s := 0; s < steps; s++ {
			acts := []string{"Response", "Justification", "Timeout", "ProcessDeal"}
			wts := []int{10, 6, 1, 2}
			if role == "dealer" {
				wts = []int{10, 0, 1, 0}
			} else if s == 0 {
				wts = []int{1, 1, 1, 12}
			}
			if timedOut {
				wts[2] = 0
			}
			act := pickW(r, acts, wts)
			var ret string
			args := map[string]any{}
			_, _, panicked := core.Try(func() {
				switch act {
				case "ProcessDeal":
					kind := "good"
					if r.Intn(2) == 0 {
						kind = dealKinds[r.Intn(len(dealKinds))]
					}
					args["kind"] = kind
					e, err := w.EncDeal(kind, me)
					if err != nil {
						ret = "skip"
						return
					}
					rp, err := ver.ProcessEncryptedDeal(e)
					switch {
					case err != nil && isUnwitnessed(err):
						ret = "skip"
					case err != nil:
						ret = "error"
					case rp.Approved:
						ret = "approve"
					default:
						ret = "complaint"
					}
				case "Response":
					cls := pickW(r, RespClasses(), []int{12, 2, 2, 1, 1, 2, 1, 1})
					i := r.Intn(n)
					if role == "verifier" && i == me {
						cls = "valid"
					}
					if cls == "oor" {
						i = 0
						if role == "verifier" && me == 0 {
							i = 1
						}
					}
					st := "app"
					if r.Intn(3) == 0 {
						st = "comp"
					}
					args["i"], args["st"], args["cls"] = i, st, cls
					rp, err := w.MakeResp(cls, i, st == "app")
					if err != nil {
						ret = "skip"
						return
					}
					if role == "dealer" {
						j, err := w.Dealer.ProcessResponse(rp)
						switch {
						case err != nil:
							ret = "error"
						case j != nil:
							ret = "justification"
							if why := w.checkHonestJust(j, i); why != "" {
								ret += "+" + why
							}
						default:
							ret = "ok"
						}
					} else if err := ver.ProcessResponse(rp); err != nil {
						ret = "error"
					} else {
						ret = "ok"
					}
				case "Justification":
					cls := pickW(r, JustClasses(), []int{10, 3, 2, 2, 1, 1, 2, 1, 1, 1, 1, 1, 1, 1, 1, 1, 1})
					i := r.Intn(n)
					// prefer a standing complaint when there is one
					if m, ok := agg.Responses(); ok && r.Intn(4) != 0 {
						for k, v := range m {
							if !v && int(k) < n {
								i = int(k)
							}
						}
					}
					if cls == "oor" {
						i = 0
						if me == 0 {
							i = 1
						}
					}
					args["i"], args["cls"] = i, cls
					j, err := w.MakeJust(cls, i)
					if err != nil {
						ret = "skip"
						return
					}
					if err := ver.ProcessJustification(j); err != nil {
						ret = "error"
					} else {
						ret = "ok"
					}
				case "Timeout":
					agg.SetTimeout()
					ret = "ok"
					timedOut = true
				}
			})
			if panicked {
				ret = "panic"
			}
			if ret == "skip" {
				continue
			}
			emit(act, args, ret, true)
			res.Eval(variant + "/" + role + "/" + act + "/" + fmt.Sprint(args["kind"], args["cls"], args["st"]) + "/" + ret)
		}
	}
	res.AddTraces(cfg.Num)
	res.SetExtra("recorded_events", events)
	res.Sample(map[string]any{"recorded_runs": cfg.Num, "events": events, "file": "ndjson validated by spec/VSSAggTrace.tla"})
	res.Rule = "one recorded run = seeded random walk (5..5+3n calls) over ProcessEncryptedDeal / ProcessResponse / ProcessJustification / SetTimeout of one real object with classes drawn from the menus"
	return nil
}
