// Package vss holds the refinement mapping between spec/VSSAgg.tla,
// spec/VSSSystem.tla and the real share/vss/pedersen and share/vss/rabin
// objects: how an abstract deal / response / justification class becomes a
// concrete message, and how a concrete Dealer / Verifier is projected back.
// It contains no copy of the protocol rules: every expected outcome and
// every expected table comes from TLC inside the behaviour being replayed.
package vss

import (
	"go.dedis.ch/kyber/v4"
)

// PDeal is the variant-neutral plaintext deal.
type PDeal struct {
	SID     []byte
	I       uint32
	V       kyber.Scalar
	RI      uint32       // rabin only
	RV      kyber.Scalar // rabin only (nil for pedersen)
	T       uint32
	Commits []kyber.Point
}

func (d *PDeal) Clone() *PDeal {
	if d == nil {
		return nil
	}
	c := &PDeal{SID: append([]byte(nil), d.SID...), I: d.I, RI: d.RI, T: d.T}
	if d.V != nil {
		c.V = d.V.Clone()
	}
	if d.RV != nil {
		c.RV = d.RV.Clone()
	}
	for _, p := range d.Commits {
		c.Commits = append(c.Commits, p.Clone())
	}
	return c
}

// Enc is the variant-neutral encrypted deal (DH key as bytes).
type Enc struct {
	DH     []byte
	Sig    []byte
	Cipher []byte
}

// Resp is the variant-neutral response.
type Resp struct {
	SID      []byte
	Index    uint32
	Approved bool
	Sig      []byte
}

func (r *Resp) Clone() *Resp {
	if r == nil {
		return nil
	}
	return &Resp{SID: append([]byte(nil), r.SID...), Index: r.Index, Approved: r.Approved, Sig: append([]byte(nil), r.Sig...)}
}

// Just is the variant-neutral justification.
type Just struct {
	SID   []byte
	Index uint32
	Deal  *PDeal
	Sig   []byte
}

// AggState is the projection of an aggregator obtained through the
// `verif`-tagged accessor VerifState (nil when the tree has no hooks).
type AggState struct {
	Nil     bool            `json:"nil,omitempty"` // rabin verifier before any deal
	Resp    map[uint32]bool `json:"resp"`
	Bad     bool            `json:"bad"`
	Timeout bool            `json:"timeout"`
	T       uint32          `json:"t"`
	HasDeal bool            `json:"hasDeal"`
}

// Agg is what the replayer observes of either a Dealer or a Verifier.
type Agg interface {
	DealCertified() bool
	HasEnough() bool // the variant has EnoughApprovals()
	EnoughApprovals() (val bool, supported bool)
	SetTimeout()
	State() *AggState // nil if no hook accessor
	// Responses through the public API (pedersen) or the hook (rabin); ok=false if neither
	Responses() (m map[uint32]bool, ok bool)
}

type DealerH interface {
	Agg
	Deal(i int) *PDeal       // deep copy of the internal plaintext deal
	SetDeal(i int, d *PDeal) // overwrite the internal plaintext deal in place (malicious dealer)
	EncryptedDeal(i int) (*Enc, error)
	ProcessResponse(r *Resp) (*Just, error)
	SecretCommit() kyber.Point
	SessionID() []byte
	Commits() []kyber.Point
}

type VerifierH interface {
	Agg
	ProcessEncryptedDeal(e *Enc) (*Resp, error)
	ProcessResponse(r *Resp) error
	ProcessJustification(j *Just) error
	Deal() *PDeal
	SetThreshold(t uint32) bool // false if the variant has no such call
}

// Adapter is one VSS variant.
type Adapter interface {
	Name() string
	NewDealer(s Suite, long, secret kyber.Scalar, verifiers []kyber.Point, t uint32) (DealerH, error)
	NewVerifier(s Suite, long kyber.Scalar, dealer kyber.Point, verifiers []kyber.Point) (VerifierH, error)
	RespHash(s Suite, r *Resp) []byte
	JustHash(s Suite, j *Just) []byte
	MarshalDeal(d *PDeal) ([]byte, error)
	Context(s Suite, dealer kyber.Point, verifiers []kyber.Point) []byte // harness-side re-implementation
	RecoverSecret(s Suite, deals []*PDeal, n, t uint32) (kyber.Scalar, error)
	// SetTrace installs fn as the package's VerifTrace hook (no-op without hooks); returns whether hooks exist
	MinimumT(n uint32) uint32
}

// Suite is what both packages need.
type Suite interface {
	kyber.Group
	kyber.HashFactory
	kyber.XOFFactory
	kyber.Random
}

type verifStater interface {
	VerifState() (resp map[uint32]bool, bad bool, timeout bool, t uint32, hasDeal bool, isNil bool)
}

func stateOf(x any) *AggState {
	vs, ok := x.(verifStater)
	if !ok {
		return nil
	}
	r, bad, tmo, t, hd, isNil := vs.VerifState()
	return &AggState{Nil: isNil, Resp: r, Bad: bad, Timeout: tmo, T: t, HasDeal: hd}
}
