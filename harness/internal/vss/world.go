package vss

import (
	"crypto/aes"
	"crypto/cipher"
	"encoding/binary"
	"fmt"

	"go.dedis.ch/kyber/v4"
	"go.dedis.ch/kyber/v4/group/edwards25519"
	"go.dedis.ch/kyber/v4/share"
	"go.dedis.ch/kyber/v4/sign/schnorr"
	"go.dedis.ch/kyber/v4/xof/blake2xb"
	"golang.org/x/crypto/hkdf"
)

// World is one concrete VSS session on Ed25519 in which abstract classes are
// concretised: a dealer whose keys the harness owns (so it can play a
// malicious dealer), n verifier key pairs, an outsider key for forgeries and
// a second session of the same dealer for wrong-session messages.
type World struct {
	A       Adapter
	S       *edwards25519.SuiteEd25519
	N, T    int
	DLong   kyber.Scalar
	DPub    kyber.Point
	VLong   []kyber.Scalar
	VPub    []kyber.Point
	Secret  kyber.Scalar
	Dealer  DealerH
	Honest  []*PDeal // the dealer's deals before any corruption
	Other   kyber.Scalar
	Alt     DealerH // same dealer key, same verifiers, different secret
	AltDeal []*PDeal
	Alt2    DealerH // a third polynomial of the same dealer (equivocation towards the observed verifier)
	Alt2Dl  []*PDeal
	SID     []byte

	logH     kyber.Scalar
	logHDone bool
	fco, gco []kyber.Scalar
}

// SeedSuite returns an Ed25519 suite whose random stream is derived from the labels.
func SeedSuite(seed int64, labels ...string) *edwards25519.SuiteEd25519 {
	s := fmt.Sprintf("verif-vss/%d", seed)
	for _, l := range labels {
		s += "/" + l
	}
	return edwards25519.NewBlakeSHA256Ed25519WithRand(blake2xb.New([]byte(s)))
}

func NewWorld(a Adapter, n, t int, seed int64, labels ...string) (*World, error) {
	w := &World{A: a, S: SeedSuite(seed, append([]string{a.Name()}, labels...)...), N: n, T: t}
	pick := func() (kyber.Scalar, kyber.Point) {
		x := w.S.Scalar().Pick(w.S.RandomStream())
		return x, w.S.Point().Mul(x, nil)
	}
	w.DLong, w.DPub = pick()
	for i := 0; i < n; i++ {
		x, p := pick()
		w.VLong = append(w.VLong, x)
		w.VPub = append(w.VPub, p)
	}
	w.Other, _ = pick()
	w.Secret, _ = pick()
	var err error
	if w.Dealer, err = a.NewDealer(w.S, w.DLong, w.Secret, w.VPub, uint32(t)); err != nil {
		return nil, err
	}
	s2, _ := pick()
	if w.Alt, err = a.NewDealer(w.S, w.DLong, s2, w.VPub, uint32(t)); err != nil {
		return nil, err
	}
	s3, _ := pick()
	if w.Alt2, err = a.NewDealer(w.S, w.DLong, s3, w.VPub, uint32(t)); err != nil {
		return nil, err
	}
	for i := 0; i < n; i++ {
		w.Honest = append(w.Honest, w.Dealer.Deal(i))
		w.AltDeal = append(w.AltDeal, w.Alt.Deal(i))
		w.Alt2Dl = append(w.Alt2Dl, w.Alt2.Deal(i))
	}
	w.SID = append([]byte(nil), w.Dealer.SessionID()...)
	return w, nil
}

func (w *World) NewVerifier(i int) (VerifierH, error) {
	return w.A.NewVerifier(w.S, w.VLong[i], w.DPub, w.VPub)
}

func (w *World) one() kyber.Scalar { return w.S.Scalar().One() }

// ---------------------------------------------------------------- deals

// DealKinds lists the abstract deal kinds the harness can concretise for a variant.
func DealKinds(variant string) []string {
	k := []string{"good", "badshare", "badcommit", "tlow", "thigh", "wrongindex", "indexoor", "wrongrecipient",
		"forgedsig", "sigreuse", "noshare", "nocommits", "garbage", "badsid", "otherpoly"}
	if variant == "rabin" {
		k = append(k, "badrnd", "rndindex", "equivocate")
	}
	return k
}

// corrupt returns the plaintext deal of the given kind for verifier `to`.
func (w *World) corrupt(kind string, to int) (*PDeal, error) {
	d := w.Honest[to].Clone()
	switch kind {
	case "good", "wrongrecipient", "forgedsig":
	case "badshare":
		d.V = d.V.Add(d.V, w.one())
	case "badrnd":
		if d.RV == nil {
			return nil, ErrUnwitnessed
		}
		d.RV = d.RV.Add(d.RV, w.one())
	case "equivocate":
		// opens the same commitment f*G + g*H to another share, possible only with a known h = log_G(H)
		h, ok := w.knownLogH()
		if !ok || d.RV == nil {
			return nil, ErrUnwitnessed
		}
		d.V = d.V.Add(d.V, w.one())
		d.RV = d.RV.Sub(d.RV, w.S.Scalar().Inv(h))
	case "rndindex":
		if d.RV == nil {
			return nil, ErrUnwitnessed
		}
		d.RI = uint32((to + 1) % w.N)
	case "badcommit":
		k := len(d.Commits) - 1
		d.Commits[k] = w.S.Point().Add(d.Commits[k], w.S.Point().Base())
	case "tlow":
		d.T = 1
	case "thigh":
		d.T = uint32(w.N + 1)
	case "tother":
		if w.T+1 <= w.N {
			d.T = uint32(w.T + 1)
		} else if w.T-1 >= 2 {
			d.T = uint32(w.T - 1)
		} else {
			return nil, ErrUnwitnessed
		}
	case "otherpoly":
		// dealer equivocation: the deal of ANOTHER polynomial of the same dealer (self-consistent), announcing
		// the session id of this session
		d = w.Alt2Dl[to].Clone()
		d.SID = append([]byte(nil), w.SID...)
	case "wrongindex":
		d = w.Honest[(to+1)%w.N].Clone()
	case "indexoor":
		d.I = uint32(w.N + 3)
		d.RI = d.I
	case "nocommits":
		d.Commits = nil
	case "badsid":
		d.SID = append([]byte(nil), d.SID...)
		d.SID[0] ^= 0x55
	default:
		return nil, fmt.Errorf("unknown deal kind %q", kind)
	}
	return d, nil
}

// EncDeal concretises a deal kind into an encrypted deal delivered to verifier `to`.
// All kinds but the malformed ones go through the REAL Dealer.EncryptedDeal
// after corrupting the dealer's internal plaintext deal in place; the
// dealer's internal deal is restored afterwards.
func (w *World) EncDeal(kind string, to int) (*Enc, error) {
	switch kind {
	case "noshare":
		return w.ownEnvelope(w.rawDeal(w.Honest[to], true), to)
	case "garbage":
		return w.ownEnvelope([]byte{0xff, 0x07, 0x13, 0x00, 0x01, 0x9a, 0x9a}, to)
	case "wrongrecipient":
		return w.Dealer.EncryptedDeal((to + 1) % w.N)
	case "sigreuse":
		// attacker-made envelope around the honest plaintext (fresh ephemeral key) + the dealer's genuine
		// signature of the ephemeral key of another envelope
		plain, err := w.A.MarshalDeal(w.Honest[to])
		if err != nil {
			return nil, err
		}
		mine, err := w.ownEnvelope(plain, to)
		if err != nil {
			return nil, err
		}
		genuine, err := w.Dealer.EncryptedDeal(to)
		if err != nil {
			return nil, err
		}
		mine.Sig = genuine.Sig
		return mine, nil
	}
	d, err := w.corrupt(kind, to)
	if err != nil {
		return nil, err
	}
	w.Dealer.SetDeal(to, d)
	e, err := w.Dealer.EncryptedDeal(to)
	w.Dealer.SetDeal(to, w.Honest[to].Clone())
	if err != nil {
		return nil, err
	}
	if kind == "forgedsig" {
		sig, err := schnorr.Sign(w.S, w.Other, e.DH)
		if err != nil {
			return nil, err
		}
		e.Sig = sig
	}
	return e, nil
}

// knownLogH tries to find h with H = h*G for the second generator H of the
// rabin variant (H is recovered from an honest deal: C(i) = f_i*G + g_i*H).
// The candidates are the natural ways of deriving a scalar from the seed the
// package hashes to obtain H. On a sound tree none matches (H comes from
// Point.Pick) and the attack family is unwitnessed.
func (w *World) knownLogH() (kyber.Scalar, bool) {
	if w.logHDone {
		return w.logH, w.logH != nil
	}
	w.logHDone = true
	d := w.Honest[0]
	if d.RV == nil || d.RV.Equal(w.S.Scalar().Zero()) {
		return nil, false
	}
	ci := share.NewPubPoly(w.S, nil, d.Commits).Eval(d.I).V
	H := w.S.Point().Sub(ci, w.S.Point().Mul(d.V, nil))
	H.Mul(w.S.Scalar().Inv(d.RV), H)
	var seed []byte
	for _, v := range w.VPub {
		b, _ := v.MarshalBinary()
		seed = append(seed, b...)
	}
	hs := w.S.Hash()
	_, _ = hs.Write(seed)
	digest := hs.Sum(nil)
	db, _ := w.DPub.MarshalBinary()
	var cands []kyber.Scalar
	for _, sd := range [][]byte{seed, digest, append(append([]byte(nil), db...), seed...)} {
		cands = append(cands, w.S.Scalar().Pick(w.S.XOF(sd)), w.S.Scalar().SetBytes(sd))
		h2 := w.S.Hash()
		_, _ = h2.Write(sd)
		cands = append(cands, w.S.Scalar().SetBytes(h2.Sum(nil)))
	}
	for _, h := range cands {
		if !h.Equal(w.S.Scalar().Zero()) && w.S.Point().Mul(h, nil).Equal(H) {
			w.logH = h
			return h, true
		}
	}
	return nil, false
}

func pbBytes(field int, b []byte) []byte {
	out := []byte{byte(field<<3 | 2)}
	out = binary.AppendUvarint(out, uint64(len(b)))
	return append(out, b...)
}

func pbVarint(field int, v uint64) []byte {
	out := []byte{byte(field << 3)}
	return binary.AppendUvarint(out, v)
}

// rawDeal hand-encodes a deal in the wire format of the variant; with
// noShare the SecShare field is present but empty (finding #17's shape).
func (w *World) rawDeal(d *PDeal, noShare bool) []byte {
	var out []byte
	out = append(out, pbBytes(1, d.SID)...)
	priShare := func(i uint32, v kyber.Scalar) []byte {
		if noShare {
			return nil
		}
		vb, _ := v.MarshalBinary()
		// compatiblePriShare{I int64 (zig-zag sint), V}
		b := pbVarint(1, uint64(i)<<1)
		return append(b, pbBytes(2, vb)...)
	}
	f := 2
	out = append(out, pbBytes(f, priShare(d.I, d.V))...)
	f++
	if w.A.Name() == "rabin" {
		out = append(out, pbBytes(f, priShare(d.RI, d.RV))...)
		f++
	}
	out = append(out, pbVarint(f, uint64(d.T))...)
	f++
	for _, c := range d.Commits {
		cb, _ := c.MarshalBinary()
		out = append(out, pbBytes(f, cb)...)
	}
	return out
}

// ownEnvelope is the harness's own implementation of the dealer's
// encryption envelope (signed ephemeral DH key, HKDF, AES-256-GCM with the
// context as additional data) for plaintexts the real Dealer would not emit.
func (w *World) ownEnvelope(plain []byte, to int) (*Enc, error) {
	dhSecret := w.S.Scalar().Pick(w.S.RandomStream())
	dhPublic := w.S.Point().Mul(dhSecret, nil)
	dhb, _ := dhPublic.MarshalBinary()
	sig, err := schnorr.Sign(w.S, w.DLong, dhb)
	if err != nil {
		return nil, err
	}
	pre := w.S.Point().Mul(dhSecret, w.VPub[to])
	ctx := w.A.Context(w.S, w.DPub, w.VPub)
	preb, _ := pre.MarshalBinary()
	rd := hkdf.New(w.S.Hash, preb, nil, ctx)
	key := make([]byte, 32)
	if _, err := rd.Read(key); err != nil {
		return nil, err
	}
	blk, err := aes.NewCipher(key)
	if err != nil {
		return nil, err
	}
	gcm, err := cipher.NewGCM(blk)
	if err != nil {
		return nil, err
	}
	nonce := make([]byte, gcm.NonceSize())
	return &Enc{DH: dhb, Sig: sig, Cipher: gcm.Seal(nil, nonce, plain, ctx)}, nil
}

// ---------------------------------------------------------------- responses

func RespClasses() []string {
	return []string{"valid", "forged", "wrongsid", "oor", "unsigned", "relabel", "reindex", "resession"}
}

// MakeResp concretises a response class for verifier i.
func (w *World) MakeResp(cls string, i int, approved bool) (*Resp, error) {
	r := &Resp{SID: append([]byte(nil), w.SID...), Index: uint32(i), Approved: approved}
	key := w.VLong[i%w.N]
	switch cls {
	case "valid":
	case "forged":
		key = w.Other
	case "wrongsid":
		r.SID = append([]byte(nil), w.Alt.SessionID()...)
	case "oor":
		r.Index = uint32(w.N + 2)
		key = w.Other
	case "unsigned":
		return r, nil
	case "relabel", "reindex", "resession":
		// a genuine signature, then one signed field is changed
		signed := r.Clone()
		switch cls {
		case "relabel":
			signed.Approved = !approved
		case "reindex":
			k := (i + 1) % w.N
			signed.Index = uint32(k)
			key = w.VLong[k]
		case "resession":
			signed.SID = append([]byte(nil), w.Alt.SessionID()...)
		}
		sig, err := schnorr.Sign(w.S, key, w.A.RespHash(w.S, signed))
		if err != nil {
			return nil, err
		}
		r.Sig = sig
		return r, nil
	default:
		return nil, fmt.Errorf("unknown response class %q", cls)
	}
	sig, err := schnorr.Sign(w.S, key, w.A.RespHash(w.S, r))
	if err != nil {
		return nil, err
	}
	r.Sig = sig
	return r, nil
}

// ---------------------------------------------------------------- justifications

func JustClasses() []string {
	return []string{"correct", "wrongshare", "otherindex", "altcommit", "forgedcorrect", "unsignedcorrect",
		"unsignedother", "unsignedwrong", "wrongsid", "oor", "resigother", "resigindex",
		"altcoef", "altshort", "altlong", "altlongt", "altperm"}
}

// coeffs recovers the coefficients of the dealer's secret polynomial f (and, for rabin, of the blinding
// polynomial g) from the n honest shares -- a malicious dealer knows them; the harness interpolates.
func (w *World) coeffs() (a, b []kyber.Scalar, err error) {
	if w.fco != nil {
		return w.fco, w.gco, nil
	}
	fs := make([]*share.PriShare, w.N)
	gs := make([]*share.PriShare, w.N)
	for i, d := range w.Honest {
		fs[i] = &share.PriShare{I: d.I, V: d.V}
		if d.RV != nil {
			gs[i] = &share.PriShare{I: d.RI, V: d.RV}
		}
	}
	fp, err := share.RecoverPriPoly(w.S, fs, uint32(w.T), uint32(w.N))
	if err != nil {
		return nil, nil, err
	}
	w.fco = fp.Coefficients()
	if gs[0] != nil {
		gp, err := share.RecoverPriPoly(w.S, gs, uint32(w.T), uint32(w.N))
		if err != nil {
			return nil, nil, err
		}
		w.gco = gp.Coefficients()
	}
	return w.fco, w.gco, nil
}

// xpow returns (i+1)^k, the evaluation point of verifier i raised to k.
func (w *World) xpow(i, k int) kyber.Scalar {
	x := w.S.Scalar().SetInt64(int64(i + 1))
	r := w.S.Scalar().One()
	for ; k > 0; k-- {
		r = r.Mul(r, x)
	}
	return r
}

// altFamily builds, for the complaint of verifier i, a deal whose share verifies against the commitments it
// carries, these being a variation of the session's commitments.
func (w *World) altFamily(cls string, i int, d *PDeal) error {
	a, b, err := w.coeffs()
	if err != nil || len(a) != w.T || len(d.Commits) != w.T {
		return ErrUnwitnessed
	}
	T := w.T
	sub := func(x, y kyber.Scalar) kyber.Scalar { return w.S.Scalar().Sub(x, y) }
	mul := func(x, y kyber.Scalar) kyber.Scalar { return w.S.Scalar().Mul(x, y) }
	switch cls {
	case "altcoef": // last coefficient + 2G: f'(x) = f(x) + 2 x^(T-1)   (deal kind badcommit uses + G)
		two := w.S.Scalar().SetInt64(2)
		d.Commits[T-1] = w.S.Point().Add(d.Commits[T-1], w.S.Point().Mul(two, nil))
		d.V = d.V.Add(d.V, mul(two, w.xpow(i, T-1)))
	case "altlong", "altlongt": // session's commitments plus one more coefficient: f'(x) = f(x) + x^T
		d.Commits = append(d.Commits, w.S.Point().Base())
		d.V = d.V.Add(d.V, w.xpow(i, T))
		if cls == "altlongt" {
			if T+1 > w.N {
				return ErrUnwitnessed
			}
			d.T = uint32(T + 1)
		}
	case "altshort": // a prefix of the session's commitments: f'(x) = f(x) - a_(T-1) x^(T-1)
		d.Commits = d.Commits[:T-1]
		d.V = sub(d.V, mul(a[T-1], w.xpow(i, T-1)))
		if d.RV != nil {
			d.RV = sub(d.RV, mul(b[T-1], w.xpow(i, T-1)))
		}
	case "altperm": // first two coefficients swapped: f'(x) = f(x) + (a1 - a0) + (a0 - a1) x
		d.Commits[0], d.Commits[1] = d.Commits[1], d.Commits[0]
		d.V = d.V.Add(d.V, w.S.Scalar().Add(sub(a[1], a[0]), mul(sub(a[0], a[1]), w.xpow(i, 1))))
		if d.RV != nil {
			d.RV = d.RV.Add(d.RV, w.S.Scalar().Add(sub(b[1], b[0]), mul(sub(b[0], b[1]), w.xpow(i, 1))))
		}
	default:
		return fmt.Errorf("unknown class %q", cls)
	}
	return nil
}

// MakeJust concretises a justification class for the complaint of verifier i.
func (w *World) MakeJust(cls string, i int) (*Just, error) {
	j := &Just{SID: append([]byte(nil), w.SID...), Index: uint32(i), Deal: w.Honest[i%w.N].Clone()}
	key := w.DLong
	signed := true
	k := (i + 1) % w.N
	switch cls {
	case "correct":
	case "wrongshare":
		j.Deal.V = j.Deal.V.Add(j.Deal.V, w.one())
	case "otherindex":
		j.Deal = w.Honest[k].Clone()
	case "altcommit":
		// a share of an unrelated polynomial together with that polynomial's own commitments
		g := share.NewPriPoly(w.S, uint32(w.T), nil, w.S.RandomStream())
		_, cs := g.Commit(w.S.Point().Base()).Info()
		j.Deal.V = g.Eval(uint32(i)).V
		j.Deal.Commits = cs
		if j.Deal.RV != nil {
			j.Deal.RV = w.S.Scalar().Zero()
		}
	case "altcoef", "altshort", "altlong", "altlongt", "altperm":
		if err := w.altFamily(cls, i, j.Deal); err != nil {
			return nil, err
		}
	case "forgedcorrect":
		key = w.Other
	case "unsignedcorrect":
		signed = false
	case "unsignedother":
		j.Deal = w.Honest[k].Clone()
		signed = false
	case "unsignedwrong":
		j.Deal.V = j.Deal.V.Add(j.Deal.V, w.one())
		signed = false
	case "wrongsid":
		j.SID = append([]byte(nil), w.Alt.SessionID()...)
		j.Deal = w.AltDeal[i%w.N].Clone()
	case "oor":
		j.Index = uint32(w.N + 2)
	case "resigother", "resigindex":
		// the dealer's genuine signature of a correct justification, then a signed field is changed
		src := &Just{SID: j.SID, Index: uint32(i), Deal: w.Honest[i%w.N].Clone()}
		if cls == "resigindex" { // signed for verifier k (with k's deal), index rewritten to i
			src = &Just{SID: j.SID, Index: uint32(k), Deal: w.Honest[k].Clone()}
		}
		sig, err := schnorr.Sign(w.S, w.DLong, w.A.JustHash(w.S, src))
		if err != nil {
			return nil, err
		}
		j.Deal = w.Honest[k].Clone()
		j.Sig = sig
		return j, nil
	default:
		return nil, fmt.Errorf("unknown justification class %q", cls)
	}
	if signed {
		sig, err := schnorr.Sign(w.S, key, w.A.JustHash(w.S, j))
		if err != nil {
			return nil, err
		}
		j.Sig = sig
	}
	return j, nil
}
