package vss

import (
	"errors"

	"go.dedis.ch/kyber/v4"
	"go.dedis.ch/kyber/v4/share"
	rvss "go.dedis.ch/kyber/v4/share/vss/rabin"
)

// Rabin adapter ----------------------------------------------------------------

type rabAdapter struct{}

func Rabin() Adapter { return rabAdapter{} }

func (rabAdapter) Name() string { return "rabin" }

func (rabAdapter) MinimumT(n uint32) uint32 { return rvss.MinimumT(n) }

func rabDealTo(d *rvss.Deal) *PDeal {
	if d == nil {
		return nil
	}
	o := &PDeal{SID: append([]byte(nil), d.SessionID...), T: d.T}
	if d.SecShare != nil {
		o.I = d.SecShare.I
		if d.SecShare.V != nil {
			o.V = d.SecShare.V.Clone()
		}
	}
	if d.RndShare != nil {
		o.RI = d.RndShare.I
		if d.RndShare.V != nil {
			o.RV = d.RndShare.V.Clone()
		}
	}
	for _, c := range d.Commitments {
		o.Commits = append(o.Commits, c.Clone())
	}
	return o
}

func rabDealFrom(d *PDeal) *rvss.Deal {
	if d == nil {
		return nil
	}
	o := &rvss.Deal{SessionID: append([]byte(nil), d.SID...), T: d.T,
		SecShare: &share.PriShare{I: d.I}, RndShare: &share.PriShare{I: d.RI}}
	if d.V != nil {
		o.SecShare.V = d.V.Clone()
	}
	if d.RV != nil {
		o.RndShare.V = d.RV.Clone()
	}
	for _, c := range d.Commits {
		o.Commitments = append(o.Commitments, c.Clone())
	}
	return o
}

func rabResp(r *Resp) *rvss.Response {
	return &rvss.Response{SessionID: append([]byte(nil), r.SID...), Index: r.Index, Approved: r.Approved,
		Signature: append([]byte(nil), r.Sig...)}
}

func rabRespTo(r *rvss.Response) *Resp {
	if r == nil {
		return nil
	}
	return &Resp{SID: append([]byte(nil), r.SessionID...), Index: r.Index, Approved: r.Approved,
		Sig: append([]byte(nil), r.Signature...)}
}

func rabJust(j *Just) *rvss.Justification {
	return &rvss.Justification{SessionID: append([]byte(nil), j.SID...), Index: j.Index, Deal: rabDealFrom(j.Deal),
		Signature: append([]byte(nil), j.Sig...)}
}

func (rabAdapter) RespHash(s Suite, r *Resp) []byte { return rabResp(r).Hash(s) }
func (rabAdapter) JustHash(s Suite, j *Just) []byte { return rabJust(j).Hash(s) }
func (rabAdapter) MarshalDeal(d *PDeal) ([]byte, error) {
	return rabDealFrom(d).Marshal()
}

func (rabAdapter) Context(s Suite, dealer kyber.Point, verifiers []kyber.Point) []byte {
	h := s.XOF([]byte("vss-dealer"))
	_, _ = dealer.MarshalTo(h)
	_, _ = h.Write([]byte("vss-verifiers"))
	for _, v := range verifiers {
		_, _ = v.MarshalTo(h)
	}
	sum := make([]byte, 128)
	_, _ = h.Read(sum)
	return sum
}

func (rabAdapter) RecoverSecret(s Suite, deals []*PDeal, n, t uint32) (kyber.Scalar, error) {
	ds := make([]*rvss.Deal, len(deals))
	for i, d := range deals {
		ds[i] = rabDealFrom(d)
	}
	return rvss.RecoverSecret(s, ds, n, t)
}

type rabDealer struct{ d *rvss.Dealer }

func (rabAdapter) NewDealer(s Suite, long, secret kyber.Scalar, verifiers []kyber.Point, t uint32) (DealerH, error) {
	d, err := rvss.NewDealer(s, long, secret, verifiers, t)
	if err != nil {
		return nil, err
	}
	return &rabDealer{d}, nil
}

func (p *rabDealer) DealCertified() bool           { return p.d.DealCertified() }
func (p *rabDealer) EnoughApprovals() (bool, bool) { return p.d.EnoughApprovals(), true }
func (p *rabDealer) HasEnough() bool               { return true }
func (p *rabDealer) SetTimeout()                   { p.d.SetTimeout() }
func (p *rabDealer) State() *AggState              { return stateOf(p.d) }
func (p *rabDealer) Responses() (map[uint32]bool, bool) {
	if st := stateOf(p.d); st != nil {
		return st.Resp, true
	}
	return nil, false
}
func (p *rabDealer) Deal(i int) *PDeal {
	d, err := p.d.PlaintextDeal(i)
	if err != nil {
		return nil
	}
	return rabDealTo(d)
}
func (p *rabDealer) SetDeal(i int, n *PDeal) {
	d, err := p.d.PlaintextDeal(i)
	if err != nil {
		return
	}
	f := rabDealFrom(n)
	d.SessionID, d.SecShare, d.RndShare, d.T, d.Commitments = f.SessionID, f.SecShare, f.RndShare, f.T, f.Commitments
}
func (p *rabDealer) EncryptedDeal(i int) (*Enc, error) {
	e, err := p.d.EncryptedDeal(i)
	if err != nil {
		return nil, err
	}
	dh, err := e.DHKey.MarshalBinary()
	if err != nil {
		return nil, err
	}
	return &Enc{DH: dh, Sig: e.Signature, Cipher: e.Cipher}, nil
}
func (p *rabDealer) ProcessResponse(r *Resp) (*Just, error) {
	j, err := p.d.ProcessResponse(rabResp(r))
	if j == nil {
		return nil, err
	}
	return &Just{SID: append([]byte(nil), j.SessionID...), Index: j.Index, Deal: rabDealTo(j.Deal),
		Sig: append([]byte(nil), j.Signature...)}, err
}
func (p *rabDealer) SecretCommit() kyber.Point { return p.d.SecretCommit() }
func (p *rabDealer) SessionID() []byte         { return p.d.SessionID() }
func (p *rabDealer) Commits() []kyber.Point    { return p.d.Commits() }

type rabVerifier struct {
	v *rvss.Verifier
	s Suite
}

func (rabAdapter) NewVerifier(s Suite, long kyber.Scalar, dealer kyber.Point, verifiers []kyber.Point) (VerifierH, error) {
	v, err := rvss.NewVerifier(s, long, dealer, verifiers)
	if err != nil {
		return nil, err
	}
	return &rabVerifier{v, s}, nil
}

func (p *rabVerifier) DealCertified() bool           { return p.v.DealCertified() }
func (p *rabVerifier) EnoughApprovals() (bool, bool) { return p.v.EnoughApprovals(), true }
func (p *rabVerifier) HasEnough() bool               { return true }
func (p *rabVerifier) SetTimeout()                   { p.v.SetTimeout() }
func (p *rabVerifier) State() *AggState              { return stateOf(p.v) }
func (p *rabVerifier) Responses() (map[uint32]bool, bool) {
	if st := stateOf(p.v); st != nil {
		return st.Resp, true
	}
	return nil, false
}
func (p *rabVerifier) ProcessEncryptedDeal(e *Enc) (*Resp, error) {
	dh := p.s.Point()
	if err := dh.UnmarshalBinary(e.DH); err != nil {
		return nil, errors.Join(ErrUnwitnessed, err)
	}
	r, err := p.v.ProcessEncryptedDeal(&rvss.EncryptedDeal{DHKey: dh,
		Signature: append([]byte(nil), e.Sig...), Cipher: append([]byte(nil), e.Cipher...)})
	return rabRespTo(r), err
}
func (p *rabVerifier) ProcessResponse(r *Resp) error { return p.v.ProcessResponse(rabResp(r)) }
func (p *rabVerifier) ProcessJustification(j *Just) error {
	return p.v.ProcessJustification(rabJust(j))
}
func (p *rabVerifier) Deal() *PDeal               { return rabDealTo(p.v.Deal()) }
func (p *rabVerifier) SetThreshold(t uint32) bool { return false }

// ErrUnwitnessed marks a class the harness could not concretise for this variant.
var ErrUnwitnessed = errors.New("unwitnessed")
