package share

// Routes: every exported way of obtaining a PriPoly / PubPoly for the same
// abstract polynomial (spec/Shamir.tla, "ROUTES"). TLC names the route and
// supplies its ingredients (split c = sa + sb, factorisation c = <<mulk>> *
// mulc, indices to recover from); this file only performs the construction.

import (
	"crypto/cipher"
	"fmt"
	"go.dedis.ch/kyber/v4/xof/blake2xb"

	"go.dedis.ch/kyber/v4"
	kshare "go.dedis.ch/kyber/v4/share"
)

// Route names how the PriPoly and the PubPoly under test are built.
type Route struct {
	Pri string `json:"pri"`
	Pub string `json:"pub"`
}

// scriptStream is a cipher.Stream whose key stream is a fixed byte script
// (zeros afterwards): random.Int over a one-byte modulus then picks exactly
// the scripted values.
type scriptStream struct {
	key  []byte
	pos  int
	tail kyber.XOF
}

func (s *scriptStream) XORKeyStream(dst, src []byte) {
	for i := range src {
		var k byte
		if s.pos < len(s.key) {
			k = s.key[s.pos]
		} else {
			// past the script: a deterministic non-constant key stream, so that a library loop that
			// keeps drawing (e.g. rejection sampling that never accepts the scripted value) terminates
			if s.tail == nil {
				s.tail = blake2xb.New(append([]byte("script-tail"), s.key...))
			}
			var b [1]byte
			s.tail.XORKeyStream(b[:], b[:])
			k = b[0]
		}
		s.pos++
		dst[i] = src[i] ^ k
	}
}

var _ cipher.Stream = (*scriptStream)(nil)

func (t *tiny) polyOf(c []int64) *kshare.PriPoly {
	co := make([]kyber.Scalar, len(c))
	for i, v := range c {
		co[i] = t.sc(v)
	}
	return kshare.CoefficientsToPriPoly(t.g, co)
}

// buildRoute constructs the objects of a checkall step on the tiny group.
func (t *tiny) buildRoute(bh Behaviour, step int, dl *dealt, rt Route) (*kshare.PriPoly, *kshare.PubPoly, bool) {
	d, r := bh[0], bh[step]
	tt, nn := uint32(d.T), uint32(d.N)
	fail := func(fn, route, kind string, got any) (*kshare.PriPoly, *kshare.PubPoly, bool) {
		t.violate(fn, "route:"+route, kind, bh, step, "the dealt polynomial", got)
		return nil, nil, false
	}
	var pri *kshare.PriPoly
	switch rt.Pri {
	case "coeffs":
		pri = t.polyOf(d.C)
	case "newpri":
		key := make([]byte, 0, len(d.C))
		for _, c := range d.C[1:] {
			key = append(key, byte(c))
		}
		pri = kshare.NewPriPoly(t.g, tt, t.sc(d.C[0]), &scriptStream{key: key})
		if int(pri.Threshold()) != d.T || num(pri.Secret()) != d.C[0] {
			return fail("NewPriPoly", rt.Pri, "threshold-or-secret", []any{pri.Threshold(), num(pri.Secret())})
		}
		if !eqInts(nums(pri.Coefficients()), d.C) {
			// the library consumed the stream differently from the script: the remaining
			// coefficients are not TLC's, nothing further can be compared exactly
			t.res.Skip("newpri: stream script not followed")
			return nil, nil, false
		}
	case "recover":
		sh := make([]*kshare.PriShare, 0, len(r.Recs))
		for _, i := range r.Recs {
			sh = append(sh, &kshare.PriShare{I: uint32(i), V: dl.shares[i].V.Clone()})
		}
		p, err := kshare.RecoverPriPoly(t.g, sh, tt, nn)
		if err != nil {
			return fail("RecoverPriPoly", rt.Pri, "refused-with-t-shares", err.Error())
		}
		pri = p
	case "add":
		p, err := t.polyOf(r.Sa).Add(t.polyOf(r.Sb))
		if err != nil {
			return fail("PriPoly.Add", rt.Pri, "error", err.Error())
		}
		pri = p
	case "mul":
		pri = t.polyOf([]int64{r.Mulk}).Mul(t.polyOf(r.Mulc))
	default:
		t.res.Skip("unknown pri route " + rt.Pri)
		return nil, nil, false
	}
	var pub *kshare.PubPoly
	switch rt.Pub {
	case "commit":
		pub = pri.Commit(dl.base)
	case "newpub":
		_, cs := pri.Commit(dl.base).Info()
		cl := make([]kyber.Point, len(cs))
		for i, c := range cs {
			cl[i] = c.Clone()
		}
		pub = kshare.NewPubPoly(t.g, dl.base, cl)
	case "recover":
		sh := make([]*kshare.PubShare, 0, len(r.Recs))
		for _, i := range r.Recs {
			sh = append(sh, &kshare.PubShare{I: uint32(i), V: dl.pubs[i].V.Clone()})
		}
		q, err := kshare.RecoverPubPoly(t.g, sh, tt, nn)
		if err != nil {
			return fail("RecoverPubPoly", rt.Pub, "refused-with-t-shares", err.Error())
		}
		pub = q
	case "add":
		q, err := t.polyOf(r.Sa).Commit(dl.base).Add(t.polyOf(r.Sb).Commit(dl.base))
		if err != nil {
			return fail("PubPoly.Add", rt.Pub, "error", err.Error())
		}
		pub = q
	default:
		t.res.Skip("unknown pub route " + rt.Pub)
		return nil, nil, false
	}
	return pri, pub, true
}

// liftedRoute constructs the objects of a route on a real group from the
// dealer's polynomial (read back as coefficients).
func (l *lifted) liftedRoute(dl *dealt, rt Route, recs []int, t, n uint32, stream cipher.Stream) (*kshare.PriPoly, *kshare.PubPoly, error) {
	g := l.gi.Group
	coef := dl.poly.Coefficients()
	clone := func(xs []kyber.Scalar) []kyber.Scalar {
		out := make([]kyber.Scalar, len(xs))
		for i, x := range xs {
			out[i] = x.Clone()
		}
		return out
	}
	split := func() (*kshare.PriPoly, *kshare.PriPoly) {
		a := kshare.NewPriPoly(g, t, nil, stream)
		bc := make([]kyber.Scalar, len(coef))
		for i := range coef {
			bc[i] = g.Scalar().Sub(coef[i], a.Coefficients()[i])
		}
		return a, kshare.CoefficientsToPriPoly(g, bc)
	}
	var pri *kshare.PriPoly
	var sa, sb *kshare.PriPoly
	switch rt.Pri {
	case "coeffs":
		pri = kshare.CoefficientsToPriPoly(g, clone(coef))
	case "newpri":
		pri = dl.poly // NewPriPoly is how the dealer's polynomial was made
	case "recover":
		sh := make([]*kshare.PriShare, 0, len(recs))
		for _, i := range recs {
			sh = append(sh, &kshare.PriShare{I: uint32(i), V: dl.shares[i].V.Clone()})
		}
		p, err := kshare.RecoverPriPoly(g, sh, t, n)
		if err != nil {
			return nil, nil, fmt.Errorf("RecoverPriPoly: %w", err)
		}
		pri = p
	case "add":
		sa, sb = split()
		p, err := sa.Add(sb)
		if err != nil {
			return nil, nil, fmt.Errorf("PriPoly.Add: %w", err)
		}
		pri = p
	case "mul":
		two := g.Scalar().SetInt64(2)
		half := g.Scalar().Inv(two)
		mc := make([]kyber.Scalar, len(coef))
		for i := range coef {
			mc[i] = g.Scalar().Mul(coef[i], half)
		}
		pri = kshare.CoefficientsToPriPoly(g, []kyber.Scalar{two}).Mul(kshare.CoefficientsToPriPoly(g, mc))
	default:
		return nil, nil, nil
	}
	var pub *kshare.PubPoly
	switch rt.Pub {
	case "commit":
		pub = pri.Commit(dl.base)
	case "newpub":
		_, cs := pri.Commit(dl.base).Info()
		cl := make([]kyber.Point, len(cs))
		for i, c := range cs {
			cl[i] = l.gi.Fix(c.Clone())
		}
		pub = kshare.NewPubPoly(g, dl.base, cl)
	case "recover":
		sh := make([]*kshare.PubShare, 0, len(recs))
		for _, i := range recs {
			sh = append(sh, &kshare.PubShare{I: uint32(i), V: dl.pubs[i].V.Clone()})
		}
		q, err := kshare.RecoverPubPoly(g, sh, t, n)
		if err != nil {
			return nil, nil, fmt.Errorf("RecoverPubPoly: %w", err)
		}
		pub = q
	case "add":
		if sa == nil {
			sa, sb = split()
		}
		q, err := sa.Commit(dl.base).Add(sb.Commit(dl.base))
		if err != nil {
			return nil, nil, fmt.Errorf("PubPoly.Add: %w", err)
		}
		pub = q
	default:
		return nil, nil, nil
	}
	return pri, pub, nil
}
