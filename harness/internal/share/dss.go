package share

// C12: replay of spec/DSS.tla behaviours against real dss.DSS objects whose
// long-term and one-time distributed keys come from honest runs of BOTH DKG
// implementations (and from a plain Shamir dealer, which also reaches t = 1).
//
// The Go side only concretises the abstract partial-signature kinds and
// projects the object (ProcessPartialSig result class, EnoughPartialSig,
// Signature ok/refused + bytes).  Which step must be accepted, when a
// signature must exist, comes from the behaviour.

import (
	"bytes"
	"crypto/ed25519"
	"encoding/json"
	"errors"
	"fmt"
	"math"
	"runtime"
	"strings"
	"sync"

	"go.dedis.ch/kyber/v4"
	"go.dedis.ch/kyber/v4/group/edwards25519"
	kshare "go.dedis.ch/kyber/v4/share"
	pdkg "go.dedis.ch/kyber/v4/share/dkg/pedersen"
	rdkg "go.dedis.ch/kyber/v4/share/dkg/rabin"
	"go.dedis.ch/kyber/v4/sign/dss"
	"go.dedis.ch/kyber/v4/sign/eddsa"
	"go.dedis.ch/kyber/v4/sign/schnorr"
	"go.dedis.ch/kyber/v4/xof/blake2xb"

	"verifharness/internal/core"
)

// DSSConfig configures the C12 drivers.
type DSSConfig struct {
	Prop    string
	In      string
	Seed    int64
	Max     int    // behaviours per key source (0 = all)
	Sources string // comma list out of pedersen,rabin,dealer (empty = all)
	Traces  string // dss-record: output file
	Runs    int    // dss-record: number of random runs
}

var allSources = []string{"pedersen", "rabin", "dealer"}

func pickSources(filter string) []string {
	if filter == "" {
		return allSources
	}
	var out []string
	for _, s := range strings.Split(filter, ",") {
		for _, a := range allSources {
			if s == a {
				out = append(out, s)
			}
		}
	}
	return out
}

// DStep is one record of a DSS behaviour.
type DStep struct {
	Op     string `json:"op"`
	N      int    `json:"n"`
	T      int    `json:"t"`
	Tk     int    `json:"tk"` // new: threshold the distributed keys were generated with (0 = t)
	P      int    `json:"p"`
	Kind   string `json:"kind"`
	Var    string `json:"var"` // othermsg: which other message (relative to the session's)
	Msg    string `json:"msg"` // new: message class of the session
	From   int    `json:"from"`
	Res    string `json:"res"`
	Acc    []int  `json:"acc"`
	Signed bool   `json:"signed"`
	Enough bool   `json:"enough"`
}

type DBehaviour []DStep

// plainShare is a DistKeyShare dealt by a trusted Shamir dealer.
type plainShare struct {
	s *kshare.PriShare
	c []kyber.Point
}

func (p *plainShare) PriShare() *kshare.PriShare { return p.s }
func (p *plainShare) Commitments() []kyber.Point { return p.c }

// session is one (key source, n, t): participants, both distributed keys, and
// the honest partial signatures of every participant.
type session struct {
	src   string
	n, t  int
	suite *edwards25519.SuiteEd25519
	secs  []kyber.Scalar
	pubs  []kyber.Point
	long  []dss.DistKeyShare
	rnd   []dss.DistKeyShare
	rnd2  []dss.DistKeyShare // one-time key of ANOTHER session
	msg   []byte
	class string // message class of the session
	omu   sync.Mutex
	ocach map[string]*dss.PartialSig // partials for other messages, by variant/signer
	valid []*dss.PartialSig
	osess []*dss.PartialSig
	mu    sync.Mutex
	canon []byte // the signature of this session (first one produced)
	who   string
}

func pedersenDKG(suite *edwards25519.SuiteEd25519, secs []kyber.Scalar, pubs []kyber.Point, t int) ([]dss.DistKeyShare, error) {
	n := len(secs)
	nodes := make([]pdkg.Node, n)
	for i := range nodes {
		nodes[i] = pdkg.Node{Index: uint32(i), Public: pubs[i]}
	}
	nonce := pdkg.GetNonce()
	gens := make([]*pdkg.DistKeyGenerator, n)
	for i := range gens {
		c := &pdkg.Config{Suite: suite, Longterm: secs[i], NewNodes: nodes, Threshold: uint32(t), Nonce: nonce,
			Auth: schnorr.NewScheme(suite)}
		g, err := pdkg.NewDistKeyHandler(c)
		if err != nil {
			return nil, err
		}
		gens[i] = g
	}
	var deals []*pdkg.DealBundle
	for _, g := range gens {
		d, err := g.Deals()
		if err != nil {
			return nil, err
		}
		deals = append(deals, d)
	}
	var resps []*pdkg.ResponseBundle
	for _, g := range gens {
		r, err := g.ProcessDeals(deals)
		if err != nil {
			return nil, err
		}
		if r != nil {
			resps = append(resps, r)
		}
	}
	out := make([]dss.DistKeyShare, n)
	for i, g := range gens {
		res, just, err := g.ProcessResponses(resps)
		if err != nil {
			return nil, err
		}
		if res == nil || just != nil {
			return nil, fmt.Errorf("honest pedersen dkg did not finish after the response phase")
		}
		out[i] = res.Key
	}
	return out, nil
}

func rabinDKG(suite *edwards25519.SuiteEd25519, secs []kyber.Scalar, pubs []kyber.Point, t int) ([]dss.DistKeyShare, error) {
	n := len(secs)
	gens := make([]*rdkg.DistKeyGenerator, n)
	for i := range gens {
		g, err := rdkg.NewDistKeyGenerator(suite, secs[i], pubs, uint32(t))
		if err != nil {
			return nil, err
		}
		gens[i] = g
	}
	var resps []*rdkg.Response
	for _, g := range gens {
		deals, err := g.Deals()
		if err != nil {
			return nil, err
		}
		for i, d := range deals {
			r, err := gens[i].ProcessDeal(d)
			if err != nil {
				return nil, err
			}
			if !r.Response.Approved {
				return nil, fmt.Errorf("honest rabin dkg: deal not approved")
			}
			resps = append(resps, r)
		}
	}
	for _, r := range resps {
		for h, g := range gens {
			if r.Response.Index == uint32(h) {
				continue
			}
			j, err := g.ProcessResponse(r)
			if err != nil || j != nil {
				return nil, fmt.Errorf("honest rabin dkg: response: %v", err)
			}
		}
	}
	for i, g := range gens {
		sc, err := g.SecretCommits()
		if err != nil {
			return nil, err
		}
		for j, g2 := range gens {
			if i == j {
				continue
			}
			cc, err := g2.ProcessSecretCommits(sc)
			if err != nil || cc != nil {
				return nil, fmt.Errorf("honest rabin dkg: secret commits: %v", err)
			}
		}
	}
	out := make([]dss.DistKeyShare, n)
	for i, g := range gens {
		// DistKeyShare is a query: asking twice (once for the public key, once to build the DSS) must give
		// the same share
		first, err := g.DistKeyShare()
		if err != nil {
			return nil, err
		}
		k, err := g.DistKeyShare()
		if err != nil {
			return nil, &keyDefect{"DistKeyShare", "second-call-refused", err.Error()}
		}
		if first.Share.I != k.Share.I || !first.Share.V.Equal(k.Share.V) || len(first.Commits) != len(k.Commits) {
			return nil, &keyDefect{"DistKeyShare", "second-call-differs", fmt.Sprintf("participant %d: %v then %v", i, first.Share, k.Share)}
		}
		for j := range k.Commits {
			if !first.Commits[j].Equal(k.Commits[j]) {
				return nil, &keyDefect{"DistKeyShare", "second-call-differs", fmt.Sprintf("participant %d: commitment %d", i, j)}
			}
		}
		out[i] = k
	}
	return out, nil
}

// keyDefect: an honest DKG run completed but handed out key material that is not a sharing of one key.
type keyDefect struct{ fn, kind, detail string }

func (e *keyDefect) Error() string { return e.fn + ": " + e.kind + ": " + e.detail }

// checkKeys requires every participant's share to lie on the public polynomial all of them report.
func checkKeys(suite *edwards25519.SuiteEd25519, keys []dss.DistKeyShare) error {
	ref := keys[0].Commitments()
	for i, k := range keys {
		cs := k.Commitments()
		if len(cs) != len(ref) {
			return &keyDefect{"DistKeyShare", "commitments-differ-between-participants", fmt.Sprint(i)}
		}
		for j := range cs {
			if !cs[j].Equal(ref[j]) {
				return &keyDefect{"DistKeyShare", "commitments-differ-between-participants", fmt.Sprint(i)}
			}
		}
		sh := k.PriShare()
		if int(sh.I) != i || !kshare.NewPubPoly(suite, nil, cs).Check(sh) {
			return &keyDefect{"DistKeyShare", "share-off-public-polynomial", fmt.Sprintf("participant %d", i)}
		}
	}
	return nil
}

func dealerKey(suite *edwards25519.SuiteEd25519, n, t int) []dss.DistKeyShare {
	poly := kshare.NewPriPoly(suite, uint32(t), nil, suite.RandomStream())
	_, commits := poly.Commit(nil).Info()
	out := make([]dss.DistKeyShare, n)
	for i, s := range poly.Shares(uint32(n)) {
		out[i] = &plainShare{s: s, c: commits}
	}
	return out
}

func distKey(src string, suite *edwards25519.SuiteEd25519, secs []kyber.Scalar, pubs []kyber.Point, t int) (out []dss.DistKeyShare, err error) {
	msg, _, p := core.Try(func() {
		switch src {
		case "pedersen":
			out, err = pedersenDKG(suite, secs, pubs, t)
		case "rabin":
			out, err = rabinDKG(suite, secs, pubs, t)
		default:
			out = dealerKey(suite, len(secs), t)
		}
	})
	if p {
		return nil, fmt.Errorf("panic: %s", msg)
	}
	if err == nil {
		err = checkKeys(suite, out)
	}
	return out, err
}

// setupRefused: the library refused a step of an HONEST session set-up (not the DKG, which is C11's).
type setupRefused struct {
	stage string
	class string // message class concerned
	err   error
}

func (e *setupRefused) Error() string { return e.stage + ": " + e.err.Error() }

// msgBytes concretises a message class.
func msgBytes(class string) []byte {
	pat := func(n int) []byte {
		b := make([]byte, n)
		for i := range b {
			b[i] = byte(37*i + 11)
		}
		return b
	}
	switch class {
	case "nil":
		return nil
	case "empty":
		return []byte{}
	case "b1":
		return []byte{0x61}
	case "b64":
		return pat(64)
	case "b4096":
		return pat(4096)
	default: // "text"
		return []byte("C12 message to be signed")
	}
}

// otherMsg concretises "another message" relative to m; label names its class for violation keys.
func otherMsg(m []byte, variant string) (out []byte, label string) {
	switch variant {
	case "empty":
		return []byte{}, "empty"
	case "b1":
		return []byte{0x61}, "b1"
	case "prefix":
		return append([]byte{}, m[:len(m)-1]...), "other:prefix"
	case "flip":
		o := append([]byte{}, m...)
		o[len(o)-1] ^= 1
		return o, "other:flip"
	default: // "ext"
		return append(append([]byte{}, m...), 0), "other:ext"
	}
}

func (s *session) mkPartial(i int, rnd []dss.DistKeyShare, msg []byte, class string) (*dss.PartialSig, error) {
	d, err := dss.NewDSS(s.suite, s.secs[i], s.pubs, s.long[i], rnd[i], msg, uint32(s.t))
	if err != nil {
		return nil, &setupRefused{"NewDSS", class, err}
	}
	ps, err := d.PartialSig()
	if err != nil {
		return nil, &setupRefused{"PartialSig", class, err}
	}
	return ps, nil
}

func newSession(src string, n, t, tk int, class string, seed int64) (*session, error) {
	suite := edwards25519.NewBlakeSHA256Ed25519()
	s := &session{src: src, n: n, t: t, suite: suite, class: class, msg: msgBytes(class), ocach: map[string]*dss.PartialSig{}}
	st := blake2xb.New([]byte(fmt.Sprintf("C12 participants %d %s %d %d", seed, src, n, t)))
	for i := 0; i < n; i++ {
		sc := suite.Scalar().Pick(st)
		s.secs = append(s.secs, sc)
		s.pubs = append(s.pubs, suite.Point().Mul(sc, nil))
	}
	var err error
	if s.long, err = distKey(src, suite, s.secs, s.pubs, tk); err != nil {
		return nil, err
	}
	if s.rnd, err = distKey(src, suite, s.secs, s.pubs, tk); err != nil {
		return nil, err
	}
	if s.rnd2, err = distKey(src, suite, s.secs, s.pubs, tk); err != nil {
		return nil, err
	}
	for i := 0; i < n; i++ {
		a, err := s.mkPartial(i, s.rnd, s.msg, class)
		if err != nil {
			return nil, err
		}
		b, err := s.mkPartial(i, s.rnd2, s.msg, class)
		if err != nil {
			return nil, err
		}
		s.valid, s.osess = append(s.valid, a), append(s.osess, b)
	}
	return s, nil
}

func clonePS(ps *dss.PartialSig) *dss.PartialSig {
	return &dss.PartialSig{
		Partial:   &kshare.PriShare{I: ps.Partial.I, V: ps.Partial.V.Clone()},
		SessionID: append([]byte(nil), ps.SessionID...),
		Signature: append([]byte(nil), ps.Signature...),
	}
}

// concretise builds the partial signature of an abstract kind. variant selects
// among equivalent concretisations (deterministic per behaviour step).
func (s *session) concretise(kind, msgVar string, from int, variant uint64) (*dss.PartialSig, error) {
	resign := func(ps *dss.PartialSig, signer int) error {
		sig, err := schnorr.Sign(s.suite, s.secs[signer], ps.Hash(s.suite))
		ps.Signature = sig
		return err
	}
	switch kind {
	case "valid", "dup":
		return clonePS(s.valid[from]), nil
	case "badvalue":
		ps := clonePS(s.valid[from])
		if s.t == 1 {
			variant %= 2 // with t = 1 every signer's value is the same: variant 2 would be a VALID partial
		}
		switch variant % 3 {
		case 0:
			ps.Partial.V = ps.Partial.V.Add(ps.Partial.V, s.suite.Scalar().One())
		case 1:
			ps.Partial.V = s.suite.Scalar().Zero()
		default: // another signer's correct value under this index
			ps.Partial.V = s.valid[(from+1)%s.n].Partial.V.Clone()
		}
		return ps, resign(ps, from)
	case "forged":
		ps := clonePS(s.valid[from])
		switch variant % 3 {
		case 0: // a correct Schnorr signature, but by another participant
			return ps, resign(ps, (from+1)%s.n)
		case 1:
			ps.Signature[len(ps.Signature)-1] ^= 1
		default:
			ps.Signature = bytes.Repeat([]byte{0x42}, len(ps.Signature))
		}
		return ps, nil
	case "othersession":
		return clonePS(s.osess[from]), nil
	case "othermsg":
		// signer `from` honestly signs ANOTHER message with the same keys
		if msgVar == "" {
			msgVar = "ext"
		}
		k := fmt.Sprintf("%s/%d", msgVar, from)
		s.omu.Lock()
		defer s.omu.Unlock()
		if ps, ok := s.ocach[k]; ok {
			return clonePS(ps), nil
		}
		om, label := otherMsg(s.msg, msgVar)
		ps, err := s.mkPartial(from, s.rnd, om, label)
		if err != nil {
			return nil, err
		}
		s.ocach[k] = ps
		return clonePS(ps), nil
	case "badindex":
		ps := clonePS(s.valid[int(variant%uint64(s.n))])
		switch from {
		case -1:
			ps.Partial.I = math.MaxUint32
		default:
			ps.Partial.I = uint32(from)
		}
		return ps, resign(ps, int(variant%uint64(s.n)))
	}
	return nil, fmt.Errorf("unknown partial kind %q", kind)
}

type sessions struct {
	mu       sync.Mutex
	m        map[string]*session
	errs     map[string]string
	seed     int64
	res      *core.Result
	prop     string
	panicked bool
}

// refused reports a refused honest set-up step as a violation.
func (ss *sessions) refused(src string, n, t int, e *setupRefused) {
	if ss.res == nil {
		return
	}
	ss.res.Violate(fmt.Sprintf("%s/%s/setup/msg:%s/refused", ss.prop, src, e.class),
		fmt.Sprintf("an honest DSS session for a message of class %q cannot be set up with %s keys: %s refused", e.class, src, e.stage),
		map[string]any{"source": src, "n": n, "t": t, "stage": e.stage, "message_class": e.class, "error": e.err.Error()})
}

func (ss *sessions) get(src string, n, t, tk int, class string) *session {
	if tk <= 0 {
		tk = t
	}
	if class == "" {
		class = "text"
	}
	k := fmt.Sprintf("%s/%d/%d/%d/%s", src, n, t, tk, class)
	ss.mu.Lock()
	defer ss.mu.Unlock()
	if s, ok := ss.m[k]; ok {
		return s
	}
	var s *session
	var err error
	if msg, stack, pn := core.Try(func() { s, err = newSession(src, n, t, tk, class, ss.seed) }); pn {
		s, err = nil, fmt.Errorf("panic: %s", msg)
		ss.panicked = true
		if ss.res != nil {
			ss.res.Violate(fmt.Sprintf("%s/%s/setup/panic", ss.prop, src), "panic while the honest participants set up a DSS session: "+msg,
				map[string]any{"source": src, "n": n, "t": t, "stack": stack})
		}
	}
	if err != nil {
		var sr *setupRefused
		if errors.As(err, &sr) {
			ss.refused(src, n, t, sr)
			ss.panicked = true // a verdict was recorded: not a machinery failure
		}
		var kd *keyDefect
		if errors.As(err, &kd) {
			ss.panicked = true
			if ss.res != nil {
				ss.res.Violate(fmt.Sprintf("%s/%s/setup/%s/%s", ss.prop, src, kd.fn, kd.kind),
					fmt.Sprintf("keys for DSS from an honest %s DKG: %s %s", src, kd.fn, kd.kind),
					map[string]any{"source": src, "n": n, "dkg_threshold": tk, "detail": kd.detail})
			}
		}
		ss.errs[k] = err.Error()
		s = nil
	}
	ss.m[k] = s
	return s
}

func caseLabel(st DStep, selfFirst bool) string {
	l := st.Op + ":" + st.Kind
	if st.Op == "recv" && st.From == st.P {
		l += ":self"
	}
	root := "regular"
	if selfFirst {
		root = "own-partial-received-before-sign"
	}
	return root + "/" + l
}

// replayDSS steps one real DSS object through a behaviour. It returns the number of steps executed.
func replayDSS(prop string, s *session, bh DBehaviour, id string, res *core.Result, ev *evalBatch) int {
	p := bh[0].P
	var d *dss.DSS
	var err error
	viol := func(label, obs, kind string, step int, exp, got any) {
		res.Violate(fmt.Sprintf("%s/%s/%s/%s/%s", prop, s.src, label, obs, kind),
			fmt.Sprintf("dss with %s keys: %s at %s: %s", s.src, obs, label, kind),
			map[string]any{"behaviour": bh, "source": s.src, "step": step, "expected": exp, "got": got, "n": s.n, "t": s.t})
	}
	if d, err = dss.NewDSS(s.suite, s.secs[p], s.pubs, s.long[p], s.rnd[p], s.msg, uint32(s.t)); err != nil {
		viol("setup/msg:"+s.class, "NewDSS", "refused", 0, "ok", err.Error())
		return 0
	}
	selfFirst := false
	pub := s.long[0].Commitments()[0]
	pubBytes, _ := pub.MarshalBinary()
	for k := 1; k < len(bh); k++ {
		st := bh[k]
		if st.Op == "recv" && st.Kind == "valid" && st.From == p {
			selfFirst = true
		}
		label := caseLabel(st, selfFirst)
		ev.Eval(fmt.Sprintf("%s n%d t%d %s %s", s.src, s.n, s.t, s.class, id+fmt.Sprint(k)))
		switch st.Op {
		case "verifyall":
			// final phase: all participants verify the combined signature at the same time
			var sig []byte
			var serr error
			if msg, stack, pn := core.Try(func() { sig, serr = d.Signature() }); pn {
				viol("final", "Signature", "panic", k, "signature", msg+"\n"+stack)
				return k
			}
			if serr != nil {
				viol("final", "Signature", "refused-with-t-partials", k, "signature", serr.Error())
				return k
			}
			verifyConcurrently(s, st.From, sig, pub, pubBytes, func(verifier, kind string, got any) {
				viol("final", "concurrent:"+verifier, kind, k, st.Res, got)
			})
			continue
		case "sign":
			ps, err := d.PartialSig()
			if err != nil || ps == nil || int(ps.Partial.I) != p {
				viol(label, "PartialSig", "error", k, "partial of the participant", fmt.Sprint(err))
				return k
			}
			if st.Kind == "first" {
				// the issued partial must be one the other participants accept
				o := (p + 1) % s.n
				chk, err := dss.NewDSS(s.suite, s.secs[o], s.pubs, s.long[o], s.rnd[o], s.msg, uint32(s.t))
				if err == nil {
					err = chk.ProcessPartialSig(clonePS(ps))
				}
				if err != nil {
					viol(label, "PartialSig", "not-accepted-by-peer", k, "accept", err.Error())
					return k
				}
			}
		case "recv":
			ps, err := s.concretise(st.Kind, st.Var, st.From, core.Hash64(id, fmt.Sprint(k)))
			if err != nil {
				var sr *setupRefused
				if errors.As(err, &sr) { // the signer could not even produce its honest partial for the other message
					res.Violate(fmt.Sprintf("%s/%s/setup/msg:%s/refused", prop, s.src, sr.class),
						fmt.Sprintf("an honest DSS object for a message of class %q cannot be set up with %s keys: %s refused", sr.class, s.src, sr.stage),
						map[string]any{"behaviour": bh, "source": s.src, "step": k, "stage": sr.stage, "error": sr.err.Error()})
				} else {
					res.Skip("concretise:" + st.Kind)
				}
				return k
			}
			var perr error
			if msg, stack, pn := core.Try(func() { perr = d.ProcessPartialSig(ps) }); pn {
				viol(label, "ProcessPartialSig", "panic", k, st.Res, msg+"\n"+stack)
				return k
			}
			if (perr == nil) != (st.Res == "accept") {
				kind := "rejected"
				if perr == nil {
					kind = "accepted"
				}
				viol(label, "ProcessPartialSig", kind, k, st.Res, fmt.Sprint(perr))
				return k
			}
		default:
			continue
		}
		// observations after every step
		if got := d.EnoughPartialSig(); got != st.Enough {
			kind := "false-with-t-partials"
			if got {
				kind = "true-below-t"
			}
			viol(label, "EnoughPartialSig", kind, k, st.Enough, got)
			return k
		}
		sig, serr := d.Signature()
		if (serr == nil) != st.Enough {
			kind := "refused-with-t-partials"
			if serr == nil {
				kind = "produced-below-t"
			}
			viol(label, "Signature", kind, k, st.Enough, fmt.Sprint(serr))
			return k
		}
		if serr != nil {
			continue
		}
		// every combiner must derive the same bytes; the three verifiers are pure functions of
		// (public key, message, bytes), so they run once per distinct signature of the session
		s.mu.Lock()
		first := s.canon == nil
		if first {
			s.canon, s.who = append([]byte(nil), sig...), fmt.Sprintf("participant %d holding %v", p, st.Acc)
		}
		same := bytes.Equal(s.canon, sig)
		who := s.who
		s.mu.Unlock()
		if !same {
			viol(label, "Signature", "differs-between-combiners", k, fmt.Sprintf("%x (%s)", s.canon, who), fmt.Sprintf("%x", sig))
			return k
		}
		if !first && core.Hash64(id, fmt.Sprint(k))%16 != 0 {
			continue
		}
		for _, vf := range verifiers(s, pub, pubBytes) {
			var verr error
			if msg, stack, pn := core.Try(func() { verr = vf.run(s.msg, sig) }); pn {
				viol(label, "Signature", vf.name+"-panics", k, "verifies", msg+"\n"+stack)
				return k
			}
			if verr != nil {
				viol(label, "Signature", vf.name+"-fails", k, "verifies", verr.Error())
				return k
			}
		}
		var other error
		others := [][]byte{append(append([]byte{}, s.msg...), 0)} // extension
		if len(s.msg) > 0 {
			others = append(others, []byte{}, s.msg[:len(s.msg)-1]) // the empty message, prefix
		} else {
			others = append(others, []byte{0x61}) // empty vs 1 byte
		}
		for _, om := range others {
			if msg, stack, pn := core.Try(func() { other = eddsa.Verify(pub, om, sig) }); pn {
				viol(label, "Signature", "eddsa.Verify-panics", k, "rejected", msg+"\n"+stack)
				return k
			}
			if other == nil {
				viol(label, "Signature", "verifies-for-another-message", k, "rejected", "verifies")
				return k
			}
		}
	}
	return len(bh) - 1
}

type verifier struct {
	name string
	run  func(msg, sig []byte) error
}

// verifiers are the ordinary signature verifiers the combined signature must pass under the distributed key.
func verifiers(s *session, pub kyber.Point, pubBytes []byte) []verifier {
	return []verifier{
		{"dss.Verify", func(m, sg []byte) error { return dss.Verify(pub, m, sg) }},
		{"eddsa.Verify", func(m, sg []byte) error { return eddsa.Verify(pub, m, sg) }},
		{"schnorr.Verify", func(m, sg []byte) error { return schnorr.Verify(s.suite, pub, m, sg) }},
		{"crypto/ed25519.Verify", func(m, sg []byte) error {
			if !ed25519.Verify(ed25519.PublicKey(pubBytes), m, sg) {
				return fmt.Errorf("crypto/ed25519.Verify returned false")
			}
			return nil
		}},
	}
}

// verifyConcurrently lets `parts` participants verify the same signature at the same time (goroutines
// released together), each through every verifier, a few rounds each. report is called once per
// (verifier, kind) that failed.
func verifyConcurrently(s *session, parts int, sig []byte, pub kyber.Point, pubBytes []byte, report func(verifier, kind string, got any)) {
	if parts < 2 {
		parts = 2
	}
	const rounds = 4
	type fail struct {
		verifier, kind, got string
	}
	start := make(chan struct{})
	out := make(chan fail, parts*8)
	var wg sync.WaitGroup
	for g := 0; g < parts; g++ {
		wg.Add(1)
		go func(g int) {
			defer wg.Done()
			vs := verifiers(s, pub.Clone(), append([]byte(nil), pubBytes...))
			mine := append([]byte(nil), sig...)
			msg := append([]byte(nil), s.msg...)
			<-start
			for r := 0; r < rounds; r++ {
				for _, vf := range vs {
					var verr error
					if m, stack, pn := core.Try(func() { verr = vf.run(msg, mine) }); pn {
						out <- fail{vf.name, "panic", m + "\n" + stack}
						return
					}
					if verr != nil {
						out <- fail{vf.name, "rejected", fmt.Sprintf("participant %d round %d: %v", g, r, verr)}
						return
					}
				}
			}
		}(g)
	}
	close(start)
	wg.Wait()
	close(out)
	seen := map[string]bool{}
	for f := range out {
		if !seen[f.verifier+f.kind] {
			seen[f.verifier+f.kind] = true
			report(f.verifier, f.kind, f.got)
		}
	}
}

// RunDSS replays DSS behaviours for every key source.
func RunDSS(cfg DSSConfig, res *core.Result) error {
	total, err := countLines(cfg.In)
	if err != nil {
		return err
	}
	srcs := pickSources(cfg.Sources)
	if len(srcs) == 0 {
		return fmt.Errorf("no key source selected")
	}
	ss := &sessions{m: map[string]*session{}, errs: map[string]string{}, seed: cfg.Seed, res: res, prop: cfg.Prop}
	workers := runtime.GOMAXPROCS(0)
	evs := make([]evalBatch, workers)
	per := make([]map[string]int, workers)
	steps := make([]int, workers)
	for w := range per {
		per[w] = map[string]int{}
	}
	var bad error
	var badMu sync.Mutex
	_, err = streamBehaviours(cfg.In, workers, func(w int, lb lineBatch) {
		for k, line := range lb.lines {
			j := lb.first + k
			var bh DBehaviour
			if err := json.Unmarshal(line, &bh); err != nil || len(bh) == 0 || bh[0].Op != "new" {
				badMu.Lock()
				bad = fmt.Errorf("bad DSS behaviour line %d: %v", j, err)
				badMu.Unlock()
				return
			}
			for _, src := range srcs {
				if cfg.Max > 0 && cfg.Max < total {
					keep := uint64(float64(^uint64(0)) * float64(cfg.Max) / float64(total))
					if core.Hash64(fmt.Sprint(cfg.Seed), src, fmt.Sprint(j)) > keep {
						continue
					}
				}
				s := ss.get(src, bh[0].N, bh[0].T, bh[0].Tk, bh[0].Msg)
				if s == nil {
					res.Skip(fmt.Sprintf("no %s session for n=%d t=%d", src, bh[0].N, bh[0].T))
					continue
				}
				if msg, stack, pn := core.Try(func() {
					steps[w] += replayDSS(cfg.Prop, s, bh, fmt.Sprintf("b%d ", j), res, &evs[w])
				}); pn {
					res.Violate(fmt.Sprintf("%s/%s/replay/panic", cfg.Prop, src), "panic in library code while replaying a DSS behaviour: "+msg,
						map[string]any{"behaviour": bh, "source": src, "stack": stack})
				}
				per[w][src]++
				if j%1777 == 0 {
					res.Sample(map[string]any{"keys": src, "behaviour": bh})
				}
			}
		}
		if len(evs[w].ids) > 20000 {
			evs[w].flush(res)
		}
	})
	for w := range evs {
		evs[w].flush(res)
	}
	if err == nil {
		err = bad
	}
	if err != nil {
		return err
	}
	agg := map[string]int{}
	nsteps := 0
	for w := range per {
		for k, v := range per[w] {
			agg[k] += v
		}
		nsteps += steps[w]
	}
	made := 0
	for _, s := range ss.m {
		if s != nil {
			made++
		}
	}
	if made == 0 && !ss.panicked {
		return fmt.Errorf("no session could be set up: %v", ss.errs)
	}
	res.AddTraces(total)
	res.SetExtra("behaviours_generated", total)
	res.SetExtra("behaviours_replayed_per_key_source", agg)
	res.SetExtra("steps_replayed", nsteps)
	res.SetExtra("sessions", made)
	if len(ss.errs) > 0 {
		res.SetExtra("key_setups_refused", ss.errs)
	}
	return nil
}
