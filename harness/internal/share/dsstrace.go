//go:build verif

package share

// C12, code -> spec: a randomized driver makes real dss.DSS objects issue and
// process partial signatures (valid and of every bad kind, in random order)
// and records what the object did as ndjson; spec/DSSTrace.tla then has to
// explain every recorded event.  The state projection comes from the
// add-only verif hook of sign/dss (VerifState).

import (
	"encoding/json"
	"errors"
	"fmt"
	"os"

	"go.dedis.ch/kyber/v4/sign/dss"

	"verifharness/internal/core"
)

type traceEv struct {
	Obj   int            `json:"obj"`
	Seq   int            `json:"seq"`
	Ev    string         `json:"ev"`
	Args  map[string]any `json:"args"`
	Ret   string         `json:"ret"`
	State map[string]any `json:"state"`
}

func projectDSS(d *dss.DSS) map[string]any {
	held, stored, signed := d.VerifState()
	acc := make([]int, len(held))
	for i, h := range held {
		acc[i] = int(h)
	}
	return map[string]any{"acc": acc, "stored": stored, "signed": signed, "enough": d.EnoughPartialSig()}
}

// RunDSSRecord drives random histories and writes their traces.
func RunDSSRecord(cfg DSSConfig, res *core.Result) error {
	f, err := os.Create(cfg.Traces)
	if err != nil {
		return err
	}
	defer f.Close()
	enc := json.NewEncoder(f)
	srcs := pickSources(cfg.Sources)
	ss := &sessions{m: map[string]*session{}, errs: map[string]string{}, seed: cfg.Seed, res: res, prop: cfg.Prop}
	rng := core.Rng(cfg.Seed, "dss-record")
	kinds := []string{"valid", "valid", "valid", "valid", "dup", "badvalue", "forged", "othersession", "othermsg", "badindex"}
	events := 0
	for run := 0; run < cfg.Runs; run++ {
		src := srcs[run%len(srcs)]
		n := 3 + rng.Intn(5)
		tmin := 2
		if src == "dealer" {
			tmin = 1
		}
		t := tmin + rng.Intn(n-tmin+1)
		class := []string{"nil", "empty", "b1", "text", "b64", "b4096"}[rng.Intn(6)]
		s := ss.get(src, n, t, t, class)
		if s == nil {
			res.Skip(fmt.Sprintf("no %s keys for n=%d t=%d", src, n, t))
			continue
		}
		p := rng.Intn(n)
		d, err := dss.NewDSS(s.suite, s.secs[p], s.pubs, s.long[p], s.rnd[p], s.msg, uint32(t))
		if err != nil {
			ss.refused(src, n, t, &setupRefused{"NewDSS", class, err})
			continue
		}
		obj := run + 1
		seq := 0
		emit := func(ev string, args map[string]any, ret string) {
			_ = enc.Encode(traceEv{Obj: obj, Seq: seq, Ev: ev, Args: args, Ret: ret, State: projectDSS(d)})
			seq++
			events++
		}
		emit("new", map[string]any{"n": n, "t": t, "p": p, "keys": src, "msg": class}, "ok")
		steps := n + 2 + rng.Intn(n+4)
		for k := 0; k < steps; k++ {
			switch c := rng.Intn(10); {
			case c == 0:
				var err error
				if msg, _, pn := core.Try(func() { _, err = d.PartialSig() }); pn {
					err = fmt.Errorf("panic: %s", msg)
				}
				emit("PartialSig", map[string]any{}, retOf(err))
			case c == 1:
				var err error
				if msg, _, pn := core.Try(func() { _, err = d.Signature() }); pn {
					err = fmt.Errorf("panic: %s", msg)
				}
				emit("Signature", map[string]any{}, retOf(err))
			default:
				kind := kinds[rng.Intn(len(kinds))]
				from := rng.Intn(n)
				if kind == "badindex" {
					from = []int{n, n + 1, -1}[rng.Intn(3)]
				}
				if kind == "dup" {
					kind = "valid" // the spec decides whether it is a duplicate
				}
				ovs := []string{"ext", "empty", "flip"}
				if len(s.msg) == 0 {
					ovs = []string{"ext", "b1"}
				}
				ps, err := s.concretise(kind, ovs[rng.Intn(len(ovs))], from, rng.Uint64())
				if err != nil {
					var sr *setupRefused
					if errors.As(err, &sr) {
						ss.refused(src, n, t, sr)
						break
					}
					return err
				}
				var perr error
				if msg, _, pn := core.Try(func() { perr = d.ProcessPartialSig(ps) }); pn {
					perr = fmt.Errorf("panic: %s", msg)
				}
				emit("ProcessPartialSig", map[string]any{"kind": kind, "from": from}, retOf(perr))
			}
			res.Eval(fmt.Sprintf("trace %d step %d", run, k))
		}
		if msg, _, pn := core.Try(func() { _, err = d.Signature() }); pn {
			err = fmt.Errorf("panic: %s", msg)
		}
		emit("Signature", map[string]any{}, retOf(err))
	}
	res.AddTraces(cfg.Runs)
	res.SetExtra("trace_events", events)
	res.Sample(map[string]any{"traces": cfg.Runs, "events": events})
	return nil
}

func retOf(err error) string {
	if err != nil {
		return "err"
	}
	return "ok"
}
