//go:build !verif

package share

import (
	"fmt"

	"verifharness/internal/core"
)

// RunDSSRecord needs the verif hooks of sign/dss (build tag verif).
func RunDSSRecord(cfg DSSConfig, res *core.Result) error {
	return fmt.Errorf("dss-record needs the harness to be built with -tags verif")
}
