package sig

// Buffer-reuse behaviours of C09 (spec/MultiSig.tla, NextBuf): long-lived bls /
// tbls / bdn scheme objects (one per environment, i.e. per (suite, group) and
// worker, shared by all behaviours) and ONE caller-owned message buffer that is
// overwritten in place between the calls.  The behaviour names the contents of
// the buffer at every call and the verdict they determine; reference values
// come from fresh scheme objects fed with fresh copies.

import (
	"bytes"
	"fmt"

	"go.dedis.ch/kyber/v4"
	"go.dedis.ch/kyber/v4/share"
	"go.dedis.ch/kyber/v4/sign/bdn"

	"verifharness/internal/core"
)

type bufInst struct {
	contents [][]byte // 1, 2 same length; 3 another length
	x        kyber.Scalar
	X        kyber.Point
	secret   kyber.Scalar
	shares   []*share.PriShare
	pubPoly  *share.PubPoly
	bx       []kyber.Scalar
	bX       []kyber.Point
}

func (e *c09Env) bufInstance() *bufInst {
	if e.bufInst != nil {
		return e.bufInst
	}
	kg := e.cb.keyGroup()
	seed := core.Rng(e.seed, "buf", e.cfgN).Int63()
	r := core.Rng(seed, "contents")
	in := &bufInst{}
	l := 8 + r.Intn(40)
	a := randBytes(r, l)
	b := randBytes(r, l)
	if bytes.Equal(a, b) {
		b[0] ^= 1
	}
	in.contents = [][]byte{nil, a, b, randBytes(r, l+1+r.Intn(16))}
	in.x = pickScalar(kg, seed, "x")
	in.X = kg.Point().Mul(in.x, nil)
	in.secret = pickScalar(kg, seed, "secret")
	pri := share.NewPriPoly(kg, 2, in.secret, stream(seed, "poly"))
	in.shares = pri.Shares(3)
	in.pubPoly = pri.Commit(kg.Point().Base())
	for i := 0; i < 3; i++ {
		x := pickScalar(kg, seed, "bx", fmt.Sprint(i))
		in.bx = append(in.bx, x)
		in.bX = append(in.bX, kg.Point().Mul(x, nil))
	}
	e.bufInst = in
	return in
}

func (e *c09Env) replayBuf(bh Behaviour) bool {
	in := e.bufInstance()
	kg := e.cb.keyGroup()
	if e.tblsSch == nil {
		// the long-lived objects of this environment
		e.tblsSch = e.cb.tblsScheme()
		e.bdnSch = e.cb.bdnScheme()
	}
	backing := make([]byte, 96)
	var buf []byte
	write := func(c int) {
		copy(backing, in.contents[c]) // overwrite in place, same backing array
		buf = backing[:len(in.contents[c])]
	}
	var lastSig []byte
	var partials, bsigs [][]byte
	// returned signatures are values: every slice a scheme object handed out is kept as returned, with a private
	// copy, and compared again at the end of the behaviour
	var handedRet, handedCp [][]byte
	keep := func(b []byte) {
		handedRet = append(handedRet, b)
		handedCp = append(handedCp, clone(b))
	}
	defer func() {
		for i := range handedRet {
			if !bytes.Equal(handedRet[i], handedCp[i]) {
				e.violate("buf/audit/returned-signature-changed", "a signature slice handed out by a long-lived scheme object was changed by a later call", bh, map[string]any{"index": i})
				return
			}
		}
	}()
	bad := func(step int, act, kind, what string, extra map[string]any) {
		d := map[string]any{"step": step}
		for k, v := range extra {
			d[k] = v
		}
		e.violate("buf/"+act+"/"+kind, what, bh, d)
	}
	// guard: a call must leave the caller's slices as they were
	type snap struct {
		name string
		ref  []byte
		cp   []byte
	}
	for si, st := range bh.Steps {
		act := st.str("act")
		c := st.num("c")
		if act == "BufStart" || act == "BufWrite" {
			write(c)
			continue
		}
		if !bytes.Equal(buf, in.contents[c]) {
			bad(si, act, "harness", "buffer bookkeeping differs from the behaviour", nil)
			return true
		}
		snaps := []snap{{"message buffer", backing, clone(backing)}}
		addSnap := func(name string, bs ...[]byte) {
			for _, b := range bs {
				snaps = append(snaps, snap{name, b, clone(b)})
			}
		}
		var got string
		var pm, stack string
		var pan bool
		switch act {
		case "BufSign":
			var sg []byte
			var err error
			pm, stack, pan = core.Try(func() { sg, err = e.blsSch.Sign(in.x, buf) })
			if pan {
				break
			}
			want, _ := e.cb.blsScheme().Sign(in.x, clone(in.contents[c]))
			if err != nil || !bytes.Equal(sg, want) {
				bad(si, act, "not-the-signature-of-the-current-contents", "bls Sign on a reused scheme object / reused buffer did not sign what the buffer holds now", map[string]any{"err": fmt.Sprint(err)})
			}
			lastSig = sg
			keep(sg)
		case "BufVerify":
			addSnap("signature", lastSig)
			// the SAME long-lived public-key object on every call of every behaviour: its encoding must stay what it is
			keyBefore, _ := in.X.MarshalBinary()
			pm, stack, pan = core.Try(func() {
				if err := e.blsSch.Verify(in.X, buf, lastSig); err == nil {
					got = "accept"
				} else {
					got = "reject"
				}
			})
			if keyAfter, _ := in.X.MarshalBinary(); !pan && !bytes.Equal(keyBefore, keyAfter) {
				bad(si, act, "modified-caller-public-key", "bls Verify changed the caller's public-key object", nil)
				in.X = e.cb.keyGroup().Point().Mul(in.x, nil)
			}
		case "BufPartials":
			partials = nil
			ref := e.cb.tblsScheme()
			for _, sh := range in.shares {
				var p []byte
				var err error
				pm, stack, pan = core.Try(func() { p, err = e.tblsSch.Sign(sh, buf) })
				if pan {
					break
				}
				want, _ := ref.Sign(sh, clone(in.contents[c]))
				if err != nil || !bytes.Equal(p, want) {
					bad(si, act, "not-the-partial-of-the-current-contents", "tbls Sign on a reused scheme object / reused buffer did not sign what the buffer holds now", map[string]any{"err": fmt.Sprint(err)})
				}
				partials = append(partials, p)
				keep(p)
			}
		case "BufRecover":
			addSnap("partial", partials...)
			var out []byte
			var err error
			pm, stack, pan = core.Try(func() { out, err = e.tblsSch.Recover(in.pubPoly, buf, partials, 2, 3) })
			if pan {
				break
			}
			got = "sig"
			if err != nil {
				got = "error"
			}
			if got == "sig" && st.str("exp") == "sig" {
				want, _ := e.cb.blsScheme().Sign(in.secret, clone(in.contents[c]))
				if !bytes.Equal(out, want) {
					bad(si, act, "not-the-group-signature", "recovered signature is not the group signature of the buffer's current contents", nil)
				}
			}
		case "BufBdnSign":
			bsigs = nil
			ref := e.cb.bdnScheme()
			for i := range in.bx {
				var p []byte
				var err error
				pm, stack, pan = core.Try(func() { p, err = e.bdnSch.Sign(in.bx[i], buf) })
				if pan {
					break
				}
				want, _ := ref.Sign(in.bx[i], clone(in.contents[c]))
				if err != nil || !bytes.Equal(p, want) {
					bad(si, act, "not-the-signature-of-the-current-contents", "bdn Sign on a reused scheme object / reused buffer did not sign what the buffer holds now", map[string]any{"err": fmt.Sprint(err)})
				}
				bsigs = append(bsigs, p)
				keep(p)
			}
		case "BufBdnVerify":
			addSnap("signature", bsigs...)
			maskBytes := []byte{0x07}
			addSnap("mask", maskBytes)
			pm, stack, pan = core.Try(func() {
				m, err := bdn.NewMask(kg, cloneRing(in.bX), nil)
				if err == nil {
					err = m.Merge(maskBytes)
				}
				if err != nil {
					got = "mask-error"
					return
				}
				aggSig, err1 := e.bdnSch.AggregateSignatures(bsigs, m)
				aggKey, err2 := e.bdnSch.AggregatePublicKeys(m)
				if err1 != nil || err2 != nil {
					got = "aggregate-error"
					return
				}
				sb, _ := aggSig.MarshalBinary()
				addSnap("signature", sb)
				if err := e.bdnSch.Verify(aggKey, buf, sb); err == nil {
					got = "accept"
				} else {
					got = "reject"
				}
			})
		default:
			return false
		}
		if pan {
			bad(si, act, "panic", act+" panicked: "+pm, map[string]any{"stack": stack})
			return true
		}
		for _, sn := range snaps {
			if !bytes.Equal(sn.ref, sn.cp) {
				bad(si, act, "modified-caller-"+map[string]string{"message buffer": "message", "signature": "signature", "partial": "signature", "mask": "mask"}[sn.name],
					"the call modified the caller's "+sn.name+" slice", nil)
			}
		}
		if exp := st.str("exp"); exp != "" {
			e.cnt.add("buf:" + act + ":" + exp + ":" + got)
			if got != exp {
				kind := map[string]string{"accept": "accepted", "reject": "rejected", "sig": "recovered", "error": "refused"}[got]
				if kind == "" {
					kind = got
				}
				bad(si, act, kind, fmt.Sprintf("%s gave %s; the buffer holds contents %d now and held %d when the signatures were made, so the specification says %s", act, got, c, st.num("made"), exp), nil)
			}
		}
	}
	return true
}
