package sig

// Recorder for the code -> spec direction of C09: random call sequences on
// real bdn.Mask and cosi.Mask objects are logged as ndjson events (call,
// arguments as passed, return, projection of the touched object) and later
// validated by TLC against spec/MaskTrace.tla.

import (
	"bufio"
	"encoding/json"
	"fmt"
	"math/rand"
	"os"

	"go.dedis.ch/kyber/v4"
	"go.dedis.ch/kyber/v4/group/edwards25519"
	"go.dedis.ch/kyber/v4/sign/bdn"
	"go.dedis.ch/kyber/v4/sign/cosi"

	"verifharness/internal/core"
)

// MaskTraceConfig configures the recorder.
type MaskTraceConfig struct {
	Prop   string
	Seed   int64
	Traces int
	Events int
	Out    string // ndjson trace file
}

type maskObj struct {
	b *bdn.Mask
	c *cosi.Mask
}

func ints(b []byte) []int {
	out := make([]int, len(b))
	for i, x := range b {
		out[i] = int(x)
	}
	return out
}

func (o maskObj) state(n int) map[string]any {
	if o.b != nil {
		nth := make([]int, n+1)
		for k := 0; k <= n; k++ {
			nth[k] = o.b.IndexOfNthEnabled(k)
		}
		return map[string]any{"mask": ints(o.b.Mask()), "count": o.b.CountEnabled(), "nth": nth}
	}
	return map[string]any{"mask": ints(o.c.Mask()), "count": o.c.CountEnabled()}
}

func retOf(err error) string {
	if err == nil {
		return "ok"
	}
	return "error"
}

// RunMaskTrace records cfg.Traces random runs.
func RunMaskTrace(cfg MaskTraceConfig, res *core.Result) error {
	f, err := os.Create(cfg.Out)
	if err != nil {
		return err
	}
	defer f.Close()
	w := bufio.NewWriter(f)
	defer w.Flush()
	enc := json.NewEncoder(w)
	lines := 0
	emit := func(m map[string]any) {
		_ = enc.Encode(m)
		lines++
	}
	sizes := []int{1, 2, 3, 4, 5, 7, 8, 9, 10}
	names, _ := comboPlan("", cfg.Seed, 0)
	csuite := edwards25519.NewBlakeSHA256Ed25519WithRand(stream(cfg.Seed, "masktrace"))
	for t := 0; t < cfg.Traces; t++ {
		r := core.Rng(cfg.Seed, "masktrace", fmt.Sprint(t))
		n := sizes[r.Intn(len(sizes))]
		kind := "bdn"
		if t%3 == 2 {
			kind = "cosi"
		}
		var kg kyber.Group
		if kind == "bdn" {
			kg = newCombo(names[t%len(names)]).keyGroup()
		} else {
			kg = csuite
		}
		pubs := make([]kyber.Point, n)
		privs := make([]kyber.Scalar, n)
		for i := range pubs {
			privs[i] = pickScalar(kg, r.Int63(), "k")
			pubs[i] = kg.Point().Mul(privs[i], nil)
		}
		tmsg := randBytes(r, 1+r.Intn(24))
		var tsigs [][]byte // honest bdn signatures of all signers on tmsg (made on first use)
		stray := kg.Point().Mul(pickScalar(kg, r.Int63(), "stray"), nil)
		emit(map[string]any{"ev": "reset", "n": n, "kind": kind, "tr": t})
		objs := map[string]*maskObj{}
		ids := []string{"o1", "o2", "o3"}
		seq := 0
		randMask := func() []byte {
			l := (n + 7) / 8
			switch r.Intn(10) {
			case 0:
				l++
			case 1:
				if l > 0 {
					l--
				}
			}
			b := randBytes(r, l)
			switch r.Intn(4) {
			case 0:
				for i := range b {
					b[i] = 0
				}
			case 1:
				for i := range b {
					b[i] = 0xff
				}
			}
			// padding bits: clear for cosi and for two thirds of the bdn arguments; otherwise left as drawn
			// (value-preserving: they are not signers)
			if kind == "cosi" || r.Intn(3) != 0 {
				for i := n; i < 8*len(b); i++ {
					b[i/8] &^= 1 << uint(i%8)
				}
			}
			return b
		}
		for e := 0; e < cfg.Events; e++ {
			var live, dead []string
			for _, id := range ids {
				if objs[id] != nil {
					live = append(live, id)
				} else {
					dead = append(dead, id)
				}
			}
			seq++
			choice := r.Intn(10)
			if len(live) == 0 || (choice == 0 && len(dead) > 0) {
				id := dead[0]
				ctor := []string{"nokey", "own", "own", "unknown"}[r.Intn(4)]
				i := 0
				var my kyber.Point
				switch ctor {
				case "own":
					i = r.Intn(n)
					my = pubs[i].Clone()
				case "unknown":
					my = stray.Clone()
				}
				o := &maskObj{}
				var err error
				if kind == "bdn" {
					o.b, err = bdn.NewMask(kg, pubs, my)
				} else {
					o.c, err = cosi.NewMask(csuite, pubs, my)
				}
				ev := map[string]any{"ev": "New", "obj": id, "seq": seq, "args": map[string]any{"ctor": ctor, "i": i}, "ret": retOf(err)}
				if err == nil {
					objs[id] = o
					ev["state"] = o.state(n)
				}
				emit(ev)
				continue
			}
			id := live[r.Intn(len(live))]
			o := objs[id]
			if kind == "bdn" && r.Intn(4) == 0 {
				// aggregation interleaved with the mask calls: the key the object reports now, and the key of a
				// fresh canonical-route mask (NewMask(nil) + SetBit) over the bits Mask() shows now
				sch := newCombo(names[t%len(names)]).bdnScheme()
				got, err := sch.AggregatePublicKeys(o.b)
				bits, _ := bitsOf(o.b.Mask(), n)
				ref, _ := bdn.NewMask(kg, pubs, nil)
				for _, i := range bits {
					_ = ref.SetBit(i, true)
				}
				want, err2 := sch.AggregatePublicKeys(ref)
				gh, wh := "error", "error"
				if err == nil && err2 == nil {
					gb, _ := got.MarshalBinary()
					wb, _ := want.MarshalBinary()
					gh, wh = fmt.Sprintf("%x", gb), fmt.Sprintf("%x", wb)
				}
				// the honest signatures of the enabled signers, aggregated over the object's mask and over the clean reference mask
				if tsigs == nil {
					for i := range privs {
						sg, _ := sch.Sign(privs[i], clone(tmsg))
						tsigs = append(tsigs, sg)
					}
				}
				var part [][]byte
				for _, i := range bits {
					part = append(part, clone(tsigs[i]))
				}
				gs, ws := "error", "error-ref"
				if a1, e1 := sch.AggregateSignatures(part, o.b); e1 == nil {
					b1, _ := a1.MarshalBinary()
					gs = fmt.Sprintf("%x", b1)
				}
				if a2, e2 := sch.AggregateSignatures(part, ref); e2 == nil {
					b2, _ := a2.MarshalBinary()
					ws = fmt.Sprintf("%x", b2)
				}
				st := o.state(n)
				st["key"] = gh
				st["sig"] = gs
				emit(map[string]any{"ev": "AggKey", "obj": id, "seq": seq, "args": map[string]any{"canon": wh, "canonsig": ws}, "ret": retOf(err), "state": st})
				continue
			}
			switch {
			case choice == 1 && kind == "bdn" && len(dead) > 0:
				dst := dead[0]
				objs[dst] = &maskObj{b: o.b.Clone()}
				emit(map[string]any{"ev": "Clone", "obj": id, "seq": seq, "args": map[string]any{"dst": dst}, "ret": "ok", "state": objs[dst].state(n)})
			case choice <= 5:
				lo := 0
				if kind == "bdn" {
					lo = -1 // cosi.Mask.SetBit has no lower bound check; negative indices are outside the recorded domain
				}
				i := lo + r.Intn(n+1-lo)
				en := r.Intn(3) != 0
				var err error
				if kind == "bdn" {
					err = o.b.SetBit(i, en)
				} else {
					err = o.c.SetBit(i, en)
				}
				emit(map[string]any{"ev": "SetBit", "obj": id, "seq": seq, "args": map[string]any{"i": i, "en": en}, "ret": retOf(err), "state": o.state(n)})
			case choice <= 7 || kind == "cosi":
				m := randMask()
				var err error
				if kind == "bdn" {
					err = o.b.SetMask(clone(m))
				} else {
					err = o.c.SetMask(clone(m))
				}
				emit(map[string]any{"ev": "SetMask", "obj": id, "seq": seq, "args": map[string]any{"mask": ints(m)}, "ret": retOf(err), "state": o.state(n)})
			default:
				m := randMask()
				err := o.b.Merge(clone(m))
				emit(map[string]any{"ev": "Merge", "obj": id, "seq": seq, "args": map[string]any{"mask": ints(m)}, "ret": retOf(err), "state": o.state(n)})
			}
		}
		res.Eval(fmt.Sprintf("masktrace|%d|%d|%s", cfg.Seed, t, kind))
	}
	res.SetExtra("trace_lines", lines)
	res.SetExtra("traces_recorded", cfg.Traces)
	res.Sample(map[string]any{"masktrace": cfg.Out, "traces": cfg.Traces, "lines": lines})
	_ = rand.Int
	return nil
}
