// Package sig holds the drivers of the `sig` family: C08 (Schnorr, EdDSA, ring
// signatures; spec/SigVerify.tla) and C09 (BLS, TBLS, BDN, CoSi;
// spec/MultiSig.tla, spec/MaskTrace.tla).
//
// This file: an independent math/big model of edwards25519, used only by the
// concretisers to *certify* the effect of an abstract manipulation (R+torsion
// is another point, y+p decodes to the same point, a crafted small-order
// construction really satisfies the group equation).  It never produces a
// verdict.
package sig

import (
	"math/big"
)

var (
	edP, _ = new(big.Int).SetString("57896044618658097711785492504343953926634992332820282019728792003956564819949", 10) // 2^255-19
	edL, _ = new(big.Int).SetString("7237005577332262213973186563042994240857116359379907606001950938285454250989", 10)
	edD    *big.Int // -121665/121666
	edI    *big.Int // sqrt(-1)
	big0   = big.NewInt(0)
	big1   = big.NewInt(1)
)

func init() {
	inv := new(big.Int).ModInverse(big.NewInt(121666), edP)
	edD = new(big.Int).Mul(big.NewInt(-121665), inv)
	edD.Mod(edD, edP)
	// sqrt(-1) = 2^((p-1)/4)
	e := new(big.Int).Sub(edP, big1)
	e.Rsh(e, 2)
	edI = new(big.Int).Exp(big.NewInt(2), e, edP)
}

// refPt is an affine point of the twisted Edwards curve -x^2+y^2 = 1+d x^2 y^2.
type refPt struct{ x, y *big.Int }

func refIdentity() refPt { return refPt{big.NewInt(0), big.NewInt(1)} }

func fmod(a *big.Int) *big.Int { return a.Mod(a, edP) }

func (p refPt) onCurve() bool {
	x2 := fmod(new(big.Int).Mul(p.x, p.x))
	y2 := fmod(new(big.Int).Mul(p.y, p.y))
	l := fmod(new(big.Int).Sub(y2, x2))
	r := fmod(new(big.Int).Mul(x2, y2))
	r = fmod(r.Mul(r, edD))
	r = fmod(r.Add(r, big1))
	return l.Cmp(r) == 0
}

func (p refPt) equal(q refPt) bool { return p.x.Cmp(q.x) == 0 && p.y.Cmp(q.y) == 0 }

// add is the complete addition law for a = -1.
func (p refPt) add(q refPt) refPt {
	x1y2 := new(big.Int).Mul(p.x, q.y)
	y1x2 := new(big.Int).Mul(p.y, q.x)
	y1y2 := new(big.Int).Mul(p.y, q.y)
	x1x2 := new(big.Int).Mul(p.x, q.x)
	dxy := fmod(new(big.Int).Mul(x1x2, y1y2))
	dxy = fmod(dxy.Mul(dxy, edD))
	nx := fmod(new(big.Int).Add(x1y2, y1x2))
	ny := fmod(new(big.Int).Add(y1y2, x1x2)) // y1y2 - a x1x2, a = -1
	dx := fmod(new(big.Int).Add(big1, dxy))
	dy := fmod(new(big.Int).Sub(big1, dxy))
	dx.ModInverse(dx, edP)
	dy.ModInverse(dy, edP)
	return refPt{fmod(nx.Mul(nx, dx)), fmod(ny.Mul(ny, dy))}
}

func (p refPt) neg() refPt {
	return refPt{fmod(new(big.Int).Neg(p.x)), new(big.Int).Set(p.y)}
}

// mul computes k*p for k >= 0 (plain double-and-add; k is NOT reduced).
func (p refPt) mul(k *big.Int) refPt {
	acc := refIdentity()
	for i := k.BitLen() - 1; i >= 0; i-- {
		acc = acc.add(acc)
		if k.Bit(i) == 1 {
			acc = acc.add(p)
		}
	}
	return acc
}

// order returns the order of p if it divides 8, else 0.
func (p refPt) smallOrder() int {
	q := refIdentity()
	for o := 1; o <= 8; o++ {
		q = q.add(p)
		if q.equal(refIdentity()) {
			return o
		}
	}
	return 0
}

// encode gives the canonical RFC 8032 encoding.
func (p refPt) encode() []byte {
	return refEncodeRaw(p.y, p.x.Bit(0) == 1)
}

// refEncodeRaw encodes a 255-bit integer y (possibly >= p) and a sign bit.
func refEncodeRaw(y *big.Int, sign bool) []byte {
	b := make([]byte, 32)
	yb := y.Bytes()
	for i := range yb {
		b[len(yb)-1-i] = yb[i]
	}
	if sign {
		b[31] |= 0x80
	}
	return b
}

func leInt(b []byte) *big.Int {
	r := make([]byte, len(b))
	for i := range b {
		r[len(b)-1-i] = b[i]
	}
	return new(big.Int).SetBytes(r)
}

func leBytes(v *big.Int, n int) []byte {
	b := make([]byte, n)
	vb := v.Bytes()
	for i := range vb {
		if len(vb)-1-i < n {
			b[len(vb)-1-i] = vb[i]
		}
	}
	return b
}

// refDecode decodes 32 bytes leniently: y is reduced mod p (non-canonical y
// accepted) and x = 0 with the sign bit set is accepted (as x = 0).  It
// reports the decoded point, whether y < p, and whether the sign bit of a
// zero x was set.  ok = false when no curve point has this y.
func refDecode(b []byte) (pt refPt, canonicalY, signOnZero, ok bool) {
	if len(b) != 32 {
		return refPt{}, false, false, false
	}
	c := make([]byte, 32)
	copy(c, b)
	sign := c[31]&0x80 != 0
	c[31] &= 0x7f
	yraw := leInt(c)
	canonicalY = yraw.Cmp(edP) < 0
	y := new(big.Int).Mod(yraw, edP)
	// x^2 = (y^2-1)/(d y^2+1)
	y2 := fmod(new(big.Int).Mul(y, y))
	u := fmod(new(big.Int).Sub(y2, big1))
	v := fmod(new(big.Int).Mul(y2, edD))
	v = fmod(v.Add(v, big1))
	v.ModInverse(v, edP)
	x2 := fmod(u.Mul(u, v))
	var x *big.Int
	if x2.Sign() == 0 {
		x = big.NewInt(0)
	} else {
		// p = 5 mod 8: candidate x = x2^((p+3)/8)
		e := new(big.Int).Add(edP, big.NewInt(3))
		e.Rsh(e, 3)
		x = new(big.Int).Exp(x2, e, edP)
		chk := fmod(new(big.Int).Mul(x, x))
		if chk.Cmp(x2) != 0 {
			x = fmod(x.Mul(x, edI))
			chk = fmod(new(big.Int).Mul(x, x))
			if chk.Cmp(x2) != 0 {
				return refPt{}, canonicalY, false, false
			}
		}
	}
	if x.Sign() == 0 {
		signOnZero = sign
	} else if (x.Bit(0) == 1) != sign {
		x = fmod(new(big.Int).Neg(x))
	}
	return refPt{x, y}, canonicalY, signOnZero, true
}

var (
	refBase    refPt
	refTorsion [8]refPt // refTorsion[j] = j*T8, T8 of order 8
)

func init() {
	// base point: y = 4/5, x even
	y := new(big.Int).ModInverse(big.NewInt(5), edP)
	y = fmod(y.Mul(y, big.NewInt(4)))
	b, _, _, ok := refDecode(refEncodeRaw(y, false))
	if !ok || !b.onCurve() {
		panic("refed: base point")
	}
	refBase = b
	// a point of order 8: L * (any point) is in the torsion subgroup
	for yi := int64(2); ; yi++ {
		p, _, _, ok := refDecode(refEncodeRaw(big.NewInt(yi), false))
		if !ok {
			continue
		}
		t := p.mul(edL)
		if t.smallOrder() == 8 {
			acc := refIdentity()
			for j := 0; j < 8; j++ {
				refTorsion[j] = acc
				acc = acc.add(t)
			}
			break
		}
	}
}

// torsionOfOrder returns the multiples j of T8 whose order is o.
func torsionOfOrder(o int) []int {
	var out []int
	for j := 0; j < 8; j++ {
		if refTorsion[j].smallOrder() == o {
			out = append(out, j)
		}
	}
	return out
}
