package sig

// Object-reuse behaviours of C08 (spec/SigVerify.tla, NextReuse): one signer
// object is driven through RLoad / RSign / RMarshal / RReload / RVerify; the
// behaviour says which key the object holds at every step, the replayer checks
// that every signature is the one of THAT key (EdDSA: byte-equal to
// crypto/ed25519 for the key's seed).

import (
	"bytes"
	"crypto/ed25519"
	"fmt"
	"math/rand"

	"go.dedis.ch/kyber/v4"
	"go.dedis.ch/kyber/v4/sign"
	"go.dedis.ch/kyber/v4/sign/eddsa"
	"go.dedis.ch/kyber/v4/sign/schnorr"

	"verifharness/internal/core"
)

// fixedStream is a cipher.Stream whose key stream is a fixed byte string (then zeros).
type fixedStream struct {
	b   []byte
	pos int
}

func (f *fixedStream) XORKeyStream(dst, src []byte) {
	for i := range src {
		var k byte
		if f.pos < len(f.b) {
			k = f.b[f.pos]
		}
		f.pos++
		dst[i] = src[i] ^ k
	}
}

func (e *env) violateReuse(bh Behaviour, step int, kind, what string, extra map[string]any) {
	d := map[string]any{"behaviour": bh.Steps, "config": e.cfg.name, "group": e.cfg.name, "step": step}
	for k, v := range extra {
		d[k] = v
	}
	e.res.Violate(fmt.Sprintf("%s/%s/reuse/%s", e.prop, e.cfg.name, kind), what, d)
}

func (e *env) replayReuse(bh Behaviour, r *rand.Rand) bool {
	kind := bh.Steps[0].str("kind")
	if (kind == "eddsa") != (e.cfg.scheme == "eddsa") || (kind == "schnorr-scheme") != (e.cfg.scheme == "schnorr-ed") {
		return false
	}
	// two keys, two messages
	seeds := [][]byte{nil, randBytes(r, 32), randBytes(r, 32)}
	msgs := [][]byte{nil, randBytes(r, []int{0, 1, 64, 200}[r.Intn(4)]), randBytes(r, 1+r.Intn(80))}
	if r.Intn(2) == 0 && len(msgs[1]) > 0 {
		msgs[2] = randBytes(r, len(msgs[1])) // same length: an in-place overwrite leaves the slice header identical
	}
	if bytes.Equal(msgs[1], msgs[2]) {
		msgs[2] = append(msgs[2], 1)
	}
	// buffer reuse: every message travels in ONE caller-owned buffer that is overwritten in place before the call
	backing := make([]byte, 256)
	load := func(m int) []byte {
		copy(backing, msgs[m])
		return backing[:len(msgs[m])]
	}
	intact := func(step int, act string, m int) {
		if !bytes.Equal(backing[:len(msgs[m])], msgs[m]) {
			e.violateReuse(bh, step, act+"/modified-caller-message", act+" modified the caller's message buffer", nil)
		}
	}
	refKey := []ed25519.PrivateKey{nil, ed25519.NewKeyFromSeed(seeds[1]), ed25519.NewKeyFromSeed(seeds[2])}
	// eddsa state
	var ed *eddsa.EdDSA
	// schnorr scheme state
	var sch sign.Scheme
	var priv []kyber.Scalar
	var pub []kyber.Point
	if kind == "schnorr-scheme" {
		sch = schnorr.NewScheme(e.ssuite)
		priv = make([]kyber.Scalar, 3)
		pub = make([]kyber.Point, 3)
		for k := 1; k <= 2; k++ {
			priv[k], pub[k] = sch.NewKeyPair(stream(r.Int63(), "reuse-key", fmt.Sprint(k)))
		}
	}
	cur := 0
	var lastSig []byte
	// every signature slice handed out, exactly as returned, with a private copy taken at return time
	type handed struct {
		ret, cp []byte
		key, m  int
	}
	var outs []handed
	pubOf := func(k int) kyber.Point {
		if kind == "eddsa" {
			p := e.grp.Point()
			_ = p.UnmarshalBinary([]byte(refKey[k].Public().(ed25519.PublicKey)))
			return p
		}
		return pub[k]
	}
	for si, st := range bh.Steps[1:] {
		step := si + 1
		act := st.str("act")
		var pm, stack string
		var pan bool
		switch act {
		case "RLoad":
			k := st.num("key")
			pm, stack, pan = core.Try(func() {
				if kind == "eddsa" {
					switch st.str("how") {
					case "unmarshal":
						if ed == nil {
							ed = &eddsa.EdDSA{}
						}
						// re-key the SAME object in place
						if err := ed.UnmarshalBinary(append(clone(seeds[k]), make([]byte, 32)...)); err != nil {
							e.violateReuse(bh, step, "unmarshal-error", "EdDSA.UnmarshalBinary of a 64-byte key failed: "+err.Error(), nil)
						}
					case "new":
						ed = eddsa.NewEdDSA(&fixedStream{b: clone(seeds[k])})
					}
				}
				cur = k
			})
		case "RSign":
			k, m := st.num("key"), st.num("msg")
			var sg []byte
			var err error
			buf := load(m)
			pm, stack, pan = core.Try(func() {
				if kind == "eddsa" {
					sg, err = ed.Sign(buf)
				} else {
					sg, err = sch.Sign(priv[cur], buf)
				}
			})
			intact(step, act, m)
			if pan {
				break
			}
			if err != nil || k != cur {
				e.violateReuse(bh, step, "sign-error", fmt.Sprintf("Sign failed (%v) or harness key bookkeeping differs (%d vs %d)", err, k, cur), nil)
				return true
			}
			lastSig = sg
			outs = append(outs, handed{ret: sg, cp: clone(sg), key: k, m: m})
			if st.str("obs") == "rfc8032-bytes" {
				want := ed25519.Sign(refKey[k], msgs[m])
				if !bytes.Equal(want, sg) {
					e.violateReuse(bh, step, "sign/not-rfc8032-bytes-for-current-key", "a reused EdDSA object signs with something else than its current key: bytes differ from crypto/ed25519 for the current seed",
						map[string]any{"got": fmt.Sprintf("%x", sg), "want": fmt.Sprintf("%x", want), "key": k, "msg": m})
				}
				if pb, _ := ed.Public.MarshalBinary(); !bytes.Equal(pb, refKey[k].Public().(ed25519.PublicKey)) {
					e.violateReuse(bh, step, "public-key-not-current", "the Public field of a reused EdDSA object is not the key of its current seed", nil)
				}
			}
		case "RMarshal", "RReload":
			k := st.num("key")
			var mb []byte
			var err error
			pm, stack, pan = core.Try(func() {
				mb, err = ed.MarshalBinary()
				if err == nil && act == "RReload" {
					err = ed.UnmarshalBinary(clone(mb))
				}
			})
			if pan {
				break
			}
			want := append(clone(seeds[k]), []byte(refKey[k].Public().(ed25519.PublicKey))...)
			if err != nil || !bytes.Equal(mb, want) {
				e.violateReuse(bh, step, "marshal/not-current-key", "MarshalBinary of a reused EdDSA object is not seed || public key of its current key",
					map[string]any{"got": fmt.Sprintf("%x", mb), "want": fmt.Sprintf("%x", want), "err": fmt.Sprint(err)})
			}
		case "RAudit":
			// returned signatures are values: later calls on the signer must not have changed them
			want, _ := st["outs"].([]any)
			if len(want) != len(outs) {
				e.violateReuse(bh, step, "audit/harness", "number of signatures handed out differs from the behaviour", nil)
				return true
			}
			for i, o := range outs {
				wm, _ := want[i].(map[string]any)
				w := Step(wm)
				if w.num("key") != o.key || w.num("msg") != o.m {
					e.violateReuse(bh, step, "audit/harness", "signature bookkeeping differs from the behaviour", nil)
					return true
				}
				if !bytes.Equal(o.ret, o.cp) {
					e.violateReuse(bh, step, "audit/returned-signature-changed", "a signature handed out earlier was overwritten by a later call on the same signer object",
						map[string]any{"index": i, "of": len(outs), "returned": fmt.Sprintf("%x", o.cp), "now": fmt.Sprintf("%x", o.ret)})
					continue
				}
				var err error
				pm, stack, pan = core.Try(func() {
					if kind == "eddsa" {
						err = eddsa.Verify(pubOf(o.key), clone(msgs[o.m]), o.ret)
					} else {
						err = sch.Verify(pubOf(o.key), clone(msgs[o.m]), o.ret)
					}
				})
				if pan {
					break
				}
				if err != nil {
					e.violateReuse(bh, step, "audit/rejected", "a signature handed out earlier no longer verifies for its key and message", map[string]any{"index": i})
				}
				if kind == "eddsa" && !bytes.Equal(o.ret, ed25519.Sign(refKey[o.key], msgs[o.m])) {
					e.violateReuse(bh, step, "audit/not-rfc8032-bytes", "a signature handed out earlier is not the crypto/ed25519 signature of its key and message", map[string]any{"index": i})
				}
			}
			e.cnt.add("reuse:audit")
		case "RVerify":
			sk, sm := st.num("signedkey"), st.num("signedmsg")
			vk, vm := sk, sm
			if !st.boolean("samekey") {
				vk = 3 - sk
			}
			if !st.boolean("samemsg") {
				vm = 3 - sm
			}
			got := ""
			buf := load(vm)
			sigCopy := clone(lastSig)
			pm, stack, pan = core.Try(func() {
				var err error
				switch {
				case kind == "eddsa" && r.Intn(2) == 0:
					err = eddsa.Verify(pubOf(vk), buf, lastSig)
				case kind == "eddsa":
					err = eddsa.VerifyWithChecks([]byte(refKey[vk].Public().(ed25519.PublicKey)), buf, lastSig)
				default:
					err = sch.Verify(pubOf(vk), buf, lastSig)
				}
				if err == nil {
					got = "accept"
				} else {
					got = "reject"
				}
			})
			if pan {
				break
			}
			intact(step, act, vm)
			if !bytes.Equal(sigCopy, lastSig) {
				e.violateReuse(bh, step, act+"/modified-caller-signature", "Verify modified the caller's signature slice", nil)
			}
			exp := st.str("exp")
			e.cnt.add("reuse:" + exp + ":" + got)
			if got != exp {
				e.violateReuse(bh, step, "verify/"+map[string]string{"accept": "accepted", "reject": "rejected"}[got],
					fmt.Sprintf("signature of a reused signer object: Verify gave %s, specification says %s", got, exp), map[string]any{"signedkey": sk, "signedmsg": sm, "samekey": st.boolean("samekey"), "samemsg": st.boolean("samemsg")})
			}
			if kind == "eddsa" && got == "accept" && !ed25519.Verify(refKey[vk].Public().(ed25519.PublicKey), msgs[vm], lastSig) {
				e.violateReuse(bh, step, "verify/accepted-but-crypto-ed25519-rejects", "the EdDSA verifier accepts a signature that crypto/ed25519 rejects", nil)
			}
		}
		if pan {
			e.violateReuse(bh, step, act+"/panic", act+" panicked on a reused signer object: "+pm, map[string]any{"stack": stack})
			return true
		}
	}
	e.cnt.add("reuse:behaviours")
	return true
}
