package sig

// Concurrent-verification behaviours of C08 (spec/SigVerify.tla, NextConc): g goroutines verify an honest
// signature against ONE shared public-key object that was computed by Mul and never encoded; all must accept,
// a sequential verification afterwards must accept, and the key object must still encode as x*B.

import (
	"bytes"
	"fmt"
	"math/rand"
	"runtime"
	"sync"
	"sync/atomic"

	"go.dedis.ch/kyber/v4"
	"go.dedis.ch/kyber/v4/sign/anon"
	"go.dedis.ch/kyber/v4/sign/eddsa"
	"go.dedis.ch/kyber/v4/sign/schnorr"

	"verifharness/internal/core"
)

func (e *env) violateConc(bh Behaviour, kind, what string, extra map[string]any) {
	d := map[string]any{"behaviour": bh.Steps, "config": e.cfg.name, "group": e.cfg.name}
	for k, v := range extra {
		d[k] = v
	}
	e.res.Violate(fmt.Sprintf("%s/%s/concurrent-verify/%s", e.prop, e.cfg.name, kind), what, d)
}

func (e *env) replayConc(bh Behaviour, r *rand.Rand) bool {
	g := bh.Steps[0].num("goroutines")
	if g < 2 {
		g = 2
	}
	rounds := 80
	if e.cfg.slow {
		rounds = 4
	}
	if e.concRounds > 0 { // race-detector runs: detection does not depend on timing, a few rounds suffice
		rounds = e.concRounds
	}
	scheme := e.cfg.scheme
	for round := 0; round < rounds; round++ {
		msg := randBytes(r, 1+r.Intn(64))
		// a fresh key object per round: the result of a scalar multiplication, never marshalled before the goroutines see it
		var x kyber.Scalar
		var X kyber.Point
		var sig []byte
		var ring []kyber.Point
		var want []byte
		var verify func() error
		pm, stack, pan := core.Try(func() {
			x = e.grp.Scalar().Pick(stream(r.Int63(), "conc"))
			X = e.grp.Point().Mul(x, nil)
			want, _ = e.grp.Point().Mul(x, nil).MarshalBinary() // expected encoding, from a separate object
			switch scheme {
			case "schnorr", "schnorr-ed":
				sig, _ = schnorr.Sign(e.ssuite, x, clone(msg))
				verify = func() error { return schnorr.Verify(e.grp, X, msg, sig) }
			case "eddsa":
				seed := randBytes(r, 32)
				ed := &eddsa.EdDSA{}
				_ = ed.UnmarshalBinary(append(clone(seed), make([]byte, 32)...))
				sig, _ = ed.Sign(clone(msg))
				X = e.grp.Point().Mul(ed.Secret, nil) // fresh object, not the signer's own
				want, _ = ed.Public.MarshalBinary()
				verify = func() error { return eddsa.Verify(X, msg, sig) }
			default:
				n := 3
				ring = make([]kyber.Point, n)
				for i := range ring {
					ring[i] = e.grp.Point().Mul(e.grp.Scalar().Pick(stream(r.Int63(), "conc-ring")), nil)
				}
				ring[1] = X
				scope := []byte("conc")
				sig = anon.Sign(e.asuite, clone(msg), anon.Set(cloneRing(ring)), scope, 1, x)
				verify = func() error { _, err := anon.Verify(e.asuite, msg, anon.Set(ring), scope, sig); return err }
			}
		})
		if pan || verify == nil || sig == nil {
			e.violateConc(bh, "sign-panic", "signing for the concurrent workload failed: "+pm, map[string]any{"stack": stack})
			return true
		}
		var start int32
		var wg sync.WaitGroup
		errs := make([]string, g)
		for i := 0; i < g; i++ {
			wg.Add(1)
			go func(i int) {
				defer wg.Done()
				defer func() {
					if rec := recover(); rec != nil {
						errs[i] = fmt.Sprint("panic: ", rec)
					}
				}()
				for atomic.LoadInt32(&start) == 0 { // spin: all goroutines enter the verifier at the same moment
					runtime.Gosched()
				}
				if err := verify(); err != nil {
					errs[i] = err.Error()
				}
			}(i)
		}
		atomic.StoreInt32(&start, 1)
		wg.Wait()
		for i, er := range errs {
			if er != "" {
				e.violateConc(bh, "rejected", "an honest signature was rejected when several goroutines verified it against one shared, freshly computed public-key object",
					map[string]any{"goroutine": i, "goroutines": g, "round": round, "error": er})
				return true
			}
		}
		// afterwards, sequentially
		var serr error
		var now []byte
		pm, stack, pan = core.Try(func() {
			serr = verify()
			now, _ = X.MarshalBinary()
		})
		if pan || serr != nil {
			e.violateConc(bh, "rejected-afterwards", "after concurrent verification the same honest signature is rejected sequentially (shared key object damaged): "+pm+fmt.Sprint(serr),
				map[string]any{"round": round, "stack": stack})
			return true
		}
		if !bytes.Equal(now, want) {
			e.violateConc(bh, "key-object-changed", "after concurrent verification the shared public-key object no longer encodes as x*B", map[string]any{"round": round})
			return true
		}
	}
	e.cnt.add("conc:all-accept")
	return true
}
