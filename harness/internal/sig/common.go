package sig

import (
	"crypto/cipher"
	"encoding/json"
	"fmt"
	"math/big"
	"math/rand"
	"sort"
	"strings"

	"go.dedis.ch/kyber/v4"
	"go.dedis.ch/kyber/v4/xof/blake2xb"

	"verifharness/internal/core"
)

// Step is one record of a TLC behaviour (ToJson of a hist entry).
type Step map[string]any

func (s Step) str(k string) string {
	v, _ := s[k].(string)
	return v
}

func (s Step) num(k string) int {
	switch v := s[k].(type) {
	case float64:
		return int(v)
	case int:
		return v
	}
	return 0
}

func (s Step) boolean(k string) bool {
	v, _ := s[k].(bool)
	return v
}

// Behaviour is one TLC behaviour plus its raw text (used as case identity).
type Behaviour struct {
	Steps []Step
	Raw   string
}

// LoadBehaviours reads an ndjson file of behaviours.
func LoadBehaviours(path string) ([]Behaviour, error) {
	var out []Behaviour
	err := core.ReadLines(path, func(line []byte) error {
		var st []Step
		if err := json.Unmarshal(line, &st); err != nil {
			return fmt.Errorf("bad behaviour line: %w", err)
		}
		out = append(out, Behaviour{Steps: st, Raw: string(line)})
		return nil
	})
	return out, err
}

// stream returns a deterministic cipher.Stream for the labels.
func stream(seed int64, labels ...string) cipher.Stream {
	return blake2xb.New([]byte(fmt.Sprintf("%d|%s", seed, strings.Join(labels, "|"))))
}

// rsuite adds a seeded RandomStream to a group.
type rsuite struct {
	kyber.Group
	r cipher.Stream
}

func (s *rsuite) RandomStream() cipher.Stream { return s.r }

func randBytes(r *rand.Rand, n int) []byte {
	b := make([]byte, n)
	for i := range b {
		b[i] = byte(r.Intn(256))
	}
	return b
}

func clone(b []byte) []byte {
	c := make([]byte, len(b))
	copy(c, b)
	return c
}

// scalarInt interprets an encoded scalar in the group's declared byte order.
func scalarInt(b []byte, le bool) *big.Int {
	if le {
		return leInt(b)
	}
	return new(big.Int).SetBytes(b)
}

// scalarBytes encodes v on n bytes in the declared byte order; ok=false if it does not fit.
func scalarBytes(v *big.Int, n int, le bool) ([]byte, bool) {
	if v.Sign() < 0 || (v.BitLen()+7)/8 > n {
		return nil, false
	}
	if le {
		return leBytes(v, n), true
	}
	b := make([]byte, n)
	v.FillBytes(b)
	return b, true
}

// counters is a concurrency-unsafe string counter merged into Result.Extra at the end.
type counters map[string]int

func (c counters) add(k string) { c[k]++ }

func mergeCounters(dst counters, src counters) {
	for k, v := range src {
		dst[k] += v
	}
}

func sortedKeys(m map[string]int) []string {
	ks := make([]string, 0, len(m))
	for k := range m {
		ks = append(ks, k)
	}
	sort.Strings(ks)
	return ks
}

// keepQuota implements the deterministic sub-sampling used by every driver:
// behaviour j is kept for configuration c iff hash(seed,c,j) falls below max/total.
func keepQuota(max, total int) uint64 {
	if max <= 0 || max >= total {
		return ^uint64(0)
	}
	return uint64(float64(^uint64(0)) * float64(max) / float64(total))
}
