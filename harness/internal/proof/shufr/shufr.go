// Package shufr replays behaviours of spec/Shuffle.tla (property C15) on the
// real shuffle package through proof.HashProve / proof.HashVerify.
//
// Refinement mapping only: how an abstract adversary family is carried out on
// real ciphertexts / proof bytes, and (certification) how the real output is
// projected back by decrypting it with the harness-held key. Expected verdicts
// come from the behaviour.
package shufr

import (
	"bytes"
	"encoding/json"
	"fmt"
	"reflect"
	"runtime"
	"sort"
	"strings"

	"go.dedis.ch/kyber/v4"
	"go.dedis.ch/kyber/v4/proof"
	"go.dedis.ch/kyber/v4/shuffle"

	"verifharness/internal/core"
	"verifharness/internal/proof/suites"
)

type Step struct {
	Op   string `json:"op"`
	Kind string `json:"kind"`
	K    int    `json:"k"`
	NQ   int    `json:"nq"`
	Pi   []int  `json:"pi"`
	F    string `json:"f"`
	A    int    `json:"a"`
	B    int    `json:"b"`
	Must string `json:"must"`
	Impl string `json:"impl"`
	Perm bool   `json:"perm"`
}

type Config struct {
	Prop   string
	In     string
	Seed   int64
	Suites string
	Max    int // behaviours replayed per suite (0 = all); deterministic sub-sample
}

type behaviour struct {
	raw   string
	steps []Step
	group string // setup+shuffle prefix
}

const protoName = "verif/shuffle"

// families with few cases per permutation are never sampled away for small k (quick tier)
var rareFamily = map[string]bool{"gen": true, "ident": true, "reprove": true, "trunczero": true, "oppXY": true, "kshiftX": true, "simboth": true, "honestlib": true}

func Run(cfg Config, res *core.Result) error {
	var bhs []behaviour
	err := core.ReadLines(cfg.In, func(line []byte) error {
		var st []Step
		if err := json.Unmarshal(line, &st); err != nil {
			return fmt.Errorf("bad behaviour: %w", err)
		}
		if len(st) != 4 {
			return fmt.Errorf("behaviour of unexpected length %d", len(st))
		}
		bhs = append(bhs, behaviour{raw: string(line), steps: st, group: fmt.Sprintf("%s/%d/%d/%v", st[0].Kind, st[0].K, st[0].NQ, st[1].Pi)})
		return nil
	})
	if err != nil {
		return err
	}
	if len(bhs) == 0 {
		return fmt.Errorf("no behaviours in %s", cfg.In)
	}
	sort.Slice(bhs, func(i, j int) bool {
		if bhs[i].group != bhs[j].group {
			return bhs[i].group < bhs[j].group
		}
		return bhs[i].raw < bhs[j].raw
	})
	res.AddTraces(len(bhs))
	names := []string{"ed25519", "p256"}
	if cfg.Suites != "" {
		names = strings.Split(cfg.Suites, ",")
	}
	// tasks = (suite, group of behaviours sharing setup and permutation)
	type task struct {
		suite  string
		lo, hi int
	}
	var tasks []task
	for _, s := range names {
		lo := 0
		for i := 1; i <= len(bhs); i++ {
			if i == len(bhs) || bhs[i].group != bhs[lo].group {
				tasks = append(tasks, task{s, lo, i})
				lo = i
			}
		}
	}
	keep := ^uint64(0)
	if cfg.Max > 0 && cfg.Max < len(bhs) {
		keep = uint64(float64(^uint64(0)) * float64(cfg.Max) / float64(len(bhs)))
	}
	var firstErr error
	errs := make(chan error, len(tasks))
	core.Parallel(len(tasks), runtime.NumCPU(), func(ti int) {
		tk := tasks[ti]
		st, err := suites.New(tk.suite, cfg.Seed, "shuffle", bhs[tk.lo].group)
		if err != nil {
			errs <- err
			return
		}
		var w *world
		for i := tk.lo; i < tk.hi; i++ {
			bh := bhs[i]
			if !(rareFamily[bh.steps[2].F] && bh.steps[0].K <= 3 && bh.steps[0].NQ <= 2) && core.Hash64(fmt.Sprint(cfg.Seed), tk.suite, bh.raw) > keep {
				continue
			}
			r := &replayer{cfg: cfg, res: res, s: st, bh: bh}
			if msg, stack, p := core.Try(func() {
				if w == nil {
					w, err = newWorld(st, bh.steps[0], bh.steps[1].Pi, res)
					if err != nil {
						// the honest shuffle / prover of the library failed on honest input: completeness violation
						res.Violate(fmt.Sprintf("%s/%s/%s:none/honest-error", cfg.Prop, st.Name, bh.steps[0].Kind),
							"the library's honest shuffle or prover returns an error on honest input", map[string]any{"err": err.Error(), "k": bh.steps[0].K, "nq": bh.steps[0].NQ})
						w = nil
						return
					}
				}
				if w == nil {
					return
				}
				if e := r.run(w); e != nil {
					errs <- e
				}
			}); p {
				r.violate("panic", "panic while replaying (library or harness)", map[string]any{"panic": msg, "stack": stack})
			}
			if i%997 == 0 {
				var j any
				_ = json.Unmarshal([]byte(bh.raw), &j)
				res.Sample(map[string]any{"suite": tk.suite, "behaviour": j})
			}
		}
	})
	close(errs)
	for e := range errs {
		if firstErr == nil {
			firstErr = e
		}
	}
	return firstErr
}

// ---------------------------------------------------------------- the honest world of one (kind, k, nq, pi)

type world struct {
	s      *suites.S
	kind   string
	k, nq  int
	pi     []int // 0-based: output slot j holds input pi[j]
	G, H   kyber.Point
	h      kyber.Scalar
	m      [][]kyber.Scalar // plaintext dlogs  [q][i]
	r      [][]kyber.Scalar // input randomisers
	X, Y   [][]kyber.Point  // inputs [q][i]
	Xb, Yb [][]kyber.Point  // honest outputs
	beta   [][]kyber.Scalar
	e      []kyber.Scalar // seq: verifier's consolidation challenge
	prf    []byte
	// second honest run on the same input with the same permutation (for splicing)
	Xb2, Yb2 [][]kyber.Point
	prf2     []byte
	// the honest prover closure of the first run (re-run by the families reprove / eqviol) and, for sequences, the
	// library's prover factory
	prover    proof.Prover
	getProver func(e []kyber.Scalar) (proof.Prover, error)
	// simple shuffle
	gamma kyber.Scalar
	Gamma kyber.Point
	x, y  []kyber.Scalar
	piOK  bool
}

func cp2(l [][]kyber.Point) [][]kyber.Point {
	out := make([][]kyber.Point, len(l))
	for i := range l {
		out[i] = make([]kyber.Point, len(l[i]))
		for j := range l[i] {
			out[i][j] = l[i][j].Clone()
		}
	}
	return out
}

func newWorld(s *suites.S, setup Step, pi1 []int, res *core.Result) (*world, error) {
	return newWorldGen(s, setup, pi1, res, 1, 0)
}

// newWorldGen: gen = 1 standard base, 2 a known multiple of it, 3 a picked point as the generator G of the whole run
// ident: 0 random inputs; slot 0 of every sequence gets 1: X = O (blinding factor 0), 2: Y = O (message -r*H),
// 3: message O (Y = r*H); simple shuffle: x_0 = 0
func newWorldGen(s *suites.S, setup Step, pi1 []int, res *core.Result, gen, ident int) (*world, error) {
	w := &world{s: s, kind: setup.Kind, k: setup.K, nq: setup.NQ}
	w.pi = make([]int, len(pi1))
	for j, p := range pi1 {
		w.pi[j] = p - 1
	}
	switch gen {
	case 2:
		w.G = s.Point().Mul(s.NonZeroScalar(), nil)
	case 3:
		w.G = s.Point().Pick(s.RandomStream())
	default:
		w.G = s.Point().Base()
	}
	w.h = s.NonZeroScalar()
	w.H = s.Point().Mul(w.h, w.G)
	if w.kind == "simple" {
		w.gamma = s.NonZeroScalar()
		w.Gamma = s.Point().Mul(w.gamma, w.G)
		w.x = make([]kyber.Scalar, w.k)
		w.y = make([]kyber.Scalar, w.k)
		for i := range w.x {
			w.x[i] = s.NonZeroScalar()
		}
		if ident == 1 {
			w.x[0] = s.Scalar().Zero()
		}
		for j := range w.y {
			w.y[j] = s.Scalar().Mul(w.gamma, w.x[w.pi[j]])
		}
		return w, nil
	}
	w.m, w.r = make([][]kyber.Scalar, w.nq), make([][]kyber.Scalar, w.nq)
	w.X, w.Y = make([][]kyber.Point, w.nq), make([][]kyber.Point, w.nq)
	for q := 0; q < w.nq; q++ {
		w.m[q], w.r[q] = make([]kyber.Scalar, w.k), make([]kyber.Scalar, w.k)
		w.X[q], w.Y[q] = make([]kyber.Point, w.k), make([]kyber.Point, w.k)
		for i := 0; i < w.k; i++ {
			w.m[q][i], w.r[q][i] = s.NonZeroScalar(), s.NonZeroScalar()
			if i == 0 {
				switch ident {
				case 1:
					w.r[q][i] = s.Scalar().Zero()
				case 2:
					w.m[q][i] = s.Scalar().Neg(s.Scalar().Mul(w.r[q][i], w.h))
				case 3:
					w.m[q][i] = s.Scalar().Zero()
				}
			}
			w.X[q][i] = s.Point().Mul(w.r[q][i], w.G)
			w.Y[q][i] = s.Point().Add(s.Point().Mul(w.r[q][i], w.H), s.Point().Mul(w.m[q][i], w.G))
		}
	}
	var err error
	switch w.kind {
	case "pair":
		w.Xb, w.Yb, w.prf, err = w.pairRun()
		if err == nil {
			w.Xb2, w.Yb2, w.prf2, err = w.pairRun()
		}
		w.piOK = true
	case "biffle":
		w.Xb, w.Yb, w.prf, err = w.libRun(res, true)
		if err == nil {
			w.Xb2, w.Yb2, w.prf2, err = w.libRun(res, false)
		}
	case "seq":
		w.e = make([]kyber.Scalar, w.nq)
		for q := range w.e {
			w.e[q] = s.NonZeroScalar() // NOTE drawn before the outputs exist only as a value; it is handed to the prover AFTER the outputs are fixed
		}
		w.Xb, w.Yb, w.prf, err = w.libRun(res, true)
		if err == nil {
			w.Xb2, w.Yb2, w.prf2, err = w.libRun(res, false)
		}
	}
	return w, err
}

// pairRun: the shuffle of shuffle.Shuffle for a dictated permutation, proved with the real PairShuffle.Prove
func (w *world) pairRun() ([][]kyber.Point, [][]kyber.Point, []byte, error) {
	s := w.s
	beta := make([]kyber.Scalar, w.k)
	for i := range beta {
		beta[i] = s.Scalar().Pick(s.RandomStream())
	}
	Xb, Yb := make([]kyber.Point, w.k), make([]kyber.Point, w.k)
	for j := 0; j < w.k; j++ {
		Xb[j] = s.Point().Add(s.Point().Mul(beta[w.pi[j]], w.G), w.X[0][w.pi[j]])
		Yb[j] = s.Point().Add(s.Point().Mul(beta[w.pi[j]], w.H), w.Y[0][w.pi[j]])
	}
	ps := new(shuffle.PairShuffle).Init(s, w.k)
	prover := func(ctx proof.ProverContext) error {
		return ps.Prove(w.pi, w.G, w.H, beta, w.X[0], w.Y[0], s.RandomStream(), ctx)
	}
	if w.prover == nil {
		w.prover = prover
	}
	prf, err := proof.HashProve(s, protoName, prover)
	return [][]kyber.Point{Xb}, [][]kyber.Point{Yb}, prf, err
}

// decryptPerm projects a real output back: the permutation it realises (nil if it is none)
func (w *world) decryptPerm(Xb, Yb [][]kyber.Point) []int {
	var pi []int
	for q := 0; q < w.nq; q++ {
		used := map[int]bool{}
		cur := make([]int, w.k)
		for j := 0; j < w.k; j++ {
			pt := w.s.Point().Sub(Yb[q][j], w.s.Point().Mul(w.h, Xb[q][j]))
			cur[j] = -1
			for i := 0; i < w.k; i++ {
				if !used[i] && pt.Equal(w.s.Point().Mul(w.m[q][i], w.G)) {
					cur[j] = i
					used[i] = true
					break
				}
			}
			if cur[j] < 0 {
				return nil
			}
		}
		if q == 0 {
			pi = cur
		} else {
			for j := range cur {
				if cur[j] != pi[j] {
					return nil
				}
			}
		}
	}
	return pi
}

func samePerm(a, b []int) bool {
	if len(a) != len(b) {
		return false
	}
	for i := range a {
		if a[i] != b[i] {
			return false
		}
	}
	return true
}

// libRun: biffle / sequences pick the permutation themselves; retry (bounded) until the library's choice is the
// permutation TLC asked for, otherwise continue with the library's choice (verdicts do not depend on it)
func (w *world) libRun(res *core.Result, first bool) ([][]kyber.Point, [][]kyber.Point, []byte, error) {
	s := w.s
	tries := 1
	if first && w.k <= 4 {
		tries = 60 // k! <= 24: the requested permutation is hit with high probability
	}
	var Xb, Yb [][]kyber.Point
	var prover proof.Prover
	var getProver func(e []kyber.Scalar) (proof.Prover, error)
	for t := 0; t < tries; t++ {
		switch w.kind {
		case "biffle":
			xb, yb, p := shuffle.Biffle(s, w.G, w.H, [2]kyber.Point{w.X[0][0], w.X[0][1]}, [2]kyber.Point{w.Y[0][0], w.Y[0][1]}, s.RandomStream())
			Xb, Yb, prover = [][]kyber.Point{xb[:]}, [][]kyber.Point{yb[:]}, p
		case "seq":
			xb, yb, gp := shuffle.SequencesShuffle(s, w.G, w.H, w.X, w.Y, s.RandomStream())
			getProver = gp
			p, err := gp(w.e)
			if err != nil {
				return nil, nil, nil, err
			}
			Xb, Yb, prover = cp2(xb), cp2(yb), p
		}
		got := w.decryptPerm(Xb, Yb)
		if got == nil {
			res.Violate(fmt.Sprintf("C15/%s/%s/honest/output-not-a-permutation", s.Name, w.kind),
				"the library's own shuffle output does not decrypt to a permutation of the input", map[string]any{"k": w.k, "nq": w.nq})
			return nil, nil, nil, nil
		}
		if !first {
			// the second run only has to share the permutation of the first for splicing to be "two honest proofs of one statement
			// family"; a different permutation is fine as well
			break
		}
		if samePerm(got, w.pi) {
			w.piOK = true
			break
		}
		if t == tries-1 {
			w.pi = got
			w.piOK = true
			res.AddExtra("pi_chosen_by_library_not_the_requested_one", 1)
		}
	}
	if first {
		w.prover, w.getProver = prover, getProver
	}
	prf, err := proof.HashProve(s, protoName, prover)
	return Xb, Yb, prf, err
}

// ---------------------------------------------------------------- transcript layout

type item struct {
	name  string
	point bool
	n     int
	msg   int // message index (0-based)
}

func (w *world) layout() []item {
	k := w.k
	switch w.kind {
	case "pair", "seq":
		return []item{{"Gamma", true, 1, 0}, {"A", true, k, 0}, {"C", true, k, 0}, {"U", true, k, 0}, {"W", true, k, 0},
			{"Lambda1", true, 1, 0}, {"Lambda2", true, 1, 0}, {"D", true, k, 1}, {"Zsigma", false, k, 2}, {"Ztau", false, 1, 2},
			{"X", true, k, 3}, {"Y", true, k, 3}, {"Theta", true, 2 * k, 4}, {"Zalpha", false, 2*k - 1, 5}}
	case "simple":
		return []item{{"X", true, k, 0}, {"Y", true, k, 0}, {"Theta", true, 2 * k, 1}, {"Zalpha", false, 2*k - 1, 2}}
	case "biffle":
		return []item{{"V", true, 8, 0}, {"C", false, 2, 1}, {"R", false, 4, 2}}
	}
	return nil
}

func (w *world) sizes() (int, int) { return w.s.PointLen(), w.s.ScalarLen() }

// offsets of item i and of message boundary m (number of whole messages kept)
func (w *world) itemOffset(i int) (off, size int, it item) {
	pl, sl := w.sizes()
	lay := w.layout()
	for j := 0; j < i; j++ {
		if lay[j].point {
			off += pl * lay[j].n
		} else {
			off += sl * lay[j].n
		}
	}
	it = lay[i]
	size = sl
	if it.point {
		size = pl
	}
	return
}

func (w *world) msgBoundary(m int) int {
	pl, sl := w.sizes()
	off := 0
	for _, it := range w.layout() {
		if it.msg >= m {
			break
		}
		if it.point {
			off += pl * it.n
		} else {
			off += sl * it.n
		}
	}
	return off
}

func (w *world) totalLen() int { return w.msgBoundary(1 << 30) }

// ---------------------------------------------------------------- replay of one behaviour

type replayer struct {
	cfg Config
	res *core.Result
	s   *suites.S
	bh  behaviour
}

func (r *replayer) key(kind string) string {
	st := r.bh.steps
	fam := st[2].F
	if fam == "eqviol" && st[2].A >= 1 && st[2].A <= len(eqFields) {
		fam += "-" + eqFields[st[2].A-1] // the commitment replaced = the one verification equation violated
	}
	return fmt.Sprintf("%s/%s/%s:%s/%s", r.cfg.Prop, r.s.Name, st[0].Kind, fam, kind)
}

func (r *replayer) violate(kind, what string, detail map[string]any) {
	if detail == nil {
		detail = map[string]any{}
	}
	var j any
	_ = json.Unmarshal([]byte(r.bh.raw), &j)
	detail["behaviour"] = j
	detail["suite"] = r.s.Name
	r.res.Violate(r.key(kind), what, detail)
}

func (r *replayer) run(w *world) error {
	if w.prf == nil && w.kind != "simple" {
		return nil // the honest run itself failed and was reported
	}
	if len(w.prf) != w.totalLen() && w.kind != "simple" {
		return fmt.Errorf("harness: transcript layout of %s (k=%d) is %d bytes, the library produced %d - refinement mapping out of date", w.kind, w.k, w.totalLen(), len(w.prf))
	}
	adv, ver := r.bh.steps[2], r.bh.steps[3]
	if adv.F == "gen" || adv.F == "ident" {
		// the honest case over another generator / over inputs with a neutral component: a world of its own
		pi1 := make([]int, len(w.pi))
		for j, p := range w.pi {
			pi1[j] = p + 1
		}
		gen, ident := adv.A, 0
		if adv.F == "ident" {
			gen, ident = 1, adv.A
		}
		w2, err := newWorldGen(r.s, r.bh.steps[0], pi1, r.res, gen, ident)
		if err != nil {
			r.violate("prove-error", "the honest shuffle / prover fails over a generator other than the standard base or on inputs with a neutral component", map[string]any{"err": err.Error(), "class": adv.A})
			return nil
		}
		w = w2
		if w.prf == nil && w.kind != "simple" {
			return nil
		}
	}
	if ver.Must != "acc" && ver.Must != "rej" && ver.Must != "free" {
		return fmt.Errorf("behaviour without a verdict (must=%q): generator and replayer out of step", ver.Must)
	}
	if w.kind == "simple" {
		return r.runSimple(w, adv, ver)
	}
	s := w.s
	G, H := w.G, w.H
	X, Y := w.X, w.Y
	Xb, Yb := cp2(w.Xb), cp2(w.Yb)
	prf := append([]byte(nil), w.prf...)
	e := w.e
	q := adv.B - 1 // sequence index for the output families that carry it in b
	certify := true
	unw := false
	switch adv.F {
	case "none", "gen", "ident":
	case "honestlib":
		xb, yb, prover := shuffle.Shuffle(s, G, H, X[0], Y[0], s.RandomStream())
		p, err := proof.HashProve(s, protoName, prover)
		if err != nil {
			r.violate("prove-error", "HashProve of shuffle.Shuffle failed", map[string]any{"err": err.Error()})
			return nil
		}
		Xb, Yb, prf = [][]kyber.Point{xb}, [][]kyber.Point{yb}, p
	case "replaceX":
		Xb[q][adv.A-1], _ = s.AlterPoint(Xb[q][adv.A-1])
	case "replaceY":
		Yb[q][adv.A-1], _ = s.AlterPoint(Yb[q][adv.A-1])
	case "oppXY":
		D := s.Point().Mul(s.NonZeroScalar(), G)
		Xb[q][adv.A-1] = s.Point().Add(Xb[q][adv.A-1], D)
		Yb[q][adv.A-1] = s.Point().Sub(Yb[q][adv.A-1], D)
	case "comptamper":
		var err error
		Xb, Yb, prf, err = r.biffleTamper(w, adv.A, adv.B)
		if err != nil {
			r.res.Skip("forger-could-not-produce-a-transcript")
			return nil
		}
	case "replace":
		rr, mm := s.NonZeroScalar(), s.NonZeroScalar()
		Xb[q][adv.A-1] = s.Point().Mul(rr, G)
		Yb[q][adv.A-1] = s.Point().Add(s.Point().Mul(rr, H), s.Point().Mul(mm, G))
	case "rerand":
		d := s.NonZeroScalar()
		Xb[q][adv.A-1] = s.Point().Add(Xb[q][adv.A-1], s.Point().Mul(d, G))
		Yb[q][adv.A-1] = s.Point().Add(Yb[q][adv.A-1], s.Point().Mul(d, H))
	case "scal":
		two := s.Scalar().SetInt64(2)
		Xb[q][adv.A-1] = s.Point().Mul(two, Xb[q][adv.A-1])
		Yb[q][adv.A-1] = s.Point().Mul(two, Yb[q][adv.A-1])
	case "dup", "sum", "swapXY", "swapX", "kshift", "kshiftX", "oppXYcross":
		q = 0
		if w.kind == "seq" {
			q = 0 // pair families carry (j, j2); on sequences they act on the first sequence
		}
		j, j2 := adv.A-1, adv.B-1
		switch adv.F {
		case "dup":
			d := s.NonZeroScalar()
			Xb[q][j] = s.Point().Add(Xb[q][j2], s.Point().Mul(d, G))
			Yb[q][j] = s.Point().Add(Yb[q][j2], s.Point().Mul(d, H))
		case "sum":
			Xb[q][j] = s.Point().Add(Xb[q][j], Xb[q][j2])
			Yb[q][j] = s.Point().Add(Yb[q][j], Yb[q][j2])
		case "swapXY":
			Xb[q][j], Xb[q][j2] = Xb[q][j2], Xb[q][j]
			Yb[q][j], Yb[q][j2] = Yb[q][j2], Yb[q][j]
		case "swapX":
			Xb[q][j], Xb[q][j2] = Xb[q][j2], Xb[q][j]
		case "oppXYcross":
			D := s.Point().Mul(s.NonZeroScalar(), G)
			Xb[q][j] = s.Point().Add(Xb[q][j], D)
			Yb[q][j2] = s.Point().Sub(Yb[q][j2], D)
		case "kshiftX":
			// the kernel shift on the first components only
			sig := r.readScalars(w, prf, 8)
			P := s.Point().Mul(s.NonZeroScalar(), G)
			if w.kind == "seq" {
				P = s.Point().Mul(s.Scalar().Inv(w.e[0]), P)
			}
			Xb[q][j] = s.Point().Add(Xb[q][j], s.Point().Mul(sig[j2], P))
			Xb[q][j2] = s.Point().Sub(Xb[q][j2], s.Point().Mul(sig[j], P))
		case "kshift":
			// anyone holding the public proof: read sigma (Zsigma) from it, shift two outputs by offsets in its kernel
			sig := r.readScalars(w, prf, 8)
			P, Q := s.Point().Mul(s.NonZeroScalar(), G), s.Point().Mul(s.NonZeroScalar(), G)
			if w.kind == "seq" {
				// the verifier consolidates sum_q e_q * Xbar[q]: shifting sequence 0 by 1/e_0 times the offset shifts the
				// consolidated output by the offset (e is public when the proof is verified)
				inv := s.Scalar().Inv(w.e[0])
				P, Q = s.Point().Mul(inv, P), s.Point().Mul(inv, Q)
			}
			Xb[q][j] = s.Point().Add(Xb[q][j], s.Point().Mul(sig[j2], P))
			Xb[q][j2] = s.Point().Sub(Xb[q][j2], s.Point().Mul(sig[j], P))
			Yb[q][j] = s.Point().Add(Yb[q][j], s.Point().Mul(sig[j2], Q))
			Yb[q][j2] = s.Point().Sub(Yb[q][j2], s.Point().Mul(sig[j], Q))
		}
	case "seqperm":
		j, j2 := adv.A-1, adv.B-1
		for qq := 1; qq < w.nq; qq++ {
			Xb[qq][j], Xb[qq][j2] = Xb[qq][j2], Xb[qq][j]
			Yb[qq][j], Yb[qq][j2] = Yb[qq][j2], Yb[qq][j]
		}
	case "mutate":
		prf, unw = r.mutate(w, prf, adv.A-1, adv.B)
	case "trunc":
		prf = prf[:w.msgBoundary(adv.A)]
	case "truncbytes":
		prf = prf[:len(prf)-adv.A]
	case "trunczero":
		prf, unw = zeroTail(s, func() ([]byte, error) { return proof.HashProve(s, protoName, w.prover) }, w.totalLen())
	case "splice":
		cut := w.msgBoundary(adv.A)
		prf = append(append([]byte(nil), w.prf[:cut]...), w.prf2[cut:]...)
		if adv.B == 2 {
			Xb, Yb = cp2(w.Xb2), cp2(w.Yb2)
		}
		if bytes.Equal(prf, w.prf) || bytes.Equal(prf, w.prf2) {
			unw = true
		}
	case "param":
		if adv.A == 1 {
			G, _ = s.AlterPoint(G)
		} else {
			H, _ = s.AlterPoint(H)
		}
	case "input":
		X, Y = cp2(X), cp2(Y)
		if adv.B == 1 {
			X[0][adv.A-1], _ = s.AlterPoint(X[0][adv.A-1])
		} else {
			Y[0][adv.A-1], _ = s.AlterPoint(Y[0][adv.A-1])
		}
		certify = false
	case "reprove":
		// completeness under re-use of the honest prover on the same shuffle result
		p := w.prover
		if adv.A == 2 {
			e = make([]kyber.Scalar, w.nq)
			for i := range e {
				e[i] = s.NonZeroScalar()
			}
			var err error
			if p, err = w.getProver(e); err != nil {
				r.violate("prove-error", "getProver fails for a second challenge vector", map[string]any{"err": err.Error()})
				return nil
			}
		}
		var err error
		if prf, err = proof.HashProve(s, protoName, p); err != nil {
			r.violate("prove-error", "the honest prover fails when run a second time", map[string]any{"err": err.Error()})
			return nil
		}
	case "eqviol":
		var err error
		inner := w.prover
		ec := &eqCtx{s: s, field: eqFields[adv.A-1], idx: adv.B - 1}
		prf, err = proof.HashProve(s, protoName, func(ctx proof.ProverContext) error {
			ec.ProverContext = ctx
			return inner(ec)
		})
		if err != nil || !ec.done {
			if err != nil {
				r.res.Skip("forger-could-not-produce-a-transcript")
				return nil
			}
			return fmt.Errorf("harness: equation forger altered nothing")
		}
	case "simboth":
		var err error
		Xb, Yb, prf, err = r.biffleSimulate(w)
		if err != nil {
			r.res.Skip("forger-could-not-produce-a-transcript")
			return nil
		}
	case "detach":
		var err error
		Xb, Yb, prf, err = r.forgeDetached(w)
		if err != nil {
			r.res.Skip("forger-could-not-produce-a-transcript")
			return nil
		}
	default:
		return fmt.Errorf("unknown family %q", adv.F)
	}
	if unw {
		r.res.Skip("unwitnessed-mutation")
		return nil
	}
	// certification of the abstract fact "the output is / is not a permutation of re-encryptions of the input"
	if certify {
		isPerm := w.decryptPerm(Xb, Yb) != nil
		if isPerm != ver.Perm {
			r.res.Skip("unwitnessed-output-class")
			return nil
		}
	}
	// the verifier
	var verifier proof.Verifier
	switch w.kind {
	case "pair":
		verifier = shuffle.Verifier(s, G, H, X[0], Y[0], Xb[0], Yb[0])
	case "biffle":
		verifier = shuffle.BiffleVerifier(s, G, H, [2]kyber.Point{X[0][0], X[0][1]}, [2]kyber.Point{Y[0][0], Y[0][1]},
			[2]kyber.Point{Xb[0][0], Xb[0][1]}, [2]kyber.Point{Yb[0][0], Yb[0][1]})
	case "seq":
		xu, yu, xd, yd := shuffle.GetSequenceVerifiable(s, X, Y, Xb, Yb, e)
		verifier = shuffle.Verifier(s, G, H, xu, yu, xd, yd)
	}
	err := proof.HashVerify(s, protoName, verifier, prf)
	r.judge(w, adv, ver, err)
	return nil
}

func (r *replayer) judge(w *world, adv, ver Step, err error) {
	r.res.Eval(fmt.Sprintf("%s/%x", r.s.Name, core.Hash64(r.bh.raw)))
	got := "rej"
	if err == nil {
		got = "acc"
	}
	switch ver.Must {
	case "acc":
		if err != nil {
			r.violate("honest-rejected", "the proof of an honest shuffle does not verify", map[string]any{"err": err.Error()})
		}
	case "rej":
		if err == nil {
			r.violate("accepted", fmt.Sprintf("verification succeeds for adversary family %q (%s shuffle): output is not a permutation of re-encryptions of the input, or proof / parameters were altered", adv.F, w.kind),
				map[string]any{"k": w.k, "nq": w.nq, "family": adv})
		}
	default:
		if got != ver.Impl {
			r.res.AddExtra("drift_free_verdicts", 1)
		}
	}
}

func (r *replayer) readScalars(w *world, prf []byte, itemIdx int) []kyber.Scalar {
	off, size, it := w.itemOffset(itemIdx)
	out := make([]kyber.Scalar, it.n)
	for i := range out {
		out[i] = w.s.Scalar()
		if err := out[i].UnmarshalBinary(prf[off+i*size : off+(i+1)*size]); err != nil {
			panic(err)
		}
	}
	return out
}

// mutate alters element (first: e=1 / last: e=2) of transcript item i to a semantically different value
func (r *replayer) mutate(w *world, prf0 []byte, i, e int) ([]byte, bool) {
	prf := append([]byte(nil), prf0...)
	off, size, it := w.itemOffset(i)
	el := 0
	if e == 2 {
		el = it.n - 1
	}
	if e == 3 {
		prf[off+it.n*size-1] ^= 0x80
		return prf, false
	}
	b := prf[off+el*size : off+(el+1)*size]
	var nb []byte
	if it.point {
		p := w.s.Point()
		if err := p.UnmarshalBinary(b); err != nil {
			panic(err)
		}
		q, ok := w.s.AlterPoint(p)
		if !ok {
			return nil, true
		}
		nb, _ = q.MarshalBinary()
	} else {
		x := w.s.Scalar()
		if err := x.UnmarshalBinary(b); err != nil {
			panic(err)
		}
		y, ok := w.s.AlterScalar(x)
		if !ok {
			return nil, true
		}
		nb, _ = y.MarshalBinary()
	}
	if len(nb) != size || bytes.Equal(nb, b) {
		return nil, true
	}
	copy(b, nb)
	return prf, false
}

// ---------------------------------------------------------------- simple shuffle

func (r *replayer) runSimple(w *world, adv, ver Step) error {
	s := w.s
	G, Gamma := w.G, w.Gamma
	y := make([]kyber.Scalar, w.k)
	for i := range y {
		y[i] = w.y[i].Clone()
	}
	j, j2 := adv.A-1, adv.B-1
	switch adv.F {
	case "replace":
		y[j] = s.NonZeroScalar()
	case "dup":
		y[j] = y[j2].Clone()
	case "sum":
		y[j] = s.Scalar().Add(y[j], y[j2])
	case "scal":
		y[j] = s.Scalar().Mul(s.Scalar().SetInt64(2), y[j])
	}
	// certification: y is / is not gamma * (a permutation of x)
	used := map[int]bool{}
	isPerm := true
	for jj := range y {
		f := false
		for i := range w.x {
			if !used[i] && y[jj].Equal(s.Scalar().Mul(w.gamma, w.x[i])) {
				used[i], f = true, true
				break
			}
		}
		isPerm = isPerm && f
	}
	if isPerm != ver.Perm {
		r.res.Skip("unwitnessed-output-class")
		return nil
	}
	ss0 := new(shuffle.SimpleShuffle).Init(s, w.k)
	prove := func() ([]byte, error) {
		ss := ss0
		if adv.F != "reprove" {
			ss = new(shuffle.SimpleShuffle).Init(s, w.k)
		}
		var ec *eqCtx
		prf, err := proof.HashProve(s, protoName, func(ctx proof.ProverContext) error {
			if adv.F == "eqviol" {
				ec = &eqCtx{ProverContext: ctx, s: s, field: eqFields[adv.A-1], idx: adv.B - 1}
				ctx = ec
			}
			return ss.Prove(G, w.gamma, w.x, y, s.RandomStream(), ctx)
		})
		if err == nil && ec != nil && !ec.done {
			err = fmt.Errorf("harness: equation forger altered nothing")
		}
		return prf, err
	}
	prf, err := prove()
	if err == nil && adv.F == "reprove" {
		prf, err = prove() // the same SimpleShuffle object proves a second time
	}
	if err != nil {
		if strings.HasPrefix(err.Error(), "harness:") {
			return err
		}
		if ver.Must == "acc" {
			r.violate("prove-error", "SimpleShuffle.Prove failed on an honest instance", map[string]any{"err": err.Error()})
		}
		return nil
	}
	if len(prf) != w.totalLen() {
		return fmt.Errorf("harness: simple-shuffle transcript is %d bytes, layout says %d", len(prf), w.totalLen())
	}
	unw := false
	switch adv.F {
	case "mutate":
		prf, unw = r.mutate(w, prf, adv.A-1, adv.B)
	case "trunc":
		prf = prf[:w.msgBoundary(adv.A)]
	case "truncbytes":
		prf = prf[:len(prf)-adv.A]
	case "trunczero":
		prf, unw = zeroTail(s, prove, w.totalLen())
	case "splice":
		p2, err := prove()
		if err != nil {
			return err
		}
		cut := w.msgBoundary(adv.A)
		n := append(append([]byte(nil), prf[:cut]...), p2[cut:]...)
		unw = bytes.Equal(n, prf) || bytes.Equal(n, p2)
		prf = n
	case "param":
		if adv.A == 1 {
			G, _ = s.AlterPoint(G)
		} else {
			Gamma, _ = s.AlterPoint(Gamma)
		}
	}
	if unw {
		r.res.Skip("unwitnessed-mutation")
		return nil
	}
	vs := new(shuffle.SimpleShuffle).Init(s, w.k)
	err = proof.HashVerify(s, protoName, func(ctx proof.VerifierContext) error { return vs.Verify(G, Gamma, ctx) }, prf)
	r.judge(w, adv, ver, err)
	return nil
}

// zeroTail re-runs an honest prover (fresh randomness each time) until the proof ends in 0x00 and returns it cut by
// exactly its trailing zero bytes (at most one byte short of the whole last scalar). One proof in 16 qualifies on
// Ed25519 (little-endian, top byte < 16), one in 256 on the big-endian suites, where fewer attempts are affordable.
func zeroTail(s *suites.S, prove func() ([]byte, error), total int) ([]byte, bool) {
	tries := 40
	if s.Name == "ed25519" {
		tries = 80
	}
	for t := 0; t < tries; t++ {
		q, err := prove()
		if err != nil || len(q) != total || q[len(q)-1] != 0 {
			continue
		}
		z := 0
		for z < s.ScalarLen()-1 && q[len(q)-1-z] == 0 {
			z++
		}
		return append([]byte(nil), q[:len(q)-z]...), false
	}
	return nil, true
}

// ---------------------------------------------------------------- one forger per verification equation

// transcript fields that occur in exactly one verification equation (see Shuffle.tla, EquationFamilies)
var eqFields = []string{"W", "Lambda1", "Lambda2", "A", "C", "Theta"}

// eqCtx wraps the real prover context of an HONEST prover run and replaces one commitment of the message being Put,
// before it is hashed into the next challenge: the rest of the run stays consistent with the altered transcript, so
// exactly one verification equation fails.
type eqCtx struct {
	proof.ProverContext
	s     *suites.S
	field string
	idx   int
	done  bool
}

func (c *eqCtx) Put(message any) error {
	if !c.done {
		v := reflect.ValueOf(message)
		for v.Kind() == reflect.Pointer || v.Kind() == reflect.Interface {
			v = v.Elem()
		}
		if v.Kind() == reflect.Struct {
			if f := v.FieldByName(c.field); f.IsValid() {
				switch {
				case f.Kind() == reflect.Slice && c.idx < f.Len():
					el := f.Index(c.idx)
					if p, ok := el.Interface().(kyber.Point); ok {
						q, _ := c.s.AlterPoint(p)
						el.Set(reflect.ValueOf(q))
						c.done = true
					}
				case f.Kind() == reflect.Interface && f.CanSet():
					if p, ok := f.Interface().(kyber.Point); ok {
						q, _ := c.s.AlterPoint(p)
						f.Set(reflect.ValueOf(q))
						c.done = true
					}
				}
			}
		}
	}
	return c.ProverContext.Put(message)
}

// ---------------------------------------------------------------- biffle: both branches simulated

// biffleSimulate: unrelated outputs, every Rep of both branches simulated (V = w*P + r*B) with self-chosen
// sub-challenges w that do not sum to the challenge; transcript in the library's layout (8 V, 2 sub-challenges,
// responses for beta0, beta1 per branch).
func (r *replayer) biffleSimulate(w *world) ([][]kyber.Point, [][]kyber.Point, []byte, error) {
	s := w.s
	X, Y := w.X[0], w.Y[0]
	Xb, Yb := make([]kyber.Point, 2), make([]kyber.Point, 2)
	for i := range Xb {
		rr, mm := s.NonZeroScalar(), s.NonZeroScalar()
		Xb[i] = s.Point().Mul(rr, w.G)
		Yb[i] = s.Point().Add(s.Point().Mul(rr, w.H), s.Point().Mul(mm, w.G))
	}
	sub := func(a, b kyber.Point) kyber.Point { return s.Point().Sub(a, b) }
	type st struct {
		p    kyber.Point
		x    int
		base kyber.Point
	}
	branches := [2][4]st{
		{{sub(Xb[0], X[0]), 0, w.G}, {sub(Yb[0], Y[0]), 0, w.H}, {sub(Xb[1], X[1]), 1, w.G}, {sub(Yb[1], Y[1]), 1, w.H}},
		{{sub(Xb[0], X[1]), 1, w.G}, {sub(Yb[0], Y[1]), 1, w.H}, {sub(Xb[1], X[0]), 0, w.G}, {sub(Yb[1], Y[0]), 0, w.H}},
	}
	prover := func(ctx proof.ProverContext) error {
		wch := []kyber.Scalar{s.NonZeroScalar(), s.NonZeroScalar()}
		resp := [2][2]kyber.Scalar{{s.NonZeroScalar(), s.NonZeroScalar()}, {s.NonZeroScalar(), s.NonZeroScalar()}}
		for b, br := range branches {
			for _, t := range br {
				V := s.Point().Add(s.Point().Mul(wch[b], t.p), s.Point().Mul(resp[b][t.x], t.base))
				if err := ctx.Put(V); err != nil {
					return err
				}
			}
		}
		c := s.Scalar()
		if err := ctx.PubRand(c); err != nil {
			return err
		}
		if s.Scalar().Add(wch[0], wch[1]).Equal(c) {
			return fmt.Errorf("degenerate")
		}
		if err := ctx.Put(wch); err != nil {
			return err
		}
		for b := range branches {
			for x := 0; x < 2; x++ {
				if err := ctx.Put(resp[b][x]); err != nil {
					return err
				}
			}
		}
		return nil
	}
	prf, err := proof.HashProve(s, protoName, prover)
	return [][]kyber.Point{Xb}, [][]kyber.Point{Yb}, prf, err
}

// ---------------------------------------------------------------- biffle: component tamper + best-effort prover

// biffleTamper: a dishonest mixer shuffles with its own blinding factors (bit = the permutation of this world), replaces
// output component comp (1..4 = Xbar[0], Ybar[0], Xbar[1], Ybar[1]) and proves - with the library's own Rep/And/Or prover,
// over the points of the TAMPERED output - the biffle statement in which the one Rep it cannot satisfy is kept (hyp = 0,
// stale witness) or replaced by a copy of the hyp-th other Rep of that branch (hyp = 1..3).
func (r *replayer) biffleTamper(w *world, comp, hyp int) ([][]kyber.Point, [][]kyber.Point, []byte, error) {
	s := w.s
	bit := w.pi[0]
	beta := [2]kyber.Scalar{s.NonZeroScalar(), s.NonZeroScalar()}
	X, Y := w.X[0], w.Y[0]
	Xb, Yb := make([]kyber.Point, 2), make([]kyber.Point, 2)
	for i := 0; i < 2; i++ {
		pi := i ^ bit
		Xb[i] = s.Point().Add(s.Point().Mul(beta[pi], w.G), X[pi])
		Yb[i] = s.Point().Add(s.Point().Mul(beta[pi], w.H), Y[pi])
	}
	switch comp {
	case 1:
		Xb[0], _ = s.AlterPoint(Xb[0])
	case 2:
		Yb[0], _ = s.AlterPoint(Yb[0])
	case 3:
		Xb[1], _ = s.AlterPoint(Xb[1])
	case 4:
		Yb[1], _ = s.AlterPoint(Yb[1])
	}
	sub := func(a, b kyber.Point) kyber.Point { return s.Point().Sub(a, b) }
	points := map[string]kyber.Point{"G": w.G, "H": w.H,
		"Xbar0-X0": sub(Xb[0], X[0]), "Ybar0-Y0": sub(Yb[0], Y[0]), "Xbar1-X1": sub(Xb[1], X[1]), "Ybar1-Y1": sub(Yb[1], Y[1]),
		"Xbar0-X1": sub(Xb[0], X[1]), "Ybar0-Y1": sub(Yb[0], Y[1]), "Xbar1-X0": sub(Xb[1], X[0]), "Ybar1-Y0": sub(Yb[1], Y[0])}
	type st struct{ p, x, b string }
	branches := [2][4]st{
		{{"Xbar0-X0", "beta0", "G"}, {"Ybar0-Y0", "beta0", "H"}, {"Xbar1-X1", "beta1", "G"}, {"Ybar1-Y1", "beta1", "H"}},
		{{"Xbar0-X1", "beta1", "G"}, {"Ybar0-Y1", "beta1", "H"}, {"Xbar1-X0", "beta0", "G"}, {"Ybar1-Y0", "beta0", "H"}},
	}
	if hyp > 0 {
		k := 0
		for i := 0; i < 4; i++ {
			if i == comp-1 {
				continue
			}
			k++
			if k == hyp {
				branches[bit][comp-1] = branches[bit][i]
			}
		}
	}
	var ands []proof.Predicate
	for _, br := range branches {
		var reps []proof.Predicate
		for _, t := range br {
			reps = append(reps, proof.Rep(t.p, t.x, t.b))
		}
		ands = append(ands, proof.And(reps...))
	}
	or := proof.Or(ands...)
	prover := or.Prover(s, map[string]kyber.Scalar{"beta0": beta[0], "beta1": beta[1]}, points, map[proof.Predicate]int{or: bit})
	prf, err := proof.HashProve(s, protoName, prover)
	return [][]kyber.Point{Xb}, [][]kyber.Point{Yb}, prf, err
}

// ---------------------------------------------------------------- DESIGN 7 #7: simple-shuffle detachment

// structs with the field layout of the library's transcript messages (the encoding is structural)
type fEga1 struct {
	Gamma            kyber.Point
	A, C, U, W       []kyber.Point
	Lambda1, Lambda2 kyber.Point
}
type fEga2 struct{ Zrho []kyber.Scalar }
type fEga3 struct{ D []kyber.Point }
type fEga4 struct{ Zlambda kyber.Scalar }
type fEga5 struct {
	Zsigma []kyber.Scalar
	Ztau   kyber.Scalar
}

// forgeDetached produces a transcript that PairShuffle.Verify accepts (on the pinned tree) for an output that has
// nothing to do with the input. The forger knows the discrete logarithms of inputs, outputs and H (it made them up),
// chooses Lambda1/Lambda2 first, solves equations (34),(35) for sigma/tau once rho is known, sets D = sigma*Gamma - W
// to satisfy (33), and runs the exported SimpleShuffle.Prove on vectors of its own.
func (r *replayer) forgeDetached(w *world) ([][]kyber.Point, [][]kyber.Point, []byte, error) {
	s := w.s
	k := w.k
	sc := func() kyber.Scalar { return s.NonZeroScalar() }
	mul := func(a, b kyber.Scalar) kyber.Scalar { return s.Scalar().Mul(a, b) }
	// unrelated output ciphertexts with known logs (base G): xb = log X̄, yb = log Ȳ
	xb, yb := make([]kyber.Scalar, k), make([]kyber.Scalar, k)
	Xb, Yb := make([]kyber.Point, k), make([]kyber.Point, k)
	for j := 0; j < k; j++ {
		rr, mm := sc(), sc()
		xb[j] = rr
		yb[j] = s.Scalar().Add(mul(rr, w.h), mm)
		Xb[j] = s.Point().Mul(xb[j], w.G)
		Yb[j] = s.Point().Mul(yb[j], w.G)
	}
	// logs of the inputs
	xi, yi := make([]kyber.Scalar, k), make([]kyber.Scalar, k)
	for i := 0; i < k; i++ {
		xi[i] = w.r[0][i]
		yi[i] = s.Scalar().Add(mul(w.r[0][i], w.h), w.m[0][i])
	}
	prover := func(ctx proof.ProverContext) error {
		gamma := sc()
		p1 := &fEga1{Gamma: s.Point().Mul(gamma, w.G), A: make([]kyber.Point, k), C: make([]kyber.Point, k), U: make([]kyber.Point, k), W: make([]kyber.Point, k)}
		wv := make([]kyber.Scalar, k)
		for i := 0; i < k; i++ {
			p1.A[i], p1.C[i], p1.U[i] = s.Point().Mul(sc(), w.G), s.Point().Mul(sc(), w.G), s.Point().Mul(sc(), w.G)
			wv[i] = sc()
			p1.W[i] = s.Point().Mul(wv[i], w.G)
		}
		l1, l2 := sc(), sc()
		p1.Lambda1, p1.Lambda2 = s.Point().Mul(l1, w.G), s.Point().Mul(l2, w.G)
		if err := ctx.Put(p1); err != nil {
			return err
		}
		v2 := &fEga2{Zrho: make([]kyber.Scalar, k)}
		if err := ctx.PubRand(v2); err != nil {
			return err
		}
		// solve  sum sigma_i xb_i - sum rho_i x_i - tau   = l1
		//        sum sigma_i yb_i - sum rho_i y_i - tau*h = l2     for sigma_0, sigma_1 (others and tau random)
		sigma := make([]kyber.Scalar, k)
		tau := sc()
		e1 := s.Scalar().Add(l1, tau)
		e2 := s.Scalar().Add(l2, mul(tau, w.h))
		for i := 0; i < k; i++ {
			e1.Add(e1, mul(v2.Zrho[i], xi[i]))
			e2.Add(e2, mul(v2.Zrho[i], yi[i]))
		}
		for i := 2; i < k; i++ {
			sigma[i] = sc()
			e1.Sub(e1, mul(sigma[i], xb[i]))
			e2.Sub(e2, mul(sigma[i], yb[i]))
		}
		det := s.Scalar().Sub(mul(xb[0], yb[1]), mul(xb[1], yb[0]))
		if det.Equal(s.Scalar().Zero()) {
			return fmt.Errorf("degenerate")
		}
		sigma[0] = s.Scalar().Div(s.Scalar().Sub(mul(e1, yb[1]), mul(e2, xb[1])), det)
		sigma[1] = s.Scalar().Div(s.Scalar().Sub(mul(xb[0], e2), mul(yb[0], e1)), det)
		p3 := &fEga3{D: make([]kyber.Point, k)}
		for i := 0; i < k; i++ {
			p3.D[i] = s.Point().Sub(s.Point().Mul(sigma[i], p1.Gamma), p1.W[i])
		}
		if err := ctx.Put(p3); err != nil {
			return err
		}
		v4 := &fEga4{}
		if err := ctx.PubRand(v4); err != nil {
			return err
		}
		if err := ctx.Put(&fEga5{Zsigma: sigma, Ztau: tau}); err != nil {
			return err
		}
		// an honest simple shuffle about vectors of the forger's own
		x, y := make([]kyber.Scalar, k), make([]kyber.Scalar, k)
		for i := range x {
			x[i] = sc()
		}
		for i := range y {
			y[i] = mul(gamma, x[(i+1)%k])
		}
		ss := new(shuffle.SimpleShuffle).Init(s, k)
		return ss.Prove(w.G, gamma, x, y, s.RandomStream(), ctx)
	}
	prf, err := proof.HashProve(s, protoName, prover)
	return [][]kyber.Point{Xb}, [][]kyber.Point{Yb}, prf, err
}
