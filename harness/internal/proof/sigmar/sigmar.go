// Package sigmar replays behaviours of spec/Sigma.tla (property C14) on the
// real proof package: proof.HashProve / HashVerify and the deniable
// (interactive, clique) prover and verifiers, and records the calls the real
// provers / verifiers make on their contexts for spec/SigmaTrace.tla.
//
// Refinement mapping only: predicate trees (data) -> proof.Rep/And/Or values,
// secrets and points; abstract tampering -> bytes / verifier inputs; verdicts
// come from the behaviour.
package sigmar

import (
	"bytes"
	"encoding/json"
	"errors"
	"fmt"
	"os"
	"runtime"
	"strings"
	"sync"
	"time"

	"go.dedis.ch/kyber/v4"
	"go.dedis.ch/kyber/v4/proof"

	"verifharness/internal/core"
	"verifharness/internal/proof/suites"
)

type Term struct {
	S int `json:"s"`
	B int `json:"b"`
}

type Fals struct {
	K string `json:"k"`
	I int    `json:"i"`
	J int    `json:"j"`
}

type Mut struct {
	K string `json:"k"`
	A int    `json:"a"`
	B int    `json:"b"`
	C int    `json:"c"`
}

type Step struct {
	Op       string     `json:"op"`
	Tree     [][][]Term `json:"tree"`
	Choice   int        `json:"choice"`
	Wrap     string     `json:"wrap"`
	Fals     Fals       `json:"fals"`
	Fault    int        `json:"fault"`
	NLen     int        `json:"nlen"`
	Runs     int        `json:"runs"`
	Nest     int        `json:"nest"`
	Items    []string   `json:"items"`
	NPriRand int        `json:"nprirand"`
	Truth    []bool     `json:"truth"`
	M        Mut        `json:"m"`
	Must     string     `json:"must"`
	MustDen  string     `json:"mustden"`
}

type Config struct {
	Prop     string
	In       string
	Seed     int64
	Suites   string
	Max      int    // behaviours per suite (0 = all)
	Deniable int    // run the deniable protocol on one behaviour out of N (0 = never, 1 = all)
	TraceOut string // ndjson file for SigmaTrace (context-call recordings); "" = none
	TraceMax int
}

// protoNameOf: the prover's protocol name of the requested length (deterministic, no repeated period of 64)
func protoNameOf(n int) string {
	b := make([]byte, n)
	for i := range b {
		b[i] = "verif/sigma:"[i%12] + byte(i/12)%7
	}
	return string(b)
}

// rep with explicit point name (the verifier's predicate may change the terms but keeps the point variable)
type rep struct {
	Name  string
	Terms []Term
}

func repName(ts []Term) string {
	var b strings.Builder
	b.WriteString("P[")
	for i, t := range ts {
		if i > 0 {
			b.WriteString("+")
		}
		fmt.Fprintf(&b, "%d.%d", t.S, t.B)
	}
	b.WriteString("]")
	return b.String()
}

func namedTree(tree [][][]Term) [][]rep {
	out := make([][]rep, len(tree))
	for b := range tree {
		for _, ts := range tree[b] {
			out[b] = append(out[b], rep{repName(ts), append([]Term(nil), ts...)})
		}
	}
	return out
}

// build turns a tree into a proof.Predicate; returns the Or node (nil if elided)
func build(tree [][]rep, wrap string) (top proof.Predicate, or proof.Predicate) {
	top, ors := buildN(tree, wrap, 0)
	if len(ors) > 0 {
		return top, ors[0]
	}
	return top, nil
}

// choiceMap: the branch choices of the Or nodes (outer, inner) for chosen branch c (1-based) of a tree whose last
// `nest` branches form a nested Or
func choiceMap(ors []proof.Predicate, nbr, nest, c int) map[proof.Predicate]int {
	if len(ors) == 0 {
		return nil
	}
	if nest == 0 {
		return map[proof.Predicate]int{ors[0]: c - 1}
	}
	outer := nbr - nest
	if c <= outer {
		return map[proof.Predicate]int{ors[0]: c - 1}
	}
	return map[proof.Predicate]int{ors[0]: outer, ors[1]: c - outer - 1}
}

// clampNest: nesting applicable to a (possibly shortened / extended) verifier tree
func clampNest(nbr, nest int) int {
	if nest > nbr-1 {
		nest = nbr - 1
	}
	if nest < 2 {
		return 0
	}
	return nest
}

// buildN: like build, the last `nest` branches (nest >= 2, at least one branch before them) form an Or nested in the
// top-level Or; returns the Or nodes (outer first)
func buildN(tree [][]rep, wrap string, nest int) (top proof.Predicate, ors []proof.Predicate) {
	var brs []proof.Predicate
	for _, br := range tree {
		var reps []proof.Predicate
		for _, r := range br {
			args := make([]string, 0, 2*len(r.Terms))
			for _, t := range r.Terms {
				args = append(args, fmt.Sprintf("x%d", t.S), fmt.Sprintf("B%d", t.B))
			}
			reps = append(reps, proof.Rep(r.Name, args...))
		}
		if len(reps) == 1 && wrap == "min" {
			brs = append(brs, reps[0])
		} else {
			brs = append(brs, proof.And(reps...))
		}
	}
	if nest >= 2 && len(brs)-nest >= 1 {
		inner := proof.Or(brs[len(brs)-nest:]...)
		outer := proof.Or(append(append([]proof.Predicate(nil), brs[:len(brs)-nest]...), inner)...)
		return outer, []proof.Predicate{outer, inner}
	}
	if len(brs) == 1 && wrap == "min" {
		return brs[0], nil
	}
	o := proof.Or(brs...)
	return o, []proof.Predicate{o}
}

type statement struct {
	s      *suites.S
	name   string
	ns, nb int
	x      map[string]kyber.Scalar // true secrets
	px     map[string]kyber.Scalar // prover's secrets (possibly falsified)
	pts    map[string]kyber.Point
	tree   [][]rep
}

func maxIdx(tree [][][]Term) (ns, nb int) {
	for _, br := range tree {
		for _, r := range br {
			for _, t := range r {
				if t.S > ns {
					ns = t.S
				}
				if t.B > nb {
					nb = t.B
				}
			}
		}
	}
	return
}

func newStatement(s *suites.S, st Step) *statement {
	ns, nb := maxIdx(st.Tree)
	nb++ // one spare base for predicate variations
	m := &statement{s: s, name: protoNameOf(st.NLen), ns: ns, nb: nb, x: map[string]kyber.Scalar{}, px: map[string]kyber.Scalar{}, pts: map[string]kyber.Point{}, tree: namedTree(st.Tree)}
	for v := 1; v <= ns; v++ {
		x := s.NonZeroScalar()
		m.x[fmt.Sprintf("x%d", v)] = x
		m.px[fmt.Sprintf("x%d", v)] = x
	}
	for b := 1; b <= nb; b++ {
		if b == 1 {
			m.pts["B1"] = s.Point().Base()
		} else {
			m.pts[fmt.Sprintf("B%d", b)] = s.Point().Pick(s.RandomStream())
		}
	}
	for _, br := range m.tree {
		for _, r := range br {
			P := s.Point().Null()
			for _, t := range r.Terms {
				P.Add(P, s.Point().Mul(m.x[fmt.Sprintf("x%d", t.S)], m.pts[fmt.Sprintf("B%d", t.B)]))
			}
			m.pts[r.Name] = P
		}
	}
	switch st.Fals.K {
	case "s":
		n := fmt.Sprintf("x%d", st.Fals.I)
		m.px[n] = s.Scalar().Add(m.x[n], s.Scalar().One())
	case "p":
		m.pts[m.tree[st.Fals.I-1][st.Fals.J-1].Name] = s.Point().Pick(s.RandomStream())
	}
	return m
}

func cpPts(m map[string]kyber.Point) map[string]kyber.Point {
	out := make(map[string]kyber.Point, len(m))
	for k, v := range m {
		out[k] = v.Clone()
	}
	return out
}

func cpTree(t [][]rep) [][]rep {
	out := make([][]rep, len(t))
	for b := range t {
		for _, r := range t[b] {
			out[b] = append(out[b], rep{r.Name, append([]Term(nil), r.Terms...)})
		}
	}
	return out
}

// verifierSide applies a verifier-input mutation; returns tree, points, name and whether it was applicable
func (m *statement) verifierSide(mu Mut) ([][]rep, map[string]kyber.Point, string, bool) {
	tree, pts, name := cpTree(m.tree), cpPts(m.pts), m.name
	ok := true
	switch mu.K {
	case "name":
		b := []byte(m.name)
		switch mu.A {
		case 1: // differs only in the last byte
			b[len(b)-1] ^= 1
		case 2: // differs only in byte 65
			b[64] ^= 1
		case 3: // proper prefix
			if len(b) > 64 {
				b = b[:64]
			} else {
				b = b[:len(b)-1]
			}
		default: // extension
			b = append(b, 'x')
		}
		name = string(b)
		ok = name != m.name
	case "base":
		n := fmt.Sprintf("B%d", mu.A)
		pts[n], ok = m.s.AlterPoint(pts[n])
	case "point":
		n := tree[mu.A-1][mu.B-1].Name
		pts[n], ok = m.s.AlterPoint(pts[n])
	case "chbase":
		t := &tree[mu.A-1][mu.B-1].Terms[mu.C-1]
		t.B = t.B%m.nb + 1
	case "dropTerm":
		r := &tree[mu.A-1][mu.B-1]
		r.Terms = r.Terms[:len(r.Terms)-1]
	case "dropRep":
		tree[mu.A-1] = tree[mu.A-1][:len(tree[mu.A-1])-1]
	case "dropBranch":
		tree = tree[:len(tree)-1]
	case "addBranch":
		tree = append(tree, cpTree(tree[:1])[0])
	case "swapBranch":
		tree[mu.A-1], tree[mu.A] = tree[mu.A], tree[mu.A-1]
	case "swapRep":
		br := tree[mu.A-1]
		br[mu.B-1], br[mu.B] = br[mu.B], br[mu.B-1]
	}
	return tree, pts, name, ok
}

type layout struct {
	kinds []string
	pl    int
	sl    int
}

func (l layout) size(i int) int {
	if l.kinds[i] == "V" {
		return l.pl
	}
	return l.sl
}

func (l layout) offset(i int) int {
	o := 0
	for j := 0; j < i; j++ {
		o += l.size(j)
	}
	return o
}

func (l layout) total() int { return l.offset(len(l.kinds)) }

func (l layout) nV() int {
	n := 0
	for _, k := range l.kinds {
		if k == "V" {
			n++
		}
	}
	return n
}

// inCut: byte position of a cut inside item i: 1 byte kept (b = 1) / all but one byte kept (b = 2)
func inCut(l layout, i, b int) int {
	if b == 1 {
		return 1
	}
	return l.size(i) - 1
}

// alter changes the value encoded at b to a different one; false if no certified difference
func alter(s *suites.S, point bool, b []byte) bool {
	var nb []byte
	if point {
		p := s.Point()
		if err := p.UnmarshalBinary(b); err != nil {
			return false
		}
		q, ok := s.AlterPoint(p)
		if !ok {
			return false
		}
		nb, _ = q.MarshalBinary()
	} else {
		x := s.Scalar()
		if err := x.UnmarshalBinary(b); err != nil {
			return false
		}
		y, ok := s.AlterScalar(x)
		if !ok {
			return false
		}
		nb, _ = y.MarshalBinary()
	}
	if len(nb) != len(b) || bytes.Equal(nb, b) {
		return false
	}
	copy(b, nb)
	return true
}

// ---------------------------------------------------------------- driver

type behaviour struct {
	raw   string
	steps []Step
}

func Run(cfg Config, res *core.Result) error {
	var bhs []behaviour
	err := core.ReadLines(cfg.In, func(line []byte) error {
		var st []Step
		if err := json.Unmarshal(line, &st); err != nil {
			return fmt.Errorf("bad behaviour: %w", err)
		}
		bhs = append(bhs, behaviour{string(line), st})
		return nil
	})
	if err != nil {
		return err
	}
	if len(bhs) == 0 {
		return fmt.Errorf("no behaviours in %s", cfg.In)
	}
	res.AddTraces(len(bhs))
	names := []string{"ed25519", "p256", "bn256-g1"}
	if cfg.Suites != "" {
		names = strings.Split(cfg.Suites, ",")
	}
	keep := ^uint64(0)
	if cfg.Max > 0 && cfg.Max < len(bhs) {
		keep = uint64(float64(^uint64(0)) * float64(cfg.Max) / float64(len(bhs)))
	}
	var tr *tracer
	if cfg.TraceOut != "" {
		f, err := os.Create(cfg.TraceOut)
		if err != nil {
			return err
		}
		defer f.Close()
		tr = &tracer{w: f, max: cfg.TraceMax}
	}
	type task struct {
		suite string
		i     int
	}
	var tasks []task
	for _, s := range names {
		for i := range bhs {
			if core.Hash64(fmt.Sprint(cfg.Seed), s, bhs[i].raw) <= keep {
				tasks = append(tasks, task{s, i})
			}
		}
	}
	errs := make(chan error, len(tasks)+1)
	core.Parallel(len(tasks), runtime.NumCPU(), func(k int) {
		tk := tasks[k]
		st, err := suites.New(tk.suite, cfg.Seed, "sigma", fmt.Sprint(tk.i))
		if err != nil {
			errs <- err
			return
		}
		r := &replayer{cfg: cfg, res: res, s: st, bh: bhs[tk.i], tr: tr}
		if msg, stack, p := core.Try(func() {
			if e := r.run(); e != nil {
				errs <- e
			}
		}); p {
			r.violate("hash", "panic", "panic while replaying (library or harness)", map[string]any{"panic": msg, "stack": stack})
		}
		if k%(len(tasks)/3+1) == 0 {
			var j any
			_ = json.Unmarshal([]byte(bhs[tk.i].raw), &j)
			res.Sample(map[string]any{"suite": tk.suite, "behaviour": j})
		}
	})
	close(errs)
	for e := range errs {
		return e
	}
	if tr != nil {
		res.SetExtra("context_call_traces_recorded", tr.n)
	}
	return nil
}

// denObjs: the Prover / Verifier values of participant 0's statement, kept across the sessions of one behaviour
type denObjs struct {
	prover proof.Prover
	vrf    map[int]proof.Verifier
}

type replayer struct {
	rerun bool // judging a run after the first on the same Prover / Verifier values
	cfg   Config
	res   *core.Result
	s     *suites.S
	bh    behaviour
	tr    *tracer
}

func (r *replayer) caseKey() string {
	st := r.bh.steps
	c := "clean"
	if st[0].Fals.K != "none" {
		c = "fals-" + st[0].Fals.K
	}
	if len(st) == 3 && st[1].M.K != "none" {
		c = "mut-" + st[1].M.K
	}
	if st[0].Fault != 0 {
		c = "fault-" + c
	}
	if r.rerun {
		c = "rerun-" + c
	}
	return c
}

func (r *replayer) violate(mode, kind, what string, detail map[string]any) {
	if detail == nil {
		detail = map[string]any{}
	}
	var j any
	_ = json.Unmarshal([]byte(r.bh.raw), &j)
	detail["behaviour"] = j
	detail["suite"] = r.s.Name
	r.res.Violate(fmt.Sprintf("%s/%s/%s/%s/%s", r.cfg.Prop, r.s.Name, mode, r.caseKey(), kind), what, detail)
}

func (r *replayer) judge(mode string, must string, err error, extra map[string]any) {
	switch must {
	case "acc":
		if err != nil {
			if extra == nil {
				extra = map[string]any{}
			}
			extra["err"] = err.Error()
			r.violate(mode, "honest-rejected", "a proof of a true statement (chosen branch satisfied, nothing altered) is rejected", extra)
		}
	case "rej":
		if err == nil {
			r.violate(mode, "accepted", "verification succeeds although the claimed branch is not satisfied by the prover's secrets, or the proof / the verifier's points, predicate or protocol name were altered", extra)
		}
	default:
		if err == nil {
			r.res.AddExtra("drift_free_verdicts_accepted", 1)
		}
	}
}

func (r *replayer) run() error {
	st := r.bh.steps
	pv := st[0]
	mu := Mut{K: "none"}
	must := st[len(st)-1].Must
	if len(st) == 3 {
		mu = st[1].M
	}
	for _, v := range []string{must, st[len(st)-1].MustDen} {
		if v != "acc" && v != "rej" && v != "free" {
			return fmt.Errorf("behaviour without a verdict (must=%q): generator and replayer out of step", v)
		}
	}
	s := r.s
	m := newStatement(s, pv)
	pred, ors := buildN(m.tree, pv.Wrap, pv.Nest)
	choice := choiceMap(ors, len(m.tree), pv.Nest, pv.Choice)
	var or proof.Predicate
	if len(ors) > 0 {
		or = ors[0]
	}
	lay := layout{pv.Items, s.PointLen(), s.ScalarLen()}
	id := fmt.Sprintf("%s/%x", s.Name, core.Hash64(r.bh.raw))

	// ---- non-interactive (Fiat-Shamir) prover / verifier
	var rec *recorder
	traced := r.tr != nil && pv.Nest == 0 && r.tr.want()
	prover := pred.Prover(s, m.px, m.pts, choice)
	proverObj := prover // the Prover value itself (re-run below when runs > 1)
	if traced {
		rec = &recorder{role: "prover"}
		inner := prover
		prover = func(ctx proof.ProverContext) error { return inner(&recProver{ctx, rec}) }
	}
	prf, err := proof.HashProve(s, m.name, prover)
	if traced {
		r.tr.emit(id+"/P", pv, "prover", rec, err == nil)
	}
	if err != nil {
		if must == "acc" {
			r.violate("hash", "prove-error", "HashProve fails on a true statement", map[string]any{"err": err.Error()})
		}
		return nil
	}
	if len(prf) != lay.total() {
		// the specification's transcript item list does not describe the real proof
		r.violate("hash", "transcript-shape", "the proof does not consist of the items the specification derives from the predicate (one commitment per Rep; sub-challenges iff >1 branch; one response per variable per branch)",
			map[string]any{"items": pv.Items, "expected_bytes": lay.total(), "got_bytes": len(prf)})
		return nil
	}
	vtree, vpts, vname, ok := m.verifierSide(mu)
	if !ok {
		r.res.Skip("unwitnessed-mutation")
		return nil
	}
	p2 := append([]byte(nil), prf...)
	switch mu.K {
	case "simAll", "replayCh":
		p2, err = r.forge(m, pv, mu.K)
		if err != nil {
			return fmt.Errorf("harness: forger failed: %w", err)
		}
		if len(p2) != lay.total() {
			return fmt.Errorf("harness: forged transcript has %d bytes, layout says %d", len(p2), lay.total())
		}
	case "item":
		i := mu.A - 1
		o := lay.offset(i)
		if !alter(s, lay.kinds[i] == "V", p2[o:o+lay.size(i)]) {
			r.res.Skip("unwitnessed-mutation")
			return nil
		}
	case "flipTop":
		// bit 7 of the last byte of item i (r + 2^255 on a little-endian scalar, the sign bit of a compressed point, ...)
		p2[lay.offset(mu.A-1)+lay.size(mu.A-1)-1] ^= 0x80
	case "trunc":
		p2 = p2[:lay.offset(mu.A)]
	case "truncIn":
		p2 = p2[:lay.offset(mu.A-1)+inCut(lay, mu.A-1, mu.B)]
	case "truncZeroTail":
		// an honest proof whose trailing bytes are 0x00 (fresh prover randomness until the last response encodes so),
		// cut by exactly those bytes
		tries := 300
		if s.Name == "ed25519" {
			tries = 60 // little-endian, top byte < 16: one proof in 16 ends in 0x00
		} else if len(lay.kinds) > 4 {
			tries = 0 // big-endian: one in 256; only affordable for the smallest proofs
		}
		found := false
		for t := 0; t < tries && !found; t++ {
			q, e := proof.HashProve(s, m.name, pred.Prover(s, m.px, m.pts, choice))
			if e == nil && len(q) == lay.total() && q[len(q)-1] == 0 {
				z := 0
				for z < lay.size(len(lay.kinds)-1)-1 && q[len(q)-1-z] == 0 {
					z++
				}
				p2, found = append([]byte(nil), q[:len(q)-z]...), true
			}
		}
		if !found {
			r.res.Skip("unwitnessed-mutation")
			return nil
		}
	}
	vpred, _ := buildN(vtree, pv.Wrap, clampNest(len(vtree), pv.Nest))
	verifier := vpred.Verifier(s, vpts)
	verifierObj := verifier
	var vrec *recorder
	if traced && mu.K == "none" {
		vrec = &recorder{role: "verifier"}
		inner := verifier
		verifier = func(ctx proof.VerifierContext) error { return inner(&recVerifier{ctx, vrec}) }
	}
	verr := proof.HashVerify(s, vname, verifier, p2)
	if vrec != nil {
		r.tr.emit(id+"/V", pv, "verifier", vrec, verr == nil)
	}
	r.res.Eval(id + "/hash")
	r.judge("hash", must, verr, nil)

	// ---- object re-use: the same Prover closure proves again, the same Verifier closure verifies again; then the same
	// Predicate value yields a Prover for another branch (verdict: that branch's truth)
	den := &denObjs{}
	if pv.Runs > 1 && mu.K == "none" {
		r.rerun = true
		for i := 2; i <= pv.Runs; i++ {
			q, e := proof.HashProve(s, m.name, proverObj)
			r.res.Eval(fmt.Sprintf("%s/hash/run%d", id, i))
			if e != nil {
				if must == "acc" {
					r.violate("hash", "prove-error", "the same Prover value fails when run again", map[string]any{"run": i, "err": e.Error()})
				}
				continue
			}
			r.judge("hash", must, proof.HashVerify(s, m.name, verifierObj, q), map[string]any{"run": i})
		}
		if or != nil && len(m.tree) > 1 {
			c2 := pv.Choice%len(m.tree) + 1
			must2 := "rej"
			if pv.Truth[c2-1] {
				must2 = "acc"
			}
			q, e := proof.HashProve(s, m.name, pred.Prover(s, m.px, m.pts, choiceMap(ors, len(m.tree), pv.Nest, c2)))
			r.res.Eval(id + "/hash/choice2")
			if e == nil {
				r.judge("hash", must2, proof.HashVerify(s, m.name, verifierObj, q), map[string]any{"second_choice": c2})
			} else if must2 == "acc" {
				r.violate("hash", "prove-error", "a second Prover of the same Predicate value fails", map[string]any{"err": e.Error()})
			}
		}
		r.rerun = false
		r.interleaved(s, m, pred, vpred, vpts, choice, must, id)
	}

	// ---- interactive deniable prover with the clique protocol (2 or 3 participants)
	if r.cfg.Deniable > 0 && mu.K != "name" && mu.K != "simAll" && mu.K != "replayCh" && mu.K != "truncZeroTail" && mu.K != "flipTop" &&
		(pv.Fault != 0 || core.Hash64(fmt.Sprint(r.cfg.Seed), "den", r.bh.raw)%uint64(r.cfg.Deniable) == 0) {
		r.deniable(m, pred, choice, vtree, vpts, pv, mu, st[len(st)-1].MustDen, lay, id, traced, den)
		for i := 2; i <= pv.Runs && mu.K == "none"; i++ {
			r.rerun = true
			r.deniable(m, pred, choice, vtree, vpts, pv, mu, st[len(st)-1].MustDen, lay, fmt.Sprintf("%s/run%d", id, i), false, den)
			r.rerun = false
		}
	}
	return nil
}

// nestVerifierCtx / nestProverCtx run a callback the first time PubRand is called, i.e. in the middle of a run
type nestVerifierCtx struct {
	proof.VerifierContext
	hook func()
}

func (c *nestVerifierCtx) PubRand(m ...any) error {
	if c.hook != nil {
		h := c.hook
		c.hook = nil
		h()
	}
	return c.VerifierContext.PubRand(m...)
}

type nestProverCtx struct {
	proof.ProverContext
	hook func()
}

func (c *nestProverCtx) PubRand(m ...any) error {
	if c.hook != nil {
		h := c.hook
		c.hook = nil
		h()
	}
	return c.ProverContext.PubRand(m...)
}

// interleaved: two runs made from ONE Predicate value overlap - run B is started from inside run A's PubRand (provers and
// verifiers), and several verifications run concurrently; each run's verdict is Must, whatever else is in flight.
func (r *replayer) interleaved(s *suites.S, m *statement, pred, vpred proof.Predicate, vpts map[string]kyber.Point,
	choice map[proof.Predicate]int, must string, id string) {
	r.rerun = true
	defer func() { r.rerun = false }()
	// nested provers
	pA, pB := pred.Prover(s, m.px, m.pts, choice), pred.Prover(s, m.px, m.pts, choice)
	var prfB []byte
	var errB error
	prfA, errA := proof.HashProve(s, m.name, func(ctx proof.ProverContext) error {
		return pA(&nestProverCtx{ctx, func() { prfB, errB = proof.HashProve(s, m.name, pB) }})
	})
	if errA != nil || errB != nil {
		if must == "acc" {
			r.violate("hash", "prove-error", "a prover fails when another prover of the same Predicate value runs inside it", map[string]any{"errA": fmt.Sprint(errA), "errB": fmt.Sprint(errB)})
		}
		return
	}
	// nested verifiers (on the two proofs just made)
	vA, vB := vpred.Verifier(s, vpts), vpred.Verifier(s, vpts)
	var verrB error
	verrA := proof.HashVerify(s, m.name, func(ctx proof.VerifierContext) error {
		return vA(&nestVerifierCtx{ctx, func() { verrB = proof.HashVerify(s, m.name, vB, prfB) }})
	}, prfA)
	r.res.Eval(id + "/hash/nested")
	r.judge("hash", must, verrA, map[string]any{"interleaving": "outer of two nested verifications"})
	r.judge("hash", must, verrB, map[string]any{"interleaving": "inner of two nested verifications"})
	// concurrent verifiers
	var wg sync.WaitGroup
	errsC := make([]error, 4)
	for g := range errsC {
		wg.Add(1)
		go func(g int) {
			defer wg.Done()
			defer func() {
				if p := recover(); p != nil {
					errsC[g] = fmt.Errorf("panic: %v", p)
				}
			}()
			v := vpred.Verifier(s, vpts)
			for it := 0; it < 3; it++ {
				p := prfA
				if (g+it)%2 == 1 {
					p = prfB
				}
				if e := proof.HashVerify(s, m.name, v, p); e != nil {
					errsC[g] = e
				}
			}
		}(g)
	}
	wg.Wait()
	r.res.Eval(id + "/hash/concurrent")
	for _, e := range errsC {
		if e != nil && strings.HasPrefix(e.Error(), "panic: ") {
			r.violate("hash", "panic", "concurrent verifications made from one Predicate value panic", map[string]any{"panic": e.Error()})
			break
		}
		if must == "acc" && e != nil {
			r.judge("hash", must, e, map[string]any{"interleaving": "concurrent verifications"})
			break
		}
	}
}

// forge: a prover that knows no secret simulates every branch (commitment V = w*P + sum r*B for pre-chosen sub-challenge w
// and responses r) and emits a transcript with the library's item layout through proof.HashProve.
//
//	simAll  : the sub-challenges are random, they do not sum to the real challenge
//	replayCh: they sum to the challenge of an EARLIER transcript (same protocol name, other commitments)
func (r *replayer) forge(m *statement, pv Step, kind string) ([]byte, error) {
	s := r.s
	nbr := len(m.tree)
	vars := func(br []rep) []int { // scalar variables of a branch in increasing order
		seen := map[int]bool{}
		for _, rp := range br {
			for _, t := range rp.Terms {
				seen[t.S] = true
			}
		}
		var out []int
		for v := 1; v <= m.ns; v++ {
			if seen[v] {
				out = append(out, v)
			}
		}
		return out
	}
	run := func(target kyber.Scalar) (kyber.Scalar, proof.Prover) {
		var seenC kyber.Scalar
		p := func(ctx proof.ProverContext) error {
			w := make([]kyber.Scalar, nbr)
			sum := s.Scalar().Zero()
			for b := range w {
				w[b] = s.NonZeroScalar()
				if target != nil && b == nbr-1 {
					w[b] = s.Scalar().Sub(target, sum)
				}
				sum.Add(sum, w[b])
			}
			resp := make([]map[int]kyber.Scalar, nbr)
			for b, br := range m.tree {
				resp[b] = map[int]kyber.Scalar{}
				for _, v := range vars(br) {
					resp[b][v] = s.NonZeroScalar()
				}
				for _, rp := range br {
					V := s.Point().Mul(w[b], m.pts[rp.Name])
					for _, t := range rp.Terms {
						V.Add(V, s.Point().Mul(resp[b][t.S], m.pts[fmt.Sprintf("B%d", t.B)]))
					}
					if err := ctx.Put(V); err != nil {
						return err
					}
				}
			}
			c := s.Scalar()
			if err := ctx.PubRand(c); err != nil {
				return err
			}
			seenC = c
			if nbr > 1 {
				if err := ctx.Put(w); err != nil {
					return err
				}
			}
			for b, br := range m.tree {
				for _, v := range vars(br) {
					if err := ctx.Put(resp[b][v]); err != nil {
						return err
					}
				}
			}
			return nil
		}
		_ = seenC
		return nil, func(ctx proof.ProverContext) error {
			return p(ctx)
		}
	}
	if kind == "simAll" {
		_, p := run(nil)
		return proof.HashProve(s, m.name, p)
	}
	// replayCh: learn the challenge of a first transcript, then aim a second (different) transcript at it
	var c0 kyber.Scalar
	first := func(ctx proof.ProverContext) error {
		for _, k := range pv.Items {
			if k == "V" {
				if err := ctx.Put(s.Point().Mul(s.NonZeroScalar(), nil)); err != nil {
					return err
				}
			}
		}
		c0 = s.Scalar()
		return ctx.PubRand(c0)
	}
	if _, err := proof.HashProve(s, m.name, first); err != nil {
		return nil, err
	}
	_, p := run(c0)
	return proof.HashProve(s, m.name, p)
}

// ---------------------------------------------------------------- deniable (clique) protocol

type cnode struct {
	out  chan []byte
	in   chan [][]byte
	errs []error
	done bool
	rnd  kyber.XOF

	panicked string
	round    int
	failAt   int // the transport is dead from this round on (0 = never)
}

func (c *cnode) Step(msg []byte) ([][]byte, error) {
	c.round++
	if c.failAt > 0 && c.round >= c.failAt {
		return nil, errors.New("transport fault")
	}
	c.out <- msg
	msgs := <-c.in
	return msgs, nil
}

func (c *cnode) Random() kyber.XOF { return c.rnd }

const keySize = 128 // proof/deniable.go: length of the randomness commitment that prefixes every prover message

func (r *replayer) deniable(m *statement, pred proof.Predicate, choice map[proof.Predicate]int, vtree [][]rep, vpts map[string]kyber.Point,
	pv Step, mu Mut, must string, lay layout, id string, traced bool, objs *denObjs) {
	s := r.s
	np := 2 + int(core.Hash64("np", r.bh.raw)%2)
	nodes := make([]*cnode, np)
	var drec *recorder
	// participants 1.. prove knowledge of their own key (honest) and verify participant 0
	B := s.Point().Base()
	ys := make([]kyber.Scalar, np)
	Ys := make([]kyber.Point, np)
	for i := 1; i < np; i++ {
		ys[i] = s.NonZeroScalar()
		Ys[i] = s.Point().Mul(ys[i], B)
	}
	for i := 0; i < np; i++ {
		n := &cnode{failAt: pv.Fault, out: make(chan []byte), in: make(chan [][]byte), rnd: s.XOF([]byte(fmt.Sprintf("%s/den/%d", id, i)))}
		nodes[i] = n
		vrfs := make([]proof.Verifier, np)
		var prover proof.Prover
		if i == 0 {
			if objs.prover == nil {
				objs.prover = pred.Prover(s, m.px, m.pts, choice)
			}
			prover = objs.prover // the same Prover value in every session of this behaviour
			if traced {
				// the interactive prover makes the same context calls as the non-interactive one
				drec = &recorder{role: "prover"}
				inner := prover
				prover = func(ctx proof.ProverContext) error { return inner(&recProver{ctx, drec}) }
			}
			kp := proof.Rep("Y", "y", "B")
			vrfs[1] = kp.Verifier(s, map[string]kyber.Point{"B": B, "Y": Ys[1]})
		} else {
			kp := proof.Rep("Y", "y", "B")
			prover = kp.Prover(s, map[string]kyber.Scalar{"y": ys[i]}, map[string]kyber.Point{"B": B, "Y": Ys[i]}, nil)
			if objs.vrf == nil {
				objs.vrf = map[int]proof.Verifier{}
			}
			if objs.vrf[i] == nil {
				vp, _ := buildN(vtree, pv.Wrap, clampNest(len(vtree), pv.Nest))
				objs.vrf[i] = vp.Verifier(s, cpPts(vpts))
			}
			vrfs[0] = objs.vrf[i] // the same Verifier value in every session
		}
		proto := proof.DeniableProver(s, i, prover, vrfs)
		go func(n *cnode, i int) {
			defer func() {
				if p := recover(); p != nil {
					n.errs = nil
					n.panicked = fmt.Sprint(p)
				}
				n.done = true
				n.out <- nil
			}()
			n.errs = (func(proof.Context) []error)(proto)(n)
		}(n, i)
	}
	// what participant 0 sends is altered on its way to the others
	nV := lay.nV()
	tamperFailed := false
	tamper := func(step int, msg []byte) []byte {
		if len(msg) < keySize {
			return msg
		}
		out := append([]byte(nil), msg...)
		body := out[keySize:]
		switch mu.K {
		case "item":
			i := mu.A - 1
			if step == 0 && i < nV {
				o := lay.offset(i)
				if o+lay.size(i) > len(body) || !alter(s, true, body[o:o+lay.size(i)]) {
					tamperFailed = true
				}
			}
			if step == 2 && i >= nV {
				o := lay.offset(i) - lay.offset(nV)
				if o+lay.size(i) > len(body) || !alter(s, false, body[o:o+lay.size(i)]) {
					tamperFailed = true
				}
			}
		case "truncIn":
			i := mu.A - 1
			k := inCut(lay, i, mu.B)
			if step == 0 && i < nV {
				out = out[:keySize+lay.offset(i)+k]
			}
			if step == 2 {
				keepB := 0
				if i >= nV {
					keepB = lay.offset(i) - lay.offset(nV) + k
				}
				if keySize+keepB < len(out) {
					out = out[:keySize+keepB]
				}
			}
		case "trunc":
			if step == 0 && mu.A < nV {
				out = out[:keySize+lay.offset(mu.A)]
			}
			if step == 2 {
				keepB := 0
				if mu.A > nV {
					keepB = lay.offset(mu.A) - lay.offset(nV)
				}
				if keySize+keepB < len(out) {
					out = out[:keySize+keepB]
				}
			}
		}
		return out
	}
	finished := make(chan bool, 1)
	go func() {
		active := append([]*cnode(nil), nodes...)
		for step := 0; ; step++ {
			msgs := make([][]byte, np)
			any := false
			for i, n := range active {
				if n == nil {
					continue
				}
				any = true
				msgs[i] = <-n.out
				if n.done {
					active[i] = nil
				}
			}
			if !any {
				break
			}
			for i, n := range active {
				if n == nil {
					continue
				}
				view := append([][]byte(nil), msgs...)
				if i != 0 && msgs[0] != nil {
					view[0] = tamper(step, msgs[0])
				}
				n.in <- view
			}
		}
		finished <- true
	}()
	select {
	case <-finished:
	case <-time.After(5 * time.Minute):
		// a stuck session is a machinery problem (exit 2 in props_proof.py), never a verdict
		r.res.Skip("deniable-session-timeout")
		return
	}
	if tamperFailed {
		r.res.Skip("unwitnessed-mutation")
		return
	}
	if drec != nil && len(nodes[0].errs) == np {
		r.tr.emit(id+"/DP", pv, "prover", drec, nodes[0].errs[0] == nil)
	}
	r.res.Eval(id + "/deniable")
	for j := 0; j < np; j++ {
		if nodes[j].panicked != "" {
			r.violate("deniable", "panic", "a participant of the deniable protocol panics", map[string]any{"participant": j, "panic": nodes[j].panicked})
			return
		}
	}
	for j := 1; j < np; j++ {
		if len(nodes[j].errs) != np {
			r.violate("deniable", "protocol-error", "a participant returned a malformed result vector", map[string]any{"participant": j, "errs": fmt.Sprint(nodes[j].errs)})
			continue
		}
		r.judge("deniable", must, nodes[j].errs[0], map[string]any{"verifier": j, "participants": np})
		if pv.Fault == 0 && nodes[j].errs[j] != nil {
			r.violate("deniable", "honest-participant-failed", "an honest participant's own prover fails", map[string]any{"participant": j, "err": nodes[j].errs[j].Error()})
		}
	}
	if pv.Fault != 0 {
		if len(nodes[0].errs) == np && nodes[0].errs[1] == nil {
			r.violate("deniable", "accepted", "participant 0 reports participant 1's proof as accepted although the transport failed before it was completely verified", map[string]any{"fault_round": pv.Fault})
		}
		return
	}
	if len(nodes[0].errs) == np && nodes[0].errs[1] != nil {
		r.violate("deniable", "honest-rejected", "participant 0 rejects the honest key proof of participant 1", map[string]any{"err": nodes[0].errs[1].Error()})
	}
}

// ---------------------------------------------------------------- recorder contexts (code -> spec)

type call struct {
	Ev   string `json:"ev"`
	Kind string `json:"kind,omitempty"`
	N    int    `json:"n"`
}

type recorder struct {
	role  string
	calls []call
}

func classify(objs ...any) (string, int) {
	kind, n := "", 0
	for _, o := range objs {
		k, c := "?", 1
		switch v := o.(type) {
		case kyber.Point:
			k = "P"
		case kyber.Scalar:
			k = "S"
		case []kyber.Scalar:
			k, c = "S", len(v)
		case []kyber.Point:
			k, c = "P", len(v)
		}
		if kind == "" {
			kind = k
		} else if kind != k {
			kind = "mixed"
		}
		n += c
	}
	return kind, n
}

type recProver struct {
	inner proof.ProverContext
	rec   *recorder
}

func (p *recProver) Put(message any) error {
	k, n := classify(message)
	p.rec.calls = append(p.rec.calls, call{"Put", k, n})
	return p.inner.Put(message)
}

func (p *recProver) PubRand(message ...any) error {
	_, n := classify(message...)
	p.rec.calls = append(p.rec.calls, call{"PubRand", "S", n})
	return p.inner.PubRand(message...)
}

func (p *recProver) PriRand(message ...any) error {
	_, n := classify(message...)
	p.rec.calls = append(p.rec.calls, call{"PriRand", "S", n})
	return p.inner.PriRand(message...)
}

type recVerifier struct {
	inner proof.VerifierContext
	rec   *recorder
}

func (p *recVerifier) Get(message any) error {
	k, n := classify(message)
	p.rec.calls = append(p.rec.calls, call{"Get", k, n})
	return p.inner.Get(message)
}

func (p *recVerifier) PubRand(message ...any) error {
	_, n := classify(message...)
	p.rec.calls = append(p.rec.calls, call{"PubRand", "S", n})
	return p.inner.PubRand(message...)
}

type tracer struct {
	mu  sync.Mutex
	w   *os.File
	n   int
	max int
	req int
}

func (t *tracer) want() bool {
	t.mu.Lock()
	defer t.mu.Unlock()
	t.req++
	return t.max == 0 || t.req <= t.max
}

// emit writes one object's trace: start, the calls in order, end; objects are joined by the start event (acts as reset)
func (t *tracer) emit(obj string, pv Step, role string, rec *recorder, ok bool) {
	t.mu.Lock()
	defer t.mu.Unlock()
	enc := func(v any) {
		b, _ := json.Marshal(v)
		t.w.Write(append(b, '\n'))
	}
	enc(map[string]any{"obj": obj, "seq": 0, "ev": "start", "args": map[string]any{"tree": pv.Tree, "role": role}})
	for i, c := range rec.calls {
		enc(map[string]any{"obj": obj, "seq": i + 1, "ev": c.Ev, "args": map[string]any{"kind": c.Kind, "n": c.N}})
	}
	enc(map[string]any{"obj": obj, "seq": len(rec.calls) + 1, "ev": "end", "args": map[string]any{"ok": ok}})
	t.n++
}
