// Package pvssr replays behaviours of spec/PVSS.tla (property C13) on the real
// share/pvss and proof/dleq packages.
//
// The package contains only the refinement mapping: how an abstract mutation
// ("alter V of trustee p", "swap proofs p,q", ...) is performed on real
// objects and how real results are projected back (per-position verdicts,
// accepted positions of the batch functions, recovered point == secret*G).
// Every expected verdict is read from the behaviour TLC produced.
package pvssr

import (
	"encoding/json"
	"fmt"
	"runtime"
	"sort"
	"strings"

	"go.dedis.ch/kyber/v4"
	"go.dedis.ch/kyber/v4/proof/dleq"
	"go.dedis.ch/kyber/v4/share"
	"go.dedis.ch/kyber/v4/share/pvss"

	"verifharness/internal/core"
	"verifharness/internal/proof/suites"
)

type Mut struct {
	K string `json:"k"`
	P int    `json:"p"`
	Q int    `json:"q"`
}

type RecCase struct {
	Sel  []int `json:"sel"`
	Must struct {
		Ok bool   `json:"ok"`
		Pt string `json:"pt"`
	} `json:"must"`
	Impl struct {
		Ok bool   `json:"ok"`
		Pt string `json:"pt"`
	} `json:"impl"`
}

type Step struct {
	Op    string          `json:"op"`
	N     int             `json:"n"`
	T     int             `json:"t"`
	Rel   string          `json:"rel"`
	Stage string          `json:"stage"`
	M     Mut             `json:"m"`
	Must  json.RawMessage `json:"must"`
	Impl  json.RawMessage `json:"impl"`
	Batch []int           `json:"batch"`
	Sel   []int           `json:"sel"`
	Cases []RecCase       `json:"cases"`
}

type Config struct {
	Prop   string
	In     string
	Seed   int64
	Suites string
	// MaxRec bounds the number of Recover cases replayed per behaviour (0 = all);
	// the sub-sample is deterministic in (seed, suite, behaviour)
	MaxRec int
}

type behaviour struct {
	raw   string
	steps []Step
}

func Run(cfg Config, res *core.Result) error {
	var bhs []behaviour
	err := core.ReadLines(cfg.In, func(line []byte) error {
		var st []Step
		if err := json.Unmarshal(line, &st); err != nil {
			return fmt.Errorf("bad behaviour: %w", err)
		}
		bhs = append(bhs, behaviour{string(line), st})
		return nil
	})
	if err != nil {
		return err
	}
	if len(bhs) == 0 {
		return fmt.Errorf("no behaviours in %s", cfg.In)
	}
	sort.Slice(bhs, func(i, j int) bool { return bhs[i].raw < bhs[j].raw })
	res.AddTraces(len(bhs))
	names := suites.Names
	if cfg.Suites != "" {
		names = strings.Split(cfg.Suites, ",")
	}
	type task struct {
		suite string
		i     int
	}
	var tasks []task
	for _, s := range names {
		if s == "bn256-g1" && cfg.Suites == "" {
			continue // C13 quantifies over Ed25519 and one other group; the pairing group is not needed
		}
		for i := range bhs {
			tasks = append(tasks, task{s, i})
		}
	}
	errs := make(chan error, len(tasks))
	core.Parallel(len(tasks), runtime.NumCPU(), func(k int) {
		tk := tasks[k]
		st, err := suites.New(tk.suite, cfg.Seed, "pvss", fmt.Sprint(tk.i))
		if err != nil {
			errs <- err
			return
		}
		r := &replayer{cfg: cfg, res: res, s: st, bh: bhs[tk.i], id: fmt.Sprintf("%s/%x", tk.suite, core.Hash64(bhs[tk.i].raw))}
		if msg, stack, p := core.Try(func() {
			if e := r.run(); e != nil {
				errs <- e
			}
		}); p {
			r.violate("panic", "harness-or-library panic while replaying", map[string]any{"panic": msg, "stack": stack})
		}
		if k%(len(tasks)/3+1) == 0 {
			var j any
			_ = json.Unmarshal([]byte(truncCases(bhs[tk.i].raw)), &j)
			res.Sample(map[string]any{"suite": tk.suite, "behaviour": j})
		}
	})
	close(errs)
	for e := range errs {
		return e
	}
	return nil
}

// truncCases shortens the long recoverAll list for the evidence sample
func truncCases(raw string) string {
	var st []map[string]any
	if json.Unmarshal([]byte(raw), &st) != nil {
		return raw
	}
	for _, s := range st {
		if c, ok := s["cases"].([]any); ok && len(c) > 4 {
			s["cases"] = append(c[:4:4], fmt.Sprintf("... %d more", len(c)-4))
		}
	}
	b, _ := json.Marshal(st)
	return string(b)
}

type replayer struct {
	cfg Config
	res *core.Result
	s   *suites.S
	bh  behaviour
	id  string

	shape   string
	rel     string
	dead    bool
	herr    error
	n, t    int
	mutKey  string // stage:kind of the (last) tamper, "none" if honest
	G, H    kyber.Point
	x       []kyber.Scalar
	X       []kyber.Point
	secret  kyber.Scalar
	commits []kyber.Point
	enc     []*pvss.PubVerShare
	dec     []*pvss.PubVerShare
	// batch shape
	pkgs  [][]*pvss.PubVerShare
	pols  []*share.PubPoly
	pos   []int
	sHs   []kyber.Point
	gcs   []kyber.Scalar
	gcAdd []bool
	xo    kyber.Scalar
	// dleq shape
	st []*stmt
	// per-position requirement verdicts of the last verify step (for the tiny group's recover filter)
	lastMust    []string
	unwitnessed bool
}

type stmt struct {
	G, H, xG, xH kyber.Point
	P            *dleq.Proof
}

func (r *replayer) violate(kind, what string, detail map[string]any) {
	if detail == nil {
		detail = map[string]any{}
	}
	detail["suite"] = r.s.Name
	// replayable behaviour: the long recoverAll step is replaced by the one Recover case at fault (if any)
	var st []map[string]any
	_ = json.Unmarshal([]byte(r.bh.raw), &st)
	if n := len(st); n > 0 && st[n-1]["op"] == "recoverAll" {
		st = st[:n-1]
		if sel, ok := detail["sel"]; ok {
			st = append(st, map[string]any{"op": "recover", "sel": sel, "must": detail["must"], "impl": detail["impl"]})
		}
	}
	detail["behaviour"] = st
	detail["n"], detail["t"] = r.n, r.t
	r.res.Violate(fmt.Sprintf("%s/%s/%s/%s", r.cfg.Prop, r.s.Name, r.mutKey, kind), what, detail)
}

// honestError: an HONEST library call on inputs inside the property's quantifier returned an error - a completeness
// violation with a stable key (never a driver failure); the rest of the behaviour is not replayed
func (r *replayer) honestError(call string, err error) {
	key := r.mutKey
	if r.rel != "" && r.rel != "indep" {
		key += "@" + r.rel
	}
	d := map[string]any{"call": call, "err": err.Error()}
	save := r.mutKey
	r.mutKey = key
	r.violate(call+"/honest-error", call+" fails on honest input", d)
	r.mutKey = save
	r.dead = true
}

func cpShare(s *pvss.PubVerShare) *pvss.PubVerShare {
	return &pvss.PubVerShare{
		S: share.PubShare{I: s.S.I, V: s.S.V.Clone()},
		P: dleq.Proof{C: s.P.C.Clone(), R: s.P.R.Clone(), VG: s.P.VG.Clone(), VH: s.P.VH.Clone()},
	}
}

func cpShares(l []*pvss.PubVerShare) []*pvss.PubVerShare {
	out := make([]*pvss.PubVerShare, len(l))
	for i, s := range l {
		out[i] = cpShare(s)
	}
	return out
}

func cpPoints(l []kyber.Point) []kyber.Point {
	out := make([]kyber.Point, len(l))
	for i, p := range l {
		out[i] = p.Clone()
	}
	return out
}

// globalChallenge is the verifier-side recomputation of the dealer's challenge
// from the received commitment polynomial and encrypted shares (the package's
// own function is unexported; VerifyEncShare/DecShare take the value as an
// argument). Its agreement with the library is checked on every honest deal.
func (r *replayer) globalChallenge(pol *share.PubPoly, enc []*pvss.PubVerShare) (kyber.Scalar, error) {
	h := r.s.Hash()
	for i := range enc {
		if _, err := pol.Eval(uint32(i)).V.MarshalTo(h); err != nil {
			return nil, err
		}
	}
	for _, e := range enc {
		if _, err := e.S.V.MarshalTo(h); err != nil {
			return nil, err
		}
	}
	for _, e := range enc {
		if _, err := e.P.VG.MarshalTo(h); err != nil {
			return nil, err
		}
	}
	for _, e := range enc {
		if _, err := e.P.VH.MarshalTo(h); err != nil {
			return nil, err
		}
	}
	return r.s.Scalar().Pick(r.s.XOF(h.Sum(nil))), nil
}

func (r *replayer) altP(p kyber.Point) kyber.Point {
	q, ok := r.s.AlterPoint(p)
	if !ok {
		r.unwitnessed = true
	}
	return q
}

func (r *replayer) altS(x kyber.Scalar) kyber.Scalar {
	y, ok := r.s.AlterScalar(x)
	if !ok {
		r.unwitnessed = true
	}
	return y
}

func (r *replayer) alterShareField(s *pvss.PubVerShare, f string) {
	switch f {
	case "V":
		s.S.V = r.altP(s.S.V)
	case "C":
		s.P.C = r.altS(s.P.C)
	case "R":
		s.P.R = r.altS(s.P.R)
	case "VG":
		s.P.VG = r.altP(s.P.VG)
	case "VH":
		s.P.VH = r.altP(s.P.VH)
	}
}

func swapShares(l []*pvss.PubVerShare, k string, p, q int) {
	switch k {
	case "swapS":
		l[p].S, l[q].S = l[q].S, l[p].S
	case "swapP":
		l[p].P, l[q].P = l[q].P, l[p].P
	case "swapB":
		l[p], l[q] = l[q], l[p]
	}
}

func strs(raw json.RawMessage) []string {
	var out []string
	_ = json.Unmarshal(raw, &out)
	return out
}

func (r *replayer) run() error {
	shape := ""
	for _, st := range r.bh.steps {
		if st.Op == "tamper" {
			shape = st.Stage
		}
		switch st.Op {
		case "decBatch":
			shape = "batch"
		case "dleqVerify":
			shape = "dleq"
		}
	}
	for _, st := range r.bh.steps {
		if st.Op == "verifyDec" {
			shape = "dec"
		}
	}
	r.shape = shape
	r.mutKey = "none"
	for i, st := range r.bh.steps {
		var err error
		if r.dead {
			return nil
		}
		switch st.Op {
		case "deal":
			r.n, r.t, r.rel = st.N, st.T, st.Rel
			switch shape {
			case "batch":
				err = r.dealBatch()
			case "dleq":
				err = r.dealDleq()
			default:
				err = r.deal()
			}
		case "tamper":
			if r.mutKey == "none" {
				r.mutKey = st.Stage + ":" + st.M.K
				if r.rel != "" && r.rel != "indep" {
					r.mutKey = st.Stage + "@" + r.rel + ":" + st.M.K
				}
			} else {
				r.mutKey += "+" + st.M.K
			}
			switch st.Stage {
			case "enc":
				r.tamperEnc(st.M)
			case "dec":
				r.tamperDec(st.M)
			case "batch":
				r.tamperBatch(st.M)
			case "dleq":
				r.tamperDleq(st.M)
			}
			if r.unwitnessed {
				r.res.Skip("unwitnessed-mutation")
				return nil
			}
		case "verifyEnc":
			err = r.verifyEnc(st, i)
		case "decrypt":
			err = r.decrypt(st, i)
		case "verifyDec":
			r.verifyDec(st, i)
		case "recover":
			var c RecCase
			c.Sel = st.Sel
			_ = json.Unmarshal(st.Must, &c.Must)
			_ = json.Unmarshal(st.Impl, &c.Impl)
			r.recover(c)
		case "recoverAll":
			keep := ^uint64(0)
			if r.cfg.MaxRec > 0 && r.cfg.MaxRec < len(st.Cases) {
				keep = uint64(float64(^uint64(0)) * float64(r.cfg.MaxRec) / float64(len(st.Cases)))
			}
			for _, c := range st.Cases {
				if core.Hash64(fmt.Sprint(r.cfg.Seed), r.id, fmt.Sprint(c.Sel)) > keep {
					continue
				}
				r.recover(c)
			}
		case "decBatch":
			err = r.decBatch(st)
		case "dleqVerify":
			r.dleqVerify(st)
		default:
			err = fmt.Errorf("unknown op %q", st.Op)
		}
		if err != nil {
			return err
		}
		if r.herr != nil {
			return r.herr
		}
	}
	return nil
}

// ---------------------------------------------------------------- enc / dec shapes

func (r *replayer) deal() error {
	s := r.s
	r.G = s.Point().Base()
	r.H = s.Point().Pick(s.RandomStream())
	r.x = make([]kyber.Scalar, r.n)
	r.X = make([]kyber.Point, r.n)
	for i := 0; i < r.n; i++ {
		r.x[i] = s.NonZeroScalar()
		r.X[i] = s.Point().Mul(r.x[i], nil)
	}
	r.secret = s.Scalar().Pick(s.RandomStream())
	enc, pol, err := pvss.EncShares(s, r.H, r.X, r.secret, uint32(r.t))
	if err != nil {
		r.honestError("EncShares", err)
		return nil
	}
	_, r.commits = pol.Info()
	r.enc = enc
	// self-check of the refinement mapping: our recomputation of the global challenge equals the dealer's
	gc, err := r.globalChallenge(pol, enc)
	if err != nil {
		return err
	}
	if !gc.Equal(enc[0].P.C) {
		return fmt.Errorf("harness: recomputed global challenge differs from the dealer's (suite %s) - refinement mapping out of date", s.Name)
	}
	return nil
}

func (r *replayer) tamperEnc(m Mut) {
	r.enc = cpShares(r.enc)
	r.X = cpPoints(r.X)
	r.commits = cpPoints(r.commits)
	p, q := m.P-1, m.Q-1
	switch m.K {
	case "V", "C", "R", "VG", "VH":
		r.alterShareField(r.enc[p], m.K)
	case "I":
		r.enc[p].S.I = uint32(q)
	case "forge":
		// simulated proof for a false statement: c, r first, commitments from them
		s := r.s
		e := r.enc[p]
		sH := share.NewPubPoly(s, r.H, r.commits).Eval(e.S.I).V
		e.S.V = r.altP(e.S.V)
		e.P.C, e.P.R = s.NonZeroScalar(), s.NonZeroScalar()
		e.P.VG = s.Point().Add(s.Point().Mul(e.P.R, r.H), s.Point().Mul(e.P.C, sH))
		e.P.VH = s.Point().Add(s.Point().Mul(e.P.R, r.X[p]), s.Point().Mul(e.P.C, e.S.V))
	case "dforge":
		if err := r.dealerForge(p); err != nil {
			r.herr = err
		}
	case "key":
		r.X[p] = r.altP(r.X[p])
	case "com":
		r.commits[m.P] = r.altP(r.commits[m.P])
	default:
		swapShares(r.enc, m.K, p, q)
	}
}

// dealerForge rebuilds the whole package the way a dishonest dealer would: a fresh polynomial for the same secret,
// honest shares and proofs for everybody except trustee k, who gets a WRONG share with a simulated DLEQ proof under a
// challenge of its own; the global challenge of the honest proofs is derived from the package including the forged
// values (so it matches what any verifier recomputes).
func (r *replayer) dealerForge(k int) error {
	s := r.s
	n := r.n
	pri := share.NewPriPoly(s, uint32(r.t), r.secret, s.RandomStream())
	ps := pri.Shares(uint32(n))
	pol := pri.Commit(r.H)
	_, r.commits = pol.Info()
	v := make([]kyber.Scalar, n)
	enc := make([]*pvss.PubVerShare, n)
	for i := 0; i < n; i++ {
		e := &pvss.PubVerShare{}
		e.S.I = ps[i].I
		if i == k {
			e.S.V = s.Point().Mul(s.Scalar().Add(ps[i].V, s.Scalar().One()), r.X[i]) // share of another value
			e.P.C, e.P.R = s.NonZeroScalar(), s.NonZeroScalar()
			sH := pol.Eval(uint32(i)).V
			e.P.VG = s.Point().Add(s.Point().Mul(e.P.R, r.H), s.Point().Mul(e.P.C, sH))
			e.P.VH = s.Point().Add(s.Point().Mul(e.P.R, r.X[i]), s.Point().Mul(e.P.C, e.S.V))
		} else {
			v[i] = s.NonZeroScalar()
			e.S.V = s.Point().Mul(ps[i].V, r.X[i])
			e.P.VG = s.Point().Mul(v[i], r.H)
			e.P.VH = s.Point().Mul(v[i], r.X[i])
		}
		enc[i] = e
	}
	gc, err := r.globalChallenge(pol, enc)
	if err != nil {
		return err
	}
	for i := 0; i < n; i++ {
		if i != k {
			enc[i].P.C = gc.Clone()
			enc[i].P.R = s.Scalar().Sub(v[i], s.Scalar().Mul(gc, ps[i].V))
		}
	}
	if enc[k].P.C.Equal(gc) {
		r.unwitnessed = true
	}
	r.enc = enc
	return nil
}

func (r *replayer) tamperDec(m Mut) {
	r.dec = cpShares(r.dec)
	r.enc = cpShares(r.enc)
	r.X = cpPoints(r.X)
	p, q := m.P-1, m.Q-1
	switch m.K {
	case "V", "C", "R", "VG", "VH":
		r.alterShareField(r.dec[p], m.K)
	case "I":
		r.dec[p].S.I = uint32(q)
	case "tforge":
		// malicious trustee p: wrong decrypted value with a proof built backwards from an arbitrary VH
		s := r.s
		d := r.dec[p]
		honest := d.S.V
		v := s.NonZeroScalar()
		W := s.Point().Mul(s.NonZeroScalar(), nil)
		d.P.VG = s.Point().Mul(v, r.G)
		d.P.VH = W
		h := s.Hash()
		for _, pt := range []kyber.Point{r.X[p], r.enc[p].S.V, d.P.VG, d.P.VH} {
			if _, err := pt.MarshalTo(h); err != nil {
				r.herr = err
				return
			}
		}
		d.P.C = s.Scalar().Pick(s.XOF(h.Sum(nil)))
		d.P.R = s.Scalar().Sub(v, s.Scalar().Mul(d.P.C, r.x[p]))
		if d.P.R.Equal(s.Scalar().Zero()) {
			r.unwitnessed = true
			return
		}
		d.S.V = s.Point().Mul(s.Scalar().Inv(d.P.R), s.Point().Sub(W, s.Point().Mul(d.P.C, r.enc[p].S.V)))
		if d.S.V.Equal(honest) {
			r.unwitnessed = true
		}
	case "forge":
		s := r.s
		d := r.dec[p]
		d.S.V = r.altP(d.S.V)
		d.P.C, d.P.R = s.NonZeroScalar(), s.NonZeroScalar()
		d.P.VG = s.Point().Add(s.Point().Mul(d.P.R, r.G), s.Point().Mul(d.P.C, r.X[p]))
		d.P.VH = s.Point().Add(s.Point().Mul(d.P.R, d.S.V), s.Point().Mul(d.P.C, r.enc[p].S.V))
	case "key":
		r.X[p] = r.altP(r.X[p])
	case "encV":
		r.enc[p].S.V = r.altP(r.enc[p].S.V)
	default:
		swapShares(r.dec, m.K, p, q)
	}
}

// judge compares one real verdict with the requirement; free verdicts are compared with the
// implementation-shaped prediction and only counted as drift.
func (r *replayer) judge(op string, p int, must, impl string, accepted bool, errText string) {
	r.res.Eval(fmt.Sprintf("%s/%s/%d", r.id, op, p))
	got := "rej"
	if accepted {
		got = "acc"
	}
	if must != "acc" && must != "rej" && must != "free" {
		r.herr = fmt.Errorf("behaviour without a verdict (must=%q): generator and replayer out of step", must)
		return
	}
	switch must {
	case "acc":
		if !accepted {
			r.violate(op+"/honest-rejected", fmt.Sprintf("%s refuses an untouched item whose verification context is untouched", op),
				map[string]any{"position": p, "err": errText})
		}
	case "rej":
		if r.s.Tiny {
			r.res.Skip("tiny-group-reject-side-not-judged")
			return
		}
		if accepted {
			r.violate(op+"/accepted", fmt.Sprintf("%s accepts an item that was altered or swapped (%s)", op, r.mutKey),
				map[string]any{"position": p})
		}
	default:
		if !r.s.Tiny && got != impl {
			r.res.AddExtra("drift_free_verdicts", 1)
		}
	}
}

func (r *replayer) encInputs() (*share.PubPoly, []kyber.Point, kyber.Scalar, error) {
	pol := share.NewPubPoly(r.s, r.H, r.commits)
	sH := make([]kyber.Point, r.n)
	for i := range sH {
		sH[i] = pol.Eval(r.enc[i].S.I).V // as the package's users do: the commitment at the index the share claims
	}
	gc, err := r.globalChallenge(pol, r.enc)
	return pol, sH, gc, err
}

func indexOf(l []*pvss.PubVerShare, s *pvss.PubVerShare) int {
	for i, e := range l {
		if e == s {
			return i
		}
	}
	return -1
}

// checkBatch: the list returned by a batch function must be a subsequence of the input (order kept),
// contain every must-accept and no must-reject position.
func (r *replayer) checkBatch(op string, in, out []*pvss.PubVerShare, must, impl []string, K, X []kyber.Point) {
	r.res.Eval(fmt.Sprintf("%s/%s", r.id, op))
	last := -1
	got := map[int]bool{}
	for k, e := range out {
		i := indexOf(in, e)
		if i < 0 || i <= last {
			r.violate(op+"/order", op+" returned shares that are not an ordered sub-list of its input", map[string]any{"k": k, "index": i})
			return
		}
		last = i
		got[i] = true
		if K != nil && (k >= len(K) || !K[k].Equal(X[i])) {
			r.violate(op+"/keys-misaligned", op+" returned a key list not aligned with the share list", map[string]any{"k": k})
			return
		}
	}
	if K != nil && len(K) != len(out) {
		r.violate(op+"/keys-misaligned", op+" returned lists of different lengths", nil)
	}
	for p := range in {
		switch must[p] {
		case "acc":
			if !got[p] {
				r.violate(op+"/honest-excluded", op+" drops an untouched share whose verification context (commitments, key, global challenge) is untouched", map[string]any{"position": p})
			}
		case "rej":
			if got[p] && !r.s.Tiny {
				r.violate(op+"/included", fmt.Sprintf("%s keeps a share that was altered or swapped (%s)", op, r.mutKey), map[string]any{"position": p})
			}
		default:
			if !r.s.Tiny && got[p] != (impl[p] == "acc") {
				r.res.AddExtra("drift_free_verdicts", 1)
			}
		}
	}
}

func (r *replayer) verifyEnc(st Step, step int) error {
	must, impl := strs(st.Must), strs(st.Impl)
	pol, sH, gc, err := r.encInputs()
	if err != nil {
		return err
	}
	for p := 0; p < r.n; p++ {
		e := pvss.VerifyEncShare(r.s, r.H, r.X[p], sH[p], gc, r.enc[p])
		r.judge("VerifyEncShare", p, must[p], impl[p], e == nil, fmt.Sprint(e))
	}
	K, E, e := pvss.VerifyEncShareBatch(r.s, r.H, r.X, sH, pol, r.enc)
	if e != nil {
		r.violate("VerifyEncShareBatch/error", "batch verification failed as a whole", map[string]any{"err": e.Error()})
		return nil
	}
	r.checkBatch("VerifyEncShareBatch", r.enc, E, must, impl, K, r.X)
	if r.shape == "dec" && r.dec == nil && r.mutKey == "none" {
		// shape "dec": every trustee decrypts the untouched package
		r.dec = make([]*pvss.PubVerShare, r.n)
		for p := 0; p < r.n; p++ {
			d, e := pvss.DecShare(r.s, r.H, r.X[p], sH[p], r.x[p], gc, r.enc[p])
			if e != nil {
				r.violate("DecShare/honest-rejected", "DecShare refuses an honest share", map[string]any{"position": p, "err": e.Error()})
				r.dec = nil
				r.dead = true
				return nil
			}
			r.dec[p] = d
		}
	}
	return nil
}

func (r *replayer) decrypt(st Step, step int) error {
	must, impl := strs(st.Must), strs(st.Impl)
	_, sH, gc, err := r.encInputs()
	if err != nil {
		return err
	}
	for p := 0; p < r.n; p++ {
		d, e := pvss.DecShare(r.s, r.H, r.X[p], sH[p], r.x[p], gc, r.enc[p])
		r.judge("DecShare", p, must[p], impl[p], e == nil, fmt.Sprint(e))
		if e == nil && must[p] == "acc" {
			// the decryption must verify and be the share of the secret: checked through VerifyDecShare here and RecoverSecret in shape dec
			if e2 := pvss.VerifyDecShare(r.s, r.G, r.X[p], r.enc[p], d); e2 != nil {
				r.violate("DecShare/own-output-rejected", "the decrypted share DecShare produced does not verify", map[string]any{"position": p, "err": e2.Error()})
			}
			if d.S.I != r.enc[p].S.I {
				r.violate("DecShare/index", "decrypted share carries another index than the encrypted one", map[string]any{"position": p})
			}
		}
	}
	return nil
}

func (r *replayer) verifyDec(st Step, step int) {
	must, impl := strs(st.Must), strs(st.Impl)
	r.lastMust = must
	if len(r.dec) != r.n {
		return
	}
	for p := 0; p < r.n; p++ {
		e := pvss.VerifyDecShare(r.s, r.G, r.X[p], r.enc[p], r.dec[p])
		r.judge("VerifyDecShare", p, must[p], impl[p], e == nil, fmt.Sprint(e))
	}
	D, e := pvss.VerifyDecShareBatch(r.s, r.G, r.X, r.enc, r.dec)
	if e != nil {
		r.violate("VerifyDecShareBatch/error", "batch verification failed as a whole", map[string]any{"err": e.Error()})
		return
	}
	r.checkBatch("VerifyDecShareBatch", r.dec, D, must, impl, nil, nil)
}

func (r *replayer) recover(c RecCase) {
	if len(r.dec) != r.n {
		return
	}
	if r.s.Tiny {
		for _, p := range c.Sel {
			if r.lastMust[p-1] != "acc" {
				r.res.Skip("tiny-group-reject-side-not-judged")
				return
			}
		}
	}
	var X []kyber.Point
	var E, D []*pvss.PubVerShare
	for _, p := range c.Sel {
		X = append(X, r.X[p-1])
		E = append(E, r.enc[p-1])
		D = append(D, cpShare(r.dec[p-1]))
	}
	r.res.Eval(fmt.Sprintf("%s/recover/%v", r.id, c.Sel))
	pt, err := pvss.RecoverSecret(r.s, r.G, X, E, D, uint32(r.t), uint32(r.n))
	want := r.s.Point().Mul(r.secret, nil)
	det := map[string]any{"sel": c.Sel, "must": c.Must, "impl": c.Impl}
	switch {
	case c.Must.Ok && err != nil:
		det["err"] = err.Error()
		r.violate("RecoverSecret/refused", "RecoverSecret refuses although at least t untouched verified shares were supplied", det)
	case c.Must.Ok && !pt.Equal(want):
		r.violate("RecoverSecret/wrong-point", "RecoverSecret returns err == nil and a point that is not the commitment of the secret", det)
	case !c.Must.Ok && err == nil:
		det["point_is_secret_commitment"] = pt.Equal(want)
		r.violate("RecoverSecret/too-few-accepted", "RecoverSecret succeeds with fewer than t untouched shares", det)
	}
}

// ---------------------------------------------------------------- batch shape (DecShareBatch)

// one trustee (key xo) holds a share in each of n independent deals with one other trustee
func (r *replayer) dealBatch() error {
	s := r.s
	r.G = s.Point().Base()
	r.H = s.Point().Pick(s.RandomStream())
	r.xo = s.NonZeroScalar()
	Xo := s.Point().Mul(r.xo, nil)
	r.X = make([]kyber.Point, r.n)
	r.enc = make([]*pvss.PubVerShare, r.n)
	r.pkgs = make([][]*pvss.PubVerShare, r.n)
	r.pols = make([]*share.PubPoly, r.n)
	r.pos = make([]int, r.n)
	r.gcAdd = make([]bool, r.n)
	r.sHs = make([]kyber.Point, r.n)
	for d := 0; d < r.n; d++ {
		other := s.Point().Mul(s.NonZeroScalar(), nil)
		keys := []kyber.Point{Xo, other}
		r.pos[d] = d % 2
		if r.pos[d] == 1 {
			keys = []kyber.Point{other, Xo}
		}
		enc, pol, err := pvss.EncShares(s, r.H, keys, s.Scalar().Pick(s.RandomStream()), uint32(1+d%2))
		if err != nil {
			r.honestError("EncShares", err)
			return nil
		}
		r.pkgs[d], r.pols[d] = enc, pol
		r.enc[d] = enc[r.pos[d]]
		r.X[d] = Xo.Clone()
		r.sHs[d] = pol.Eval(enc[r.pos[d]].S.I).V
	}
	return nil
}

func (r *replayer) tamperBatch(m Mut) {
	p, q := m.P-1, m.Q-1
	switch m.K {
	case "V", "C", "R", "VG", "VH":
		c := cpShare(r.enc[p])
		r.alterShareField(c, m.K)
		r.pkgs[p] = append([]*pvss.PubVerShare(nil), r.pkgs[p]...)
		r.pkgs[p][r.pos[p]] = c
		r.enc[p] = c
	case "oV":
		o := 1 - r.pos[p]
		c := cpShare(r.pkgs[p][o])
		c.S.V = r.altP(c.S.V)
		r.pkgs[p] = append([]*pvss.PubVerShare(nil), r.pkgs[p]...)
		r.pkgs[p][o] = c
	case "sH":
		r.sHs[p] = r.altP(r.sHs[p])
	case "gc":
		r.gcAdd[p] = !r.gcAdd[p]
	case "key":
		r.X[p] = r.altP(r.X[p])
	case "swapB":
		// the two shares change places in the list handed to the trustee; sH and challenges stay
		r.enc[p], r.enc[q] = r.enc[q], r.enc[p]
	}
}

func (r *replayer) decBatch(st Step) error {
	must, impl := strs(st.Must), strs(st.Impl)
	gcs := make([]kyber.Scalar, r.n)
	for d := 0; d < r.n; d++ {
		// the verifier recomputes each deal's challenge from the package it received, with the share it was handed in place
		pk := append([]*pvss.PubVerShare(nil), r.pkgs[d]...)
		pk[r.pos[d]] = r.enc[d]
		gc, err := r.globalChallenge(r.pols[d], pk)
		if err != nil {
			return err
		}
		if r.gcAdd[d] {
			gc = r.altS(gc)
		}
		gcs[d] = gc
	}
	K, E, D, err := pvss.DecShareBatch(r.s, r.H, r.X, r.sHs, r.xo, gcs, r.enc)
	if err != nil {
		r.violate("DecShareBatch/error", "batch decryption failed as a whole", map[string]any{"err": err.Error()})
		return nil
	}
	r.checkBatch("DecShareBatch", r.enc, E, must, impl, K, r.X)
	if len(D) != len(E) {
		r.violate("DecShareBatch/keys-misaligned", "decrypted and encrypted result lists differ in length", nil)
		return nil
	}
	for k := range D {
		i := indexOf(r.enc, E[k])
		if i >= 0 && must[i] == "acc" {
			r.res.Eval(fmt.Sprintf("%s/DecShareBatch/dec/%d", r.id, i))
			if e := pvss.VerifyDecShare(r.s, r.G, r.X[i], E[k], D[k]); e != nil {
				r.violate("DecShareBatch/own-output-rejected", "a decrypted share produced by DecShareBatch does not verify", map[string]any{"position": i, "err": e.Error()})
			}
		}
	}
	return nil
}

// ---------------------------------------------------------------- dleq shape

func (r *replayer) dealDleq() error {
	s := r.s
	n := r.n
	G := make([]kyber.Point, n)
	H := make([]kyber.Point, n)
	x := make([]kyber.Scalar, n)
	for i := 0; i < n; i++ {
		G[i] = s.Point().Mul(s.NonZeroScalar(), nil)
		x[i] = s.NonZeroScalar()
		switch r.rel {
		case "HeqG": // then xG = xH as well
			H[i] = G[i].Clone()
		case "HnegG":
			H[i] = s.Point().Neg(G[i])
		case "H2G":
			H[i] = s.Point().Add(G[i], G[i])
		case "Hid":
			H[i] = s.Point().Null()
		case "Gid":
			G[i] = s.Point().Null()
			H[i] = s.Point().Pick(s.RandomStream())
		default:
			H[i] = s.Point().Pick(s.RandomStream())
		}
	}
	r.st = make([]*stmt, n)
	if n == 1 {
		p, xG, xH, err := dleq.NewDLEQProof(s, G[0], H[0], x[0])
		if err != nil {
			r.honestError("NewDLEQProof", err)
			return nil
		}
		r.st[0] = &stmt{G[0], H[0], xG, xH, p}
		return nil
	}
	ps, xG, xH, err := dleq.NewDLEQProofBatch(s, G, H, x)
	if err != nil {
		r.honestError("NewDLEQProofBatch", err)
		return nil
	}
	for i := range ps {
		r.st[i] = &stmt{G[i], H[i], xG[i], xH[i], &dleq.Proof{C: ps[i].C.Clone(), R: ps[i].R, VG: ps[i].VG, VH: ps[i].VH}}
	}
	return nil
}

func (r *replayer) tamperDleq(m Mut) {
	p, q := m.P-1, m.Q-1
	a := r.st[p]
	distinct := func(u, v kyber.Point) {
		if u.Equal(v) {
			r.unwitnessed = true
		}
	}
	switch m.K {
	case "G":
		a.G = r.altP(a.G)
	case "H":
		a.H = r.altP(a.H)
	case "xG":
		a.xG = r.altP(a.xG)
	case "xH":
		a.xH = r.altP(a.xH)
	case "C":
		a.P.C = r.altS(a.P.C)
	case "R":
		a.P.R = r.altS(a.P.R)
	case "VG":
		a.P.VG = r.altP(a.P.VG)
	case "VH":
		a.P.VH = r.altP(a.P.VH)
	case "swapV":
		distinct(a.P.VG, a.P.VH)
		a.P.VG, a.P.VH = a.P.VH, a.P.VG
	case "swapGH":
		distinct(a.G, a.H)
		a.G, a.H = a.H, a.G
	case "swapX":
		if q < 0 {
			distinct(a.xG, a.xH)
			a.xG, a.xH = a.xH, a.xG
		} else {
			b := r.st[q]
			distinct(a.xG, b.xG)
			a.xG, a.xH, b.xG, b.xH = b.xG, b.xH, a.xG, a.xH
		}
	case "swapP":
		b := r.st[q]
		distinct(a.P.VG, b.P.VG)
		a.P, b.P = b.P, a.P
	}
}

func (r *replayer) dleqVerify(st Step) {
	must, impl := strs(st.Must), strs(st.Impl)
	for p, a := range r.st {
		e := a.P.Verify(r.s, a.G, a.H, a.xG, a.xH)
		r.judge("dleq.Verify", p, must[p], impl[p], e == nil, fmt.Sprint(e))
	}
}
