// Package suites provides the cipher suites the proof-family drivers replay
// on, each wrapped so that RandomStream() is a seeded stream (reproducible
// runs) and owned by one goroutine.
package suites

import (
	"crypto/cipher"
	"fmt"
	"math/big"

	"go.dedis.ch/kyber/v4"
	"go.dedis.ch/kyber/v4/group/edwards25519"
	"go.dedis.ch/kyber/v4/group/p256"
	"go.dedis.ch/kyber/v4/pairing/bn256"
	"go.dedis.ch/kyber/v4/xof/blake2xb"
)

// Full is what pvss, dleq, proof and shuffle need together.
type Full interface {
	kyber.Group
	kyber.HashFactory
	kyber.XOFFactory
	kyber.Encoding
	kyber.Random
}

// S is a suite with a seeded random stream.
type S struct {
	Full
	Name string
	Tiny bool // order-11 group: proofs have soundness error 1/11, only accept-side verdicts are judged
	rs   cipher.Stream
}

func (s *S) RandomStream() cipher.Stream { return s.rs }

// Names lists the suites of the family; "tiny" is kyber's own residue group at (P,Q,R,G)=(23,11,2,4).
var Names = []string{"ed25519", "p256", "bn256-g1", "tiny"}

// New returns a fresh suite object (not shared between goroutines).
func New(name string, seed int64, labels ...string) (*S, error) {
	key := []byte(fmt.Sprintf("verif/%s/%d", name, seed))
	for _, l := range labels {
		key = append(key, 0)
		key = append(key, l...)
	}
	s := &S{Name: name, rs: blake2xb.New(key)}
	switch name {
	case "ed25519":
		s.Full = edwards25519.NewBlakeSHA256Ed25519()
	case "p256":
		s.Full = p256.NewBlakeSHA256P256()
	case "bn256-g1":
		s.Full = bn256.NewSuiteG1()
	case "tiny":
		q := new(p256.QrSuite)
		q.SetParams(big.NewInt(23), big.NewInt(11), big.NewInt(2), big.NewInt(4))
		s.Full = q
		s.Tiny = true
	default:
		return nil, fmt.Errorf("unknown suite %q", name)
	}
	return s, nil
}

// NonZeroScalar picks a non-zero scalar from the suite's stream.
func (s *S) NonZeroScalar() kyber.Scalar {
	zero := s.Scalar().Zero()
	for {
		x := s.Scalar().Pick(s.rs)
		if !x.Equal(zero) {
			return x
		}
	}
}

// AlterPoint returns a point different from p (p + Base); ok reports that the
// difference is certified by Equal and by the encodings.
func (s *S) AlterPoint(p kyber.Point) (kyber.Point, bool) {
	q := s.Point().Add(p, s.Point().Base())
	b1, e1 := p.MarshalBinary()
	b2, e2 := q.MarshalBinary()
	return q, e1 == nil && e2 == nil && !q.Equal(p) && string(b1) != string(b2)
}

// AlterScalar returns x+1.
func (s *S) AlterScalar(x kyber.Scalar) (kyber.Scalar, bool) {
	y := s.Scalar().Add(x, s.Scalar().One())
	return y, !y.Equal(x)
}
