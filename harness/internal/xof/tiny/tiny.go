// Package tiny is the refinement mapping for spec/TinyField.tla: kyber's own
// mod.Int at moduli 2..17 and util/random (Int, Bits) on scripted streams.
// Every expected value comes from the TLC behaviour; the Go side only builds
// operands and projects results.
package tiny

import (
	"bytes"
	"encoding/json"
	"fmt"
	"math/big"
	"strings"

	"go.dedis.ch/kyber/v4"
	"go.dedis.ch/kyber/v4/compatible/compatiblemod"
	"go.dedis.ch/kyber/v4/group/mod"
	"go.dedis.ch/kyber/v4/util/random"

	"verifharness/internal/core"
)

type Config struct {
	Prop   string
	In     string
	Seed   int64
	What   string // scalar | random
	Moduli string // "" (all) | "odd" (bigmod engines need odd moduli)
}

type rec struct {
	Op string `json:"op"`
	// scalar
	M  int    `json:"m"`
	X  int    `json:"x"`
	Y  int    `json:"y"`
	Le bool   `json:"le"`
	A  string `json:"a"`
	B  string `json:"b"`
	K  int    `json:"k"`
	Bs []int  `json:"bs"`
	// randint
	Script json.RawMessage `json:"script"`
	Val    json.RawMessage `json:"val"`
	Used   int             `json:"used"`
	// randbig
	KBits int    `json:"K"`
	Sh    string `json:"sh"`
	Cands int    `json:"cands"`
	Bytes int    `json:"bytes"`
	// bits
	N      int  `json:"n"`
	Exact  bool `json:"exact"`
	Top    int  `json:"top"`
	Len    int  `json:"len"`
	Out    int  `json:"out"`
	BitLen int  `json:"bitlen"`
}

func Run(cfg Config, res *core.Result) error {
	n := 0
	err := core.ReadLines(cfg.In, func(line []byte) error {
		var bh []rec
		if err := json.Unmarshal(line, &bh); err != nil {
			return fmt.Errorf("bad behaviour: %w", err)
		}
		if len(bh) == 0 {
			return nil
		}
		n++
		switch bh[0].Op {
		case "init":
			if cfg.Moduli == "odd" && bh[0].M%2 == 0 {
				res.Skip("even modulus (bigmod)")
				return nil
			}
			if cfg.Moduli == "odd" && !big.NewInt(int64(bh[0].M)).ProbablyPrime(10) && usesInverse(bh) {
				// compatible/const_int.go: ModInverse "requires n to be prime" (Fermat); C02 speaks of group orders
				res.Skip("Inv/Div at a composite modulus (constantTime ModInverse is specified for prime moduli)")
				return nil
			}
			scalar(cfg, res, bh, line)
		case "Int":
			randInt(cfg, res, bh[0], line)
		case "IntBig":
			randBig(cfg, res, bh[0], line)
		case "Bits":
			bits(cfg, res, bh[0], line)
		default:
			return fmt.Errorf("unknown behaviour kind %q", bh[0].Op)
		}
		if n%1511 == 1 {
			res.Sample(map[string]any{"behaviour": json.RawMessage(line)})
		}
		return nil
	})
	if err != nil {
		return err
	}
	if n == 0 {
		return fmt.Errorf("no behaviours in %s", cfg.In)
	}
	res.AddTraces(n)
	res.Rule = "TinyField: case = one TLC behaviour (modulus, operands, operation / scripted stream); exact comparison of the value (and bytes consumed) with the value TLC computed in Z_m"
	return nil
}

// ---------------------------------------------------------------- mod.Int over Z_m

func usesInverse(bh []rec) bool {
	for _, r := range bh {
		if r.Op == "Inv" || r.Op == "Div" {
			return true
		}
	}
	return false
}

func enc1(s kyber.Scalar) (int, error) {
	b, err := s.MarshalBinary()
	if err != nil {
		return -1, err
	}
	if len(b) != 1 {
		return -1, fmt.Errorf("encoding of a scalar mod m<=17 has %d bytes", len(b))
	}
	return int(b[0]), nil
}

func scalar(cfg Config, res *core.Result, bh []rec, line []byte) {
	in := bh[0]
	id := fmt.Sprintf("s/%x", core.Hash64(string(line)))
	res.Eval(id)
	var x, y *mod.Int
	var M *compatiblemod.Mod
	msg, stack, pan := core.Try(func() {
		M = compatiblemod.NewInt(int64(in.M))
		x = mod.NewInt64(int64(in.X), M)
		y = mod.NewInt64(int64(in.Y), M)
		if in.Le {
			x.BO = kyber.LittleEndian
			y.BO = kyber.LittleEndian
		}
	})
	if pan {
		res.Violate(cfg.Prop+"/tiny/mod.Int/init/panic", "constructing mod.Int panicked: "+msg, map[string]any{"behaviour": json.RawMessage(line), "stack": stack})
		return
	}
	reg := func(n string) *mod.Int {
		if n == "x" {
			return x
		}
		return y
	}
	for i, st := range bh[1:] {
		alias := st.A + st.B
		if st.Op == "Neg" || st.Op == "Inv" || st.Op == "Set" {
			alias = st.A
		}
		if st.Op == "Zero" || st.Op == "One" || st.Op == "SetInt64" || st.Op == "SetBytes" {
			alias = "-"
		}
		key := fmt.Sprintf("%s/tiny/mod.Int/%s:%s", cfg.Prop, st.Op, alias)
		det := func(extra map[string]any) map[string]any {
			d := map[string]any{"behaviour": json.RawMessage(line), "step": i + 1, "m": in.M}
			for k, v := range extra {
				d[k] = v
			}
			return d
		}
		var ret kyber.Scalar
		msg, stack, pan := core.Try(func() {
			switch st.Op {
			case "Add":
				ret = x.Add(reg(st.A), reg(st.B))
			case "Sub":
				ret = x.Sub(reg(st.A), reg(st.B))
			case "Mul":
				ret = x.Mul(reg(st.A), reg(st.B))
			case "Div":
				ret = x.Div(reg(st.A), reg(st.B))
			case "Neg":
				ret = x.Neg(reg(st.A))
			case "Inv":
				ret = x.Inv(reg(st.A))
			case "Set":
				ret = x.Set(reg(st.A))
			case "Zero":
				ret = x.Zero()
			case "One":
				ret = x.One()
			case "SetInt64":
				ret = x.SetInt64(int64(st.K))
			case "SetBytes":
				b := make([]byte, len(st.Bs))
				for j, v := range st.Bs {
					b[j] = byte(v)
				}
				keep := append([]byte{}, b...)
				ret = x.SetBytes(b)
				if !bytes.Equal(b, keep) {
					res.Violate(key+"/input-modified", "SetBytes modified the caller's slice", det(nil))
				}
			default:
				panic("unknown scalar op " + st.Op)
			}
		})
		if pan {
			if strings.HasPrefix(msg, "unknown scalar op") {
				panic(msg)
			}
			res.Violate(key+"/panic", "operation panicked: "+msg, det(map[string]any{"stack": stack}))
			return
		}
		if ret != kyber.Scalar(x) {
			res.Violate(key+"/not-receiver", "the operation did not return its receiver", det(nil))
		}
		gx, ex := enc1(x)
		gy, ey := enc1(y)
		if ex != nil || ey != nil {
			res.Violate(key+"/encoding", fmt.Sprintf("MarshalBinary: %v %v", ex, ey), det(nil))
			return
		}
		if gx != st.X {
			res.Violate(key+"/wrong-value", "result differs from the value computed in Z_m", det(map[string]any{"got": gx, "want": st.X}))
			return
		}
		if gy != st.Y {
			res.Violate(key+"/operand-changed", "the other register changed", det(map[string]any{"got": gy, "want": st.Y}))
			return
		}
		// canonical form: Equal coincides with equality of residues
		if eq := x.Equal(y); eq != (st.X == st.Y) {
			res.Violate(key+"/equal", "Equal disagrees with equality of residues", det(map[string]any{"x": st.X, "y": st.Y, "equal": eq}))
			return
		}
		if eq := x.Equal(mod.NewInt64(int64(st.X), M)); !eq {
			res.Violate(key+"/non-canonical", "result is not Equal to the freshly built residue", det(map[string]any{"x": st.X}))
			return
		}
	}
}

// ---------------------------------------------------------------- scripted stream

// scripted is a cipher.Stream whose key stream is script followed by `tail` bytes forever.
type scripted struct {
	script []byte
	tail   byte
	used   int
	calls  []int
}

func (s *scripted) XORKeyStream(dst, src []byte) {
	for i := range src {
		k := s.tail
		if s.used < len(s.script) {
			k = s.script[s.used]
		}
		s.used++
		dst[i] = src[i] ^ k
	}
	s.calls = append(s.calls, len(src))
}

func randInt(cfg Config, res *core.Result, r rec, line []byte) {
	res.Eval(fmt.Sprintf("i/%x", core.Hash64(string(line))))
	var script []int
	var want int
	if json.Unmarshal(r.Script, &script) != nil || json.Unmarshal(r.Val, &want) != nil {
		panic("bad Int behaviour " + string(line))
	}
	sb := make([]byte, len(script))
	for i, v := range script {
		sb[i] = byte(v)
	}
	key := cfg.Prop + "/tiny/random.Int"
	det := func(extra map[string]any) map[string]any {
		d := map[string]any{"behaviour": json.RawMessage(line)}
		for k, v := range extra {
			d[k] = v
		}
		return d
	}
	for _, via := range []string{"random.Int", "mod.Int.Pick"} {
		st := &scripted{script: sb}
		var got *big.Int
		msg, stack, pan := core.Try(func() {
			M := compatiblemod.NewInt(int64(r.M))
			if via == "random.Int" {
				got = new(big.Int).Set(random.Int(M, st).ToBigInt())
			} else {
				if r.M < 2 {
					got = nil
					return
				}
				s := mod.NewInt64(0, M)
				s.Pick(st)
				got = new(big.Int).Set(s.V.ToBigInt())
			}
		})
		if pan {
			res.Violate(key+"/panic", via+" panicked: "+msg, det(map[string]any{"stack": stack, "via": via}))
			continue
		}
		if got == nil {
			continue
		}
		if got.Sign() < 0 || got.Cmp(big.NewInt(int64(r.M))) >= 0 {
			res.Violate(key+"/out-of-range", via+" returned a value outside [0, m)", det(map[string]any{"got": got.String(), "via": via}))
			continue
		}
		if !got.IsInt64() || int(got.Int64()) != want {
			res.Violate(key+"/wrong-value", via+": value is not the first masked candidate below the modulus", det(map[string]any{"got": got.String(), "want": want, "via": via}))
		}
		if st.used != r.Used {
			res.Violate(key+"/bytes-consumed", via+": number of stream bytes consumed differs from the rejection loop of the model", det(map[string]any{"got": st.used, "want": r.Used, "via": via}))
		}
	}
}

// modulus of K bits of the given shape
func bigModulus(K int, sh string, seed int64) *big.Int {
	one := big.NewInt(1)
	switch sh {
	case "pow2":
		return new(big.Int).Lsh(one, uint(K-1))
	case "pow2m1":
		return new(big.Int).Sub(new(big.Int).Lsh(one, uint(K)), one)
	case "pow2p1":
		return new(big.Int).Add(new(big.Int).Lsh(one, uint(K-1)), one)
	}
	// "rand": top bit set, at least two below 2^K - 1 so that m+1 fits
	rng := core.Rng(seed, "bigmod", fmt.Sprint(K))
	b := make([]byte, (K+7)/8)
	rng.Read(b)
	v := new(big.Int).SetBytes(b)
	v.Mod(v, new(big.Int).Lsh(one, uint(K-1)))
	v.SetBit(v, K-1, 1)
	max := new(big.Int).Sub(new(big.Int).Lsh(one, uint(K)), big.NewInt(2))
	if v.Cmp(max) >= 0 {
		v.Sub(v, big.NewInt(2))
	}
	return v
}

func randBig(cfg Config, res *core.Result, r rec, line []byte) {
	res.Eval(fmt.Sprintf("b/%x", core.Hash64(string(line))))
	var script []string
	var want string
	if json.Unmarshal(r.Script, &script) != nil || json.Unmarshal(r.Val, &want) != nil {
		panic("bad IntBig behaviour " + string(line))
	}
	K := r.KBits
	m := bigModulus(K, r.Sh, cfg.Seed)
	if m.BitLen() != K {
		panic(fmt.Sprintf("modulus of shape %s has %d bits, want %d", r.Sh, m.BitLen(), K))
	}
	nb := (K + 7) / 8
	one := big.NewInt(1)
	cand := func(c string) (stream []byte, value *big.Int) {
		v := new(big.Int)
		switch c {
		case "zero":
		case "below", "hi":
			v.Sub(m, one)
		case "equal":
			v.Set(m)
		case "above":
			v.Add(m, one)
		case "max":
			v.Sub(new(big.Int).Lsh(one, uint(K)), one)
		}
		b := v.FillBytes(make([]byte, nb))
		if c == "hi" {
			b[0] |= byte(0xff << uint(K%8)) // garbage above bit K: the mask must remove it
		}
		return b, v
	}
	var stream []byte
	var vals []*big.Int
	for _, c := range script {
		b, v := cand(c)
		stream = append(stream, b...)
		vals = append(vals, v)
	}
	vals = append(vals, new(big.Int)) // zero tail
	// certify the classes with math/big before judging (a class that is not what it says is skipped)
	for i, c := range script {
		below := vals[i].Cmp(m) < 0
		if below != (c == "zero" || c == "below" || c == "hi") || vals[i].BitLen() > K {
			res.Skip("unwitnessed candidate class")
			return
		}
	}
	key := cfg.Prop + "/tiny/random.Int-big"
	det := map[string]any{"behaviour": json.RawMessage(line), "modulus": m.String()}
	st := &scripted{script: stream}
	var got *big.Int
	msg, stack, pan := core.Try(func() {
		got = new(big.Int).Set(random.Int(compatiblemod.FromBigInt(m), st).ToBigInt())
	})
	if pan {
		det["stack"] = stack
		res.Violate(key+"/panic", "random.Int panicked: "+msg, det)
		return
	}
	if got.Sign() < 0 || got.Cmp(m) >= 0 {
		det["got"] = got.String()
		res.Violate(key+"/out-of-range", "random.Int returned a value outside [0, m)", det)
		return
	}
	if got.Cmp(vals[r.Cands-1]) != 0 {
		det["got"], det["want"] = got.String(), vals[r.Cands-1].String()
		res.Violate(key+"/wrong-value", "value is not the first candidate below the modulus (after masking to BitLen(m))", det)
	}
	if st.used != r.Bytes {
		det["got_bytes"], det["want_bytes"] = st.used, r.Bytes
		res.Violate(key+"/bytes-consumed", "bytes consumed differ from whole candidates of ceil(BitLen/8) bytes", det)
	}
}

func bits(cfg Config, res *core.Result, r rec, line []byte) {
	res.Eval(fmt.Sprintf("t/%x", core.Hash64(string(line))))
	key := fmt.Sprintf("%s/tiny/random.Bits", cfg.Prop)
	cs := "n>0"
	if r.N == 0 {
		cs = "n=0"
	}
	if r.Exact {
		cs += ",exact"
	}
	key += ":" + cs
	for _, tail := range []byte{0x00, 0xff, 0x5a} {
		det := map[string]any{"behaviour": json.RawMessage(line), "tail": tail}
		st := &scripted{script: []byte{byte(r.Top)}, tail: tail}
		var out []byte
		msg, stack, pan := core.Try(func() { out = random.Bits(uint(r.N), r.Exact, st) })
		if pan {
			det["stack"] = stack
			res.Violate(key+"/panic", "random.Bits panicked: "+msg, det)
			return
		}
		det["got"] = fmt.Sprintf("%x", out)
		if len(out) != r.Len || st.used != r.Len {
			res.Violate(key+"/length", fmt.Sprintf("len(result)=%d, stream bytes consumed=%d, want %d", len(out), st.used, r.Len), det)
			return
		}
		if r.Len == 0 {
			continue
		}
		if int(out[0]) != r.Out {
			det["want_first"] = r.Out
			res.Violate(key+"/top-byte", "first byte differs from mask/forced-bit model", det)
			return
		}
		for _, b := range out[1:] {
			if b != tail {
				res.Violate(key+"/body", "bytes after the first are not the stream bytes", det)
				return
			}
		}
		bl := new(big.Int).SetBytes(out).BitLen()
		if bl > r.N || (r.Exact && bl != r.N) || (r.BitLen >= 0 && bl != r.BitLen) {
			det["bitlen"] = bl
			res.Violate(key+"/bit-length", "bit length of the result is outside the requested range", det)
			return
		}
	}
}
