// Package xof holds the refinement mapping for spec/XOF.tla (property C19):
// a replayer that steps real kyber.XOF handles through TLC behaviours and
// compares, after every step, the bytes they produce with the single-shot
// meaning of the abstract transcript TLC predicted, and a randomized recorder
// whose op logs are validated by spec/XOFTrace.tla.
package xof

import (
	"bytes"
	"encoding/json"
	"fmt"
	"runtime"
	"strings"
	"sync"

	"go.dedis.ch/kyber/v4"
	"go.dedis.ch/kyber/v4/xof/blake2xb"
	"go.dedis.ch/kyber/v4/xof/blake2xs"
	"go.dedis.ch/kyber/v4/xof/keccak"

	"verifharness/internal/core"
)

// Impl is one XOF factory under test.
type Impl struct {
	Name string
	New  func(seed []byte) kyber.XOF
}

func Impls() []Impl {
	return []Impl{{"blake2xb", blake2xb.New}, {"blake2xs", blake2xs.New}, {"keccak", keccak.New}}
}

// Item is one transcript item: ["w", step, n] (data written at that step) or ["r", pos].
type Item struct {
	K    string
	A, B int
}

func (it *Item) UnmarshalJSON(b []byte) error {
	var raw []json.RawMessage
	if err := json.Unmarshal(b, &raw); err != nil {
		return err
	}
	if len(raw) < 2 {
		return fmt.Errorf("bad item %s", b)
	}
	if err := json.Unmarshal(raw[0], &it.K); err != nil {
		return err
	}
	if err := json.Unmarshal(raw[1], &it.A); err != nil {
		return err
	}
	if len(raw) > 2 {
		return json.Unmarshal(raw[2], &it.B)
	}
	return nil
}

func (it Item) MarshalJSON() ([]byte, error) {
	if it.K == "w" {
		return json.Marshal([]any{it.K, it.A, it.B})
	}
	return json.Marshal([]any{it.K, it.A})
}

// Handle is the abstract handle state of spec/XOF.tla.
type Handle struct {
	St    string `json:"st"`
	Seed  []int  `json:"seed"`
	Items []Item `json:"items"`
	Pos   int    `json:"pos"`
	Mode  string `json:"mode"`
	Fac   bool   `json:"fac"`
	Rs    bool   `json:"rs"`
}

// Step is one record of a TLC behaviour.
type Step struct {
	Op   string `json:"op"`
	H    int    `json:"h"`
	N    int    `json:"n"`
	A    int    `json:"a"`
	Cs   string `json:"cs"`
	Post Handle `json:"post"`
}

// binding: abstract seed classes / chunk ids -> concrete bytes (pure function of the run seed)
type binding struct {
	seed int64
	idx  int
	mu   sync.Mutex
	sb   map[int][]byte
	cb   map[[2]int][]byte
}

func newBinding(seed int64, idx int) *binding {
	return &binding{seed: seed, idx: idx, sb: map[int][]byte{}, cb: map[[2]int][]byte{}}
}

func (b *binding) seedBytes(n int) []byte {
	b.mu.Lock()
	defer b.mu.Unlock()
	if v, ok := b.sb[n]; ok {
		return v
	}
	v := make([]byte, n)
	core.Rng(b.seed, "xof-seed", fmt.Sprint(b.idx), fmt.Sprint(n)).Read(v)
	b.sb[n] = v
	return v
}

func (b *binding) chunk(step, n int) []byte {
	b.mu.Lock()
	defer b.mu.Unlock()
	k := [2]int{step, n}
	if v, ok := b.cb[k]; ok {
		return v
	}
	v := make([]byte, n)
	core.Rng(b.seed, "xof-chunk", fmt.Sprint(b.idx), fmt.Sprint(step), fmt.Sprint(n)).Read(v)
	b.cb[k] = v
	return v
}

// refs computes Out(seed, items): the stream of the single-shot reference handle.
type refs struct {
	impl Impl
	b    *binding
	m    map[string][]byte
}

func trKey(seedLen int, items []Item) string {
	var sb strings.Builder
	fmt.Fprintf(&sb, "s%d", seedLen)
	for _, it := range items {
		if it.K == "w" {
			fmt.Fprintf(&sb, "|w%d:%d", it.A, it.B)
		} else {
			fmt.Fprintf(&sb, "|r%d", it.A)
		}
	}
	return sb.String()
}

func dup(b []byte) []byte {
	c := make([]byte, len(b))
	copy(c, b)
	return c
}

// stream returns at least `need` bytes of the stream defined by the transcript:
// fresh New(seed) (or, after a reseed mark <<"r",p>>, fresh New(bytes p..p+128 of the
// stream defined by what precedes the mark)), ONE Write of the merged data, ONE Read.
func (r *refs) stream(seedLen int, items []Item, need int) []byte {
	key := trKey(seedLen, items)
	if v, ok := r.m[key]; ok && len(v) >= need {
		return v
	}
	k := -1
	for i := len(items) - 1; i >= 0; i-- {
		if items[i].K == "r" {
			k = i
			break
		}
	}
	var x kyber.XOF
	if k < 0 {
		sd := dup(r.b.seedBytes(seedLen))
		if seedLen == 0 && r.b.idx%2 == 0 {
			sd = nil
		}
		x = r.impl.New(sd)
	} else {
		p := items[k].A
		prev := r.stream(seedLen, items[:k], p+128)
		x = r.impl.New(dup(prev[p : p+128]))
	}
	var data []byte
	for _, it := range items[k+1:] {
		data = append(data, r.b.chunk(it.A, it.B)...)
	}
	if len(data) > 0 {
		if _, err := x.Write(data); err != nil {
			panic("reference Write failed: " + err.Error())
		}
	}
	n := (need/2048 + 1) * 2048
	out := make([]byte, n)
	if m, err := x.Read(out); err != nil || m != n {
		panic(fmt.Sprintf("reference Read failed: n=%d err=%v", m, err))
	}
	if len(r.m) > 200000 {
		r.m = map[string][]byte{}
	}
	r.m[key] = out
	return out
}

func (r *refs) out(h *Handle, from, n int) []byte {
	sl := 0
	if len(h.Seed) > 0 {
		sl = h.Seed[0]
	}
	return r.stream(sl, h.Items, from+n)[from : from+n]
}

const probeLen = 16

// Config of a replay run.
type Config struct {
	Prop     string
	In       string
	Seed     int64
	Bindings int
	Impls    string
}

type env struct {
	impl Impl
	b    *binding
	ref  *refs
	res  *core.Result
	prop string
}

func (e *env) violate(st Step, kind, what string, bh []Step, i int, extra map[string]any) {
	key := fmt.Sprintf("%s/%s/%s:%s/%s", e.prop, e.impl.Name, st.Op, st.Cs, kind)
	d := map[string]any{"impl": e.impl.Name, "behaviour": bh, "step": i + 1, "binding": e.b.idx}
	for k, v := range extra {
		d[k] = v
	}
	e.res.Violate(key, what, d)
}

func hexs(b []byte) string {
	if len(b) > 24 {
		return fmt.Sprintf("%x..(%d bytes)", b[:24], len(b))
	}
	return fmt.Sprintf("%x", b)
}

// replay steps real handles through one behaviour; returns the number of steps judged.
func (e *env) replay(bh []Step) int {
	var real [3]kyber.XOF
	var abs [3]Handle
	judged := 0
	for i, st := range bh {
		h := st.H
		var bad bool
		if st.Cs == "unspec" {
			// a call on an object the property no longer describes (a clone after its Reset): executed for its
			// effect on the OTHER handle only; its own outcome (bytes, errors, panics) is never judged
			core.Try(func() {
				buf := make([]byte, st.N)
				switch st.Op {
				case "Read":
					_, _ = real[h].Read(buf)
				case "Xor":
					real[h].XORKeyStream(buf, buf)
				case "Write":
					_, _ = real[h].Write(dup(e.b.chunk(i+1, st.N)))
				case "Reseed":
					real[h].Reseed()
				case "Reset":
					real[h].Reset()
				}
			})
		}
		msg, stack, pan := core.Try(func() {
			if st.Cs == "unspec" {
				return
			}
			switch st.Op {
			case "New":
				sd := dup(e.b.seedBytes(st.N))
				if st.N == 0 && e.b.idx%2 == 0 {
					sd = nil
				}
				real[h] = e.impl.New(sd)
				for j := range sd {
					sd[j] = 0xAA // the factory must not keep the caller's slice
				}
			case "Write":
				d := dup(e.b.chunk(i+1, st.N))
				n, err := real[h].Write(d)
				for j := range d {
					d[j] = 0x55
				}
				if err != nil || n != st.N {
					e.violate(st, "write-error", fmt.Sprintf("Write(%d bytes) returned n=%d err=%v", st.N, n, err), bh, i, nil)
					bad = true
				}
			case "Read":
				buf := make([]byte, st.N)
				n, err := real[h].Read(buf)
				want := e.ref.out(&st.Post, st.Post.Pos-st.N, st.N)
				if err != nil || n != st.N {
					e.violate(st, "short-read", fmt.Sprintf("Read(%d) returned n=%d err=%v", st.N, n, err), bh, i, nil)
					bad = true
				} else if !bytes.Equal(buf, want) {
					e.violate(st, "output-mismatch", "bytes returned by Read differ from the single-shot reference for the same transcript and position",
						bh, i, map[string]any{"got": hexs(buf), "want": hexs(want), "from": st.Post.Pos - st.N})
					bad = true
				}
			case "Xor":
				src := make([]byte, st.N)
				core.Rng(e.b.seed, "xof-src", fmt.Sprint(i), fmt.Sprint(st.N)).Read(src)
				keep := dup(src)
				dst := src // in place on odd steps
				if i%2 == 0 {
					dst = make([]byte, st.N+3) // longer dst is allowed (len(dst) >= len(src))
				}
				real[h].XORKeyStream(dst, src)
				want := e.ref.out(&st.Post, st.Post.Pos-st.N, st.N)
				for j := range want {
					if dst[j] != keep[j]^want[j] {
						e.violate(st, "xor-mismatch", "XORKeyStream output is not src XOR the bytes Read would return",
							bh, i, map[string]any{"at": j, "from": st.Post.Pos - st.N, "inplace": i%2 == 1})
						bad = true
						break
					}
				}
			case "Reseed":
				real[h].Reseed()
			case "Reset":
				if abs[h].Fac {
					real[h].Reset()
				} else {
					core.Try(func() { real[h].Reset() }) // unspecified: anything goes
				}
			case "Clone":
				real[h] = real[st.A].Clone()
			default:
				panic("unknown op " + st.Op)
			}
		})
		if pan {
			if strings.HasPrefix(msg, "reference ") || strings.HasPrefix(msg, "unknown op") {
				panic(msg)
			}
			e.violate(st, "panic", "operation panicked: "+msg, bh, i, map[string]any{"stack": stack})
			return judged
		}
		if bad {
			return judged
		}
		abs[h] = st.Post
		judged++
		// projection of the real state: what a clone of each handle would squeeze next
		for s := 1; s <= 2; s++ {
			if abs[s].St != "ok" {
				continue
			}
			var got []byte
			msg, stack, pan := core.Try(func() {
				c := real[s].Clone()
				got = make([]byte, probeLen)
				if n, err := c.Read(got); err != nil || n != probeLen {
					panic(fmt.Sprintf("probe read n=%d err=%v", n, err))
				}
			})
			if pan {
				e.violate(st, "probe-panic", "Clone+Read of a live handle panicked: "+msg, bh, i, map[string]any{"stack": stack, "handle": s})
				return judged
			}
			want := e.ref.out(&abs[s], abs[s].Pos, probeLen)
			if !bytes.Equal(got, want) {
				kind, what := "state-mismatch", "after the step the handle does not continue like the single-shot reference for the predicted (transcript, position)"
				if s != h {
					kind, what = "other-handle-changed", "a handle that was not the target of the step changed its future output"
				}
				e.violate(st, kind, what, bh, i, map[string]any{"handle": s, "got": hexs(got), "want": hexs(want), "abstract": abs[s]})
				return judged
			}
		}
	}
	return judged
}

// Run replays every behaviour of cfg.In on every implementation x binding.
func Run(cfg Config, res *core.Result) error {
	var lines [][]byte
	if err := core.ReadLines(cfg.In, func(l []byte) error { lines = append(lines, l); return nil }); err != nil {
		return err
	}
	if len(lines) == 0 {
		return fmt.Errorf("no behaviours in %s", cfg.In)
	}
	res.AddTraces(len(lines))
	impls := Impls()
	if cfg.Impls != "" {
		var f []Impl
		for _, im := range impls {
			if strings.Contains(","+cfg.Impls+",", ","+im.Name+",") {
				f = append(f, im)
			}
		}
		impls = f
	}
	if cfg.Bindings < 1 {
		cfg.Bindings = 1
	}
	workers := runtime.NumCPU()
	type shard struct{ lo, hi int }
	var shards []shard
	per := (len(lines) + workers*4 - 1) / (workers * 4)
	for lo := 0; lo < len(lines); lo += per {
		hi := lo + per
		if hi > len(lines) {
			hi = len(lines)
		}
		shards = append(shards, shard{lo, hi})
	}
	binds := make([]*binding, cfg.Bindings)
	for i := range binds {
		binds[i] = newBinding(cfg.Seed, i)
	}
	var perr error
	var pmu sync.Mutex
	steps := make([]int, len(shards))
	opCount := make([]map[string]int, len(shards))
	core.Parallel(len(shards), workers, func(si int) {
		sh := shards[si]
		opCount[si] = map[string]int{}
		envs := []*env{}
		for _, im := range impls {
			for _, b := range binds {
				envs = append(envs, &env{impl: im, b: b, ref: &refs{impl: im, b: b, m: map[string][]byte{}}, res: res, prop: cfg.Prop})
			}
		}
		for j := sh.lo; j < sh.hi; j++ {
			var bh []Step
			if err := json.Unmarshal(lines[j], &bh); err != nil {
				pmu.Lock()
				perr = fmt.Errorf("bad behaviour line %d: %w", j, err)
				pmu.Unlock()
				return
			}
			for _, st := range bh {
				opCount[si][st.Op]++
				if st.Cs == "unspec" {
					opCount[si]["unspec"]++
				}
			}
			for _, e := range envs {
				n := e.replay(bh)
				steps[si] += n
				res.Eval(fmt.Sprintf("%s/%d/%x", e.impl.Name, e.b.idx, core.Hash64(string(lines[j]))))
			}
			if j%4099 == 7 {
				res.Sample(map[string]any{"impls": len(impls), "bindings": cfg.Bindings, "behaviour": json.RawMessage(lines[j])})
			}
		}
	})
	if perr != nil {
		return perr
	}
	tot := 0
	for _, s := range steps {
		tot += s
	}
	ops := map[string]int{}
	for _, m := range opCount {
		for k, v := range m {
			ops[k] += v
		}
	}
	res.SetExtra("unspec_steps", ops["unspec"])
	delete(ops, "unspec")
	res.SetExtra("ops", ops)
	res.AddExtra("steps_judged", tot)
	res.SetExtra("impls", len(impls))
	if len(res.Samples) == 0 {
		res.Sample(map[string]any{"impls": len(impls), "bindings": cfg.Bindings, "behaviour": json.RawMessage(lines[0])})
	}
	res.Rule = "case = (XOF implementation, binding of seed/chunk bytes, TLC behaviour); every step: Read/XORKeyStream bytes == single-shot reference of the predicted transcript, and Clone+Read probe of BOTH handles == reference at the predicted position"
	return nil
}
