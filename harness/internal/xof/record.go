package xof

import (
	"bufio"
	"encoding/json"
	"fmt"
	"math/rand"
	"os"

	"go.dedis.ch/kyber/v4"

	"verifharness/internal/core"
)

// Randomized recorder (code -> spec): drives real handles and logs every call
// with its arguments, returned bytes and a projection of the real state (what a
// Clone of the handle squeezes next).  The log says nothing about what the
// recorder *expects*; spec/XOFTrace.tla decides whether it is a behaviour.
//
// To make different handles / chunkings / traces meet in the same abstract
// (transcript, position) -- which is where the trace spec can compare bytes --
// all written data are consecutive slices of one tape and seeds come from a
// small pool.

type tev struct {
	Obj   string         `json:"obj"`
	Seq   int            `json:"seq"`
	Ev    string         `json:"ev"`
	Args  map[string]any `json:"args"`
	Ret   map[string]any `json:"ret"`
	State map[string]any `json:"state"`
}

func ints(b []byte) []int {
	out := make([]int, len(b))
	for i, v := range b {
		out[i] = int(v)
	}
	return out
}

var recChunks = []int{0, 1, 1, 2, 3, 5, 8, 16, 31, 32, 33, 63, 64, 65, 70, 127, 128, 129, 200}
var recSeedLens = []int{0, 1, 31, 32, 33, 63, 64, 65, 128, 300}

type slot struct {
	x       kyber.XOF
	written int  // offset on the tape
	sq      bool // steering: has squeezed since last New/Reseed/Reset
	clone   bool
	dead    bool // Reset of a clone happened
}

// pop is one operation of a logical program (no expectations, only what to call).
type pop struct {
	op   string
	h, a int
	n    int
	seed int // index into the trace's seed pool
}

// genProgram draws a random program; the steering flags only shape the distribution.
func genProgram(rng *rand.Rand, maxSteps int) []pop {
	var sl [3]*slot
	var prog []pop
	steps := 6 + rng.Intn(maxSteps-5)
	for s := 0; s < steps; s++ {
		h := 1 + rng.Intn(2)
		if s == 0 {
			h = 1
		}
		if sl[h] == nil {
			o := 3 - h
			if sl[o] != nil && !sl[o].dead && rng.Intn(2) == 0 {
				c := *sl[o]
				c.clone = true
				sl[h] = &c
				prog = append(prog, pop{op: "Clone", h: h, a: o})
			} else {
				sl[h] = &slot{}
				prog = append(prog, pop{op: "New", h: h, seed: rng.Intn(2)})
			}
			continue
		}
		c := sl[h]
		n := recChunks[rng.Intn(len(recChunks))]
		switch op := pick(rng, c); op {
		case "Write":
			prog = append(prog, pop{op: op, h: h, n: n})
		case "Read", "Xor":
			c.sq = true
			prog = append(prog, pop{op: op, h: h, n: n})
		case "Reseed":
			c.sq = false
			prog = append(prog, pop{op: op, h: h})
		case "Reset":
			c.sq = false
			if c.clone {
				c.dead = true
			}
			prog = append(prog, pop{op: op, h: h})
		case "Clone":
			cc := *c
			cc.clone = true
			sl[3-h] = &cc
			prog = append(prog, pop{op: op, h: 3 - h, a: h})
		case "New":
			sl[h] = &slot{}
			prog = append(prog, pop{op: op, h: h, seed: rng.Intn(2)})
		}
	}
	return prog
}

// rechunk returns the same logical program with every Write / squeeze of >= 2 bytes
// split in two calls (second squeeze through the other method).
func rechunk(rng *rand.Rand, prog []pop) []pop {
	var out []pop
	for _, p := range prog {
		if (p.op == "Write" || p.op == "Read" || p.op == "Xor") && p.n >= 2 {
			k := 1 + rng.Intn(p.n-1)
			q := p
			p.n, q.n = k, p.n-k
			if q.op == "Read" {
				q.op = "Xor"
			} else if q.op == "Xor" {
				q.op = "Read"
			}
			out = append(out, p, q)
			continue
		}
		out = append(out, p)
	}
	return out
}

// Record writes `num` traces to path: trace 2k runs a random program, trace 2k+1 the
// same program re-chunked, so that every abstract (transcript, position) is observed
// along two different routes.
func Record(path string, seed int64, num, maxSteps int, res *core.Result) error {
	f, err := os.Create(path)
	if err != nil {
		return err
	}
	defer f.Close()
	w := bufio.NewWriter(f)
	defer w.Flush()
	enc := json.NewEncoder(w)
	impls := Impls()
	tape := make([]byte, 1<<15)
	core.Rng(seed, "tape").Read(tape)
	events := 0
	var prog []pop
	var pool [][]byte
	for t := 0; t < num; t++ {
		im := impls[(t/2)%len(impls)]
		rng := core.Rng(seed, "rec", fmt.Sprint(t))
		obj := fmt.Sprintf("%s#%d", im.Name, t)
		seq := 0
		if t%2 == 0 {
			pool = nil
			for k := 0; k < 2; k++ {
				n := recSeedLens[rng.Intn(len(recSeedLens))]
				sd := make([]byte, n)
				core.Rng(seed, "recseed", fmt.Sprint(n)).Read(sd)
				pool = append(pool, sd)
			}
			prog = genProgram(rng, maxSteps)
		} else {
			prog = rechunk(rng, prog)
		}
		if err := enc.Encode(tev{Obj: obj, Seq: 0, Ev: "reset", Args: map[string]any{"impl": im.Name}, Ret: map[string]any{"st": "ok"}, State: map[string]any{}}); err != nil {
			return err
		}
		events++
		var sl [3]*slot
		emit := func(ev string, h int, args map[string]any, ret map[string]any) error {
			seq++
			args["h"] = h
			probe := []int{}
			if sl[h] != nil {
				core.Try(func() {
					c := sl[h].x.Clone()
					b := make([]byte, 8)
					if n, err := c.Read(b); err == nil && n == 8 {
						probe = ints(b)
					}
				})
			}
			events++
			return enc.Encode(tev{Obj: obj, Seq: seq, Ev: ev, Args: args, Ret: ret, State: map[string]any{"probe": probe}})
		}
		for _, p := range prog {
			h, n := p.h, p.n
			ret := map[string]any{"st": "ok", "out": []int{}}
			args := map[string]any{}
			c := sl[h]
			var msg string
			var pan bool
			switch p.op {
			case "New":
				sd := pool[p.seed]
				sl[h] = &slot{x: im.New(dup(sd))}
				args["seed"] = ints(sd)
			case "Clone":
				cc := *sl[p.a]
				cc.x = sl[p.a].x.Clone()
				sl[h] = &cc
				args["a"] = p.a
			case "Write":
				d := dup(tape[c.written : c.written+n])
				args["data"] = ints(d)
				msg, _, pan = core.Try(func() {
					if m, e := c.x.Write(d); e != nil || m != n {
						ret["st"] = fmt.Sprintf("error n=%d err=%v", m, e)
					}
				})
				if !pan {
					c.written += n
				}
			case "Read":
				b := make([]byte, n)
				args["n"] = n
				msg, _, pan = core.Try(func() {
					m, e := c.x.Read(b)
					if e != nil {
						ret["st"] = "error " + e.Error()
					}
					ret["out"] = ints(b[:m])
				})
			case "Xor":
				src := make([]byte, n)
				rng.Read(src)
				dst := make([]byte, n)
				args["n"] = n
				msg, _, pan = core.Try(func() {
					c.x.XORKeyStream(dst, src)
					for i := range dst {
						dst[i] ^= src[i]
					}
					ret["out"] = ints(dst)
				})
			case "Reseed":
				msg, _, pan = core.Try(func() { c.x.Reseed() })
			case "Reset":
				msg, _, pan = core.Try(func() { c.x.Reset() })
				c.written = 0
			}
			if pan {
				ret["st"] = "panic"
				ret["msg"] = msg
			}
			if err := emit(p.op, h, args, ret); err != nil {
				return err
			}
		}
		res.Eval(obj)
	}
	res.AddExtra("trace_events", events)
	res.SetExtra("traces_recorded", num)
	return nil
}

// pick chooses the next operation; the handle's steering flags only shape the
// distribution (mostly legal writes, a few writes in squeeze mode).
func pick(rng *rand.Rand, c *slot) string {
	if c.dead {
		return []string{"New", "New", "Read", "Write"}[rng.Intn(4)]
	}
	r := rng.Intn(100)
	switch {
	case r < 22:
		if c.sq && rng.Intn(12) != 0 {
			return "Read"
		}
		return "Write"
	case r < 47:
		return "Read"
	case r < 62:
		return "Xor"
	case r < 74:
		return "Reseed"
	case r < 84:
		return "Clone"
	case r < 94:
		if c.clone && rng.Intn(4) != 0 {
			return "Read"
		}
		return "Reset"
	default:
		return "New"
	}
}
