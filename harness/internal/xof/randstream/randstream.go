// Package randstream is the refinement mapping for spec/RandStream.tla: the
// stream random.New(readers...) is driven with recording, scripted readers;
// TLC predicts what every reader is asked to deliver per call and whether the
// call must work; the key streams are compared relationally (same consumed
// bytes <=> same key stream) across all calls of all behaviours.
package randstream

import (
	"bytes"
	"crypto/cipher"
	"encoding/json"
	"errors"
	"fmt"
	"io"

	"go.dedis.ch/kyber/v4/util/random"

	"verifharness/internal/core"
)

type Config struct {
	Prop string
	In   string
	Seed int64
}

type seg struct {
	Cls string `json:"cls"`
	Off int    `json:"off"`
	Len int    `json:"len"`
}
type rdr struct {
	Cls   string `json:"cls"`
	Avail int    `json:"avail"`
}
type rec struct {
	Op      string `json:"op"`
	Readers []rdr  `json:"readers"`
	N       int    `json:"n"`
	Segs    []seg  `json:"segs"`
	Outcome string `json:"outcome"`
	Impl    string `json:"impl"`
}

// reader serves bytes of a class stream, in pieces of at most `piece` bytes, and records what it delivered.
type reader struct {
	src       []byte
	avail     int
	off       int
	piece     int
	eofWith   bool // deliver the last bytes together with io.EOF
	hardErr   bool // fail with a non-EOF error when dry
	delivered int  // since the last mark
}

var errDry = errors.New("entropy source failed")

func (r *reader) Read(p []byte) (int, error) {
	if r.avail == 0 {
		if r.hardErr {
			return 0, errDry
		}
		return 0, io.EOF
	}
	n := len(p)
	if n > r.piece {
		n = r.piece
	}
	if n > r.avail {
		n = r.avail
	}
	copy(p, r.src[r.off:r.off+n])
	r.off += n
	r.avail -= n
	r.delivered += n
	if r.avail == 0 && r.eofWith {
		return n, io.EOF
	}
	return n, nil
}

type obs struct {
	input string
	ks    []byte
	where string
}

func Run(cfg Config, res *core.Result) error {
	classes := map[string][]byte{}
	for _, c := range []string{"A", "B"} {
		b := make([]byte, 256)
		core.Rng(cfg.Seed, "randstream-class", c).Read(b)
		classes[c] = b
	}
	byInput := map[string]obs{}
	byKS := map[string]obs{}
	n := 0
	drift := 0
	err := core.ReadLines(cfg.In, func(line []byte) error {
		var bh []rec
		if err := json.Unmarshal(line, &bh); err != nil {
			return err
		}
		n++
		res.Eval(fmt.Sprintf("%x", core.Hash64(string(line))))
		if n%997 == 3 {
			res.Sample(map[string]any{"behaviour": json.RawMessage(line)})
		}
		det := func(step int, extra map[string]any) map[string]any {
			d := map[string]any{"behaviour": json.RawMessage(line), "step": step + 1}
			for k, v := range extra {
				d[k] = v
			}
			return d
		}
		// two passes over the same behaviour: determinism, and XOR with a non-zero source
		var first [][]byte
		for pass := 0; pass < 2; pass++ {
			variant := (n + pass) % 3
			var rs []*reader
			var ios []io.Reader
			for i, r := range bh[0].Readers {
				piece := []int{64, 7, 1}[(variant+i)%3]
				rd := &reader{src: classes[r.Cls], avail: r.Avail, piece: piece, eofWith: (variant+i)%2 == 0, hardErr: (n+i)%2 == 0}
				rs = append(rs, rd)
				ios = append(ios, rd)
			}
			var stream cipher.Stream
			if msg, _, pan := core.Try(func() { stream = random.New(ios...) }); pan {
				res.Violate(cfg.Prop+"/randstream/New/panic", "random.New panicked: "+msg, det(0, nil))
				return nil
			}
			for i, c := range bh[1:] {
				for _, r := range rs {
					r.delivered = 0
				}
				src := make([]byte, c.N)
				if pass == 1 {
					core.Rng(cfg.Seed, "randstream-src", fmt.Sprint(i)).Read(src)
				}
				dst := make([]byte, c.N)
				msg, stack, pan := core.Try(func() { stream.XORKeyStream(dst, src) })
				// what the readers were made to deliver is what TLC predicted
				for j, r := range rs {
					if r.delivered != c.Segs[j].Len {
						res.Violate(cfg.Prop+"/randstream/XORKeyStream/bytes-consumed",
							"a reader delivered a different number of bytes than the model (32 per call per reader, less only when dry)",
							det(i+1, map[string]any{"reader": j, "got": r.delivered, "want": c.Segs[j].Len}))
						return nil
					}
				}
				if pan {
					if c.Outcome == "ok" {
						res.Violate(cfg.Prop+"/randstream/XORKeyStream/failed-with-working-reader",
							"the stream panicked although at least one reader delivered its 32 bytes: "+msg, det(i+1, map[string]any{"stack": stack}))
						return nil
					}
					continue // all readers failed: the property leaves the outcome open
				}
				if c.Impl == "panic" {
					drift++ // produced output from no working reader: allowed by the property, differs from the implementation layer
				}
				for k := range dst {
					dst[k] ^= src[k]
				}
				if pass == 0 {
					first = append(first, dst)
				} else {
					var f []byte
					if i < len(first) {
						f = first[i]
					}
					if !bytes.Equal(f, dst) {
						res.Violate(cfg.Prop+"/randstream/XORKeyStream/not-deterministic",
							"same readers, same bytes consumed, different key stream (or dst is not src XOR key stream)", det(i+1, nil))
						return nil
					}
					continue
				}
				if c.Outcome != "ok" {
					continue
				}
				// input of the call = concatenation of the predicted segments
				var in []byte
				for _, s := range c.Segs {
					in = append(in, classes[s.Cls][s.Off:s.Off+s.Len]...)
				}
				o := obs{input: string(in), ks: dst, where: string(line)}
				if p, ok := byInput[o.input]; ok {
					m := len(p.ks)
					if len(dst) < m {
						m = len(dst)
					}
					if !bytes.Equal(p.ks[:m], dst[:m]) {
						res.Violate(cfg.Prop+"/randstream/XORKeyStream/not-a-function-of-consumed-bytes",
							"two calls consumed the same bytes but produced different key streams", det(i+1, map[string]any{"other": json.RawMessage(p.where)}))
						return nil
					}
					if len(dst) > len(p.ks) {
						byInput[o.input] = o
					}
				} else {
					byInput[o.input] = o
				}
				if len(dst) >= 16 {
					k := string(dst[:16])
					if p, ok := byKS[k]; ok && p.input != o.input {
						res.Violate(cfg.Prop+"/randstream/XORKeyStream/ignores-a-reader",
							"two calls that consumed different bytes produced the same key stream: the output does not depend on every reader",
							det(i+1, map[string]any{"other": json.RawMessage(p.where)}))
						return nil
					}
					byKS[k] = o
				}
			}
		}
		return nil
	})
	if err != nil {
		return err
	}
	if n == 0 {
		return fmt.Errorf("no behaviours in %s", cfg.In)
	}
	res.AddTraces(n)
	res.SetExtra("distinct_inputs", len(byInput))
	res.SetExtra("drift_output_without_working_reader", drift)
	res.Rule = "RandStream: case = reader set (1..4 readers, supply classes, byte-stream classes) x call lengths; per call: bytes each reader delivered == model, no failure while a reader works, key stream a function of exactly the consumed bytes (equal inputs <=> equal outputs over all calls), dst = src XOR key stream"
	return nil
}
