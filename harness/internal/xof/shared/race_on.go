//go:build race

package shared

const raceEnabled = true
